package main

import (
	"fmt"
	"os"
	"os/exec"
	"path/filepath"
	"sort"
	"strings"
	"time"

	"github.com/MichaelMure/git-bug/cache"
	"github.com/MichaelMure/git-bug/entities/bug"
	"github.com/MichaelMure/git-bug/entities/identity"
	"github.com/MichaelMure/git-bug/entity"
	"github.com/MichaelMure/git-bug/query"
	"github.com/MichaelMure/git-bug/repository"
)

func init() { props["C11"] = runC11 }

type c11User struct {
	name   string
	dir    string
	repo   repository.TestedRepo
	rc     *cache.RepoCache
	idenN  int
	other  entity.Id // a second author of this user's repository
	staged map[entity.Id]bool // bugs holding operations that are not committed yet
	acts   []map[string]any   // the session as the model sees it
	obs    []map[string]any   // after each action: ids in the excerpt map / in the index
}

// opKinds: "c" for an operation that makes a comment (create, add-comment), "o" for any other
func opKinds[T any](ops []T) []string {
	out := []string{}
	for _, op := range ops {
		switch any(op).(type) {
		case *bug.CreateOperation, *bug.AddCommentOperation:
			out = append(out, "c")
		default:
			out = append(out, "o")
		}
	}
	return out
}

// observe records which bug ids the live cache lists and which the index finds, and for every
// listed bug the number of comments its excerpt shows and the number of operations it resolves to.
func (u *c11User) observe() {
	ids := idStrs(u.rc.Bugs().AllIds())
	sort.Strings(ids)
	q, _ := query.Parse("zz9")
	res, err := u.rc.Bugs().Query(q)
	idx := []string{}
	if err == nil {
		idx = idStrs(res)
	}
	sort.Strings(idx)
	bugs := map[string]any{}
	for _, id := range ids {
		ex, err1 := u.rc.Bugs().ResolveExcerpt(entity.Id(id))
		bc, err2 := u.rc.Bugs().Resolve(entity.Id(id))
		if err1 == nil && err2 == nil {
			bugs[id] = []int{ex.LenComments, len(bc.Snapshot().Operations)}
		}
	}
	u.obs = append(u.obs, map[string]any{"excerpts": ids, "index": idx, "bugs": bugs})
}

func (u *c11User) act(a, id string) {
	m := map[string]any{"a": a, "id": id, "v": fmt.Sprintf("v%d", len(u.acts))}
	if id != "" && a != "remove" {
		if bc, err := u.rc.Bugs().Resolve(entity.Id(id)); err == nil {
			m["ops"] = opKinds(bc.Snapshot().Operations)
		}
	}
	u.acts = append(u.acts, m)
	u.observe()
}

// pull = Fetch + MergeAll with the per-entity results turned into model actions
func (u *c11User) pull() error {
	if _, err := u.rc.Fetch("origin"); err != nil {
		return err
	}
	var firstErr error
	merged := []string{}
	mergedOps := map[string]any{}
	for res := range u.rc.MergeAll("origin") {
		if res.Err != nil && firstErr == nil {
			firstErr = res.Err
		}
		var asBug *bug.Bug
		if res.Entity != nil {
			asBug, _ = res.Entity.(*bug.Bug)
		}
		if asBug != nil && (res.Status == entity.MergeStatusNew || res.Status == entity.MergeStatusUpdated) {
			merged = append(merged, string(res.Id))
			mergedOps[string(res.Id)] = opKinds(asBug.Operations())
		}
	}
	u.acts = append(u.acts, map[string]any{"a": "pull", "ids": merged, "opsOf": mergedOps, "v": fmt.Sprintf("v%d", len(u.acts))})
	u.observe()
	return firstErr
}

func (u *c11User) open() {
	r, err := repository.OpenGoGitRepo(u.dir, gbNamespace, nil)
	if err != nil {
		panic(err)
	}
	u.repo = wrapKeyring(r)
	u.rc = mustCache(u.repo)
}

// served: everything the cache answers, canonicalised.
func served(rc *cache.RepoCache, tokens []string) map[string]any {
	out := map[string]any{}
	ids := rc.Bugs().AllIds()
	sort.Slice(ids, func(i, j int) bool { return ids[i] < ids[j] })
	var ex []any
	for _, id := range ids {
		e, err := rc.Bugs().ResolveExcerpt(id)
		if err != nil {
			ex = append(ex, map[string]any{"id": string(id), "err": err.Error()})
			continue
		}
		m := map[string]any{"id": string(id), "status": int(e.Status), "labels": labelsStr(e.Labels), "title": e.Title, "author": string(e.AuthorId),
			"actors": idStrs(e.Actors), "participants": idStrs(e.Participants), "lenComments": e.LenComments,
			"createLamport": uint64(e.CreateLamportTime), "editLamport": uint64(e.EditLamportTime), "createUnix": e.CreateUnixTime, "editUnix": e.EditUnixTime,
			"createMetadata": sortedPairs(e.CreateMetadata)}
		if b, err := rc.Bugs().Resolve(id); err != nil {
			m["resolve-err"] = err.Error()
		} else {
			m["snapshot"] = snapJSON(b.Snapshot())
		}
		ex = append(ex, m)
	}
	out["bugs"] = ex
	iids := rc.Identities().AllIds()
	sort.Slice(iids, func(i, j int) bool { return iids[i] < iids[j] })
	var iex []any
	for _, id := range iids {
		e, err := rc.Identities().ResolveExcerpt(id)
		if err != nil {
			iex = append(iex, map[string]any{"id": string(id), "err": err.Error()})
			continue
		}
		m := map[string]any{"id": string(id), "name": e.Name, "login": e.Login}
		if ic, err := rc.Identities().Resolve(id); err != nil {
			m["resolve-err"] = err.Error()
		} else {
			m["resolved"] = map[string]any{"name": ic.Name(), "email": ic.Email(), "login": ic.Login(), "keys": len(ic.Keys()), "needCommit": ic.NeedCommit()}
		}
		iex = append(iex, m)
	}
	out["identities"] = iex
	out["labels"] = labelsStr(rc.Bugs().ValidLabels())
	qs := []string{"status:open", "status:closed", "label:bug", "no:label", "title:tok", "sort:edit-asc", "sort:id", "author:user", "actor:\"user B\"", "participant:user"}
	qs = append(qs, tokens...)
	qres := map[string]any{}
	for _, s := range qs {
		q, err := query.Parse(s)
		if err != nil {
			panic(err)
		}
		res, err := rc.Bugs().Query(q)
		if err != nil {
			qres[s] = "err: " + err.Error()
			continue
		}
		// compared as sets: bugs created on different replicas tie on the sort key (equal Lamport
		// time and second) and the order among ties is a map iteration order (ordering is C12's subject)
		l := idStrs(res)
		sort.Strings(l)
		qres[s] = l
	}
	out["queries"] = qres
	return out
}

// rebuilt: a cache built from scratch on a copy of the git data (no cache files, no index).
func rebuilt(u *c11User, tokens []string) (map[string]any, error) {
	dst := scratch("rebuild")
	defer os.RemoveAll(dst)
	if out, err := exec.Command("cp", "-a", u.dir+"/.", dst).CombinedOutput(); err != nil {
		return nil, fmt.Errorf("cp: %v %s", err, out)
	}
	os.RemoveAll(filepath.Join(dst, ".git", gbNamespace, "cache"))
	os.RemoveAll(filepath.Join(dst, ".git", gbNamespace, "indexes"))
	os.Remove(filepath.Join(dst, ".git", gbNamespace, "lock"))
	r, err := repository.OpenGoGitRepo(dst, gbNamespace, nil)
	if err != nil {
		return nil, err
	}
	defer r.Close()
	rc, err := cache.NewRepoCacheNoEvents(wrapKeyring(r))
	if err != nil {
		return nil, err
	}
	defer rc.Close()
	return served(rc, tokens), nil
}

func diffServed(a, b map[string]any) string {
	for _, k := range []string{"bugs", "identities", "labels", "queries"} {
		ja, jb := mustJSON(a[k]), mustJSON(b[k])
		if ja != jb {
			if k == "queries" {
				qa, qb := a[k].(map[string]any), b[k].(map[string]any)
				for q := range qa {
					if mustJSON(qa[q]) != mustJSON(qb[q]) {
						return fmt.Sprintf("query %q: live %s vs rebuilt %s", q, trunc(mustJSON(qa[q]), 200), trunc(mustJSON(qb[q]), 200))
					}
				}
			}
			if k == "bugs" {
				la, lb := a[k].([]any), b[k].([]any)
				if len(la) != len(lb) {
					return fmt.Sprintf("bugs: live lists %d, rebuilt %d", len(la), len(lb))
				}
				for i := range la {
					if mustJSON(la[i]) != mustJSON(lb[i]) {
						ma, mb := la[i].(map[string]any), lb[i].(map[string]any)
						for f := range ma {
							if mustJSON(ma[f]) != mustJSON(mb[f]) {
								return fmt.Sprintf("bug %v field %s: live %s vs rebuilt %s", ma["id"], f, trunc(mustJSON(ma[f]), 300), trunc(mustJSON(mb[f]), 300))
							}
						}
					}
				}
			}
			return fmt.Sprintf("%s: live %s vs rebuilt %s", k, trunc(ja, 300), trunc(jb, 300))
		}
	}
	return ""
}

func runC11(c *runCtx) {
	defer cleanupScratch()
	c11Lru(c)
	N := c.pick(30, 300)
	for si := 0; si < N; si++ {
		r := c.rng.fork()
		remote, _ := newGoGit("c11remote", true)
		var users []*c11User
		for _, n := range []string{"A", "B"} {
			repo, dir := newGoGit("c11"+n, false)
			repo.AddRemote("origin", remote.GetLocalRemote())
			u := &c11User{name: n, dir: dir, repo: repo}
			u.rc = mustCache(repo)
			iden, err := u.rc.Identities().New("user "+n, n+"@example.com")
			if err != nil {
				panic(err)
			}
			if err := u.rc.SetUserIdentity(iden); err != nil {
				panic(err)
			}
			users = append(users, u)
		}
		var log []string
		var tokens []string
		steps := r.rangeInt(8, c.pick(22, 45))
		tokN := 0
		// something to exchange from the start
		if b, _, err := users[0].rc.Bugs().New("bug zz9 tok0q shared", "body"); err == nil {
			tokens = append(tokens, "tok0q")
			users[0].act("new", string(b.Id()))
			users[0].rc.Push("origin")
			users[1].pull()
			log = append(log, "A:new(shared)", "A:push", "B:pull")
			// and in every session: A's identity, known to B, grows by two versions before B pulls again
			if me, err := users[0].rc.GetUserIdentity(); err == nil {
				for k := 0; k < 2; k++ {
					tag := randHexId(r, 3)
					if err := me.Mutate(users[0].repo, func(m *identity.Mutator) { m.Name = fmt.Sprintf("user A w%d%s", k, tag) }); err != nil {
						panic(err)
					}
					if err := me.Commit(); err != nil {
						panic(fmt.Sprintf("session %d k=%d tag=%s name=%q need=%v: %v", si, k, tag, me.Name(), me.NeedCommit(), err))
					}
				}
				users[0].rc.Push("origin")
				users[1].pull()
				log = append(log, "A:identity(2)", "A:push", "B:pull")
				live := served(users[1].rc, tokens)
				if re, err := rebuilt(users[1], tokens); err == nil {
					if d := diffServed(live, re); d != "" {
						c.violation(-1, "C11/incoherent", fmt.Sprintf("after %v the live cache of B differs from a rebuilt one: %s", log, d), nil)
					}
				}
			}
		}
		// and in one session in two: A's cache is built over the existing bugs (no cache files), an edit of a
		// bug that the build loaded stays uncommitted, then close and reopen
		if si%2 == 0 {
			u := users[0]
			u.rc.Close()
			u.repo.Close()
			os.RemoveAll(filepath.Join(u.dir, ".git", gbNamespace, "cache"))
			u.open()
			u.act("reopen-built", "")
			if ids := u.rc.Bugs().AllIds(); len(ids) > 0 {
				sort.Slice(ids, func(i, j int) bool { return ids[i] < ids[j] })
				if b, err := u.rc.Bugs().Resolve(ids[0]); err == nil {
					b.AddComment("never committed " + randHexId(r, 3))
					u.act("stage", string(ids[0]))
				}
			}
			u.rc.Close()
			u.repo.Close()
			u.open()
			u.act("reopen", "")
			log = append(log, "A:reopen(built)", "A:stage", "A:reopen")
			c.count("directed-build-stage-reopen")
			live := served(u.rc, tokens)
			if re, err := rebuilt(u, tokens); err == nil {
				if d := diffServed(live, re); d != "" {
					c.violation(-1, "C11/incoherent", fmt.Sprintf("after %v the live cache of A differs from a rebuilt one: %s", log, d), nil)
				}
			}
		}
		for st := 0; st < steps; st++ {
			u := pickOne(r, users)
			act := ""
			ids := u.rc.Bugs().AllIds()
			sort.Slice(ids, func(i, j int) bool { return ids[i] < ids[j] })
			editable := func() *cache.BugCache {
				if len(ids) == 0 {
					return nil
				}
				b, err := u.rc.Bugs().Resolve(pickOne(r, ids))
				if err != nil {
					c.violation(-1, "C11/resolve-failed", fmt.Sprintf("a listed bug cannot be resolved: %v; session %v", err, log), nil)
					return nil
				}
				return b
			}
			switch x := r.intn(22); {
			case x == 20:
				// an edit that stays staged (the web UI's and the bridges' way: several edits, one commit)
				if b := editable(); b != nil {
					if r.chance(1, 2) {
						b.AddComment("staged comment " + randHexId(r, 4))
					} else {
						tokN++
						tok := fmt.Sprintf("tok%dq%s", tokN, randHexId(r, 6))
						tokens = append(tokens, tok)
						b.SetTitle("staged title zz9 " + tok)
					}
					if u.staged == nil {
						u.staged = map[entity.Id]bool{}
					}
					u.staged[b.Id()] = true
					act = "stage(" + b.Id().Human() + ")"
					u.act("stage", string(b.Id()))
				}
			case x == 21:
				// everything staged is committed
				n := 0
				for id := range u.staged {
					if b, err := u.rc.Bugs().Resolve(id); err == nil {
						if err := b.CommitAsNeeded(); err != nil {
							panic(err)
						}
						n++
						u.act("commit", string(id))
					}
				}
				u.staged = nil
				if n > 0 {
					act = fmt.Sprintf("commit-staged(%d)", n)
				}
			case x < 4 || len(ids) == 0 && x < 12:
				tokN++
				tok := fmt.Sprintf("tok%dq%s", tokN, randHexId(r, 6))
				tokens = append(tokens, tok)
				b, _, err := u.rc.Bugs().New("bug zz9 "+tok+" "+pickOne(r, titlePool[:3]), "body "+pickOne(r, messagePool[:4]))
				if err != nil {
					panic(err)
				}
				act = "new(" + b.Id().Human() + ")"
				u.act("new", string(b.Id()))
			case x < 6:
				if b := editable(); b != nil {
					tokN++
					tok := fmt.Sprintf("tok%dq%s", tokN, randHexId(r, 6))
					tokens = append(tokens, tok)
					switch r.intn(3) {
					case 0:
						// a comment whose text is searched for
						if _, _, err := b.AddComment("comment zz9 " + tok); err != nil {
							panic(err)
						}
						act = "comment(" + b.Id().Human() + ")"
					case 1:
						// the text of a comment is replaced: the old words must leave the index, the new ones enter it
						cms := b.Snapshot().Comments
						cm := pickOne(r, cms)
						if _, err := b.EditComment(cm.CombinedId(), "edited zz9 "+tok); err != nil {
							panic(err)
						}
						act = "editcomment(" + b.Id().Human() + ")"
					case 2:
						// operations of two authors stored by one commit (what a bridge import stages)
						if u.other == "" {
							o, err := u.rc.Identities().New("ghost of "+u.name, "ghost"+u.name+"@example.com")
							if err != nil {
								panic(err)
							}
							u.other = o.Id()
						}
						ghost, err := u.rc.Identities().Resolve(u.other)
						if err != nil {
							panic(err)
						}
						if _, _, err := b.AddComment("mine zz9 " + tok); err != nil {
							panic(err)
						}
						if _, _, err := b.AddCommentRaw(ghost, time.Now().Unix(), "theirs zz9 "+tok, nil, nil); err != nil {
							panic(err)
						}
						if _, _, err := b.AddComment("mine again zz9 " + tok); err != nil {
							panic(err)
						}
						act = "two-authors(" + b.Id().Human() + ")"
					}
					b.CommitAsNeeded()
					u.act("commit", string(b.Id()))
				}
			case x < 8:
				if b := editable(); b != nil {
					b.ChangeLabels([]string{pickOne(r, []string{"bug", "ui", "feature"})}, nil)
					b.CommitAsNeeded()
					act = "label(" + b.Id().Human() + ")"
					u.act("commit", string(b.Id()))
				}
			case x < 9:
				if b := editable(); b != nil {
					if b.Snapshot().Status == 1 {
						b.Close()
					} else {
						b.Open()
					}
					b.CommitAsNeeded()
					act = "status(" + b.Id().Human() + ")"
					u.act("commit", string(b.Id()))
				}
			case x < 10 && r.chance(1, 2):
				// metadata set later on an operation (on the create operation most of the time: what
				// the bridges' exporters do to mark a bug as exported)
				if b := editable(); b != nil {
					ops := b.Snapshot().Operations
					target := ops[0].Id()
					if r.chance(1, 3) {
						target = pickOne(r, ops).Id()
					}
					if _, err := b.SetMetadata(target, map[string]string{pickOne(r, []string{"origin-id", "github-url", "k"}): randHexId(r, 4)}); err != nil {
						panic(err)
					}
					b.CommitAsNeeded()
					act = "setmeta(" + b.Id().Human() + ")"
					u.act("commit", string(b.Id()))
				}
			case x < 10:
				if b := editable(); b != nil {
					tokN++
					tok := fmt.Sprintf("tok%dq%s", tokN, randHexId(r, 6))
					tokens = append(tokens, tok)
					b.SetTitle("retitled zz9 " + tok)
					b.CommitAsNeeded()
					act = "title(" + b.Id().Human() + ")"
					u.act("commit", string(b.Id()))
				}
			case x < 13 && r.chance(1, 3):
				// the user's own identity changes, by one to three versions (a pull on the other side then
				// has to fast-forward over several versions at once)
				if me, err := u.rc.GetUserIdentity(); err == nil {
					n := r.rangeInt(1, 3)
					for k := 0; k < n; k++ {
						tag := randHexId(r, 3)
						if err := me.Mutate(u.repo, func(m *identity.Mutator) {
							m.Name = fmt.Sprintf("user %s v%d%s", u.name, k, tag)
							if r.chance(1, 2) {
								m.Email = u.name + tag + "@example.com"
							}
						}); err != nil {
							panic(err)
						}
						if err := me.Commit(); err != nil {
							panic(err)
						}
					}
					act = fmt.Sprintf("identity(%d)", n)
				}
			case x < 13:
				if _, err := u.rc.Push("origin"); err != nil {
					act = "push!"
				} else {
					act = "push"
				}
			case x < 17:
				if err := u.pull(); err != nil {
					act = "pull!(" + trunc(err.Error(), 60) + ")"
				} else {
					act = "pull"
				}
			case x < 18:
				if len(ids) > 0 {
					id := pickOne(r, ids)
					if err := u.rc.Bugs().Remove(string(id)); err != nil {
						panic(err)
					}
					act = "remove(" + id.Human() + ")"
					u.act("remove", string(id))
				}
			default:
				if err := u.rc.Close(); err != nil {
					panic(err)
				}
				u.repo.Close()
				// one time in three the cache files are gone (a new clone of the directory, a format change):
				// the cache is built, and a build loads every entity — by another path than Resolve does
				built := r.chance(1, 3)
				if built {
					os.RemoveAll(filepath.Join(u.dir, ".git", gbNamespace, "cache"))
				}
				u.open()
				if len(u.staged) > 0 {
					c.count("reopen-with-abandoned-staging")
				}
				u.staged = nil
				act = "reopen"
				if built {
					act = "reopen(built)"
					u.act("reopen-built", "")
				} else {
					u.act("reopen", "")
				}
			}
			if act == "" {
				continue
			}
			for id := range u.staged {
				if b, err := u.rc.Bugs().Resolve(id); err != nil || !b.NeedCommit() {
					delete(u.staged, id)
				}
			}
			log = append(log, u.name+":"+act)
			c.context(strings.Join(log, " "))
			c.count("action=" + strings.Split(act, "(")[0])
			if len(u.staged) > 0 {
				c.count("not-quiescent(staged operations)")
				continue
			}
			// quiescent point: the live cache must serve what a rebuilt cache serves
			live := served(u.rc, tokens)
			re, err := rebuilt(u, tokens)
			if err != nil {
				c.violation(-1, "C11/rebuild-failed", fmt.Sprintf("a cache cannot be rebuilt from the git data: %v; session %v", err, log), nil)
				continue
			}
			if d := diffServed(live, re); d != "" {
				key := "C11/incoherent"
				if strings.HasPrefix(d, "query \"tok") {
					key = "C11/search-incoherent"
				}
				c.violation(-1, key, fmt.Sprintf("after %v the live cache of %s differs from a rebuilt one: %s", log, u.name, d), nil)
				break // later comparisons of this session would repeat it
			}
			c.count("comparisons")
		}
		c.nontrivial(strings.Join(log, " "))
		for _, u := range users {
			// merged actions inside one pull share the observation made after the pull: the model's
			// intermediate states may list fewer ids; compare only where an observation was made last
			c.emit(map[string]any{"cmd": "cache", "actions": u.acts, "user": u.name, "session": strings.Join(log, " ")}, u.obs)
			u.rc.Close()
			u.repo.Close()
		}
		remote.Close()
		cleanupScratch()
	}
	for k := 0; k < c.pick(2, 10); k++ {
		c11AbortedPull(c, c.rng.fork())
		cleanupScratch()
	}
	c.extra["note"] = "every action is followed by a comparison of the live cache with a cache rebuilt from a copy of the git data"
	_ = entity.Id("")
}

// c11AbortedPull: RepoCache.Pull gives up at the first refused remote entity; what it had merged before
// is in git and in the index, the excerpt file is not written.  After close and reopen the cache must
// still serve what a rebuild serves (the load-or-rebuild heuristic has to notice).
func c11AbortedPull(c *runCtx, r *rng) {
	remote, _ := newGoGit("c11remote", true)
	defer remote.Close()
	var users []*c11User
	for _, n := range []string{"A", "B"} {
		repo, dir := newGoGit("c11"+n, false)
		repo.AddRemote("origin", remote.GetLocalRemote())
		u := &c11User{name: n, dir: dir, repo: repo}
		u.rc = mustCache(repo)
		iden, err := u.rc.Identities().New("user "+n, n+"@example.com")
		if err != nil {
			panic(err)
		}
		if err := u.rc.SetUserIdentity(iden); err != nil {
			panic(err)
		}
		users = append(users, u)
	}
	A, B := users[0], users[1]
	tok := "tokapq" + randHexId(r, 5)
	tokens := []string{tok}
	if _, _, err := B.rc.Bugs().New("bug zz9 local of B", "nothing special"); err != nil {
		panic(err)
	}
	var ids []string
	for i := 0; i < r.rangeInt(4, 7); i++ {
		b, _, err := A.rc.Bugs().New("bug zz9 "+tok+" "+pickOne(r, titlePool[:3]), "body")
		if err != nil {
			panic(err)
		}
		ids = append(ids, string(b.Id()))
	}
	sort.Strings(ids)
	// a ref whose name is a well-formed id that is not the id of its content, sorting right after the first bug
	bogus := ids[0][:len(ids[0])-1] + "z"
	if ids[0][len(ids[0])-1] == 'z' {
		return
	}
	if err := A.repo.CopyRef("refs/bugs/"+ids[0], "refs/bugs/"+bogus); err != nil {
		panic(err)
	}
	if _, err := A.rc.Push("origin"); err != nil {
		panic(err)
	}
	log := []string{"B:new", fmt.Sprintf("A:new x%d", len(ids)), "A:(ref named after another id)", "A:push", "B:Pull (gives up at the refused entity)"}
	c.context(strings.Join(log, " "))
	perr := B.rc.Pull("origin")
	c.count(fmt.Sprintf("aborted-pull/error=%v", perr != nil))
	// the pull has returned early, what remains of the merge is asynchronous: let it settle
	last, stable := -1, 0
	for i := 0; i < 150 && stable < 10; i++ {
		time.Sleep(20 * time.Millisecond)
		n := len(B.rc.Bugs().AllIds())
		if n == last {
			stable++
		} else {
			last, stable = n, 0
		}
	}
	c.count(fmt.Sprintf("aborted-pull/bugs-served-before-close=%d", min(last, 9)))
	B.rc.Close()
	B.repo.Close()
	B.open()
	log = append(log, "B:close", "B:reopen")
	live := served(B.rc, tokens)
	re, err := rebuilt(B, tokens)
	if err != nil {
		c.violation(-1, "C11/rebuild-failed", fmt.Sprintf("a cache cannot be rebuilt from the git data: %v; session %v", err, log), nil)
	} else if d := diffServed(live, re); d != "" {
		c.violation(-1, "C11/incoherent", fmt.Sprintf("after %v the reopened cache of B differs from a rebuilt one: %s", log, d), nil)
	}
	for _, u := range users {
		u.rc.Close()
		u.repo.Close()
	}
}

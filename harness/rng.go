package main

import (
	"crypto/sha256"
	"encoding/hex"
)

// rng is splitmix64; every random choice of a run derives from (VERIF_SEED, property id).
type rng struct{ s uint64 }

func newRng(seed uint64, salt string) *rng {
	h := sha256.Sum256([]byte(salt))
	var x uint64
	for i := 0; i < 8; i++ {
		x = x<<8 | uint64(h[i])
	}
	return &rng{s: seed*0x9E3779B97F4A7C15 ^ x}
}

func (r *rng) next() uint64 {
	r.s += 0x9E3779B97F4A7C15
	z := r.s
	z = (z ^ (z >> 30)) * 0xBF58476D1CE4E5B9
	z = (z ^ (z >> 27)) * 0x94D049BB133111EB
	return z ^ (z >> 31)
}

// intn returns a value in [0, n).
func (r *rng) intn(n int) int {
	if n <= 0 {
		return 0
	}
	return int(r.next() % uint64(n))
}

func (r *rng) rangeInt(lo, hi int) int  { return lo + r.intn(hi-lo+1) }
func (r *rng) chance(num, den int) bool { return r.intn(den) < num }

func pickOne[T any](r *rng, xs []T) T { return xs[r.intn(len(xs))] }

// fork derives an independent stream (so a sub-generator can be replayed alone).
func (r *rng) fork() *rng { return &rng{s: r.next()} }

func hashStr(s string) string {
	h := sha256.Sum256([]byte(s))
	return hex.EncodeToString(h[:8])
}

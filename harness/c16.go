package main

import (
	"context"
	"encoding/json"
	"fmt"
	"net/http"
	"net/http/httptest"
	"os"
	"regexp"
	"sort"
	"strconv"
	"strings"
	"sync"
	"time"

	"github.com/MichaelMure/git-bug/bridge"
	"github.com/MichaelMure/git-bug/bridge/core"
	"github.com/MichaelMure/git-bug/bridge/core/auth"
	"github.com/MichaelMure/git-bug/cache"
	"github.com/MichaelMure/git-bug/entities/bug"
	"github.com/MichaelMure/git-bug/entities/common"
	"github.com/MichaelMure/git-bug/util/text"
)

func init() { props["C16"] = runC16 }

// ---- a GitLab with just the API the importer uses

type simNote struct {
	ID               int
	Body             string
	Author           int
	Created, Updated time.Time
	System           bool
}
type simLabelEv struct {
	ID      int
	Action  string
	Label   string
	User    int
	Created time.Time
}
type simStateEv struct {
	ID      int
	State   string
	User    int
	Created time.Time
}
type simIssue struct {
	IID              int
	Title, Desc      string
	Author           int
	Created, Updated time.Time
	Notes            []simNote
	Labels           []simLabelEv
	States           []simStateEv
}

type simGitLab struct {
	mu       sync.Mutex
	users    map[int]string
	issues   []*simIssue
	nextID   map[string]int
	clock    time.Time
	requests int    // in the current round
	failAt   int    // request index that fails (-1: none)
	failMode string // "403" | "500-from" (everything from failAt on) | "drop-from"
	log      []string
	srv      *httptest.Server
	// hook run (without the lock) when a request path contains hookPath, once
	hookPath string
	hook     func()
}

func (g *simGitLab) tick() time.Time {
	g.clock = g.clock.Add(time.Duration(1+len(g.log)%3) * time.Second)
	return g.clock
}

func newSimGitLab(overlap bool) *simGitLab {
	g := &simGitLab{users: map[int]string{}, nextID: map[string]int{"note": 1000, "label": 5000, "state": 9000, "issue": 1, "user": 100}, failAt: -1,
		clock: time.Now().Add(-2 * time.Hour).Truncate(time.Second)}
	if overlap {
		g.nextID = map[string]int{"note": 1, "label": 1, "state": 1, "issue": 1, "user": 1}
	}
	g.srv = httptest.NewServer(http.HandlerFunc(g.serve))
	return g
}

func (g *simGitLab) id(kind string) int { g.nextID[kind]++; return g.nextID[kind] - 1 }

func rfc(t time.Time) string { return t.UTC().Format("2006-01-02T15:04:05.000Z") }

func (g *simGitLab) userJSON(id int) map[string]any {
	name := g.users[id]
	return map[string]any{"id": id, "username": fmt.Sprintf("user%d", id), "name": name, "state": "active", "avatar_url": "", "web_url": "", "public_email": ""}
}

var (
	reIssues = regexp.MustCompile(`^/api/v4/projects/([^/]+)/issues$`)
	reSub    = regexp.MustCompile(`^/api/v4/projects/([^/]+)/issues/(\d+)/(notes|resource_label_events|resource_state_events)$`)
	reUser   = regexp.MustCompile(`^/api/v4/users/(\d+)$`)
)

func page[T any](w http.ResponseWriter, r *http.Request, items []T) []T {
	per := 3
	p, _ := strconv.Atoi(r.URL.Query().Get("page"))
	if p < 1 {
		p = 1
	}
	total := (len(items) + per - 1) / per
	if total == 0 {
		total = 1
	}
	w.Header().Set("X-Page", strconv.Itoa(p))
	w.Header().Set("X-Total-Pages", strconv.Itoa(total))
	w.Header().Set("X-Per-Page", strconv.Itoa(per))
	w.Header().Set("X-Total", strconv.Itoa(len(items)))
	if p < total {
		w.Header().Set("X-Next-Page", strconv.Itoa(p+1))
	}
	lo := min((p-1)*per, len(items))
	hi := min(lo+per, len(items))
	return items[lo:hi]
}

func (g *simGitLab) serve(w http.ResponseWriter, r *http.Request) {
	g.mu.Lock()
	if g.hook != nil && g.hookPath != "" && strings.Contains(r.URL.Path, g.hookPath) {
		h := g.hook
		g.hook = nil
		g.mu.Unlock()
		h()
		g.mu.Lock()
	}
	defer g.mu.Unlock()
	idx := g.requests
	g.requests++
	g.log = append(g.log, r.URL.Path+"?"+r.URL.RawQuery)
	if g.failAt >= 0 && (idx == g.failAt || idx > g.failAt && strings.HasSuffix(g.failMode, "-from")) {
		switch g.failMode {
		case "403":
			http.Error(w, `{"message":"403 Forbidden"}`, 403)
			return
		case "500-from":
			http.Error(w, `{"message":"500 Internal Server Error"}`, 500)
			return
		case "drop-from":
			if hj, ok := w.(http.Hijacker); ok {
				conn, _, _ := hj.Hijack()
				conn.Close()
				return
			}
		}
	}
	w.Header().Set("Content-Type", "application/json")
	path := r.URL.Path
	switch {
	case reIssues.MatchString(path):
		var since time.Time
		if s := r.URL.Query().Get("updated_after"); s != "" {
			since, _ = time.Parse(time.RFC3339Nano, s)
		}
		var list []map[string]any
		is := append([]*simIssue{}, g.issues...)
		sort.SliceStable(is, func(i, j int) bool { return is[i].Created.Before(is[j].Created) })
		for _, is := range is {
			if is.Updated.Before(since) {
				continue
			}
			state := "opened"
			if n := len(is.States); n > 0 && is.States[n-1].State == "closed" {
				state = "closed"
			}
			list = append(list, map[string]any{"id": 10000 + is.IID, "iid": is.IID, "project_id": 7, "title": is.Title, "description": is.Desc, "state": state,
				"created_at": rfc(is.Created), "updated_at": rfc(is.Updated), "author": g.userJSON(is.Author), "web_url": fmt.Sprintf("%s/group/project/-/issues/%d", g.srv.URL, is.IID), "labels": []string{}})
		}
		json.NewEncoder(w).Encode(page(w, r, list))
	case reSub.MatchString(path):
		m := reSub.FindStringSubmatch(path)
		iid, _ := strconv.Atoi(m[2])
		var is *simIssue
		for _, x := range g.issues {
			if x.IID == iid {
				is = x
			}
		}
		if is == nil {
			http.Error(w, `{"message":"404 Not found"}`, 404)
			return
		}
		var list []map[string]any
		switch m[3] {
		case "notes":
			for _, n := range is.Notes {
				list = append(list, map[string]any{"id": n.ID, "body": n.Body, "author": g.userJSON(n.Author), "created_at": rfc(n.Created), "updated_at": rfc(n.Updated),
					"system": n.System, "noteable_id": 10000 + is.IID, "noteable_type": "Issue", "noteable_iid": is.IID})
			}
		case "resource_label_events":
			for _, e := range is.Labels {
				list = append(list, map[string]any{"id": e.ID, "action": e.Action, "created_at": rfc(e.Created), "resource_type": "Issue", "resource_id": 10000 + is.IID,
					"user": g.userJSON(e.User), "label": map[string]any{"id": 1, "name": e.Label, "color": "#fff", "text_color": "#000", "description": ""}})
			}
		case "resource_state_events":
			for _, e := range is.States {
				list = append(list, map[string]any{"id": e.ID, "state": e.State, "created_at": rfc(e.Created), "resource_type": "Issue", "resource_id": 10000 + is.IID, "user": g.userJSON(e.User)})
			}
		}
		if list == nil {
			list = []map[string]any{}
		}
		json.NewEncoder(w).Encode(page(w, r, list))
	case reUser.MatchString(path):
		id, _ := strconv.Atoi(reUser.FindStringSubmatch(path)[1])
		if _, ok := g.users[id]; !ok {
			http.Error(w, `{"message":"404 User Not Found"}`, 404)
			return
		}
		json.NewEncoder(w).Encode(g.userJSON(id))
	default:
		http.Error(w, `{"message":"404 Not Found"}`, 404)
	}
}

// ---- tracker histories

var c16Texts = []string{"plain text", "Ünïcödé ✓ text", "  leading and trailing  ", "multi\nline\n\nbody", "with\ttab and \x07 bell", "`code` **bold** <script>alert(1)</script>",
	"trailing newline\n", "quote \" backslash \\ percent %s", "a ** to ** b", "emoji 🐛🔥", strings.Repeat("long ", 300),
	"form\ffeed and vertical\vtab", "next\u0085line and c1 \u009b control", "nul \x00 del \x7f esc \x1b[31m", "zero\u200bwidth and bom \ufeff and sep \u2028 para \u2029", "\u00a0nbsp around\u00a0"}

func (g *simGitLab) user(r *rng) int {
	if len(g.users) < 4 || r.chance(1, 6) {
		id := g.id("user")
		g.users[id] = pickOne(r, []string{"Alice Example", "Bob", "Ghost User", "名前", "Zoë O'Neil"})
		return id
	}
	var ids []int
	for id := range g.users {
		ids = append(ids, id)
	}
	sort.Ints(ids)
	return pickOne(r, ids)
}

func oneLine(r *rng) string {
	return pickOne(r, []string{"Crash on start", "Ünïcödé title ✓", "  spaces around  ", "title with \x07 bell", "tabs\tinside", "emoji 🐛", "quote \" and \\", "form\ffeed", "nel\u0085 and c1\u009b", "line\u2028sep", "\u00a0nbsp\u00a0"})
}

// grow adds n random events; returns how many operations a correct importer adds for them
func (g *simGitLab) grow(r *rng, n int) int {
	g.mu.Lock()
	defer g.mu.Unlock()
	ops := 0
	for k := 0; k < n; k++ {
		if len(g.issues) == 0 || r.chance(1, 5) {
			t := g.tick()
			is := &simIssue{IID: g.id("issue"), Title: oneLine(r) + " " + randHexId(r, 3), Desc: pickOne(r, c16Texts), Author: g.user(r), Created: t, Updated: t}
			g.issues = append(g.issues, is)
			ops++
			continue
		}
		is := pickOne(r, g.issues)
		t := g.tick()
		is.Updated = t
		switch x := r.intn(12); {
		case x < 4:
			is.Notes = append(is.Notes, simNote{ID: g.id("note"), Body: pickOne(r, c16Texts) + " " + randHexId(r, 3), Author: g.user(r), Created: t, Updated: t})
			ops++
		case x < 5:
			// edit an existing comment
			var idx []int
			for i, n := range is.Notes {
				if !n.System {
					idx = append(idx, i)
				}
			}
			if len(idx) > 0 {
				i := pickOne(r, idx)
				is.Notes[i].Body = "edited: " + pickOne(r, c16Texts) + randHexId(r, 3)
				is.Notes[i].Updated = t
				ops++
			}
		case x < 6:
			nt := oneLine(r) + " " + randHexId(r, 3)
			is.Notes = append(is.Notes, simNote{ID: g.id("note"), Body: fmt.Sprintf("changed title from **%s** to **%s**", is.Title, nt), Author: g.user(r), Created: t, Updated: t, System: true})
			is.Title = nt
			ops++
		case x < 7:
			is.Desc = "new description: " + pickOne(r, c16Texts) + randHexId(r, 3)
			is.Notes = append(is.Notes, simNote{ID: g.id("note"), Body: "changed the description", Author: g.user(r), Created: t, Updated: t, System: true})
			ops++
		case x < 9:
			is.Labels = append(is.Labels, simLabelEv{ID: g.id("label"), Action: "add", Label: pickOne(r, []string{"bug", "ui", "needs review", "prio::high", "Ünï"}), User: g.user(r), Created: t})
			ops++
		case x < 10:
			if len(is.Labels) > 0 {
				is.Labels = append(is.Labels, simLabelEv{ID: g.id("label"), Action: "remove", Label: pickOne(r, is.Labels).Label, User: g.user(r), Created: t})
				ops++
			}
		case x < 11:
			st := "closed"
			if n := len(is.States); n > 0 && is.States[n-1].State == "closed" {
				st = "reopened"
			}
			is.States = append(is.States, simStateEv{ID: g.id("state"), State: st, User: g.user(r), Created: t})
			ops++
		default:
			// events git-bug ignores
			is.Notes = append(is.Notes, simNote{ID: g.id("note"), Body: pickOne(r, []string{"assigned to @user1", "changed due date to 2030-01-01", "mentioned in issue #2", "locked this issue"}), Author: g.user(r), Created: t, Updated: t, System: true})
		}
	}
	return ops
}

// ---- what a correct import leaves, computed from the tracker alone

type c16Snap struct {
	Title    string
	Status   string
	Labels   []string
	Comments []string
}

func (g *simGitLab) expected() map[string]c16Snap {
	g.mu.Lock()
	defer g.mu.Unlock()
	out := map[string]c16Snap{}
	for _, is := range g.issues {
		s := c16Snap{Title: text.CleanupOneLine(is.Title), Status: "open", Labels: []string{}, Comments: []string{text.Cleanup(is.Desc)}}
		for _, n := range is.Notes {
			if !n.System {
				s.Comments = append(s.Comments, text.Cleanup(n.Body))
			}
		}
		set := map[string]bool{}
		for _, e := range is.Labels {
			set[text.CleanupOneLine(e.Label)] = e.Action == "add"
		}
		for l, on := range set {
			if on {
				s.Labels = append(s.Labels, l)
			}
		}
		sort.Strings(s.Labels)
		if n := len(is.States); n > 0 && is.States[n-1].State == "closed" {
			s.Status = "closed"
		}
		out[strconv.Itoa(is.IID)] = s
	}
	return out
}

func c16Actual(rc *cache.RepoCache) (map[string]c16Snap, map[string]int, []string) {
	snaps := map[string]c16Snap{}
	counts := map[string]int{}
	var problems []string
	for _, id := range rc.Bugs().AllIds() {
		b, err := rc.Bugs().Resolve(id)
		if err != nil {
			problems = append(problems, err.Error())
			continue
		}
		if err := b.Validate(); err != nil {
			problems = append(problems, "invalid imported bug: "+err.Error())
		}
		sn := b.Snapshot()
		iid := ""
		if c, ok := sn.Operations[0].(*bug.CreateOperation); ok {
			iid, _ = c.GetMetadata("gitlab-id")
		}
		s := c16Snap{Title: sn.Title, Status: map[common.Status]string{common.OpenStatus: "open", common.ClosedStatus: "closed"}[sn.Status], Labels: []string{}}
		for _, l := range sn.Labels {
			s.Labels = append(s.Labels, string(l))
		}
		sort.Strings(s.Labels)
		for _, cm := range sn.Comments {
			s.Comments = append(s.Comments, cm.Message)
		}
		if _, dup := snaps[iid]; dup {
			problems = append(problems, "two bugs for issue "+iid)
		}
		snaps[iid] = s
		counts[iid] = len(sn.Operations)
	}
	return snaps, counts, problems
}

// c16Local: what the local bug of an issue remembers (the model's state)
type c16Local struct {
	exists   bool
	known    []string
	comments [][]string
	desc     string
	ops      int
}

func c16LocalState(rc *cache.RepoCache) map[string]c16Local {
	out := map[string]c16Local{}
	for _, id := range rc.Bugs().AllIds() {
		b, err := rc.Bugs().Resolve(id)
		if err != nil {
			continue
		}
		sn := b.Snapshot()
		l := c16Local{exists: true, ops: len(sn.Operations), known: []string{}, comments: [][]string{}}
		iid := ""
		for i, op := range sn.Operations {
			gid, ok := op.GetMetadata("gitlab-id")
			if !ok {
				continue
			}
			if i == 0 {
				iid = gid
			}
			l.known = append(l.known, gid)
			if _, isComment := op.(*bug.AddCommentOperation); isComment {
				if cm, err := sn.SearchCommentByOpId(op.Id()); err == nil {
					l.comments = append(l.comments, []string{gid, cm.Message})
				}
			}
		}
		if len(sn.Comments) > 0 {
			l.desc = sn.Comments[0].Message
		}
		out[iid] = l
	}
	return out
}

// c16Events: the events of every issue as the importer sees them (sorted by time; texts cleaned)
func (g *simGitLab) modelEvents() map[string]map[string]any {
	g.mu.Lock()
	defer g.mu.Unlock()
	out := map[string]map[string]any{}
	for _, is := range g.issues {
		type ev struct {
			t time.Time
			m map[string]any
		}
		var evs []ev
		for _, n := range is.Notes {
			m := map[string]any{"id": strconv.Itoa(n.ID), "kind": "ignored"}
			switch {
			case !n.System:
				m["kind"], m["body"] = "comment", text.Cleanup(n.Body)
			case strings.HasPrefix(n.Body, "changed title from"):
				m["kind"] = "title"
			case n.Body == "changed the description":
				m["kind"] = "desc"
			}
			evs = append(evs, ev{n.Created, m})
		}
		for _, e := range is.Labels {
			evs = append(evs, ev{e.Created, map[string]any{"id": strconv.Itoa(e.ID), "kind": "label"}})
		}
		for _, e := range is.States {
			evs = append(evs, ev{e.Created, map[string]any{"id": strconv.Itoa(e.ID), "kind": "state"}})
		}
		sort.SliceStable(evs, func(i, j int) bool { return evs[i].t.Before(evs[j].t) })
		var list []map[string]any
		for _, e := range evs {
			list = append(list, e.m)
		}
		out[strconv.Itoa(is.IID)] = map[string]any{"events": list, "desc": text.Cleanup(is.Desc)}
	}
	return out
}

// ---- one repository with a bridge to the simulated tracker

type c16Env struct {
	rc *cache.RepoCache
	g  *simGitLab
}

func newC16Env(g *simGitLab) *c16Env {
	repo := newMock()
	rc := mustCache(repo)
	tok := auth.NewToken("gitlab", "secret-token")
	tok.SetMetadata(auth.MetaKeyBaseURL, g.srv.URL)
	tok.SetMetadata(auth.MetaKeyLogin, "importer")
	if err := auth.Store(repo, tok); err != nil {
		panic(err)
	}
	cfg := repo.LocalConfig()
	for k, v := range map[string]string{"target": "gitlab", "project-id": "7", "base-url": g.srv.URL, "default-login": "importer"} {
		cfg.StoreString("git-bug.bridge.sim."+k, v)
	}
	return &c16Env{rc: rc, g: g}
}

type c16Round struct {
	events  []string
	errors  []string
	newOps  int
	cursor  string
	crashed string
}

func (e *c16Env) cursor() string {
	t, err := e.rc.LocalConfig().ReadTimestamp("git-bug.bridge.sim.lastImportTime")
	if err != nil {
		return ""
	}
	return t.UTC().Format(time.RFC3339)
}

func (e *c16Env) totalOps() int {
	_, counts, _ := c16Actual(e.rc)
	n := 0
	for _, c := range counts {
		n += c
	}
	return n
}

func (e *c16Env) importRound(resume bool) c16Round {
	var out c16Round
	e.g.mu.Lock()
	e.g.requests = 0
	e.g.mu.Unlock()
	before := e.totalOps()
	out.crashed = recoverTo(func() {
		b, err := bridge.LoadBridge(e.rc, "sim")
		if err != nil {
			out.errors = append(out.errors, "LoadBridge: "+err.Error())
			return
		}
		ctx, cancel := context.WithTimeout(context.Background(), 60*time.Second)
		defer cancel()
		var ch <-chan core.ImportResult
		if resume {
			ch, err = b.ImportAll(ctx)
		} else {
			ch, err = b.ImportAllSince(ctx, time.Time{})
		}
		if err != nil {
			out.errors = append(out.errors, "ImportAll: "+err.Error())
			return
		}
		for res := range ch {
			if res.Err != nil || res.Event == core.ImportEventError {
				out.errors = append(out.errors, fmt.Sprint(res.Err))
			} else if res.Event != core.ImportEventNothing {
				out.events = append(out.events, res.String())
			}
		}
	})
	out.newOps = e.totalOps() - before
	out.cursor = e.cursor()
	return out
}

func runC16(c *runCtx) {
	N := c.pick(3, 20)
	for i := 0; i < N; i++ {
		c16Rounds(c, c.rng.fork(), false)
	}
	c16Failures(c, c.rng.fork())
	c16SlowRun(c, c.rng.fork())
	c16Rounds(c, c.rng.fork(), true) // overlapping id spaces
}

// c16Rounds: import, import again, re-import everything, grow, import …
func c16Rounds(c *runCtx, r *rng, overlap bool) {
	g := newSimGitLab(overlap)
	defer g.srv.Close()
	env := newC16Env(g)
	key := func(k string) string {
		if overlap {
			return "C16/overlapping-ids:" + k
		}
		return "C16/" + k
	}
	pending := g.grow(r, r.rangeInt(6, 14))
	// every session has a comment that text.Cleanup alters (CRLF, spaces around, trailing newline)
	g.mu.Lock()
	if len(g.issues) > 0 {
		t := g.tick()
		g.issues[0].Notes = append(g.issues[0].Notes, simNote{ID: g.id("note"), Body: "  spaces around, crlf\r\nsecond line, bell \x07 and a trailing newline\n", Author: g.issues[0].Author, Created: t, Updated: t})
		g.issues[0].Updated = t
	}
	g.mu.Unlock()
	rounds := c.pick(4, 8)
	var log []string
	for round := 0; round < rounds; round++ {
		// cursor times come from the real clock (import start minus 5 s): let tracker time pass it
		g.mu.Lock()
		if g.clock.Before(time.Now()) {
			g.clock = time.Now()
		}
		g.mu.Unlock()
		mode := "resume"
		resume := true
		if round%3 == 2 {
			mode, resume = "no-resume", false
		}
		c.context(fmt.Sprintf("import rounds %v then %s", log, mode))
		beforeLocal := c16LocalState(env.rc)
		trackerNow := g.modelEvents()
		res := env.importRound(resume)
		afterLocal := c16LocalState(env.rc)
		if !overlap && res.crashed == "" && len(res.errors) == 0 {
			for iid, tr := range trackerNow {
				bl, al := beforeLocal[iid], afterLocal[iid]
				in := map[string]any{"cmd": "pass", "iid": iid, "events": tr["events"], "desc": tr["desc"], "known": bl.known, "comments": bl.comments, "localDesc": bl.desc, "mode": mode}
				delta := al.ops - bl.ops
				if !bl.exists {
					// a new bug is created with the current description and its own id as metadata
					in["known"], in["comments"], in["localDesc"] = []string{iid}, [][]string{}, tr["desc"]
					delta--
				}
				c.emit(in, map[string]any{"ops": delta, "known": len(al.known), "desc": al.desc})
			}
		}
		log = append(log, fmt.Sprintf("%s(+%d)", mode, res.newOps))
		c.count("round=" + mode)
		if res.crashed != "" {
			c.violation(c.nCases, key("panic"), "the import crashed: "+trunc(res.crashed, 300), nil)
			return
		}
		if len(res.errors) > 0 {
			c.violation(c.nCases, key("import-error"), fmt.Sprintf("a clean import reports errors: %v (rounds %v)", res.errors, log), nil)
		}
		want := g.expected()
		got, _, problems := c16Actual(env.rc)
		for _, p := range problems {
			c.violation(c.nCases, key("invalid"), p, nil)
		}
		if mustJSON(want) != mustJSON(got) {
			c.violation(c.nCases, key("content"), fmt.Sprintf("after rounds %v the bugs differ from the tracker: %s", log, trunc(firstDiff(mustJSON(want), mustJSON(got)), 400)), map[string]any{"want": want, "got": got})
		}
		c.nontrivial(fmt.Sprintf("%v|%d", log, pending))
		pending = 0
		// the same again: nothing new
		res2 := env.importRound(resume)
		if res2.newOps != 0 || len(res2.events) != 0 {
			c.violation(c.nCases, key("not-idempotent"), fmt.Sprintf("importing an unchanged tracker again (%s) added %d operations: %v (rounds %v)", mode, res2.newOps, trunc(fmt.Sprint(res2.events), 300), log), nil)
		}
		if r.chance(2, 3) {
			pending = g.grow(r, r.rangeInt(1, 8))
		}
		// directed, in every session: a comment that was imported in an earlier round is edited on the
		// tracker (the edit is imported by the next round), and the round after that sees further activity
		// on the same issue (so the issue, with its imported edit, is listed once more)
		g.mu.Lock()
		if len(g.issues) > 0 {
			is := g.issues[0]
			t := g.tick()
			switch round {
			case 0:
				for i := range is.Notes {
					if !is.Notes[i].System {
						is.Notes[i].Body = "edited after import: " + randHexId(r, 4)
						is.Notes[i].Updated = t
						is.Updated = t
						pending++
						break
					}
				}
			case 1:
				is.Notes = append(is.Notes, simNote{ID: g.id("note"), Body: "activity after an imported edit " + randHexId(r, 4), Author: is.Author, Created: t, Updated: t})
				is.Updated = t
				pending++
			}
		}
		g.mu.Unlock()
	}
	c.emit(map[string]any{"cmd": "rounds", "log": log, "overlap": overlap}, map[string]any{"ok": true})
	env.rc.Close()
}

// c16Failures: an API failure at every request index of an import round
func c16Failures(c *runCtx, r *rng) {
	seedR := r.fork()
	build := func() (*simGitLab, *c16Env) {
		g := newSimGitLab(false)
		rr := *seedR // same history every time
		g.grow(&rr, 10)
		g.clock = time.Now()
		return g, newC16Env(g)
	}
	g0, env0 := build()
	clean := env0.importRound(true)
	n := g0.requests
	wantSnap, _, _ := c16Actual(env0.rc)
	g0.srv.Close()
	env0.rc.Close()
	if len(clean.errors) > 0 || clean.crashed != "" {
		c.violation(-1, "C16/import-error", fmt.Sprintf("clean import fails: %v %s", clean.errors, trunc(clean.crashed, 200)), nil)
		return
	}
	c.countN("requests-per-round", n)
	modes := []string{"403"}
	if c.thorough() {
		modes = append(modes, "500-from")
	}
	for _, mode := range modes {
		for k := 0; k < n; k++ {
			g, env := build()
			g.failAt, g.failMode = k, mode
			c.context(fmt.Sprintf("API failure (%s) at request %d of %d", mode, k, n))
			res := env.importRound(true)
			g.mu.Lock()
			failedReq := ""
			if k < len(g.log) {
				failedReq = g.log[k]
			}
			g.failAt = -1
			g.mu.Unlock()
			c.count("failure-mode=" + mode)
			c.nontrivial(fmt.Sprintf("fail|%s|%d", mode, k))
			where := fmt.Sprintf("API failure (%s) at request %d of %d (%s)", mode, k, n, trunc(failedReq, 80))
			if res.crashed != "" {
				c.violation(-1, "C16/panic", where+": the import crashed: "+trunc(res.crashed, 300), map[string]any{"k": k, "mode": mode})
				g.srv.Close()
				continue
			}
			if len(res.errors) == 0 {
				c.violation(-1, "C16/failure-not-reported", where+": the import reports no error", map[string]any{"k": k, "mode": mode, "request": failedReq})
			}
			if res.cursor != "" {
				c.violation(-1, "C16/cursor-advanced", where+": the last-import cursor was stored ("+res.cursor+")", map[string]any{"k": k, "mode": mode, "request": failedReq})
			}
			// a clean run afterwards ends where an import that never failed ends
			res2 := env.importRound(true)
			if len(res2.errors) > 0 || res2.crashed != "" {
				c.violation(-1, "C16/not-resumable", fmt.Sprintf("%s: the following clean run fails: %v %s", where, res2.errors, trunc(res2.crashed, 200)), nil)
			}
			got, _, problems := c16Actual(env.rc)
			for _, p := range problems {
				c.violation(-1, "C16/invalid", where+": "+p, nil)
			}
			if mustJSON(got) != mustJSON(wantSnap) {
				c.violation(-1, "C16/not-resumable", fmt.Sprintf("%s: after a clean run the bugs differ from an import that never failed: %s", where, trunc(firstDiff(mustJSON(wantSnap), mustJSON(got)), 400)), map[string]any{"k": k, "mode": mode, "request": failedReq})
			}
			g.srv.Close()
			env.rc.Close()
		}
	}
	// the connection is dropped for every request from some point on
	for _, k := range []int{0, 1, n / 2} {
		if os.Getenv("C16_NO_DROP") != "" {
			break
		}
		g, env := build()
		g.failAt, g.failMode = k, "drop-from"
		c.context(fmt.Sprintf("connections dropped from request %d on", k))
		res := env.importRound(true)
		if res.crashed != "" {
			c.violation(-1, "C16/panic", fmt.Sprintf("connections dropped from request %d on: the import crashed: %s", k, trunc(res.crashed, 300)), map[string]any{"k": k, "mode": "drop-from"})
		} else if len(res.errors) == 0 || res.cursor != "" {
			c.violation(-1, "C16/failure-not-reported", fmt.Sprintf("connections dropped from request %d on: errors %v, cursor %q", k, res.errors, res.cursor), nil)
		}
		c.count("failure-mode=drop-from")
		g.srv.Close()
		env.rc.Close()
	}
}

// c16SlowRun: the tracker changes while an import run that lasts longer than the cursor's
// five-second margin is under way, on an issue the run has already passed.
func c16SlowRun(c *runCtx, r *rng) {
	g := newSimGitLab(false)
	defer g.srv.Close()
	env := newC16Env(g)
	for len(g.issues) < 2 {
		g.grow(r, 4)
	}
	g.mu.Lock()
	g.clock = time.Now()
	g.mu.Unlock()
	if res := env.importRound(true); len(res.errors) > 0 || res.crashed != "" {
		c.violation(-1, "C16/import-error", fmt.Sprintf("clean import fails: %v", res.errors), nil)
		return
	}
	// both issues change, so the next run lists both; while the second one is being fetched
	// (the first is done), the first gets a new comment, and that request takes six seconds
	g.mu.Lock()
	sort.SliceStable(g.issues, func(i, j int) bool { return g.issues[i].Created.Before(g.issues[j].Created) })
	first, last := g.issues[0], g.issues[len(g.issues)-1]
	now := time.Now()
	for _, is := range g.issues {
		is.Notes = append(is.Notes, simNote{ID: g.id("note"), Body: "before the slow run", Author: is.Author, Created: now, Updated: now})
		is.Updated = now
	}
	g.hookPath = fmt.Sprintf("/issues/%d/", last.IID)
	g.hook = func() {
		g.mu.Lock()
		t := time.Now()
		first.Notes = append(first.Notes, simNote{ID: g.id("note"), Body: "added while the import was running", Author: first.Author, Created: t, Updated: t})
		first.Updated = t
		g.mu.Unlock()
		time.Sleep(6 * time.Second)
	}
	g.mu.Unlock()
	c.context("tracker updated during a slow import run")
	res := env.importRound(true)
	res2 := env.importRound(true)
	c.count("slow-run")
	c.nontrivial("slow-run")
	if len(res.errors)+len(res2.errors) > 0 || res.crashed != "" || res2.crashed != "" {
		c.violation(-1, "C16/import-error", fmt.Sprintf("slow run: errors %v %v", res.errors, res2.errors), nil)
	}
	want := g.expected()
	got, _, _ := c16Actual(env.rc)
	if mustJSON(want) != mustJSON(got) {
		c.violation(-1, "C16/update-during-run-lost", fmt.Sprintf("a comment added to an issue while a slow import run (6 s) had already passed it is never imported: %s", trunc(firstDiff(mustJSON(want), mustJSON(got)), 300)), map[string]any{"want": want, "got": got})
	}
	env.rc.Close()
}

package main

import (
	"encoding/json"
	"fmt"

	"github.com/MichaelMure/git-bug/cache"
	"github.com/MichaelMure/git-bug/entities/bug"
	"github.com/MichaelMure/git-bug/entities/identity"
	"github.com/MichaelMure/git-bug/entity/dag"
	"github.com/MichaelMure/git-bug/repository"
)

func init() { props["C10"] = runC10 }

func mkAuthors(repo repository.ClockedRepo, n int) []identity.Interface {
	var out []identity.Interface
	for i := 0; i < n; i++ {
		id, err := identity.NewIdentity(repo, fmt.Sprintf("author %d", i), fmt.Sprintf("a%d@example.com", i))
		if err != nil {
			panic(err)
		}
		if err := id.Commit(repo); err != nil {
			panic(err)
		}
		out = append(out, id)
	}
	return out
}

func mustJSON(v any) string {
	b, err := json.Marshal(v)
	if err != nil {
		panic(err)
	}
	return string(b)
}

// runC10: random operation sequences built directly from the operation constructors,
// compiled by Bug.Compile (twice: repeatability) and maintained incrementally by the
// cache's snapshot wrapper; the Lean model compiles the same list.
func runC10(c *runCtx) {
	defer cleanupScratch()
	fileSource = randFile // in-memory compilation only: invented hashes are fine
	defer func() { fileSource = nil }()
	repo := newMock()
	authors := mkAuthors(repo, 3)
	rc := mustCache(repo)
	defer rc.Close()

	N := c.pick(250, 4000)
	for i := 0; i < N; i++ {
		g := newOpGen(c.rng.fork(), authors)
		b := bug.NewBug()
		cop := g.create()
		b.Append(cop)
		g.record(cop, true)
		length := c.rng.rangeInt(0, c.pick(25, 120))
		if i%10 == 0 {
			length = c.rng.rangeInt(0, 4)
		}
		tags := map[string]int{}
		var seq []bug.Operation
		for k := 0; k < length; k++ {
			op, isComment, tag := g.next()
			seq = append(seq, op)
			g.record(op, isComment)
			tags[tag]++
			c.count("op=" + tag)
		}
		// metadata for an operation that only comes later in the order (a concurrent edit sorted in
		// front of its target): a no-op, whichever way the bug is compiled
		if len(seq) >= 2 && c.rng.chance(1, 3) {
			at := c.rng.intn(len(seq) - 1)
			target := seq[at+1+c.rng.intn(len(seq)-at-1)].Id()
			early := dag.NewSetMetadataOp[*bug.Snapshot](bug.SetMetadataOp, pickOne(c.rng, authors), 1_600_000_000, target, randMd(c.rng, 1, 1))
			seq = append(seq[:at], append([]bug.Operation{early}, seq[at:]...)...)
			c.count("op=setMetadata:later-target")
		}
		for _, op := range seq {
			b.Append(op)
		}
		var ops []dag.Operation
		for _, o := range b.Operations() {
			ops = append(ops, o)
		}
		in := map[string]any{"ops": opsJSON(ops)}
		snap1 := snapJSON(b.Compile())
		snap2 := snapJSON(b.Compile())
		id := c.emit(in, map[string]any{"snap": snap1, "again": snap2, "n": len(ops)})
		c.count(fmt.Sprintf("len=%d", (len(ops)/10)*10))
		if length > 0 {
			c.nontrivial(mustJSON(in))
		}
		// --- implementation-side oracle (statement of C10, computed independently of the model)
		c10Oracle(c, id, ops, b.Compile())
		if mustJSON(snap1) != mustJSON(snap2) {
			c.violation(id, "C10/repeatable", "compiling twice gives different snapshots", nil)
		}
	}
	c10Incremental(c, rc, authors)
}

// c10Incremental drives the cache's BugCache API (which keeps its snapshot up to date by
// applying each appended operation) and compares, after every call, the served snapshot with
// (a) the model's compilation of the operation list and (b) a from-scratch Bug.Compile of
// the same operation objects.
func c10Incremental(c *runCtx, rc *cache.RepoCache, authors []identity.Interface) {
	N := c.pick(40, 600)
	for i := 0; i < N; i++ {
		r := c.rng.fork()
		a := func() identity.Interface { return pickOne(r, authors) }
		t := int64(1_600_000_000)
		now := func() int64 { t += int64(r.intn(3)); return t }
		bc, _, err := rc.Bugs().NewRaw(a(), now(), pickOne(r, titlePool), pickOne(r, messagePool), randFiles(r), randMd(r, 1, 3))
		if err != nil {
			panic(err)
		}
		length := r.rangeInt(1, c.pick(20, 80))
		for k := 0; k < length; k++ {
			snap := bc.Snapshot()
			var tag string
			switch x := r.intn(9); x {
			case 0, 1:
				_, _, err = bc.AddCommentRaw(a(), now(), pickOne(r, messagePool), randFiles(r), randMd(r, 1, 4))
				tag = "AddComment"
			case 2:
				var add, rem []string
				for _, l := range randLabels(r, 3) {
					add = append(add, string(l))
				}
				for _, l := range randLabels(r, 3) {
					rem = append(rem, string(l))
				}
				_, _, err = bc.ChangeLabelsRaw(a(), now(), add, rem, nil)
				tag = "ChangeLabels"
				if err != nil { // "no label added or removed" is a legitimate refusal
					err = nil
					tag = "ChangeLabels:refused"
				}
			case 3:
				var add, rem []string
				for _, l := range randLabels(r, 2) {
					add = append(add, string(l))
				}
				for _, l := range randLabels(r, 2) {
					rem = append(rem, string(l))
				}
				if len(add)+len(rem) == 0 {
					add = []string{"x"}
				}
				_, err = bc.ForceChangeLabelsRaw(a(), now(), add, rem, nil)
				tag = "ForceChangeLabels"
			case 4:
				if r.chance(1, 2) {
					_, err = bc.OpenRaw(a(), now(), nil)
				} else {
					_, err = bc.CloseRaw(a(), now(), nil)
				}
				tag = "SetStatus"
			case 5:
				_, err = bc.SetTitleRaw(a(), now(), pickOne(r, titlePool), randMd(r, 1, 4))
				tag = "SetTitle"
			case 6:
				cm := pickOne(r, snap.Comments)
				_, err = bc.EditCommentRaw(a(), now(), cm.CombinedId(), pickOne(r, messagePool), nil)
				tag = "EditComment"
			case 7:
				_, _, err = bc.EditCreateCommentRaw(a(), now(), pickOne(r, messagePool), nil)
				tag = "EditCreateComment"
			case 8:
				target := pickOne(r, snap.Operations).Id()
				_, err = bc.SetMetadataRaw(a(), now(), target, randMd(r, 1, 1))
				tag = "SetMetadata"
			}
			if err != nil {
				panic(fmt.Sprintf("%s: %v", tag, err))
			}
			c.count("cache-op=" + tag)
			if r.chance(1, 6) {
				if err := bc.CommitAsNeeded(); err != nil {
					panic(err)
				}
				c.count("cache-op=Commit")
			}
			// check after every call in the thorough tier, at the end in the quick tier
			if !c.thorough() && k != length-1 {
				continue
			}
			served := bc.Snapshot()
			ops := served.Operations
			in := map[string]any{"ops": opsJSON(ops), "via": "cache"}
			sj := snapJSON(served)
			id := c.emit(in, map[string]any{"snap": sj, "again": sj, "n": len(ops)})
			c.nontrivial(mustJSON(in))
			scratch := bug.NewBug()
			for _, o := range ops {
				scratch.Append(o.(bug.Operation))
			}
			if sc := mustJSON(snapJSON(scratch.Compile())); sc != mustJSON(sj) {
				c.violation(id, "C10/incremental", "the snapshot the cache maintains incrementally differs from a compilation from scratch",
					map[string]any{"incremental": sj, "scratch": json.RawMessage(sc)})
			}
			c10Oracle(c, id, ops, served)
		}
	}
}

// c10Oracle evaluates the statement of C10 directly on what the real code compiled, with an
// independent, deliberately naive interpretation of the operation list.
func c10Oracle(c *runCtx, id int, ops []dag.Operation, s *bug.Snapshot) {
	if len(ops) == 0 {
		return
	}
	bugId := ops[0].Id()
	var title string
	status := 1
	labels := map[string]bool{}
	type cm struct {
		opId    string
		message string
		files   []string
		history []string // the original text, then the text of every edit
	}
	var comments []*cm
	actors, participants := []string{}, []string{}
	addOnce := func(l []string, x string) []string {
		for _, y := range l {
			if y == x {
				return l
			}
		}
		return append(l, x)
	}
	nTimeline := 0
	for _, op := range ops {
		a := authorId(op.Author())
		switch o := op.(type) {
		case *bug.CreateOperation:
			title = o.Title
			comments = append(comments, &cm{string(o.Id()), o.Message, hashesStr(o.Files), []string{o.Message}})
			actors, participants = addOnce(actors, a), addOnce(participants, a)
			nTimeline++
		case *bug.AddCommentOperation:
			comments = append(comments, &cm{string(o.Id()), o.Message, hashesStr(o.Files), []string{o.Message}})
			actors, participants = addOnce(actors, a), addOnce(participants, a)
			nTimeline++
		case *bug.EditCommentOperation:
			for _, cc := range comments {
				if cc.opId == string(o.Target) { // the documented meaning: the comment created by operation Target
					cc.message, cc.files = o.Message, hashesStr(o.Files)
					cc.history = append(cc.history, o.Message)
					actors = addOnce(actors, a)
					break
				}
			}
		case *bug.SetTitleOperation:
			title = o.Title
			actors = addOnce(actors, a)
			nTimeline++
		case *bug.SetStatusOperation:
			status = int(o.Status)
			actors = addOnce(actors, a)
			nTimeline++
		case *bug.LabelChangeOperation:
			for _, l := range o.Added {
				labels[string(l)] = true
			}
			for _, l := range o.Removed {
				delete(labels, string(l))
			}
			actors = addOnce(actors, a)
			nTimeline++
		}
	}
	fail := func(key, what string, detail any) { c.violation(id, key, what, detail) }
	if string(s.Id()) != string(bugId) {
		fail("C10/id", "snapshot id is not the id of the first operation", nil)
	}
	if s.Title != title {
		fail("C10/title", fmt.Sprintf("title %q, expected that of the last title change %q", s.Title, title), nil)
	}
	if int(s.Status) != status {
		fail("C10/status", "status is not that of the last status change", nil)
	}
	var wantLabels []string
	for l := range labels {
		wantLabels = append(wantLabels, l)
	}
	sortStrings(wantLabels)
	if mustJSON(labelsStr(s.Labels)) != mustJSON(append([]string{}, wantLabels...)) {
		fail("C10/labels", fmt.Sprintf("labels %v, expected the sorted set %v", s.Labels, wantLabels), nil)
	}
	if len(s.Comments) != len(comments) {
		fail("C10/comments", "not one comment per create/add-comment", nil)
	} else {
		for i, cc := range comments {
			got := s.Comments[i]
			if got.Message != cc.message || mustJSON(hashesStr(got.Files)) != mustJSON(cc.files) || string(got.TargetId()) != cc.opId {
				key := "C10/comment-content"
				if i == 0 && got.Message == cc.message && len(got.Files) == 0 && len(cc.files) > 0 {
					key = "C10/create-comment-files"
				}
				fail(key, fmt.Sprintf("comment %d: message/files are not those of its latest edit (or of its creation): got files %v want %v", i, hashesStr(got.Files), cc.files),
					map[string]any{"got": got.Message, "want": cc.message})
			}
		}
	}
	if mustJSON(idsStr(s.Actors)) != mustJSON(actors) {
		fail("C10/actors", "actors are not each author once in order of first action", map[string]any{"got": idsStr(s.Actors), "want": actors})
	}
	if mustJSON(idsStr(s.Participants)) != mustJSON(participants) {
		fail("C10/participants", "participants are not each commenting author once", nil)
	}
	// the timeline entry of a comment shows the same text and files, with its full edit history
	ci := 0
	for _, it := range s.Timeline {
		var cti *bug.CommentTimelineItem
		switch x := it.(type) {
		case *bug.CreateTimelineItem:
			cti = &x.CommentTimelineItem
		case *bug.AddCommentTimelineItem:
			cti = &x.CommentTimelineItem
		}
		if cti == nil {
			continue
		}
		if ci < len(comments) {
			cc := comments[ci]
			var hist []string
			for _, h := range cti.History {
				hist = append(hist, h.Message)
			}
			if cti.Message != cc.message || mustJSON(hashesStr(cti.Files)) != mustJSON(cc.files) || mustJSON(hist) != mustJSON(cc.history) {
				fail("C10/timeline-comment", fmt.Sprintf("timeline entry of comment %d: text/files/history are not those of its edits: files %v want %v, history of %d steps want %d", ci, hashesStr(cti.Files), cc.files, len(hist), len(cc.history)),
					map[string]any{"got": cti.Message, "want": cc.message})
			}
		}
		ci++
	}
	if ci != len(comments) {
		fail("C10/timeline", fmt.Sprintf("timeline has %d comment entries for %d comments", ci, len(comments)), nil)
	}
	if len(s.Timeline) != nTimeline {
		fail("C10/timeline", fmt.Sprintf("timeline has %d entries for %d state-changing operations", len(s.Timeline), nTimeline), nil)
	}
	// metadata attached later: only to an operation that is already there, never over an existing key
	wantExtra := map[string]map[string]string{}
	seen := map[string]dag.Operation{}
	for _, op := range ops {
		if sm, ok := op.(*dag.SetMetadataOperation[*bug.Snapshot]); ok {
			if t, ok := seen[string(sm.Target)]; ok {
				own := ownMetadata(t)
				for k, v := range sm.NewMetadata {
					if _, has := own[k]; has {
						continue
					}
					if wantExtra[string(sm.Target)] == nil {
						wantExtra[string(sm.Target)] = map[string]string{}
					}
					if _, has := wantExtra[string(sm.Target)][k]; !has {
						wantExtra[string(sm.Target)][k] = v
					}
				}
			}
		}
		seen[string(op.Id())] = op
	}
	for _, op := range s.Operations {
		if got, want := mustJSON(visibleExtra(op)), mustJSON(sortedPairs(wantExtra[string(op.Id())])); got != want {
			fail("C10/metadata", fmt.Sprintf("operation %s carries the later metadata %s, the operations prescribe %s (a set-metadata only reaches an operation that precedes it, and never replaces a key)", op.Id().Human(), got, want), nil)
			break
		}
	}
}

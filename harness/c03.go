package main

import (
	"fmt"

	"github.com/MichaelMure/git-bug/entities/bug"
	"github.com/MichaelMure/git-bug/entities/identity"
	"github.com/MichaelMure/git-bug/entity/dag"
	"github.com/MichaelMure/git-bug/repository"
)

func init() { props["C03"] = runC03 }

// a node of a crafted DAG
type cNode struct {
	parents []int
	pack    craftPack
	hash    repository.Hash
}

// c03Shape builds a random fork/merge shape with natural (valid) clocks: every commit's
// edit time exceeds its parents'. Branch heads are indices into nodes.
func c03Shape(r *rng, authors []identity.Interface, maxCommits int, equalTimes bool) []*cNode {
	g := newOpGen(r.fork(), authors)
	clock := uint64(r.rangeInt(1, 5))
	mkOps := func(first bool, author identity.Interface) []dag.Operation {
		g.authors = []identity.Interface{author}
		var ops []dag.Operation
		if first {
			op := g.create()
			g.record(op, true)
			ops = append(ops, op)
		}
		n := r.rangeInt(0, 2)
		if !first && n == 0 {
			n = 1
		}
		for i := 0; i < n; i++ {
			op, isC, _ := g.next()
			g.record(op, isC)
			ops = append(ops, op)
		}
		return ops
	}
	a0 := pickOne(r, authors)
	nodes := []*cNode{{pack: craftPack{author: string(a0.Id()), ops: mkOps(true, a0), edit: clock, create: uint64(r.rangeInt(1, 9)), version: bugFormatVersion}}}
	heads := []int{0}
	edit := func(n *cNode) uint64 { return n.pack.edit }
	for len(nodes) < maxCommits {
		switch x := r.intn(10); {
		case x < 5: // commit on a branch
			hi := r.intn(len(heads))
			a := pickOne(r, authors)
			var t uint64
			if equalTimes {
				t = edit(nodes[heads[hi]]) + 1 // replicas with equal clocks: ties between branches
			} else {
				clock += uint64(r.rangeInt(1, 3))
				if clock <= edit(nodes[heads[hi]]) {
					clock = edit(nodes[heads[hi]]) + 1
				}
				t = clock
			}
			nodes = append(nodes, &cNode{parents: []int{heads[hi]}, pack: craftPack{author: string(a.Id()), ops: mkOps(false, a), edit: t, version: bugFormatVersion}})
			heads[hi] = len(nodes) - 1
		case x < 8: // fork: a new branch from any existing commit
			from := r.intn(len(nodes))
			a := pickOne(r, authors)
			var t uint64
			if equalTimes {
				t = edit(nodes[from]) + 1
			} else {
				clock += uint64(r.rangeInt(1, 3))
				if clock <= edit(nodes[from]) {
					clock = edit(nodes[from]) + 1
				}
				t = clock
			}
			nodes = append(nodes, &cNode{parents: []int{from}, pack: craftPack{author: string(a.Id()), ops: mkOps(false, a), edit: t, version: bugFormatVersion}})
			heads = append(heads, len(nodes)-1)
		default: // merge two branch heads
			if len(heads) < 2 {
				continue
			}
			i, j := r.intn(len(heads)), r.intn(len(heads))
			if i == j {
				continue
			}
			t := edit(nodes[heads[i]])
			if e := edit(nodes[heads[j]]); e > t {
				t = e
			}
			t++
			if t > clock {
				clock = t
			}
			a := pickOne(r, authors)
			nodes = append(nodes, &cNode{parents: []int{heads[i], heads[j]}, pack: craftPack{author: string(a.Id()), edit: t, version: bugFormatVersion}})
			heads[i] = len(nodes) - 1
			heads = append(heads[:j], heads[j+1:]...)
		}
	}
	// join all remaining heads so that a single head reaches everything
	for len(heads) > 1 {
		t := edit(nodes[heads[0]])
		if e := edit(nodes[heads[1]]); e > t {
			t = e
		}
		a := pickOne(r, authors)
		nodes = append(nodes, &cNode{parents: []int{heads[0], heads[1]}, pack: craftPack{author: string(a.Id()), edit: t + 1, version: bugFormatVersion}})
		heads[0] = len(nodes) - 1
		heads = append(heads[:1], heads[2:]...)
	}
	return nodes
}

var c03Perturbations = []string{"none", "none", "none", "edit=parent", "edit<parent", "jump", "jump-merge", "edit=0", "root-no-create",
	"second-root", "merge-with-ops", "no-version", "wrong-version", "swap-parents", "create-on-child"}

// c03Perturb applies one perturbation; returns a description of where.
func c03Perturb(r *rng, nodes []*cNode, kind string, authors []identity.Interface) string {
	nonRoot := func(pred func(*cNode) bool) *cNode {
		var c []*cNode
		for _, n := range nodes[1:] {
			if pred(n) {
				c = append(c, n)
			}
		}
		if len(c) == 0 {
			return nil
		}
		return pickOne(r, c)
	}
	single := func(n *cNode) bool { return len(n.parents) == 1 }
	merge := func(n *cNode) bool { return len(n.parents) > 1 }
	pe := func(n *cNode) uint64 { return nodes[n.parents[0]].pack.edit }
	// descendants of n (nodes are in creation order)
	desc := func(n *cNode) map[*cNode]bool {
		d := map[*cNode]bool{n: true}
		for _, m := range nodes {
			for _, p := range m.parents {
				if d[nodes[p]] {
					d[m] = true
				}
			}
		}
		delete(d, n)
		return d
	}
	switch kind {
	case "edit=parent":
		if n := nonRoot(single); n != nil {
			n.pack.edit = pe(n)
		}
	case "edit<parent":
		if n := nonRoot(func(*cNode) bool { return true }); n != nil && pe(n) > 1 {
			n.pack.edit = pe(n) - 1
		}
	case "jump":
		// a far jump on a non-merge commit; descendants are shifted so that only this edge is affected
		// (of any size a 64-bit clock can hold: just over the limit, beyond 32 bits, beyond the sign bit)
		if n := nonRoot(single); n != nil {
			j := pickOne(r, []uint64{1_000_001, 1_000_001, 1 << 33, 1<<62 + 7, 1 << 63, 1<<63 + 999})
			for m := range desc(n) {
				m.pack.edit += j + 1
			}
			n.pack.edit = pe(n) + j
		}
	case "jump-merge":
		if n := nonRoot(merge); n != nil {
			for m := range desc(n) {
				m.pack.edit += 2_000_002
			}
			n.pack.edit += 2_000_001
		}
	case "edit=0":
		pickOne(r, nodes).pack.edit = 0
	case "root-no-create":
		nodes[0].pack.create = 0
		// the creation time a later commit carries does not make up for it
		if r.chance(1, 2) && len(nodes) > 1 {
			pickOne(r, nodes[1:]).pack.create = uint64(r.rangeInt(1, 9))
		}
	case "second-root":
		if n := nonRoot(single); n != nil {
			n.parents = nil
			if r.chance(1, 2) {
				n.pack.create = 3
			}
		}
	case "merge-with-ops":
		if n := nonRoot(merge); n != nil {
			g := newOpGen(r.fork(), authors[:1])
			g.commentOps = append(g.commentOps, nodes[0].pack.ops[0].Id())
			g.allOps = g.commentOps
			op, _, _ := g.next()
			n.pack.ops = []dag.Operation{op}
			n.pack.author = string(authors[0].Id())
		}
	case "no-version":
		pickOne(r, nodes).pack.version = 0
	case "wrong-version":
		pickOne(r, nodes).pack.version = pickOne(r, []int{1, 3, 5, 4097})
	case "swap-parents":
		if n := nonRoot(merge); n != nil {
			n.parents[0], n.parents[1] = n.parents[1], n.parents[0]
		}
	case "create-on-child":
		if n := nonRoot(single); n != nil {
			n.pack.create = 7
		}
	}
	return kind
}

func runC03(c *runCtx) {
	defer cleanupScratch()
	N := c.pick(250, 6000)
	goGitEvery := c.pick(25, 40)
	var gg repository.TestedRepo
	var ggAuthors []identity.Interface
	mock := newMock()
	mockAuthors := mkAuthors(mock, 2)
	for i := 0; i < N; i++ {
		r := c.rng.fork()
		repo, authors, backend := repository.TestedRepo(mock), mockAuthors, "mock"
		if i%goGitEvery == goGitEvery-1 {
			if gg == nil {
				gg, _ = newGoGit("c03", false)
				ggAuthors = mkAuthors(gg, 2)
			}
			repo, authors, backend = gg, ggAuthors, "gogit"
		}
		size := r.rangeInt(1, c.pick(9, 16))
		if i < 40 {
			size = 1 + i%5
		}
		nodes := c03Shape(r, authors, size, r.chance(1, 3))
		kind := c03Perturb(r, nodes, pickOne(r, c03Perturbations), authors)
		for _, n := range nodes {
			var ps []repository.Hash
			for _, p := range n.parents {
				ps = append(ps, nodes[p].hash)
			}
			n.hash = writeCrafted(repo, n.pack, ps...)
		}
		head := nodes[len(nodes)-1].hash
		bugId := nodes[0].pack.ops[0].Id()
		ref := "refs/bugs/" + string(bugId)
		if err := repo.UpdateRef(ref, head); err != nil {
			panic(err)
		}
		// --- the real code
		var out map[string]any
		var b *bug.Bug
		var err error
		ceBefore, ccBefore := clockTime(repo, "bugs-edit"), clockTime(repo, "bugs-create")
		if p := recoverTo(func() { b, err = bug.Read(repo, bugId) }); p != "" {
			out = map[string]any{"panic": p}
			c.violation(c.nCases, "C03/panic", "reading a crafted history panicked: "+p, kind)
		} else if err != nil {
			out = map[string]any{"err": readErrClass(err)}
			// a history that is refused is not taken in: the reader's clocks do not move by it (they would put
			// the next honest commit implausibly far ahead of its parent)
			if ce, cc := clockTime(repo, "bugs-edit"), clockTime(repo, "bugs-create"); ce != ceBefore || cc != ccBefore {
				c.violation(c.nCases, "C03/refused-but-witnessed", fmt.Sprintf("a refused history (perturbation %q: %v) moved the reader's clocks from edit=%d create=%d to edit=%d create=%d", kind, err, ceBefore, ccBefore, ce, cc), kind)
			}
		} else {
			var ids []string
			for _, o := range b.Operations() {
				ids = append(ids, string(o.Id()))
			}
			out = map[string]any{"ops": ids, "create": uint64(b.CreateLamportTime()), "edit": uint64(b.EditLamportTime())}
			// reading again gives the same order
			b2, err2 := bug.Read(repo, bugId)
			if err2 != nil {
				c.violation(c.nCases, "C03/reread", "second read of the same history failed: "+err2.Error(), kind)
			} else {
				for k, o := range b2.Operations() {
					if k >= len(ids) || string(o.Id()) != ids[k] {
						c.violation(c.nCases, "C03/deterministic", "reading the same history twice gave different orders", kind)
						break
					}
				}
			}
		}
		commits := dumpCommits(repo, head)
		id := c.emit(map[string]any{"cmd": "read", "commits": commits, "head": string(head), "perturbation": kind, "backend": backend}, out)
		c.count("perturbation=" + kind)
		c.count("backend=" + backend)
		if e, ok := out["err"]; ok {
			c.count(fmt.Sprintf("result=err:%v", e))
		} else {
			c.count("result=ok")
		}
		if len(nodes) > 1 {
			c.nontrivial(mustJSON(commits))
		}
		// --- implementation-side oracle: causality and the (edit, pack id) order
		if ids, ok := out["ops"].([]string); ok {
			c03Oracle(c, id, nodes, ids, kind)
		} else if kind == "none" || kind == "swap-parents" || kind == "jump-merge" || kind == "create-on-child" {
			c.violation(id, "C03/refused-valid", fmt.Sprintf("a well-formed history (perturbation %q) was refused: %v", kind, out), nil)
		}
		repo.RemoveRef(ref)
	}
}

// c03Oracle: an operation never precedes one of an ancestor commit or an earlier one of
// its own commit; concurrent commits are ordered by edit time, then pack id.
func c03Oracle(c *runCtx, id int, nodes []*cNode, order []string, kind string) {
	pos := map[string]int{}
	for i, o := range order {
		pos[o] = i
	}
	// ancestors by transitive closure (nodes are in creation order: parents have smaller indices,
	// except after "second-root", which is refused anyway)
	anc := make([]map[int]bool, len(nodes))
	for i, n := range nodes {
		anc[i] = map[int]bool{}
		for _, p := range n.parents {
			anc[i][p] = true
			for a := range anc[p] {
				anc[i][a] = true
			}
		}
	}
	// only what the head reaches counts (a perturbation may have cut a part off)
	reachable := map[int]bool{len(nodes) - 1: true}
	for a := range anc[len(nodes)-1] {
		reachable[a] = true
	}
	// a history that is read must be well formed (C03: malformed histories are refused)
	roots := 0
	for i, n := range nodes {
		if !reachable[i] {
			continue
		}
		if len(n.parents) == 0 {
			roots++
			if n.pack.create == 0 {
				c.violation(id, "C03/accepted-malformed", "a history whose root has no creation time was read instead of refused", kind)
			}
		}
		if len(n.parents) > 1 && len(n.pack.ops) > 0 {
			c.violation(id, "C03/accepted-malformed", "a history with a merge commit carrying operations was read instead of refused", kind)
		}
		if n.pack.version != bugFormatVersion || n.pack.edit == 0 {
			c.violation(id, "C03/accepted-malformed", "a history with a wrong format version or a zero edit time was read instead of refused", kind)
		}
		for _, p := range n.parents {
			pe := nodes[p].pack.edit
			if pe >= n.pack.edit {
				c.violation(id, "C03/accepted-malformed", fmt.Sprintf("a history whose clocks contradict ancestry (parent %d, child %d) was read instead of refused", pe, n.pack.edit), kind)
			} else if len(n.parents) == 1 && n.pack.edit-pe > 1_000_000 {
				c.violation(id, "C03/accepted-malformed", "a history with an implausible clock jump on a non-merge commit was read instead of refused", kind)
			}
		}
	}
	if roots > 1 {
		c.violation(id, "C03/accepted-malformed", "a history with several roots was read instead of refused", kind)
	}
	total := 0
	for i, n := range nodes {
		if !reachable[i] {
			continue
		}
		total += len(n.pack.ops)
		for k, o := range n.pack.ops {
			pi, ok := pos[string(o.Id())]
			if !ok {
				c.violation(id, "C03/missing-op", "an operation of a reachable commit is missing from the read entity", kind)
				return
			}
			if k > 0 && pos[string(n.pack.ops[k-1].Id())] != pi-1 {
				c.violation(id, "C03/pack-order", "operations of one commit are not contiguous in stored order", kind)
				return
			}
			for a := range anc[i] {
				for _, ao := range nodes[a].pack.ops {
					if pos[string(ao.Id())] > pi {
						c.violation(id, "C03/causal", "an operation is placed before one of an ancestor commit", kind)
						return
					}
				}
			}
		}
	}
	if total != len(order) {
		c.violation(id, "C03/count", "the read entity has operations that no reachable commit holds (or twice)", kind)
	}
	// concurrent (neither is an ancestor of the other) non-empty commits: by edit time
	for i, n := range nodes {
		for j, m := range nodes {
			if i >= j || !reachable[i] || !reachable[j] || anc[i][j] || anc[j][i] || len(n.pack.ops) == 0 || len(m.pack.ops) == 0 {
				continue
			}
			pn, pm := pos[string(n.pack.ops[0].Id())], pos[string(m.pack.ops[0].Id())]
			if n.pack.edit < m.pack.edit && pn > pm || n.pack.edit > m.pack.edit && pn < pm {
				c.violation(id, "C03/concurrent-order", "concurrent commits are not ordered by logical edit time", kind)
				return
			}
			if n.pack.edit == m.pack.edit {
				c.count("tie=edit-time")
			}
		}
	}
}

package main

import (
	"fmt"
	"sort"
	"strings"
	"unicode"

	"github.com/MichaelMure/git-bug/cache"
	"github.com/MichaelMure/git-bug/entity"
	"github.com/MichaelMure/git-bug/query"
	"github.com/MichaelMure/git-bug/repository"
)

func init() { props["C12"] = runC12 }

func parseErrClass(err error) string {
	m := err.Error()
	switch {
	case strings.Contains(m, "unmatched quote"):
		return "unmatchedQuote"
	case strings.Contains(m, "empty qualifier or value"):
		return "emptyQualifierOrValue"
	case strings.Contains(m, "too many separators"):
		return "tooManySeparators"
	case strings.Contains(m, "unknown status"):
		return "unknownStatus"
	case strings.Contains(m, "unknown \"no\" filter"):
		return "unknownNo"
	case strings.Contains(m, "multiple sorting"):
		return "multipleSort"
	case strings.Contains(m, "unknown sorting"):
		return "unknownSort"
	case strings.Contains(m, "unknown qualifier"):
		return "unknownQualifier"
	}
	return "other:" + m
}

func queryJSON(q *query.Query) map[string]any {
	strs := func(l []string) []string {
		if l == nil {
			return []string{}
		}
		return l
	}
	st := []int{}
	for _, s := range q.Status {
		st = append(st, int(s))
	}
	md := [][]string{}
	for _, p := range q.Metadata {
		md = append(md, []string{p.Key, p.Value})
	}
	ob := map[query.OrderBy]string{query.OrderById: "id", query.OrderByCreation: "creation", query.OrderByEdit: "edit"}[q.OrderBy]
	dir := map[query.OrderDirection]string{query.OrderAscending: "asc", query.OrderDescending: "desc"}[q.OrderDirection]
	return map[string]any{"search": strs(q.Search), "status": st, "author": strs(q.Author), "metadata": md, "actor": strs(q.Actor),
		"participant": strs(q.Participant), "label": strs(q.Label), "title": strs(q.Title), "noLabel": q.NoLabel, "orderBy": ob, "dir": dir}
}

// envTables: which runes of s are spaces; clean/lower tables for every quoted or unquoted value
// that can occur as a token value (we simply provide them for every substring between separators).
func spacesOf(s string) []int {
	seen := map[rune]bool{}
	out := []int{}
	for _, r := range s {
		if unicode.IsSpace(r) && !seen[r] {
			seen[r] = true
			out = append(out, int(r))
		}
	}
	return out
}

// candidate values = all substrings delimited by ':' / quotes / spaces; cheap over-approximation:
// every contiguous piece between any two delimiter positions would be quadratic, so we take the
// pieces the grammar can produce: split on ':' keeping quoted spans, then strip one quote pair.
func valueTables(s string) (clean, lower [][]string) {
	seen := map[string]bool{}
	add := func(v string) {
		if seen[v] {
			return
		}
		seen[v] = true
		if c := strings.ToLower(strings.TrimSpace(v)); c != v {
			clean = append(clean, []string{v, c})
		}
		if l := strings.ToLower(v); l != v {
			lower = append(lower, []string{v, l})
		}
	}
	// candidate values: every run between two delimiters (space, ':', quote), for every pair of
	// delimiter positions — a superset of what the lexer can produce, and small
	rs := []rune(s)
	cuts := []int{0}
	for i, r := range rs {
		if unicode.IsSpace(r) || r == ':' || r == '"' || r == '\'' {
			cuts = append(cuts, i, i+1)
		}
	}
	cuts = append(cuts, len(rs))
	if len(cuts) > 80 {
		cuts = cuts[:80]
	}
	for _, a := range cuts {
		for _, b := range cuts {
			if a < b {
				add(string(rs[a:b]))
			}
		}
	}
	if clean == nil {
		clean = [][]string{}
	}
	if lower == nil {
		lower = [][]string{}
	}
	return
}

var c12Alphabet = []string{"a", "b", "status", "open", "closed", "OPEN", "author", "actor", "participant", "label", "title", "no", "sort",
	"metadata", "state", "edit", "creation", "id", "-asc", "-desc", ":", ":", ":", " ", " ", "\"", "'", "\t", "é", "Ünï", "x y", " ", "key", "rené", "René"}

func randQueryString(r *rng) string {
	var sb strings.Builder
	n := r.rangeInt(0, 9)
	for i := 0; i < n; i++ {
		sb.WriteString(pickOne(r, c12Alphabet))
	}
	return sb.String()
}

// quote a value the way doc/queries.md says
func renderValue(r *rng, v string) string {
	needs := strings.ContainsAny(v, " :\t") || v == ""
	hasD, hasS := strings.Contains(v, "\""), strings.Contains(v, "'")
	switch {
	case hasD && hasS:
		return v // not expressible; the parse result is whatever it is
	case hasD:
		return "'" + v + "'"
	case hasS:
		return "\"" + v + "\""
	case needs || r.chance(1, 4):
		return "\"" + v + "\""
	}
	return v
}

type structQuery struct {
	parts []string
	want  map[string]any
}

// a structured query over the grammar of doc/queries.md and what it denotes
func randStructQuery(r *rng, names, labels, titles []string) (string, map[string]any) {
	want := map[string]any{"search": []string{}, "status": []int{}, "author": []string{}, "metadata": [][]string{}, "actor": []string{},
		"participant": []string{}, "label": []string{}, "title": []string{}, "noLabel": false, "orderBy": "creation", "dir": "desc"}
	var parts []string
	appendS := func(k, v string) { want[k] = append(want[k].([]string), v) }
	sorted := false
	n := r.rangeInt(0, 5)
	for i := 0; i < n; i++ {
		switch r.intn(9) {
		case 0:
			if r.chance(1, 2) {
				parts = append(parts, pickOne(r, []string{"status:open", "state:open", "status:OPEN", "status:\" open\""}))
				want["status"] = append(want["status"].([]int), 1)
			} else {
				parts = append(parts, pickOne(r, []string{"status:closed", "status:Closed"}))
				want["status"] = append(want["status"].([]int), 2)
			}
		case 1:
			v := pickOne(r, names)
			parts = append(parts, "author:"+renderValue(r, v))
			appendS("author", v)
		case 2:
			v := pickOne(r, names)
			parts = append(parts, "actor:"+renderValue(r, v))
			appendS("actor", v)
		case 3:
			v := pickOne(r, names)
			parts = append(parts, "participant:"+renderValue(r, v))
			appendS("participant", v)
		case 4:
			v := pickOne(r, labels)
			parts = append(parts, "label:"+renderValue(r, v))
			appendS("label", v)
		case 5:
			v := pickOne(r, titles)
			parts = append(parts, "title:"+renderValue(r, v))
			appendS("title", v)
		case 6:
			parts = append(parts, "no:label")
			want["noLabel"] = true
		case 7:
			k, v := pickOne(r, mdKeyPool[:4]), pickOne(r, []string{"v", "42", "https://example.com/x?y=1", "a b"})
			parts = append(parts, "metadata:"+renderValue(r, k)+":"+renderValue(r, v))
			want["metadata"] = append(want["metadata"].([][]string), []string{k, v})
		case 8:
			if !sorted {
				sorted = true
				s := pickOne(r, []string{"id", "id-asc", "id-desc", "creation", "creation-asc", "creation-desc", "edit", "edit-asc", "edit-desc"})
				parts = append(parts, "sort:"+s)
				ob := strings.Split(s, "-")[0]
				dir := map[string]string{"id": "asc", "creation": "desc", "edit": "desc"}[ob]
				if strings.HasSuffix(s, "-asc") {
					dir = "asc"
				} else if strings.HasSuffix(s, "-desc") {
					dir = "desc"
				}
				want["orderBy"], want["dir"] = ob, dir
			}
		}
	}
	return strings.Join(parts, pickOne(r, []string{" ", "  ", "\t"})), want
}

func runC12(c *runCtx) {
	defer cleanupScratch()
	// (i) raw strings: never panics, same query or same error class as the model
	N := c.pick(3000, 150000)
	for i := 0; i < N; i++ {
		s := randQueryString(c.rng)
		clean, lower := valueTables(s)
		var out map[string]any
		var q *query.Query
		var err error
		if p := recoverTo(func() { q, err = query.Parse(s) }); p != "" {
			c.violation(c.nCases, "C12/panic", fmt.Sprintf("query.Parse(%q) panicked: %s", s, p), nil)
			out = map[string]any{"panic": p}
		} else if err != nil {
			out = map[string]any{"err": parseErrClass(err)}
			c.count("parse=err:" + parseErrClass(err))
		} else {
			out = map[string]any{"ok": queryJSON(q)}
			c.count("parse=ok")
		}
		c.emit(map[string]any{"cmd": "parse", "s": s, "spaces": spacesOf(s), "clean": clean, "lower": lower}, out)
		c.nontrivial(s)
	}
	// (i') at most one sort: every ordered pair of sort values (and some triples), alone and among other
	// qualifiers, is refused — whatever the first one is, the default included
	sorts := []string{"id", "id-asc", "id-desc", "creation", "creation-asc", "creation-desc", "edit", "edit-asc", "edit-desc"}
	for _, s1 := range sorts {
		for _, s2 := range sorts {
			for _, form := range []string{"sort:%s sort:%s", "status:open sort:%s label:x sort:%s", "sort:%s word sort:%s", "sort:%s sort:creation sort:%s"} {
				s := fmt.Sprintf(form, s1, s2)
				clean, lower := valueTables(s)
				q, err := query.Parse(s)
				var out map[string]any
				if err != nil {
					out = map[string]any{"err": parseErrClass(err)}
				} else {
					out = map[string]any{"ok": queryJSON(q)}
				}
				id := c.emit(map[string]any{"cmd": "parse", "s": s, "spaces": spacesOf(s), "clean": clean, "lower": lower}, out)
				c.count("parse=two-sorts")
				if err == nil {
					c.violation(id, "C12/malformed-accepted", fmt.Sprintf("a query with more than one sort was accepted: %q", s), nil)
				}
			}
		}
	}
	// (ii) structured queries: round trip through the documented grammar
	names := []string{"rené", "René Descartes", "descartes", "bob", "B", "user's"}
	labels := []string{"bug", "good first issue", "prio:high", "étiquette", "a\"b"}
	titles := []string{"crash", "Ünï", "two words", "it's"}
	M := c.pick(1500, 30000)
	for i := 0; i < M; i++ {
		s, want := randStructQuery(c.rng, names, labels, titles)
		q, err := query.Parse(s)
		clean, lower := valueTables(s)
		var out map[string]any
		if err != nil {
			out = map[string]any{"err": parseErrClass(err)}
		} else {
			out = map[string]any{"ok": queryJSON(q)}
		}
		id := c.emit(map[string]any{"cmd": "parse", "s": s, "spaces": spacesOf(s), "clean": clean, "lower": lower}, out)
		if err != nil {
			c.violation(id, "C12/roundtrip", fmt.Sprintf("a query of the documented grammar was rejected: %q: %v", s, err), nil)
		} else if mustJSON(queryJSON(q)) != mustJSON(want) {
			c.violation(id, "C12/roundtrip", fmt.Sprintf("query %q does not parse to what it denotes", s), map[string]any{"got": queryJSON(q), "want": want})
		}
		c.count("roundtrip")
	}
	c12Eval(c, names, labels, titles)
	c12Search(c)
}

// (iv) full-text search through the real index (bleve, go-git backend): a query with a search
// term returns every bug whose title contains the word, however many there are.
func c12Search(c *runCtx) {
	repo, _ := newGoGit("search", false)
	rc := mustCache(repo)
	defer rc.Close()
	iden, err := rc.Identities().New("searcher", "s@example.com")
	if err != nil {
		panic(err)
	}
	rc.SetUserIdentity(iden)
	want := map[string]bool{}
	n := c.rng.rangeInt(12, 25)
	for i := 0; i < n; i++ {
		b, _, err := rc.Bugs().New(fmt.Sprintf("zebra crossing %d", i), "body")
		if err != nil {
			panic(err)
		}
		want[string(b.Id())] = true
	}
	for i := 0; i < 5; i++ {
		rc.Bugs().New(fmt.Sprintf("unrelated %d", i), "body")
	}
	for _, qs := range []string{"zebra", "zebra status:open", "zebra sort:id"} {
		q, err := query.Parse(qs)
		if err != nil {
			panic(err)
		}
		res, err := rc.Bugs().Query(q)
		if err != nil {
			panic(err)
		}
		got := map[string]bool{}
		for _, id := range res {
			got[string(id)] = true
		}
		missing := 0
		for id := range want {
			if !got[id] {
				missing++
			}
		}
		c.count("search-queries")
		if missing > 0 || len(res) != len(want) {
			c.violation(-1, "C12/search-truncated", fmt.Sprintf("query %q over %d bugs titled \"zebra ...\" returned %d of them", qs, len(want), len(res)), nil)
		}
	}
}

func lowerPairs(vals []string) [][]string {
	out := [][]string{}
	for _, v := range vals {
		if l := strings.ToLower(v); l != v {
			out = append(out, []string{v, l})
		}
	}
	return out
}

// (iii) evaluation over populations through RepoCacheBug.Query
func c12Eval(c *runCtx, names, labels, titles []string) {
	P := c.pick(6, 20)
	for pi := 0; pi < P; pi++ {
		r := c.rng.fork()
		// every other population is written on two replicas and brought together by a pull: the two
		// sets of clocks run side by side, so creation and edit Lamport times tie and the
		// documented tie-break (the timestamps) decides the order
		twoSided := pi%2 == 1
		var rc, rcA *cache.RepoCache
		if twoSided {
			remote, _ := newGoGit("c12remote", true)
			repoA, _ := newGoGit("c12a", false)
			repoB, _ := newGoGit("c12b", false)
			for _, rp := range []repository.TestedRepo{repoA, repoB} {
				if err := rp.AddRemote("origin", remote.GetLocalRemote()); err != nil {
					panic(err)
				}
			}
			rcA, rc = mustCache(repoA), mustCache(repoB)
			defer remote.Close()
		} else {
			rc = mustCache(newMock())
			rcA = rc
		}
		var idents []*cache.IdentityCache
		for i, n := range []string{"René Descartes", "bob", "Alice B"} {
			ic, err := rcA.Identities().NewRaw(n, "x@example.com", []string{"", "rene", "BOB"}[i], "", nil, nil)
			if err != nil {
				panic(err)
			}
			idents = append(idents, ic)
		}
		rcA.SetUserIdentity(idents[0])
		identsB := idents
		if twoSided {
			if _, err := rcA.Push("origin"); err != nil {
				panic(err)
			}
			// a pull needs a user identity (for merge commits) before the shared ones have arrived
			own, err := rc.Identities().NewRaw("puller", "p@example.com", "", "", nil, nil)
			if err != nil {
				panic(err)
			}
			rc.SetUserIdentity(own)
			if err := rc.Pull("origin"); err != nil {
				panic(err)
			}
			identsB = nil
			for _, ic := range idents {
				ib, err := rc.Identities().Resolve(ic.Id())
				if err != nil {
					panic(err)
				}
				identsB = append(identsB, ib)
			}
			rc.SetUserIdentity(identsB[0])
		}
		nb := r.rangeInt(10, c.pick(30, 60))
		t := int64(1_600_000_000)
		usedTick := map[int64]bool{}
		tick := func() int64 {
			if twoSided {
				// timestamps in no particular relation to the clocks; one population in two draws them
				// from so few values that bugs tie in clock and timestamp, and the id decides
				if pi%4 == 3 {
					return 1_600_000_000 + int64(r.intn(6))
				}
				for {
					u := 1_600_000_000 + int64(r.intn(4000))
					if !usedTick[u] {
						usedTick[u] = true
						return u
					}
				}
			}
			t += int64(r.intn(3))
			return t
		}
		for i := 0; i < nb; i++ {
			side, ids := rcA, idents
			if twoSided && r.chance(1, 2) {
				side, ids = rc, identsB
			}
			a := pickOne(r, ids)
			title := pickOne(r, titles) + " " + pickOne(r, []string{"one", "Two", "crash again", "ünï"})
			var md map[string]string
			if r.chance(1, 3) {
				md = map[string]string{pickOne(r, mdKeyPool[:4]): pickOne(r, []string{"v", "42", "https://example.com/x?y=1", "a b"})}
			}
			b, _, err := side.Bugs().NewRaw(a.Identity, tick(), title, "message", nil, md)
			if err != nil {
				panic(err)
			}
			for k := 0; k < r.intn(4); k++ {
				switch r.intn(4) {
				case 0:
					b.AddCommentRaw(pickOne(r, ids).Identity, tick(), "comment", nil, nil)
				case 1:
					b.ForceChangeLabelsRaw(pickOne(r, ids).Identity, tick(), []string{pickOne(r, labels)}, nil, nil)
				case 2:
					b.CloseRaw(pickOne(r, ids).Identity, tick(), nil)
				case 3:
					b.SetTitleRaw(pickOne(r, ids).Identity, tick(), pickOne(r, titles)+" retitled", nil)
				}
			}
			b.CommitAsNeeded()
		}
		if twoSided {
			if _, err := rcA.Push("origin"); err != nil {
				panic(err)
			}
			if err := rc.Pull("origin"); err != nil {
				panic(err)
			}
			rcA.Close()
		}
		// population as the cache sees it
		var idj []map[string]any
		for _, id := range rc.Identities().AllIds() {
			ex, _ := rc.Identities().ResolveExcerpt(id)
			idj = append(idj, map[string]any{"id": string(id), "nameLower": strings.ToLower(ex.Name), "loginLower": strings.ToLower(ex.Login)})
		}
		sort.Slice(idj, func(i, j int) bool { return idj[i]["id"].(string) < idj[j]["id"].(string) })
		var pop []map[string]any
		ids := rc.Bugs().AllIds()
		sort.Slice(ids, func(i, j int) bool { return ids[i] < ids[j] })
		for _, id := range ids {
			ex, _ := rc.Bugs().ResolveExcerpt(id)
			pop = append(pop, map[string]any{"id": string(id), "status": int(ex.Status), "labels": labelsStr(ex.Labels),
				"titleLower": strings.ToLower(ex.Title), "author": string(ex.AuthorId), "actors": idStrs(ex.Actors),
				"participants": idStrs(ex.Participants), "createMetadata": sortedPairs(ex.CreateMetadata),
				"createLamport": uint64(ex.CreateLamportTime), "createUnix": ex.CreateUnixTime,
				"editLamport": uint64(ex.EditLamportTime), "editUnix": ex.EditUnixTime})
		}
		Q := c.pick(120, 400)
		var queries []string
		var outs []any
		allVals := append(append(append([]string{}, names...), labels...), titles...)
		for k := 0; k < Q; k++ {
			s, _ := randStructQuery(r, append(names, string(ids[0])[:5], upperPrefix(string(ids[1]))), labels, titles)
			if k%8 == 7 {
				// any-of within one kind: two or three metadata qualifiers on the same key with different values
				// (and status, author, actor, participant given several times)
				key := pickOne(r, mdKeyPool[:4])
				vals := []string{"v", "42", "https://example.com/x?y=1", "a b"}
				i0 := r.intn(len(vals))
				s = "metadata:" + renderValue(r, key) + ":" + renderValue(r, vals[i0]) + " metadata:" + renderValue(r, key) + ":" + renderValue(r, vals[(i0+1+r.intn(3))%4])
				if r.chance(1, 3) {
					s += " metadata:" + renderValue(r, pickOne(r, mdKeyPool[:4])) + ":" + renderValue(r, pickOne(r, vals))
				}
				if r.chance(1, 2) {
					s += " status:open status:closed"
				}
				if r.chance(1, 3) {
					s += " author:bob author:rene"
				}
			}
			if twoSided && !strings.Contains(s, "sort:") && r.chance(1, 2) {
				// where clocks tie, ask for the order that the timestamps must decide
				s = strings.TrimSpace(s + " sort:" + pickOne(r, []string{"edit", "edit-asc", "edit-desc", "creation-asc"}))
			}
			q, err := query.Parse(s)
			if err != nil {
				continue
			}
			res, err := rc.Bugs().Query(q)
			if err != nil {
				panic(err)
			}
			queries = append(queries, s)
			outs = append(outs, map[string]any{"ids": idStrs(res)})
			c.count(fmt.Sprintf("eval-hits=%d", min(len(res)/5*5, 30)))
			// oracle: exactly the bugs that satisfy the query as documented (naive evaluation)
			wantSet := map[entity.Id]bool{}
			for _, bid := range ids {
				ex, _ := rc.Bugs().ResolveExcerpt(bid)
				identOK := func(iid entity.Id, v string) bool {
					ie, err := rc.Identities().ResolveExcerpt(iid)
					if err != nil {
						return false
					}
					lv := strings.ToLower(v)
					return strings.HasPrefix(string(iid), lv) || strings.Contains(strings.ToLower(ie.Name), lv) || strings.Contains(strings.ToLower(ie.Login), lv)
				}
				anyOf := func(vals []string, f func(string) bool) bool {
					if len(vals) == 0 {
						return true
					}
					for _, v := range vals {
						if f(v) {
							return true
						}
					}
					return false
				}
				ok := true
				if len(q.Status) > 0 {
					m := false
					for _, st := range q.Status {
						m = m || st == ex.Status
					}
					ok = ok && m
				}
				ok = ok && anyOf(q.Author, func(v string) bool { return identOK(ex.AuthorId, v) })
				ok = ok && anyOf(q.Actor, func(v string) bool {
					for _, a := range ex.Actors {
						if identOK(a, v) {
							return true
						}
					}
					return false
				})
				ok = ok && anyOf(q.Participant, func(v string) bool {
					for _, a := range ex.Participants {
						if identOK(a, v) {
							return true
						}
					}
					return false
				})
				if len(q.Metadata) > 0 {
					m := false
					for _, p := range q.Metadata {
						if v, has := ex.CreateMetadata[p.Key]; has && v == p.Value {
							m = true
						}
					}
					ok = ok && m
				}
				for _, l := range q.Label {
					has := false
					for _, el := range ex.Labels {
						has = has || string(el) == l
					}
					ok = ok && has
				}
				for _, t := range q.Title {
					ok = ok && strings.Contains(strings.ToLower(ex.Title), strings.ToLower(t))
				}
				if q.NoLabel {
					ok = ok && len(ex.Labels) == 0
				}
				if ok {
					wantSet[bid] = true
				}
			}
			gotSet := map[entity.Id]bool{}
			for _, id := range res {
				gotSet[id] = true
			}
			for id := range wantSet {
				if !gotSet[id] {
					c.violation(c.nCases, "C12/missing-match", fmt.Sprintf("query %q does not return bug %s which satisfies it", s, id.Human()), nil)
					break
				}
			}
			for id := range gotSet {
				if !wantSet[id] {
					c.violation(c.nCases, "C12/false-match", fmt.Sprintf("query %q returns bug %s which does not satisfy it", s, id.Human()), nil)
					break
				}
			}
			// sorted by the requested key and direction
			for k2 := 1; k2 < len(res); k2++ {
				a, _ := rc.Bugs().ResolveExcerpt(res[k2-1])
				b, _ := rc.Bugs().ResolveExcerpt(res[k2])
				var inOrder bool
				switch q.OrderBy {
				case query.OrderById:
					inOrder = a.Id() <= b.Id()
				case query.OrderByCreation:
					inOrder = a.CreateLamportTime < b.CreateLamportTime || a.CreateLamportTime == b.CreateLamportTime && (a.CreateUnixTime < b.CreateUnixTime || a.CreateUnixTime == b.CreateUnixTime && a.Id() <= b.Id())
				default:
					inOrder = a.EditLamportTime < b.EditLamportTime || a.EditLamportTime == b.EditLamportTime && (a.EditUnixTime < b.EditUnixTime || a.EditUnixTime == b.EditUnixTime && a.Id() <= b.Id())
				}
				if q.OrderDirection == query.OrderDescending {
					switch q.OrderBy {
					case query.OrderById:
						inOrder = a.Id() >= b.Id()
					case query.OrderByCreation:
						inOrder = a.CreateLamportTime > b.CreateLamportTime || a.CreateLamportTime == b.CreateLamportTime && (a.CreateUnixTime > b.CreateUnixTime || a.CreateUnixTime == b.CreateUnixTime && a.Id() >= b.Id())
					default:
						inOrder = a.EditLamportTime > b.EditLamportTime || a.EditLamportTime == b.EditLamportTime && (a.EditUnixTime > b.EditUnixTime || a.EditUnixTime == b.EditUnixTime && a.Id() >= b.Id())
					}
					if a.EditLamportTime == b.EditLamportTime || a.CreateLamportTime == b.CreateLamportTime {
						c.count("eval-adjacent-clock-ties")
					}
				}
				if q.OrderBy == query.OrderByEdit && a.EditLamportTime == b.EditLamportTime {
					c.count("eval-edit-order-decided-by-timestamp")
					if (a.CreateUnixTime < b.CreateUnixTime) != (a.EditUnixTime < b.EditUnixTime) {
						c.count("eval-edit-order-decided-by-timestamp-against-creation-timestamp")
					}
				}
				if q.OrderBy == query.OrderByCreation && a.CreateLamportTime == b.CreateLamportTime {
					c.count("eval-creation-order-decided-by-timestamp")
					if a.CreateUnixTime == b.CreateUnixTime {
						c.count("eval-order-decided-by-id")
					}
				}
				if q.OrderBy == query.OrderByEdit && a.EditLamportTime == b.EditLamportTime && a.EditUnixTime == b.EditUnixTime {
					c.count("eval-order-decided-by-id")
				}
				if !inOrder {
					c.violation(c.nCases, "C12/unsorted", fmt.Sprintf("result of %q is not sorted by the requested key (clock, then timestamp, then id) and direction", s), nil)
					break
				}
			}
			// each once
			seen := map[entity.Id]bool{}
			for _, id := range res {
				if seen[id] {
					c.violation(c.nCases, "C12/duplicate", fmt.Sprintf("query %q returned a bug twice", s), nil)
				}
				seen[id] = true
			}
		}
		clean, lower := [][]string{}, lowerPairs(append(allVals, string(ids[0])[:5], upperPrefix(string(ids[1]))))
		for _, v := range []string{"OPEN", "Closed", " open"} {
			clean = append(clean, []string{v, strings.ToLower(strings.TrimSpace(v))})
		}
		c.emit(map[string]any{"cmd": "eval", "queries": queries, "spaces": []int{32, 9}, "clean": clean, "lower": lower, "idents": idj, "pop": pop}, outs)
		c.nontrivial(mustJSON(pop))
		rc.Close()
	}
}

func idStrs(l []entity.Id) []string {
	out := make([]string, 0, len(l))
	for _, x := range l {
		out = append(out, string(x))
	}
	return out
}

// upperPrefix: an id prefix in upper case that differs from the id's own spelling: the shortest prefix of at
// least four characters that holds a hex letter (an all-digit prefix reads the same in both cases)
func upperPrefix(id string) string {
	for n := 4; n <= len(id); n++ {
		if strings.ContainsAny(id[:n], "abcdef") {
			return strings.ToUpper(id[:n])
		}
	}
	return strings.ToUpper(id)
}

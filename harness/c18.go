package main

import (
	"fmt"
	"os"
	"os/exec"
	"path/filepath"
	"runtime"
	"sort"
	"strings"
	"sync"
	"sync/atomic"
	"time"

	"github.com/go-git/go-billy/v5"

	"github.com/MichaelMure/git-bug/cache"
	"github.com/MichaelMure/git-bug/entities/bug"
	"github.com/MichaelMure/git-bug/entities/identity"
	"github.com/MichaelMure/git-bug/entity"
	"github.com/MichaelMure/git-bug/query"
	"github.com/MichaelMure/git-bug/repository"
)

func init() { props["C18"] = runC18 }

type c18Ack struct {
	worker  int
	bug     entity.Id
	op      entity.Id
	pending bool // appended with success, not committed by its own worker
}

func runC18(c *runCtx) {
	defer cleanupScratch()
	type conf struct{ workers, procs, cacheSize, steps int }
	var confs []conf
	if c.thorough() {
		for _, w := range []int{2, 3, 4, 8, 16} {
			for _, p := range []int{1, 2, 8, 16} {
				for _, cs := range []int{0, 3} {
					confs = append(confs, conf{w, p, cs, 14})
				}
			}
		}
	} else {
		confs = []conf{{2, 1, 0, 10}, {4, 4, 0, 10}, {8, 16, 0, 8}, {16, 8, 0, 6}, {4, 8, 2, 10}, {8, 2, 3, 8}}
	}
	defer runtime.GOMAXPROCS(runtime.GOMAXPROCS(0))
	for ci, cf := range confs {
		for rep := 0; rep < c.pick(1, 3); rep++ {
			// (a run whose calls into the cache never come back — a lock that is kept for ever — must not
			// take the whole check with it: it is the finding)
			done := make(chan struct{})
			r := c.rng.fork()
			go func() {
				defer close(done)
				c18Run(c, r, ci, cf.workers, cf.procs, cf.cacheSize, cf.steps)
			}()
			select {
			case <-done:
			case <-time.After(c18RunLimit):
				// (with a cache size that forces eviction this is the known defect, under its own key as everywhere
				// in this slice: the calls of the run's own epilogue block on an evicted instance as well)
				key := "C18/deadlock"
				if cf.cacheSize > 0 {
					key = "C18/eviction:deadlock"
				}
				c.violation(-1, key, fmt.Sprintf("a run (workers=%d GOMAXPROCS=%d cacheSize=%d) did not come back within %v: a call into the cache blocks for ever; last context: %v", cf.workers, cf.procs, cf.cacheSize, c18RunLimit, c.extra["context"]), nil)
				if cf.cacheSize > 0 {
					continue
				}
				return
			}
			cleanupScratch()
		}
	}
	runtime.GOMAXPROCS(8)
	c18QueryStorm(c)
}

const c18RunLimit = 240 * time.Second

// c18QueryStorm: listings with filters (no full-text term) over a population large enough for the scan to
// take a while, while other goroutines create and retitle bugs.  A crash of the runtime ("concurrent map
// iteration and map write") ends the process and is reported by the check as such; a listing that misses
// or repeats a bug is reported here.
func c18QueryStorm(c *runCtx) {
	c.context("query storm")
	// (the real backend: the mock repository's search index is a plain map, not meant for several goroutines)
	repo, _ := newGoGit("c18storm", false)
	rc := mustCache(repo)
	defer cleanupScratch()
	defer rc.Close()
	iden, err := rc.Identities().New("stormy", "s@example.com")
	if err != nil {
		panic(err)
	}
	rc.SetUserIdentity(iden)
	const N = 150
	for i := 0; i < N; i++ {
		if _, _, err := rc.Bugs().New(fmt.Sprintf("storm bug %d", i), "m"); err != nil {
			panic(err)
		}
	}
	q, err := query.Parse("status:open")
	if err != nil {
		panic(err)
	}
	stop := make(chan struct{})
	var wg sync.WaitGroup
	var mu sync.Mutex
	problems := map[string]bool{}
	listings := 0
	for g := 0; g < 4; g++ {
		wg.Add(1)
		go func() {
			defer wg.Done()
			for {
				select {
				case <-stop:
					return
				default:
				}
				ids, err := rc.Bugs().Query(q)
				mu.Lock()
				listings++
				if err != nil {
					problems["query failed: "+err.Error()] = true
				} else {
					seen := map[entity.Id]bool{}
					for _, id := range ids {
						if seen[id] {
							problems["a listing holds a bug twice"] = true
						}
						seen[id] = true
					}
					if len(ids) < N {
						problems[fmt.Sprintf("a listing of all open bugs holds %d bugs although %d existed before it started and none was closed or removed", len(ids), N)] = true
					}
				}
				mu.Unlock()
			}
		}()
	}
	for g := 0; g < 4; g++ {
		wg.Add(1)
		go func(g int) {
			defer wg.Done()
			ids := rc.Bugs().AllIds()
			for k := 0; ; k++ {
				select {
				case <-stop:
					return
				default:
				}
				if g == 0 {
					rc.Bugs().New(fmt.Sprintf("storm newcomer %d", k), "m")
					continue
				}
				if b, err := rc.Bugs().Resolve(ids[(k*7+g)%len(ids)]); err == nil {
					b.SetTitle(fmt.Sprintf("retitled %d by %d", k, g))
					b.CommitAsNeeded()
				}
			}
		}(g)
	}
	time.Sleep(time.Duration(c.pick(3, 12)) * time.Second)
	close(stop)
	fin := make(chan struct{})
	go func() { wg.Wait(); close(fin) }()
	select {
	case <-fin:
	case <-time.After(60 * time.Second):
		c.violation(-1, "C18/deadlock", "query storm: goroutines did not come back", nil)
		return
	}
	c.countN("storm-listings", listings)
	for p := range problems {
		c.violation(-1, "C18/listing-wrong-under-load", "query storm: "+p, nil)
	}
}

func c18Run(c *runCtx, r *rng, ci, workers, procs, cacheSize, steps int) {
	runtime.GOMAXPROCS(procs)
	tag := fmt.Sprintf("workers=%d GOMAXPROCS=%d cacheSize=%d", workers, procs, cacheSize)
	c.context("concurrent run " + tag)
	repo, dir := newGoGit("c18", false)
	stall := &stallFS{LocalStorage: repo.LocalStorage(), hit: make(chan struct{}, 1), release: make(chan struct{}, 1)}
	repo = &stallRepo{TestedRepo: repo, ls: stall}
	rc := mustCache(repo)
	iden, err := rc.Identities().New("worker", "w@example.com")
	if err != nil {
		panic(err)
	}
	rc.SetUserIdentity(iden)
	// shared bugs exist before the workers start, and are not loaded: the cache is reopened
	var shared []entity.Id
	for i := 0; i < 5; i++ {
		b, _, err := rc.Bugs().New(fmt.Sprintf("shared %d", i), "created before the workers")
		if err != nil {
			panic(err)
		}
		shared = append(shared, b.Id())
	}
	rc.Close()
	repo, err = openGoGit(dir)
	if err != nil {
		panic(err)
	}
	stall.LocalStorage = repo.LocalStorage()
	repo = &stallRepo{TestedRepo: repo, ls: stall}
	rc = mustCache(repo)
	if cacheSize > 0 {
		rc.Bugs().SetCacheSize(cacheSize)
	}
	// ---- bursts: all workers edit the same bug at the same moment without committing; after
	// each burst (everybody returned) the listing must say what the bug says. Overlapping
	// notifications that store an older excerpt last show here.
	var burstOps []entity.Id
	var burstAcks []c18Ack
	var burstMu sync.Mutex
	var mu sync.Mutex
	var acks []c18Ack
	var problems []string
	attempted := map[entity.Id]bool{}
	// ---- first resolves: two bugs nobody has loaded yet are resolved by all workers at the same moment
	// (each must get the one loaded instance), edited, and committed by every other worker. Whatever an
	// edit call acknowledged is checked against the stored history like the edits of the main phase.
	if cacheSize == 0 {
		for _, target := range shared[3:5] {
			var fw sync.WaitGroup
			gate := make(chan struct{})
			for w := 0; w < workers; w++ {
				fw.Add(1)
				go func(w int) {
					defer fw.Done()
					defer func() { recover() }()
					<-gate
					b, err := rc.Bugs().Resolve(target)
					if err != nil {
						return
					}
					_, op, err := b.AddComment(fmt.Sprintf("first resolve by %d", w))
					if op != nil {
						mu.Lock()
						attempted[op.Id()] = true
						mu.Unlock()
					}
					if err != nil || op == nil {
						return
					}
					pending := true
					if w%2 == 1 {
						pending = b.CommitAsNeeded() != nil
					}
					mu.Lock()
					acks = append(acks, c18Ack{w, target, op.Id(), pending})
					mu.Unlock()
				}(w)
			}
			close(gate)
			fdone := make(chan struct{})
			go func() { fw.Wait(); close(fdone) }()
			select {
			case <-fdone:
			case <-time.After(25 * time.Second):
				c.violation(-1, "C18/deadlock", "simultaneous first Resolve calls did not return ("+tag+")", map[string]any{"conf": tag})
				return
			}
		}
		c.count("first-resolves")
	}
	if cacheSize == 0 {
		bursts := c.pick(40, 200)
		target := shared[0]
		for round := 0; round < bursts; round++ {
			var bw sync.WaitGroup
			gate := make(chan struct{})
			for w := 0; w < workers; w++ {
				bw.Add(1)
				go func(w int) {
					defer bw.Done()
					defer func() { recover() }()
					<-gate
					if b, err := rc.Bugs().Resolve(target); err == nil {
						_, op, err := b.AddComment(fmt.Sprintf("burst %d by %d", round, w))
						if op != nil {
							burstMu.Lock()
							burstOps = append(burstOps, op.Id())
							if err == nil {
								burstAcks = append(burstAcks, c18Ack{w, target, op.Id(), false})
							}
							burstMu.Unlock()
						}
					}
				}(w)
			}
			close(gate)
			bdone := make(chan struct{})
			go func() { bw.Wait(); close(bdone) }()
			select {
			case <-bdone:
			case <-time.After(25 * time.Second):
				c.violation(-1, "C18/deadlock", "a burst of AddComment calls did not return ("+tag+")", map[string]any{"conf": tag})
				return
			}
			ex, err1 := rc.Bugs().ResolveExcerpt(target)
			bc, err2 := rc.Bugs().Resolve(target)
			if err1 == nil && err2 == nil && ex.LenComments != len(bc.Snapshot().Comments) {
				c.violation(-1, "C18/excerpt-stale-at-quiescence", fmt.Sprintf("after burst %d of %d simultaneous AddComment calls the cache lists %d comments, the bug has %d (%s)", round, workers, ex.LenComments, len(bc.Snapshot().Comments), tag), map[string]any{"conf": tag})
				break
			}
		}
		c.countN("bursts", bursts)
		// the edits of the bursts were acknowledged: the commit of the bug stores them all
		if bc, err := rc.Bugs().Resolve(target); err == nil {
			if bc.CommitAsNeeded() == nil {
				acks = append(acks, burstAcks...)
			}
		}
	}
	for _, id := range burstOps {
		attempted[id] = true
	}
	// ---- commit races: operations of two authors are staged on one bug (its commit then writes one
	// pack per run of equal author, which takes a while), then all workers ask for the commit at the
	// same moment. Commits of one instance must exclude each other.
	if cacheSize == 0 {
		other, err := rc.Identities().New("second author", "s@example.com")
		if err != nil {
			panic(err)
		}
		me, _ := rc.GetUserIdentity()
		races := c.pick(12, 60)
		target := shared[1]
		for round := 0; round < races; round++ {
			b, err := rc.Bugs().Resolve(target)
			if err != nil {
				break
			}
			var staged []entity.Id
			for k := 0; k < 4; k++ {
				var author identity.Interface = me
				if k%2 == 1 {
					author = other
				}
				if _, op, err := b.AddCommentRaw(author, time.Now().Unix(), fmt.Sprintf("race %d/%d", round, k), nil, nil); err == nil {
					staged = append(staged, op.Id())
					attempted[op.Id()] = true
				}
			}
			var cw sync.WaitGroup
			gate := make(chan struct{})
			okc := make([]bool, workers)
			for w := 0; w < workers; w++ {
				cw.Add(1)
				go func(w int) {
					defer cw.Done()
					defer func() { recover() }()
					<-gate
					if bb, err := rc.Bugs().Resolve(target); err == nil {
						okc[w] = bb.CommitAsNeeded() == nil
					}
				}(w)
			}
			close(gate)
			cdone := make(chan struct{})
			go func() { cw.Wait(); close(cdone) }()
			select {
			case <-cdone:
			case <-time.After(25 * time.Second):
				c.violation(-1, "C18/deadlock", "simultaneous CommitAsNeeded calls did not return ("+tag+")", map[string]any{"conf": tag})
				return
			}
			all := true
			for _, o := range okc {
				all = all && o
			}
			if all {
				for _, id := range staged {
					acks = append(acks, c18Ack{-1, target, id, false})
				}
			}
		}
		c.countN("commit-races", races)
	}
	stuck := make([]string, workers) // what each worker is doing right now
	var wg sync.WaitGroup
	seeds := make([]*rng, workers)
	for w := range seeds {
		seeds[w] = r.fork()
	}
	start := make(chan struct{})
	for w := 0; w < workers; w++ {
		wg.Add(1)
		go func(w int) {
			defer wg.Done()
			defer func() {
				if p := recover(); p != nil {
					mu.Lock()
					problems = append(problems, fmt.Sprintf("worker %d panicked: %v", w, p))
					mu.Unlock()
				}
			}()
			rr := seeds[w]
			<-start
			var mine []entity.Id
			for k := 0; k < steps; k++ {
				set := func(s string) { mu.Lock(); stuck[w] = s; mu.Unlock() }
				switch x := rr.intn(10); {
				case x < 1:
					set("New")
					b, op, err := rc.Bugs().New(fmt.Sprintf("private of %d/%d", w, k), "m")
					if err == nil {
						mine = append(mine, b.Id())
						mu.Lock()
						acks = append(acks, c18Ack{w, b.Id(), op.Id(), false})
						mu.Unlock()
					} else {
						mu.Lock()
						problems = append(problems, fmt.Sprintf("worker %d: New failed: %v", w, err))
						mu.Unlock()
					}
				case x < 8:
					// edit a shared bug (most of the time) or one of its own
					id := pickOne(rr, shared)
					if len(mine) > 0 && rr.chance(1, 4) {
						id = pickOne(rr, mine)
					}
					set("Resolve " + id.Human())
					b, err := rc.Bugs().Resolve(id)
					if err != nil {
						mu.Lock()
						problems = append(problems, fmt.Sprintf("worker %d: Resolve failed: %v", w, err))
						mu.Unlock()
						continue
					}
					var opId entity.Id
					var eerr error
					switch rr.intn(3) {
					case 0:
						set("AddComment " + id.Human())
						_, op, err := b.AddComment(fmt.Sprintf("comment by %d step %d", w, k))
						eerr = err
						if op != nil {
							opId = op.Id()
						}
					case 1:
						set("ChangeLabels " + id.Human())
						_, op, err := b.ChangeLabels([]string{fmt.Sprintf("l%d-%d", w, k)}, nil)
						eerr = err
						if op != nil {
							opId = op.Id()
						}
					case 2:
						set("SetTitle " + id.Human())
						op, err := b.SetTitle(fmt.Sprintf("title by %d step %d", w, k))
						eerr = err
						if op != nil {
							opId = op.Id()
						}
					}
					if opId != "" {
						mu.Lock()
						attempted[opId] = true
						mu.Unlock()
					}
					if eerr != nil {
						continue // not acknowledged
					}
					// one edit in three stays staged: somebody's later commit, or the flush after the
					// workers are done, stores it
					if rr.chance(1, 3) {
						mu.Lock()
						acks = append(acks, c18Ack{w, id, opId, true})
						mu.Unlock()
						continue
					}
					set("Commit " + id.Human())
					// half of the commits are the plain Commit, which answers with an error when another
					// worker's commit has already stored what this one staged: an error, nothing more — the
					// bug stays usable, and the operation is stored by that other commit
					var cerr error
					if rr.chance(1, 2) {
						cerr = b.Commit()
					} else {
						cerr = b.CommitAsNeeded()
					}
					if opId != "" {
						mu.Lock()
						acks = append(acks, c18Ack{w, id, opId, cerr != nil})
						mu.Unlock()
					}
				case x < 9:
					// filters only, full-text search (goes through the search index while holding the
					// sub-cache's read lock), and the nil query
					qs := pickOne(rr, []string{"status:open", "shared", "created workers", "title:shared sort:edit", "comment status:open", "<nil>"})
					set("Query " + qs)
					if qs == "<nil>" {
						rc.Bugs().Query(nil)
					} else if q, err := query.Parse(qs); err == nil {
						rc.Bugs().Query(q)
					}
					rc.Bugs().AllIds()
				default:
					set("ResolveExcerpt")
					rc.Bugs().ResolveExcerpt(pickOne(rr, shared))
				}
				set("")
			}
		}(w)
	}
	close(start)
	done := make(chan struct{})
	go func() { wg.Wait(); close(done) }()
	deadlocked := false
	select {
	case <-done:
	case <-time.After(25 * time.Second):
		deadlocked = true
	}
	c.count("conf=" + tag)
	// with a cache size that forces eviction the cache evicts instances goroutines still hold
	// (known finding): everything observed there is reported under its own keys
	key := func(k string) string {
		if cacheSize > 0 {
			return "C18/eviction:" + k
		}
		return "C18/" + k
	}
	if deadlocked {
		mu.Lock()
		var where []string
		for w, s := range stuck {
			if s != "" {
				where = append(where, fmt.Sprintf("worker %d in %s", w, s))
			}
		}
		mu.Unlock()
		c.violation(-1, key("deadlock"), fmt.Sprintf("calls did not return within 25 s (%s): %s", tag, strings.Join(where, "; ")), map[string]any{"conf": tag})
		// the stuck goroutines keep the cache; read what is stored through a second handle
		mu.Lock()
		var kept []c18Ack
		for _, a := range acks {
			if !a.pending {
				kept = append(kept, a)
			}
		}
		acks = kept
		mu.Unlock()
	} else {
		// the cache file at rest: a writer that is slow to reach the disk must not leave an older
		// listing there than the one in memory (the next process takes the file as it is)
		if cacheSize == 0 {
			c18AtRest(c, rc, stall, dir, shared, tag, func(id entity.Id) { mu.Lock(); attempted[id] = true; mu.Unlock() })
		}
		// the goroutines are done: what the cache lists for a bug is what the bug says (staged
		// operations included) …
		for _, id := range rc.Bugs().AllIds() {
			ex, err1 := rc.Bugs().ResolveExcerpt(id)
			bc, err2 := rc.Bugs().Resolve(id)
			if err1 != nil || err2 != nil {
				continue
			}
			sn := bc.Snapshot()
			if ex.LenComments != len(sn.Comments) || ex.Title != sn.Title || len(ex.Labels) != len(sn.Labels) || ex.Status != sn.Status {
				c.violation(-1, key("excerpt-stale-at-quiescence"), fmt.Sprintf("after all goroutines returned, the cache lists bug %s with %d comments, title %q, %d labels; the bug has %d, %q, %d (%s)",
					id.Human(), ex.LenComments, ex.Title, len(ex.Labels), len(sn.Comments), sn.Title, len(sn.Labels), tag), map[string]any{"conf": tag})
			}
		}
		// … then everything still staged is committed: those edits are acknowledged now
		flushed := map[entity.Id]bool{}
		for _, id := range rc.Bugs().AllIds() {
			if bc, err := rc.Bugs().Resolve(id); err == nil {
				if err := bc.CommitAsNeeded(); err == nil {
					flushed[id] = true
				} else {
					problems = append(problems, "flush commit: "+err.Error())
				}
			}
		}
		// (kept in the workers' program order; an edit whose bug could not be flushed is dropped)
		mu.Lock()
		var kept []c18Ack
		for _, a := range acks {
			if !a.pending || flushed[a.bug] && a.op != "" {
				kept = append(kept, a)
			}
		}
		acks = kept
		mu.Unlock()
		if err := rc.Close(); err != nil {
			problems = append(problems, "Close: "+err.Error())
		}
	}
	mu.Lock()
	probs := append([]string{}, problems...)
	ackd := append([]c18Ack{}, acks...)
	mu.Unlock()
	for _, p := range probs {
		k := key("call-failed")
		if strings.Contains(p, "panicked") {
			k = "C18/panic"
		}
		c.violation(-1, k, p+" ("+tag+")", map[string]any{"conf": tag})
	}
	// ---- what is stored
	r2, err := openGoGit(dir)
	if err != nil {
		c.violation(-1, "C18/unreadable", "the repository does not open after the run: "+err.Error(), nil)
		return
	}
	stored := map[entity.Id][]string{}
	for st := range bug.ReadAll(r2) {
		if st.Err != nil {
			c.violation(-1, "C18/invalid-history", fmt.Sprintf("a bug does not read after the run (%s): %v", tag, st.Err), map[string]any{"conf": tag})
			continue
		}
		if err := st.Entity.Validate(); err != nil {
			c.violation(-1, "C18/invalid-history", fmt.Sprintf("a bug is invalid after the run (%s): %v", tag, err), nil)
		}
		stored[st.Entity.Id()] = opIdsOf(st.Entity.Operations())
	}
	// acknowledged operations, per bug and worker in program order
	perBug := map[entity.Id]map[int][]string{}
	for _, a := range ackd {
		if perBug[a.bug] == nil {
			perBug[a.bug] = map[int][]string{}
		}
		perBug[a.bug][a.worker] = append(perBug[a.bug][a.worker], string(a.op))
	}
	c.countN("acknowledged", len(ackd))
	lost := 0
	for id, byWorker := range perBug {
		ops := stored[id]
		count := map[string]int{}
		for _, o := range ops {
			count[o]++
		}
		var ws []int
		for w := range byWorker {
			ws = append(ws, w)
		}
		sort.Ints(ws)
		var progs [][]string
		for _, w := range ws {
			progs = append(progs, byWorker[w])
			for _, o := range byWorker[w] {
				if count[o] != 1 {
					lost++
					c.violation(-1, key("acknowledged-edit-lost"), fmt.Sprintf("operation %s of worker %d on bug %s was acknowledged and is stored %d times (%s)", entity.Id(o).Human(), w, id.Human(), count[o], tag), map[string]any{"conf": tag})
				}
			}
		}
		// the stored history minus the operations that were there before and the unacknowledged ones
		isAck := map[string]bool{}
		for _, p := range progs {
			for _, o := range p {
				isAck[o] = true
			}
		}
		var storedAck []string
		for _, o := range ops {
			if isAck[o] {
				storedAck = append(storedAck, o)
			} else if !attempted[entity.Id(o)] && !strings.HasPrefix(string(id), o) && o != string(id) {
				c.violation(-1, key("phantom-operation"), fmt.Sprintf("bug %s holds operation %s nobody issued (%s)", id.Human(), entity.Id(o).Human(), tag), nil)
			}
		}
		if !deadlocked && lost == 0 {
			c.emit(map[string]any{"cmd": "interleaving", "stored": storedAck, "workers": progs, "conf": tag}, map[string]any{"ok": true})
			c.nontrivial(tag + string(id) + mustJSON(storedAck))
		}
	}
	c.countN("lost", lost)
	// ---- the cache the run left agrees with a rebuild
	if !deadlocked {
		live := mustCache(r2)
		a := served(live, nil)
		live.Close()
		os.RemoveAll(filepath.Join(dir, ".git", gbNamespace, "cache"))
		r3, _ := openGoGit(dir)
		rebuilt := mustCache(r3)
		b := served(rebuilt, nil)
		rebuilt.Close()
		if mustJSON(a) != mustJSON(b) {
			// which bug, and what both say about it
			detail := map[string]any{"conf": tag}
			la, _ := a["bugs"].([]any)
			lb, _ := b["bugs"].([]any)
			for i := range la {
				if i < len(lb) && mustJSON(la[i]) != mustJSON(lb[i]) {
					ma, _ := la[i].(map[string]any)
					mb, _ := lb[i].(map[string]any)
					diff := map[string]any{}
					for k, v := range ma {
						if k != "snapshot" && mustJSON(v) != mustJSON(mb[k]) {
							diff[k] = []any{v, mb[k]}
						}
					}
					detail["bug"] = ma["id"]
					detail["title"] = ma["title"]
					detail["fields(live,rebuilt)"] = diff
					break
				}
			}
			c.violation(-1, key("cache-differs-from-rebuild"), fmt.Sprintf("after the run the cache left on disk differs from a rebuilt one (%s): %s", tag, trunc(mustJSON(detail), 500)), detail)
		}
	} else {
		r2.Close()
	}
}

// stallFS delays, once per arming, the creation of the bug cache file: the writer that serialised
// the listing first reaches the disk last.
type stallFS struct {
	repository.LocalStorage
	armed   atomic.Bool
	hit     chan struct{}
	release chan struct{}
}

func (f *stallFS) Create(name string) (billy.File, error) {
	if strings.HasSuffix(filepath.ToSlash(name), "cache/bugs") && f.armed.CompareAndSwap(true, false) {
		select {
		case f.hit <- struct{}{}:
		default:
		}
		select {
		case <-f.release:
		case <-time.After(150 * time.Millisecond):
		}
	}
	return f.LocalStorage.Create(name)
}

type stallRepo struct {
	repository.TestedRepo
	ls *stallFS
}

func (s *stallRepo) LocalStorage() repository.LocalStorage { return s.ls }

// c18AtRest: goroutine 1 retitles and commits bug A and is held when it creates the cache file;
// goroutine 2 retitles and commits bug B meanwhile.  Once both returned, a second process (a copy
// of the repository, opened with the cache file as it is) must list both new titles.
func c18AtRest(c *runCtx, rc *cache.RepoCache, stall *stallFS, dir string, shared []entity.Id, tag string, attempt func(entity.Id)) {
	for round := 0; round < 3; round++ {
		select {
		case <-stall.release:
		default:
		}
		select {
		case <-stall.hit:
		default:
		}
		titles := []string{fmt.Sprintf("at rest A %d", round), fmt.Sprintf("at rest B %d", round)}
		var staged [2]*cache.BugCache
		retitle := func(i int) {
			defer func() { recover() }()
			bc, err := rc.Bugs().Resolve(shared[1+i])
			if err != nil {
				return
			}
			if op, err := bc.SetTitle(titles[i]); err == nil && op != nil {
				attempt(op.Id())
				staged[i] = bc
			}
		}
		commit := func(i int) {
			defer func() { recover() }()
			if staged[i] != nil {
				staged[i].Commit()
			}
		}
		// the last write of goroutine 1 (the one its commit triggers) is the one that is held
		retitle(0)
		stall.armed.Store(true)
		d1, d2 := make(chan struct{}), make(chan struct{})
		go func() { defer close(d1); commit(0) }()
		select {
		case <-stall.hit:
		case <-d1:
		case <-time.After(5 * time.Second):
		}
		go func() { defer close(d2); retitle(1); commit(1) }()
		select {
		case <-d2:
			select {
			case stall.release <- struct{}{}:
			default:
			}
		case <-time.After(10 * time.Second):
		}
		for _, d := range []chan struct{}{d1, d2} {
			select {
			case <-d:
			case <-time.After(25 * time.Second):
				c.violation(-1, "C18/deadlock", "a retitle-and-commit did not return ("+tag+")", map[string]any{"conf": tag})
				return
			}
		}
		stall.armed.Store(false)
		// a second process: the repository as it is on disk now
		dir2 := scratch("c18rest")
		os.RemoveAll(dir2)
		if out, err := exec.Command("cp", "-a", dir, dir2).CombinedOutput(); err != nil {
			panic(fmt.Sprintf("cp: %v %s", err, out))
		}
		os.Remove(filepath.Join(dir2, ".git", gbNamespace, "lock"))
		r2, err := openGoGit(dir2)
		if err != nil {
			c.violation(-1, "C18/unreadable", "a copy of the repository does not open: "+err.Error(), nil)
			return
		}
		rc2, err := cache.NewRepoCacheNoEvents(r2)
		if err != nil {
			c.violation(-1, "C18/unreadable", "the cache of a copy of the repository does not open: "+err.Error(), nil)
			return
		}
		for i := 0; i < 2; i++ {
			ex, err := rc2.Bugs().ResolveExcerpt(shared[1+i])
			live, err2 := rc.Bugs().Resolve(shared[1+i])
			if err == nil && err2 == nil && ex.Title != live.Snapshot().Title {
				c.violation(-1, "C18/cache-file-stale-at-rest", fmt.Sprintf("after two overlapping edits returned, the cache file on disk lists bug %s as %q while the bug's title is %q: the next process shows the old listing (%s)", shared[1+i].Human(), ex.Title, live.Snapshot().Title, tag), map[string]any{"conf": tag})
			}
		}
		rc2.Close()
		os.RemoveAll(dir2)
		c.count("at-rest-rounds")
	}
}

func firstDiff(a, b string) string {
	n := min(len(a), len(b))
	for i := 0; i < n; i++ {
		if a[i] != b[i] {
			lo := max(0, i-80)
			return fmt.Sprintf("...%s  <>  ...%s", a[lo:min(len(a), i+80)], b[lo:min(len(b), i+80)])
		}
	}
	return fmt.Sprintf("lengths %d / %d", len(a), len(b))
}

var _ = cache.ErrNoMatchingOp

package main

import (
	"fmt"
	"strings"

	"github.com/ProtonMail/go-crypto/openpgp"

	"github.com/MichaelMure/git-bug/entities/bug"
	"github.com/MichaelMure/git-bug/entities/identity"
	"github.com/MichaelMure/git-bug/repository"
	"github.com/MichaelMure/git-bug/util/lamport"
)

func init() { props["C08"] = runC08 }

func keyName(k *identity.Key) string { return k.Public().KeyIdString() }

func writeCraftedSigned(repo repository.RepoData, p craftPack, sign *openpgp.Entity) repository.Hash {
	// same tree as writeCrafted, but the commit is signed (or not) as requested
	h := writeCrafted(repo, p) // stores the blobs and the tree; we re-create the commit below
	c, err := repo.ReadCommit(h)
	if err != nil {
		panic(err)
	}
	if sign == nil {
		return h
	}
	sh, err := repo.StoreSignedCommit(c.TreeHash, sign)
	if err != nil {
		panic(err)
	}
	return sh
}

func runC08(c *runCtx) {
	defer cleanupScratch()
	// a pool of real OpenPGP keys, generated once per run
	var pool []*identity.Key
	for i := 0; i < 4; i++ {
		pool = append(pool, identity.GenerateKey())
	}
	stranger := identity.GenerateKey()
	N := c.pick(8, 80)
	for i := 0; i < N; i++ {
		r := c.rng.fork()
		var repo repository.TestedRepo
		backend := "mock"
		if i%4 == 3 {
			repo, _ = newGoGit("c08", false)
			backend = "gogit"
		} else {
			repo = newMock()
		}
		// identity history: versions at non-decreasing logical times with varying key sets
		nv := r.rangeInt(1, 5)
		t := uint64(r.rangeInt(1, 3))
		repo.Witness("bugs-edit", lamport.Time(t))
		subset := func() []*identity.Key {
			var ks []*identity.Key
			for _, k := range pool {
				if r.chance(1, 3) {
					ks = append(ks, k)
				}
			}
			return ks
		}
		type ver struct {
			T    uint64
			Keys []string
		}
		var hist []ver
		first := subset()
		if r.chance(1, 2) {
			first = nil // most identities start without a key
		}
		iden, err := identity.NewIdentityFull(repo, "signer", "s@example.com", "", "", first)
		if err != nil {
			panic(err)
		}
		names := func(ks []*identity.Key) []string {
			out := []string{}
			for _, k := range ks {
				out = append(out, keyName(k))
			}
			return out
		}
		hist = append(hist, ver{t, names(first)})
		for v := 1; v < nv; v++ {
			t += uint64(r.intn(4)) // equal times happen
			repo.Witness("bugs-edit", lamport.Time(t))
			ks := subset()
			cur := hist[len(hist)-1].Keys
			if strings.Join(names(ks), ",") == strings.Join(cur, ",") {
				continue // Mutate drops a no-op change
			}
			if err := iden.Mutate(repo, func(m *identity.Mutator) { m.Keys = ks }); err != nil {
				panic(err)
			}
			hist = append(hist, ver{t, names(ks)})
		}
		if err := iden.Commit(repo); err != nil {
			panic(err)
		}
		var versions []map[string]any
		for k, h := range hist {
			versions = append(versions, map[string]any{"commit": fmt.Sprintf("v%d", k), "times": [][]any{{"bugs-edit", h.T}}, "keys": h.Keys,
				"nameSafe": true, "loginSafe": true, "emailSafe": true, "avatarOk": true, "nonceLen": 20, "keysOk": true, "loginEmpty": true})
		}
		// the model's view of which keys are in force, compared with the implementation's
		var queries []map[string]any
		var keysAt [][]string
		for T := uint64(0); T <= t+2; T++ {
			queries = append(queries, map[string]any{"clock": "bugs-edit", "t": T})
			keysAt = append(keysAt, names(iden.ValidKeysAtTime("bugs-edit", lamport.Time(T))))
		}
		c.emit(map[string]any{"cmd": "keysAt", "versions": versions, "queries": queries}, keysAt)
		// commits at every time, signed in every way
		g := newOpGen(r.fork(), []identity.Interface{iden})
		var commits []map[string]any
		var verdicts []string
		for T := uint64(1); T <= t+2; T++ {
			signers := []*identity.Key{nil, stranger}
			signers = append(signers, pool...)
			for _, s := range signers {
				cop := g.create()
				var ent *openpgp.Entity
				cm := map[string]any{"t": T, "good": true}
				if s != nil {
					ent = s.PGPEntity()
					cm["key"] = keyName(s)
				}
				head := writeCraftedSigned(repo, craftPack{author: string(iden.Id()), ops: opsOf1(cop), edit: T, create: 1, version: bugFormatVersion}, ent)
				ref := "refs/bugs/" + string(cop.Id())
				repo.UpdateRef(ref, head)
				var verdict string
				var rerr error
				if p := recoverTo(func() { _, rerr = bug.Read(repo, cop.Id()) }); p != "" {
					verdict = "panic"
					c.violation(c.nCases, "C08/panic", fmt.Sprintf("reading a commit at time %d signed by %v crashes: %s", T, cm["key"], p), hist)
				} else if rerr == nil {
					verdict = "accepted"
				} else if strings.Contains(rerr.Error(), "signature failure") {
					verdict = "signatureError"
				} else {
					verdict = "other:" + rerr.Error()
				}
				repo.RemoveRef(ref)
				commits = append(commits, cm)
				verdicts = append(verdicts, verdict)
				// oracle: the rule of C08, evaluated naively
				var inForce []string
				for _, h := range hist {
					if h.T <= T {
						inForce = h.Keys
					}
				}
				want := "signatureError"
				if len(inForce) == 0 {
					want = "accepted"
				} else if s != nil {
					for _, k := range inForce {
						if k == keyName(s) {
							want = "accepted"
						}
					}
				}
				c.count(fmt.Sprintf("case=%s/%s", map[bool]string{true: "keys-in-force", false: "no-key"}[len(inForce) > 0], map[bool]string{true: "signed", false: "unsigned"}[s != nil]))
				if verdict != want {
					c.violation(c.nCases, "C08/verdict", fmt.Sprintf("commit at time %d, keys in force %v, signed by %v: %s, expected %s (%s)", T, inForce, cm["key"], verdict, want, backend), hist)
				}
			}
		}
		c.emit(map[string]any{"cmd": "check", "clock": "bugs-edit", "versions": versions, "commits": commits, "backend": backend}, verdicts)
		c.nontrivial(mustJSON(hist))
		c.count("backend=" + backend)
		repo.Close()
		if backend == "gogit" {
			cleanupScratch()
		}
	}
}

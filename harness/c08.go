package main

import (
	gogit "github.com/go-git/go-git/v5"
	"github.com/go-git/go-git/v5/plumbing"

	"fmt"
	"strings"

	"github.com/ProtonMail/go-crypto/openpgp"

	"github.com/MichaelMure/git-bug/entities/bug"
	"github.com/MichaelMure/git-bug/entities/identity"
	"github.com/MichaelMure/git-bug/repository"
	"github.com/MichaelMure/git-bug/util/lamport"
)

func init() { props["C08"] = runC08 }

func keyName(k *identity.Key) string { return k.Public().KeyIdString() }

func writeCraftedSigned(repo repository.RepoData, p craftPack, sign *openpgp.Entity, parents ...repository.Hash) repository.Hash {
	// same tree as writeCrafted, but the commit is signed (or not) as requested
	h := writeCrafted(repo, p, parents...) // stores the blobs and the tree; we re-create the commit below
	c, err := repo.ReadCommit(h)
	if err != nil {
		panic(err)
	}
	if sign == nil {
		return h
	}
	sh, err := repo.StoreSignedCommit(c.TreeHash, sign, parents...)
	if err != nil {
		panic(err)
	}
	return sh
}

func runC08(c *runCtx) {
	defer cleanupScratch()
	// a pool of real OpenPGP keys, generated once per run
	var pool []*identity.Key
	for i := 0; i < 4; i++ {
		pool = append(pool, identity.GenerateKey())
	}
	stranger := identity.GenerateKey()
	N := c.pick(8, 80)
	for i := 0; i < N; i++ {
		r := c.rng.fork()
		var repo repository.TestedRepo
		dir := ""
		backend := "mock"
		if i%4 == 3 {
			repo, dir = newGoGit("c08", false)
			backend = "gogit"
		} else {
			repo = newMock()
		}
		// identity history: versions at non-decreasing logical times with varying key sets
		nv := r.rangeInt(1, 5)
		t := uint64(r.rangeInt(1, 3))
		// one identity in three is older than the repository's bug clocks: its first version
		// carries no bugs-edit time at all (and counts from time 0)
		lateClock := i%3 == 0
		if !lateClock {
			repo.Witness("bugs-edit", lamport.Time(t))
		}
		subset := func() []*identity.Key {
			var ks []*identity.Key
			for _, k := range pool {
				if r.chance(1, 3) {
					ks = append(ks, k)
				}
			}
			return ks
		}
		type ver struct {
			T    uint64
			Keys []string
		}
		var hist []ver
		first := subset()
		if r.chance(1, 2) {
			first = nil // most identities start without a key
		}
		iden, err := identity.NewIdentityFull(repo, "signer", "s@example.com", "", "", first)
		if err != nil {
			panic(err)
		}
		names := func(ks []*identity.Key) []string {
			out := []string{}
			for _, k := range ks {
				out = append(out, keyName(k))
			}
			return out
		}
		hist = append(hist, ver{t, names(first)})
		if lateClock {
			hist[0].T = 0
			if first == nil {
				// make it matter: the old identity has a key from the start
				first = []*identity.Key{pool[0]}
				iden, err = identity.NewIdentityFull(repo, "signer", "s@example.com", "", "", first)
				if err != nil {
					panic(err)
				}
				hist[0].Keys = names(first)
			}
		}
		for v := 1; v < nv; v++ {
			t += uint64(r.intn(4)) // equal times happen
			repo.Witness("bugs-edit", lamport.Time(t))
			ks := subset()
			cur := hist[len(hist)-1].Keys
			if strings.Join(names(ks), ",") == strings.Join(cur, ",") {
				continue // Mutate drops a no-op change
			}
			if err := iden.Mutate(repo, func(m *identity.Mutator) { m.Keys = ks }); err != nil {
				panic(err)
			}
			hist = append(hist, ver{t, names(ks)})
		}
		if err := iden.Commit(repo); err != nil {
			panic(err)
		}
		var versions []map[string]any
		for k, h := range hist {
			times := [][]any{{"bugs-edit", h.T}}
			if lateClock && k == 0 {
				times = [][]any{}
			}
			versions = append(versions, map[string]any{"commit": fmt.Sprintf("v%d", k), "times": times, "keys": h.Keys,
				"nameSafe": true, "loginSafe": true, "emailSafe": true, "avatarOk": true, "nonceLen": 20, "keysOk": true, "loginEmpty": true})
		}
		// the model's view of which keys are in force, compared with the implementation's
		var queries []map[string]any
		var keysAt [][]string
		for T := uint64(0); T <= t+2; T++ {
			queries = append(queries, map[string]any{"clock": "bugs-edit", "t": T})
			keysAt = append(keysAt, names(iden.ValidKeysAtTime("bugs-edit", lamport.Time(T))))
		}
		c.emit(map[string]any{"cmd": "keysAt", "versions": versions, "queries": queries}, keysAt)
		// commits at every time, signed in every way
		g := newOpGen(r.fork(), []identity.Interface{iden})
		var commits []map[string]any
		var verdicts []string
		for T := uint64(1); T <= t+2; T++ {
			signers := []*identity.Key{nil, stranger}
			signers = append(signers, pool...)
			for _, s := range signers {
				cop := g.create()
				var ent *openpgp.Entity
				cm := map[string]any{"t": T, "good": true}
				if s != nil {
					ent = s.PGPEntity()
					cm["key"] = keyName(s)
				}
				head := writeCraftedSigned(repo, craftPack{author: string(iden.Id()), ops: opsOf1(cop), edit: T, create: 1, version: bugFormatVersion}, ent)
				ref := "refs/bugs/" + string(cop.Id())
				repo.UpdateRef(ref, head)
				var verdict string
				var rerr error
				if p := recoverTo(func() { _, rerr = bug.Read(repo, cop.Id()) }); p != "" {
					verdict = "panic"
					c.violation(c.nCases, "C08/panic", fmt.Sprintf("reading a commit at time %d signed by %v crashes: %s", T, cm["key"], p), hist)
				} else if rerr == nil {
					verdict = "accepted"
				} else if strings.Contains(rerr.Error(), "signature failure") {
					verdict = "signatureError"
				} else {
					verdict = "other:" + rerr.Error()
				}
				// the same commit read again through the same repository handle gets the same verdict
				if verdict != "panic" {
					var rerr2 error
					again := "accepted"
					if p := recoverTo(func() { _, rerr2 = bug.Read(repo, cop.Id()) }); p != "" {
						again = "panic"
					} else if rerr2 != nil && strings.Contains(rerr2.Error(), "signature failure") {
						again = "signatureError"
					} else if rerr2 != nil {
						again = "other:" + rerr2.Error()
					}
					if again != verdict {
						c.violation(c.nCases, "C08/verdict-changes-on-reread", fmt.Sprintf("commit at time %d signed by %v: %s on the first read, %s on the second read of the same commit (%s)", T, cm["key"], verdict, again, backend), hist)
					}
				}
				repo.RemoveRef(ref)
				commits = append(commits, cm)
				verdicts = append(verdicts, verdict)
				_ = head
				// oracle: the rule of C08, evaluated naively
				var inForce []string
				for _, h := range hist {
					if h.T <= T {
						inForce = h.Keys
					}
				}
				want := "signatureError"
				if len(inForce) == 0 {
					want = "accepted"
				} else if s != nil {
					for _, k := range inForce {
						if k == keyName(s) {
							want = "accepted"
						}
					}
				}
				c.count(fmt.Sprintf("case=%s/%s", map[bool]string{true: "keys-in-force", false: "no-key"}[len(inForce) > 0], map[bool]string{true: "signed", false: "unsigned"}[s != nil]))
				if verdict != want {
					c.violation(c.nCases, "C08/verdict", fmt.Sprintf("commit at time %d, keys in force %v, signed by %v: %s, expected %s (%s)", T, inForce, cm["key"], verdict, want, backend), hist)
				}
				// an accepted signed commit was just read in this process: the same content presented
				// again without its signature, under another signature, or (go-git) altered under the
				// same signature must still be refused
				if verdict == "accepted" && s != nil && len(inForce) > 0 {
					cmt, _ := repo.ReadCommit(head)
					type variant struct {
						name string
						head repository.Hash
						cm   map[string]any
					}
					var vs []variant
					if h2, err := repo.StoreCommit(cmt.TreeHash); err == nil {
						vs = append(vs, variant{"replayed-unsigned", h2, map[string]any{"t": T, "good": true}})
					}
					if h2, err := repo.StoreSignedCommit(cmt.TreeHash, stranger.PGPEntity()); err == nil {
						vs = append(vs, variant{"replayed-stranger", h2, map[string]any{"t": T, "good": true, "key": keyName(stranger)}})
					}
					if backend == "gogit" {
						if h2 := alterSignedCommit(dir, head); h2 != "" {
							vs = append(vs, variant{"altered-same-signature", h2, map[string]any{"t": T, "good": false, "key": keyName(s)}})
						}
					}
					for _, v := range vs {
						repo.UpdateRef(ref, v.head)
						var verdict2 string
						var rerr2 error
						if p := recoverTo(func() { _, rerr2 = bug.Read(repo, cop.Id()) }); p != "" {
							verdict2 = "panic"
						} else if rerr2 == nil {
							verdict2 = "accepted"
						} else if strings.Contains(rerr2.Error(), "signature failure") {
							verdict2 = "signatureError"
						} else {
							verdict2 = "other:" + rerr2.Error()
						}
						repo.RemoveRef(ref)
						commits = append(commits, v.cm)
						verdicts = append(verdicts, verdict2)
						c.count("variant=" + v.name + "/" + strings.SplitN(verdict2, ":", 2)[0])
						if verdict2 != "signatureError" {
							c.violation(c.nCases, "C08/"+v.name, fmt.Sprintf("after a validly signed commit was read, the same pack %s at time %d (keys in force %v) is %s (%s)", v.name, T, inForce, verdict2, backend), hist)
						}
					}
				}
			}
		}
		// the rule holds for every commit of a history, not only for the first: the commit under test
		// as a second commit on top of a root, and as the merge commit of two concurrent branches
		// (an empty pack that still names its author); all other commits are signed as the rule asks
		inForceAt := func(T uint64) []string {
			var ks []string
			for _, h := range hist {
				if h.T <= T {
					ks = h.Keys
				}
			}
			return ks
		}
		goodSigner := func(T uint64) *openpgp.Entity {
			ks := inForceAt(T)
			if len(ks) == 0 {
				return nil
			}
			for _, k := range pool {
				if keyName(k) == ks[0] {
					return k.PGPEntity()
				}
			}
			panic("key in force is not in the pool")
		}
		for _, shape := range []string{"second", "merge"} {
			for T := uint64(3); T <= t+2; T++ {
				signers := []*identity.Key{nil, stranger}
				signers = append(signers, pool...)
				for _, s := range signers {
					if c.tier == "quick" && r.chance(1, 2) {
						continue
					}
					cop := g.create()
					var ent *openpgp.Entity
					cm := map[string]any{"t": T, "good": true}
					if s != nil {
						ent = s.PGPEntity()
						cm["key"] = keyName(s)
					}
					author := string(iden.Id())
					var head repository.Hash
					if shape == "second" {
						root := writeCraftedSigned(repo, craftPack{author: author, ops: opsOf1(cop), edit: T - 1, create: 1, version: bugFormatVersion}, goodSigner(T-1))
						op2 := bug.NewAddCommentOp(iden, g.now(), "second commit", nil)
						head = writeCraftedSigned(repo, craftPack{author: author, ops: opsOf1(op2), edit: T, version: bugFormatVersion}, ent, root)
					} else {
						root := writeCraftedSigned(repo, craftPack{author: author, ops: opsOf1(cop), edit: T - 2, create: 1, version: bugFormatVersion}, goodSigner(T-2))
						opA := bug.NewAddCommentOp(iden, g.now(), "branch a", nil)
						opB := bug.NewAddCommentOp(iden, g.now(), "branch b", nil)
						a := writeCraftedSigned(repo, craftPack{author: author, ops: opsOf1(opA), edit: T - 1, version: bugFormatVersion}, goodSigner(T-1), root)
						b := writeCraftedSigned(repo, craftPack{author: author, ops: opsOf1(opB), edit: T - 1, version: bugFormatVersion}, goodSigner(T-1), root)
						head = writeCraftedSigned(repo, craftPack{author: author, edit: T, version: bugFormatVersion}, ent, a, b)
					}
					ref := "refs/bugs/" + string(cop.Id())
					repo.UpdateRef(ref, head)
					var verdict string
					var rerr error
					if p := recoverTo(func() { _, rerr = bug.Read(repo, cop.Id()) }); p != "" {
						verdict = "panic"
					} else if rerr == nil {
						verdict = "accepted"
					} else if strings.Contains(rerr.Error(), "signature failure") {
						verdict = "signatureError"
					} else {
						verdict = "other:" + rerr.Error()
					}
					repo.RemoveRef(ref)
					commits = append(commits, cm)
					verdicts = append(verdicts, verdict)
					inForce := inForceAt(T)
					want := "signatureError"
					if len(inForce) == 0 {
						want = "accepted"
					} else if s != nil {
						for _, k := range inForce {
							if k == keyName(s) {
								want = "accepted"
							}
						}
					}
					c.count(fmt.Sprintf("shape=%s/%s/%s", shape, map[bool]string{true: "keys-in-force", false: "no-key"}[len(inForce) > 0], map[bool]string{true: "signed", false: "unsigned"}[s != nil]))
					if verdict != want {
						c.violation(c.nCases, "C08/verdict-"+shape, fmt.Sprintf("%s commit at time %d (the commits before it signed as required), keys in force %v, signed by %v: %s, expected %s (%s)", shape, T, inForce, cm["key"], verdict, want, backend), hist)
					}
				}
			}
		}
		c.emit(map[string]any{"cmd": "check", "clock": "bugs-edit", "versions": versions, "commits": commits, "backend": backend}, verdicts)
		c.nontrivial(mustJSON(hist))
		c.count("backend=" + backend)
		c.count(fmt.Sprintf("identity-older-than-clock=%v", lateClock))
		repo.Close()
		if backend == "gogit" {
			cleanupScratch()
		}
	}
	for k := 0; k < c.pick(1, 4); k++ {
		c08Cache(c, pool[k%len(pool)])
		cleanupScratch()
	}
}

// c08Cache: the rule applied by a long-lived cache that learns of a key change through a pull.
// Alice, keyless, is known to B (loaded in B's cache). She adopts a key; a commit in her name dated
// after that and not signed arrives at B in the same pull as the identity update: B must refuse it
// and leave its copy of the bug alone.  Then Alice's properly signed comment must be accepted.
func c08Cache(c *runCtx, key *identity.Key) {
	remote, _ := newGoGit("c08remote", true)
	repoA, _ := newGoGit("c08a", false)
	repoB, _ := newGoGit("c08b", false)
	defer remote.Close()
	for _, rp := range []repository.TestedRepo{repoA, repoB} {
		if err := rp.AddRemote("origin", remote.GetLocalRemote()); err != nil {
			panic(err)
		}
	}
	cacheA, cacheB := mustCache(repoA), mustCache(repoB)
	defer cacheA.Close()
	defer cacheB.Close()
	must := func(err error) {
		if err != nil {
			panic(err)
		}
	}
	aliceA, err := cacheA.Identities().New("Alice", "alice@example.com")
	must(err)
	must(cacheA.SetUserIdentity(aliceA))
	carolA, err := cacheA.Identities().New("Carol", "carol@example.com")
	must(err)
	bobB, err := cacheB.Identities().New("Bob", "bob@example.com")
	must(err)
	must(cacheB.SetUserIdentity(bobB))
	bug1, _, err := cacheA.Bugs().New("bug1", "message")
	must(err)
	_, err = cacheA.Push("origin")
	must(err)
	must(cacheB.Pull("origin"))
	if _, err := cacheB.Identities().Resolve(aliceA.Id()); err != nil { // loaded in B's cache
		panic(err)
	}
	// unrelated activity moves the bugs-edit clock forward, then Alice adopts the key
	_, _, err = cacheA.Bugs().NewRaw(carolA, 1_600_000_000, "carol's bug", "message", nil, nil)
	must(err)
	must(aliceA.Mutate(repoA, func(m *identity.Mutator) { m.Keys = append(m.Keys, key) }))
	must(aliceA.Commit())
	// somebody without Alice's private key comments in her name: dated after the key, unsigned
	aliceNoPriv, err := identity.ReadLocal(repoA, aliceA.Id())
	must(err)
	forged, err := bug.Read(repoA, bug1.Id())
	must(err)
	_, _, err = bug.AddComment(forged, aliceNoPriv, 1_600_000_100, "not written by Alice", nil, nil)
	must(err)
	must(forged.Commit(repoA))
	c.context("cache: key adopted, unsigned commit after it, both arrive in one pull")
	_, err = cacheA.Push("origin")
	must(err)
	perr := cacheB.Pull("origin")
	c.count(fmt.Sprintf("cache-pull-forged-refused=%v", perr != nil))
	b, rerr := bug.Read(repoB, bug1.Id())
	if rerr != nil {
		c.violation(-1, "C08/cache-pull", "after a pull that brought an unsigned commit of a keyed author, B's own copy of the bug does not read: "+rerr.Error(), nil)
	} else if len(b.Operations()) != 1 {
		c.violation(-1, "C08/cache-pull", fmt.Sprintf("a long-lived cache accepted an unsigned commit dated after its author adopted a key (identity update and commit arrived in the same pull): the bug now has %d operations (pull error: %v)", len(b.Operations()), perr), nil)
	}
	if bc, err := cacheB.Bugs().Resolve(bug1.Id()); err == nil && len(bc.Snapshot().Operations) != 1 {
		c.violation(-1, "C08/cache-pull", "the cache serves the forged operation", nil)
	}
	if ib, err := cacheB.Identities().Resolve(aliceA.Id()); err != nil || len(ib.Keys()) != 1 {
		c.violation(-1, "C08/cache-pull", fmt.Sprintf("after the pull B's cache does not know Alice's new key (err %v)", err), nil)
	}
}

// alterSignedCommit rewrites, with go-git directly, a signed commit with another commit message
// and the signature kept as it is: the signature no longer covers the content.
func alterSignedCommit(dir string, h repository.Hash) repository.Hash {
	gr, err := gogit.PlainOpen(dir)
	if err != nil {
		return ""
	}
	cm, err := gr.CommitObject(plumbing.NewHash(string(h)))
	if err != nil || cm.PGPSignature == "" {
		return ""
	}
	alt := *cm
	alt.Message = cm.Message + "altered"
	obj := gr.Storer.NewEncodedObject()
	if err := alt.Encode(obj); err != nil {
		return ""
	}
	nh, err := gr.Storer.SetEncodedObject(obj)
	if err != nil {
		return ""
	}
	return repository.Hash(nh.String())
}

package main

import (
	"fmt"
	"os"
	"path/filepath"
	"runtime/debug"
	"sync"

	"github.com/99designs/keyring"

	"github.com/MichaelMure/git-bug/cache"
	"github.com/MichaelMure/git-bug/repository"
)

const gbNamespace = "git-bug"

// scratchRoot is the per-run directory under which on-disk repositories are created.
var scratchRoot string
var scratchN int

func scratch(name string) string {
	if scratchRoot == "" {
		base := "/dev/shm"
		if st, err := os.Stat(base); err != nil || !st.IsDir() {
			base = os.TempDir()
		}
		d, err := os.MkdirTemp(base, "verif-h-")
		if err != nil {
			panic(err)
		}
		scratchRoot = d
	}
	scratchN++
	d := filepath.Join(scratchRoot, fmt.Sprintf("%s-%d", name, scratchN))
	if err := os.MkdirAll(d, 0o755); err != nil {
		panic(err)
	}
	return d
}

func cleanupScratch() {
	if scratchRoot != "" {
		os.RemoveAll(scratchRoot)
		scratchRoot = ""
	}
}

// memKeyring keeps credentials away from the user's real keyring.
type memKeyring struct {
	repository.TestedRepo
	k repository.Keyring
}

func (m *memKeyring) Keyring() repository.Keyring { return m.k }

func wrapKeyring(r repository.TestedRepo) repository.TestedRepo {
	return &memKeyring{TestedRepo: r, k: keyring.NewArrayKeyring(nil)}
}

// newGoGit creates an on-disk go-git repository (plain or bare).
func newGoGit(name string, bare bool) (repository.TestedRepo, string) {
	dir := scratch(name)
	var r *repository.GoGitRepo
	var err error
	if bare {
		r, err = repository.InitBareGoGitRepo(dir, gbNamespace)
	} else {
		r, err = repository.InitGoGitRepo(dir, gbNamespace)
	}
	if err != nil {
		panic(err)
	}
	cfg := r.LocalConfig()
	cfg.StoreString("user.name", "testuser")
	cfg.StoreString("user.email", "testuser@example.com")
	return wrapKeyring(r), dir
}

// openGoGit opens an existing repository directory (no clock loaders, no cache: no lock taken).
func openGoGit(dir string) (repository.TestedRepo, error) {
	r, err := repository.OpenGoGitRepo(dir, gbNamespace, nil)
	if err != nil {
		return nil, err
	}
	return wrapKeyring(r), nil
}

func newMock() repository.TestedRepo {
	m := repository.NewMockRepo()
	return &lockedMock{TestedRepo: m, ls: lockedStorage{inner: m.LocalStorage(), mu: &sync.Mutex{}}}
}

func mustCache(r repository.ClockedRepo) *cache.RepoCache {
	c, err := cache.NewRepoCacheNoEvents(r)
	if err != nil {
		panic(err)
	}
	return c
}

// recoverTo runs f and converts a panic into its message.
func recoverTo(f func()) (panicked string) {
	defer func() {
		if r := recover(); r != nil {
			panicked = fmt.Sprint(r)
			if os.Getenv("VERIF_STACK") != "" {
				fmt.Fprintln(os.Stderr, string(debug.Stack()))
			}
		}
	}()
	f()
	return ""
}

package main

import (
	"path/filepath"

	"fmt"
	"github.com/go-git/go-billy/v5"
	"github.com/go-git/go-billy/v5/osfs"
	"os"
	"os/exec"
	"sort"
	"strings"
	"time"

	"github.com/ProtonMail/go-crypto/openpgp"

	"github.com/MichaelMure/git-bug/cache"
	"github.com/MichaelMure/git-bug/entities/bug"
	"github.com/MichaelMure/git-bug/entities/identity"
	"github.com/MichaelMure/git-bug/entity"
	"github.com/MichaelMure/git-bug/entity/dag"
	"github.com/MichaelMure/git-bug/repository"
	"github.com/MichaelMure/git-bug/util/lamport"
)

func init() { props["C06"] = runC06 }

// ---- a repository that dies before its k-th storage mutation

type mutRec struct {
	Kind string // StoreData StoreTree StoreCommit UpdateRef CopyRef RemoveRef Increment Witness FetchRefs
	Hash repository.Hash
	Ref  string
	Src  string
	Name string
	V    uint64
}

type crashRepo struct {
	repository.TestedRepo
	crashAt int
	trace   []mutRec
	crashed chan struct{}
}

// tick: the process dies here when this is call number crashAt (the goroutine never returns:
// MergeAll works in goroutines of its own, a panic there could not be recovered)
func (c *crashRepo) tick() {
	if len(c.trace) == c.crashAt {
		close(c.crashed)
		select {}
	}
}

func (c *crashRepo) StoreData(data []byte) (repository.Hash, error) {
	c.tick()
	h, err := c.TestedRepo.StoreData(data)
	c.trace = append(c.trace, mutRec{Kind: "StoreData", Hash: h})
	return h, err
}
func (c *crashRepo) StoreTree(t []repository.TreeEntry) (repository.Hash, error) {
	c.tick()
	h, err := c.TestedRepo.StoreTree(t)
	c.trace = append(c.trace, mutRec{Kind: "StoreTree", Hash: h})
	return h, err
}
func (c *crashRepo) StoreCommit(t repository.Hash, parents ...repository.Hash) (repository.Hash, error) {
	c.tick()
	h, err := c.TestedRepo.StoreCommit(t, parents...)
	c.trace = append(c.trace, mutRec{Kind: "StoreCommit", Hash: h})
	return h, err
}
func (c *crashRepo) StoreSignedCommit(t repository.Hash, k *openpgp.Entity, parents ...repository.Hash) (repository.Hash, error) {
	c.tick()
	h, err := c.TestedRepo.StoreSignedCommit(t, k, parents...)
	c.trace = append(c.trace, mutRec{Kind: "StoreCommit", Hash: h})
	return h, err
}
func (c *crashRepo) UpdateRef(ref string, h repository.Hash) error {
	c.tick()
	err := c.TestedRepo.UpdateRef(ref, h)
	c.trace = append(c.trace, mutRec{Kind: "UpdateRef", Ref: ref, Hash: h})
	return err
}
func (c *crashRepo) CopyRef(src, dst string) error {
	c.tick()
	err := c.TestedRepo.CopyRef(src, dst)
	h, _ := c.TestedRepo.ResolveRef(dst)
	c.trace = append(c.trace, mutRec{Kind: "CopyRef", Ref: dst, Src: src, Hash: h})
	return err
}
func (c *crashRepo) RemoveRef(ref string) error {
	c.tick()
	err := c.TestedRepo.RemoveRef(ref)
	c.trace = append(c.trace, mutRec{Kind: "RemoveRef", Ref: ref})
	return err
}
func (c *crashRepo) FetchRefs(remote string, prefixes ...string) (string, error) {
	c.tick()
	out, err := c.TestedRepo.FetchRefs(remote, prefixes...)
	c.trace = append(c.trace, mutRec{Kind: "FetchRefs"})
	return out, err
}
func (c *crashRepo) Increment(name string) (lamport.Time, error) {
	c.tick()
	t, err := c.TestedRepo.Increment(name)
	// the clock now stands one above the value handed out
	c.trace = append(c.trace, mutRec{Kind: "Increment", Name: name, V: uint64(t)})
	return t, err
}
func (c *crashRepo) Witness(name string, t lamport.Time) error {
	c.tick()
	err := c.TestedRepo.Witness(name, t)
	c.trace = append(c.trace, mutRec{Kind: "Witness", Name: name, V: uint64(t)})
	return err
}

// ---- what a reader sees

type c06View struct {
	Bugs   map[string][]string // id -> operation ids
	Idens  map[string]string   // name -> versions
	Errors []string
}

func readClocks(repo repository.ClockedRepo) map[string]uint64 {
	out := map[string]uint64{}
	cl, _ := repo.AllClocks()
	for n, c := range cl {
		out[n] = uint64(c.Time())
	}
	return out
}

func viewOfDir(dir string) (v c06View, clocks map[string]uint64, openErr error) {
	v = c06View{Bugs: map[string][]string{}, Idens: map[string]string{}}
	r, err := repository.OpenGoGitRepo(dir, gbNamespace, []repository.ClockLoader{bug.ClockLoader})
	if err != nil {
		return v, nil, err
	}
	repo := wrapKeyring(r)
	defer repo.Close()
	// the clocks as the repository opens them, before any entity is read (reading witnesses
	// every stored time, which would hide a clock that came back too low)
	clocks = readClocks(repo)
	for st := range identity.ReadAllLocal(repo) {
		if st.Err != nil {
			v.Errors = append(v.Errors, "identity: "+st.Err.Error())
			continue
		}
		v.Idens[st.Entity.Name()] += fmt.Sprintf("%s/%s:%d;", st.Entity.Email(), st.Entity.Login(), len(st.Entity.LastModificationLamports()))
	}
	for st := range bug.ReadAll(repo) {
		if st.Err != nil {
			v.Errors = append(v.Errors, "bug: "+st.Err.Error())
			continue
		}
		v.Bugs[string(st.Entity.Id())] = opIdsOf(st.Entity.Operations())
	}
	// refs that exist but were not read
	ids, _ := bug.ListLocalIds(repo)
	for _, id := range ids {
		if _, ok := v.Bugs[string(id)]; !ok {
			v.Errors = append(v.Errors, "bug ref "+id.Human()+" not readable")
		}
	}
	return v, clocks, nil
}

// stored times of everything the bug refs reach
func storedTimes(dir string) (maxEdit, maxCreate uint64) {
	repo, err := openGoGit(dir)
	if err != nil {
		return
	}
	defer repo.Close()
	refs, _ := repo.ListRefs("refs/bugs/")
	for _, ref := range refs {
		h, _ := repo.ResolveRef(ref)
		for _, cm := range dumpCommits(repo, h) {
			if cm.Pack != nil {
				maxEdit = max(maxEdit, cm.Pack.Edit)
				maxCreate = max(maxCreate, cm.Pack.Create)
			}
		}
	}
	return
}

func bugRefViews(dir string) []any {
	repo, err := openGoGit(dir)
	if err != nil {
		return []any{"open-error: " + err.Error()}
	}
	defer repo.Close()
	refs, _ := repo.ListRefs("refs/bugs/")
	sort.Strings(refs)
	out := []any{}
	for _, ref := range refs {
		id := entity.Id(strings.TrimPrefix(ref, "refs/bugs/"))
		if b, err := safeRead(repo, id); err == nil {
			out = append(out, []any{ref, opIdsOf(b.Operations())})
		} else {
			out = append(out, []any{ref, nil})
		}
	}
	return out
}

func clockPairs(dir string) []any {
	repo, err := openGoGit(dir)
	if err != nil {
		return []any{"open-error: " + err.Error()}
	}
	defer repo.Close()
	cl := readClocks(repo)
	var names []string
	for n := range cl {
		names = append(names, n)
	}
	sort.Strings(names)
	out := []any{}
	for _, n := range names {
		out = append(out, []any{n, cl[n]})
	}
	return out
}

func cpDir(src, name string) string {
	dst := scratch(name)
	os.RemoveAll(dst)
	if out, err := exec.Command("cp", "-a", src, dst).CombinedOutput(); err != nil {
		panic(string(out))
	}
	return dst
}

// ---- scenarios

type c06Scenario struct {
	name    string
	bugOnly bool // the model (bug DAG) can follow it
	noRetry bool
	dir     string
	action  func(repo repository.ClockedRepo) error
}

// runAction runs the action on a copy of the scenario's repository, dying before call k
// (k < 0: never). Returns the directory, the recorded calls, and whether it died.
func runAction(sc *c06Scenario, k int, onDir string) (string, []mutRec, bool, error) {
	dir := onDir
	if dir == "" {
		dir = cpDir(sc.dir, "c06k")
	}
	under, err := openGoGit(dir)
	if err != nil {
		return dir, nil, false, err
	}
	cr := &crashRepo{TestedRepo: under, crashAt: k, crashed: make(chan struct{})}
	done := make(chan error, 1)
	go func() {
		defer func() {
			if p := recover(); p != nil {
				done <- fmt.Errorf("panic: %v", p)
			}
		}()
		done <- sc.action(cr)
	}()
	select {
	case err := <-done:
		under.Close()
		return dir, cr.trace, false, err
	case <-cr.crashed:
		// the process is dead: nothing is closed, nothing is flushed; a lock file it held now
		// names a process that is gone
		if b, err := os.ReadFile(lockPath(dir)); err == nil && string(b) == fmt.Sprint(os.Getpid()) {
			dead := exec.Command("true")
			dead.Run()
			os.WriteFile(lockPath(dir), []byte(fmt.Sprint(dead.Process.Pid)), 0o644)
		}
		return dir, cr.trace, true, nil
	case <-time.After(60 * time.Second):
		return dir, cr.trace, false, fmt.Errorf("action timed out")
	}
}

func sameIdents(a, b map[string]string) bool { return mustJSON(a) == mustJSON(b) }

func runC06(c *runCtx) {
	defer cleanupScratch()
	N := c.pick(1, 6)
	for rep := 0; rep < N; rep++ {
		for _, sc := range c06Scenarios(c, c.rng.fork()) {
			c06RunScenario(c, sc)
		}
	}
	c06Clocks(c, "C06")
}

func c06RunScenario(c *runCtx, sc *c06Scenario) {
	c.context("scenario " + sc.name + ": dry run")
	pre, preClocks, err := viewOfDir(sc.dir)
	if err != nil || len(pre.Errors) > 0 {
		c.violation(-1, "C06/harness", fmt.Sprintf("scenario %s: the starting state is not readable: %v %v", sc.name, err, pre.Errors), nil)
		return
	}
	_ = preClocks
	dryDir, trace, _, err := runAction(sc, -1, "")
	if err != nil {
		c.violation(-1, "C06/harness", fmt.Sprintf("scenario %s: the action fails without any crash: %v", sc.name, err), nil)
		return
	}
	post, _, err := viewOfDir(dryDir)
	if err != nil || len(post.Errors) > 0 {
		c.violation(-1, "C06/harness", fmt.Sprintf("scenario %s: the final state is not readable: %v %v", sc.name, err, post.Errors), nil)
		return
	}
	n := len(trace)
	c.countN("crash-points", n)
	c.count("scenario=" + sc.name)
	var kinds []string
	for _, m := range trace {
		kinds = append(kinds, m.Kind)
	}
	c.nontrivial(sc.name + "|" + strings.Join(kinds, ","))
	// the model's input: the object store and refs before, and the recorded calls
	var implViews, implClocks []any
	var muts []map[string]any
	if sc.bugOnly {
		dry, _ := openGoGit(dryDir)
		for _, m := range trace {
			switch m.Kind {
			case "StoreCommit":
				cm, err := dry.ReadCommit(m.Hash)
				if err != nil {
					muts = append(muts, map[string]any{"k": "aux"})
					break
				}
				muts = append(muts, map[string]any{"k": "obj", "commit": decodeCommit(dry, cm)})
			case "UpdateRef", "CopyRef":
				if strings.HasPrefix(m.Ref, "refs/bugs/") {
					muts = append(muts, map[string]any{"k": "ref", "name": m.Ref, "hash": string(m.Hash)})
				} else {
					muts = append(muts, map[string]any{"k": "aux"})
				}
			case "Increment":
				muts = append(muts, map[string]any{"k": "clock", "name": m.Name, "v": m.V})
			case "Witness":
				muts = append(muts, map[string]any{"k": "clock-witness", "name": m.Name, "v": m.V})
			default:
				muts = append(muts, map[string]any{"k": "aux"})
			}
		}
		dry.Close()
	}
	for k := 0; k < n; k++ {
		c.context(fmt.Sprintf("scenario %s: process dies before call %d/%d (%s)", sc.name, k, n, kinds[k]))
		dir, tr, died, err := runAction(sc, k, "")
		if !died {
			c.violation(-1, "C06/harness", fmt.Sprintf("scenario %s: crash point %d not reached (%v)", sc.name, k, err), nil)
			continue
		}
		for i := range tr {
			if tr[i].Kind != kinds[i] {
				c.violation(-1, "C06/harness", fmt.Sprintf("scenario %s: the calls differ between runs at %d: %s vs %s", sc.name, i, tr[i].Kind, kinds[i]), nil)
			}
		}
		where := fmt.Sprintf("scenario %s, process dies before call %d of %d (%s; calls so far %v)", sc.name, k, n, kinds[k], kinds[:k])
		v, clocks, err := viewOfDir(dir)
		if err != nil {
			c.violation(-1, "C06/cannot-reopen", fmt.Sprintf("%s: the repository does not open again: %v", where, err), map[string]any{"scenario": sc.name, "k": k})
			continue
		}
		if len(v.Errors) > 0 {
			c.violation(-1, "C06/unreadable-entity", fmt.Sprintf("%s: %v", where, v.Errors), map[string]any{"scenario": sc.name, "k": k})
		}
		// every entity is in its old or in its new state
		for id, ops := range v.Bugs {
			o, inPre := pre.Bugs[id]
			p, inPost := post.Bugs[id]
			if !(inPre && mustJSON(o) == mustJSON(ops)) && !(inPost && mustJSON(p) == mustJSON(ops)) {
				c.violation(-1, "C06/mixed-state", fmt.Sprintf("%s: bug %s has operations %v, before %v, after %v", where, entity.Id(id).Human(), ops, o, p), map[string]any{"scenario": sc.name, "k": k})
			}
		}
		for id := range pre.Bugs {
			if _, ok := v.Bugs[id]; !ok {
				if _, stays := post.Bugs[id]; stays {
					c.violation(-1, "C06/entity-lost", fmt.Sprintf("%s: bug %s is gone", where, entity.Id(id).Human()), nil)
				}
			}
		}
		if !sameIdents(v.Idens, pre.Idens) && !sameIdents(v.Idens, post.Idens) {
			// identities are independent entities: each must be old or new
			for name, s := range v.Idens {
				if s != pre.Idens[name] && s != post.Idens[name] {
					c.violation(-1, "C06/mixed-state", fmt.Sprintf("%s: identity %q is %s, before %q, after %q", where, name, s, pre.Idens[name], post.Idens[name]), nil)
				}
			}
		}
		// clocks usable and not behind what is stored
		me, mc := storedTimes(dir)
		if clocks["bugs-edit"] < me || clocks["bugs-create"] < mc {
			c.violation(-1, "C06/clock-behind", fmt.Sprintf("%s: clocks %v, stored edit time %d, create time %d", where, clocks, me, mc), map[string]any{"scenario": sc.name, "k": k})
		}
		if sc.bugOnly {
			implViews = append(implViews, bugRefViews(dir))
			implClocks = append(implClocks, clockPairs(dir))
		}
		// repeating the interrupted action completes it (not for the in-process cache scenario:
		// the abandoned goroutines of the "dead" process still hold the search index's file lock,
		// which a really dead process would not; the CLI scenarios below cover that with real deaths)
		if sc.noRetry {
			os.RemoveAll(dir)
			continue
		}
		_, _, died2, err := runAction(sc, -1, dir)
		if died2 || err != nil {
			c.violation(-1, "C06/retry-fails", fmt.Sprintf("%s: repeating the action fails: %v", where, err), map[string]any{"scenario": sc.name, "k": k})
		} else {
			v2, _, err := viewOfDir(dir)
			if err != nil || len(v2.Errors) > 0 || mustJSON(v2.Bugs) != mustJSON(post.Bugs) || !sameIdents(v2.Idens, post.Idens) && !strings.HasPrefix(sc.name, "identity-new") {
				c.violation(-1, "C06/retry-incomplete", fmt.Sprintf("%s: after repeating the action the state is not the final state (%v %v)", where, err, v2.Errors), map[string]any{"scenario": sc.name, "k": k, "got": v2, "want": post})
			}
		}
		os.RemoveAll(dir)
	}
	if sc.bugOnly {
		implViews = append(implViews, bugRefViews(dryDir))
		implClocks = append(implClocks, clockPairs(dryDir))
		preRepo, _ := openGoGit(sc.dir)
		var heads []repository.Hash
		var refs [][]string
		all, _ := preRepo.ListRefs("refs/")
		sort.Strings(all)
		for _, ref := range all {
			if !strings.Contains(ref, "/bugs/") {
				continue
			}
			h, _ := preRepo.ResolveRef(ref)
			heads = append(heads, h)
			if strings.HasPrefix(ref, "refs/bugs/") {
				refs = append(refs, []string{ref, string(h)})
			}
		}
		commits := dumpCommits(preRepo, heads...)
		var clocks [][]any
		cl := readClocks(preRepo)
		for n, v := range cl {
			clocks = append(clocks, []any{n, v})
		}
		preRepo.Close()
		// a witness leaves the clock at max(old, v): resolve against the running value
		cur := map[string]uint64{}
		for n, v := range cl {
			cur[n] = v
		}
		for _, m := range muts {
			switch m["k"] {
			case "clock": // Increment handed out v: the clock file now holds v
				cur[m["name"].(string)] = m["v"].(uint64)
			case "clock-witness":
				name := m["name"].(string)
				if _, ok := cur[name]; !ok {
					cur[name] = 1 // GetOrCreateClock starts a clock at 1
				}
				cur[name] = max(cur[name], m["v"].(uint64))
				m["k"] = "clock"
				m["v"] = cur[name]
			}
		}
		c.emit(map[string]any{"cmd": "crash", "scenario": sc.name, "commits": commits, "refs": refs, "clocks": clocks, "muts": muts},
			map[string]any{"views": implViews, "clocks": implClocks})
	}
	os.RemoveAll(dryDir)
}

// savedOps: operations built once and appended to a fresh in-memory entity on every run
func commitOps(repo repository.ClockedRepo, id entity.Id, ops []bug.Operation) error {
	var b *bug.Bug
	if id == "" {
		b = bug.NewBug()
	} else {
		var err error
		b, err = bug.Read(repo, id)
		if err != nil {
			return err
		}
		// a retry after the final ref update: nothing is left to do
		have := map[entity.Id]bool{}
		for _, o := range b.Operations() {
			have[o.Id()] = true
		}
		var rest []bug.Operation
		for _, o := range ops {
			if !have[o.Id()] {
				rest = append(rest, o)
			}
		}
		ops = rest
		if len(ops) == 0 {
			return nil
		}
	}
	for _, o := range ops {
		b.Append(o)
	}
	return b.Commit(repo)
}

func c06Scenarios(c *runCtx, r *rng) []*c06Scenario {
	var out []*c06Scenario
	// a base repository: three authors, two bugs, a bare remote, a second clone that is ahead
	base, baseDir := newGoGit("c06base", false)
	remote, _ := newGoGit("c06remote", true)
	base.AddRemote("origin", remote.GetLocalRemote())
	authors := mkAuthors(base, 3)
	g := newOpGen(r.fork(), authors)
	mkBug := func(n int) (entity.Id, *opGen) {
		gg := newOpGen(r.fork(), authors)
		b := bug.NewBug()
		cop := gg.create()
		b.Append(cop)
		gg.record(cop, true)
		for i := 0; i < n; i++ {
			op, isC, _ := gg.next()
			b.Append(op)
			gg.record(op, isC)
			if r.chance(1, 3) {
				b.Commit(base)
			}
		}
		if b.NeedCommit() {
			b.Commit(base)
		}
		return b.Id(), gg
	}
	b1, g1 := mkBug(3)
	b2, _ := mkBug(2)
	b3, _ := mkBug(1)
	identity.Push(base, "origin")
	bug.Push(base, "origin")
	// the other clone: edits b1, b2, creates b4, pushes
	other, _ := newGoGit("c06other", false)
	other.AddRemote("origin", remote.GetLocalRemote())
	identity.Pull(other, "origin")
	bug.Pull(other, resolversFor(other), "origin", authors[0])
	oa, _ := identity.ReadLocal(other, authors[1].Id())
	editOn := func(repo repository.ClockedRepo, id entity.Id, who identity.Interface, n int) {
		b, err := bug.Read(repo, id)
		if err != nil {
			panic(err)
		}
		gg := newOpGenWith(r.fork(), []identity.Interface{who}, b)
		for i := 0; i < n; i++ {
			op, _, _ := gg.next()
			b.Append(op)
		}
		if err := b.Commit(repo); err != nil {
			panic(err)
		}
	}
	editOn(other, b1, oa, 2)
	editOn(other, b2, oa, 1)
	{
		gg := newOpGen(r.fork(), []identity.Interface{oa})
		b := bug.NewBug()
		b.Append(gg.create())
		b.Commit(other)
	}
	bug.Push(other, "origin")
	// the other clone also changes an identity and adds one: a pull has identities to merge
	oa.Mutate(other, func(m *identity.Mutator) { m.Login = "changed-remotely" })
	// (two versions in one go: a merge on the pulling side has to fast-forward over both)
	oa.Mutate(other, func(m *identity.Mutator) { m.Email = "changed-remotely@example.com" })
	if oa.NeedCommit() {
		oa.Commit(other)
	}
	if ni, err := identity.NewIdentity(other, "joined later", "later@example.com"); err == nil {
		ni.Commit(other)
	}
	identity.Push(other, "origin")
	other.Close()
	// locally: b1 diverges (local edit), b2 stays behind (fast-forward), b3 untouched, b4 new
	editOn(base, b1, authors[2], 1)
	_ = b3

	// ---- 1. a new bug, one author
	{
		cop := g.create()
		ops := []bug.Operation{cop}
		gg := newOpGen(r.fork(), []identity.Interface{cop.Author()})
		gg.record(cop, true)
		for i := 0; i < r.rangeInt(0, 3); i++ {
			op, isC, _ := gg.next()
			gg.record(op, isC)
			ops = append(ops, op)
		}
		id := cop.Id()
		out = append(out, &c06Scenario{name: "bug-create", bugOnly: true, action: func(repo repository.ClockedRepo) error {
			if ok, _ := repo.RefExist("refs/bugs/" + string(id)); ok {
				return nil // the retry finds it done
			}
			return commitOps(repo, "", ops)
		}})
	}
	// ---- 2. an edit staged by several authors: several packs, one ref update
	{
		var ops []bug.Operation
		for i := 0; i < r.rangeInt(3, 5); i++ {
			g1.authors = []identity.Interface{authors[i%3]}
			op, isC, _ := g1.next()
			g1.record(op, isC)
			ops = append(ops, op)
		}
		out = append(out, &c06Scenario{name: "bug-edit-multi-author", bugOnly: true, action: func(repo repository.ClockedRepo) error {
			return commitOps(repo, b1, ops)
		}})
	}
	// ---- 3. merge of what was fetched: new, fast-forward, diverged in one MergeAll
	mergeAll := func(repo repository.ClockedRepo) error {
		a, err := identity.ReadLocal(repo, authors[0].Id())
		if err != nil {
			return err
		}
		for res := range bug.MergeAll(repo, resolversFor(repo), "origin", a) {
			if res.Err != nil {
				return res.Err
			}
			if res.Status == entity.MergeStatusInvalid {
				return fmt.Errorf("invalid: %s", res.Reason)
			}
		}
		return nil
	}
	out = append(out, &c06Scenario{name: "merge-all(new,fast-forward,diverged)", bugOnly: true, action: func(repo repository.ClockedRepo) error {
		return mergeAll(repo)
	}})
	// ---- 4. pull = fetch + merge
	out = append(out, &c06Scenario{name: "pull", bugOnly: false, action: func(repo repository.ClockedRepo) error {
		if err := identity.Pull(repo, "origin"); err != nil {
			return err
		}
		a, err := identity.ReadLocal(repo, authors[0].Id())
		if err != nil {
			return err
		}
		return bug.Pull(repo, resolversFor(repo), "origin", a)
	}})
	// ---- 5. identities: a new one, a new version of an existing one
	out = append(out, &c06Scenario{name: "identity-new", action: func(repo repository.ClockedRepo) error {
		for st := range identity.ReadAllLocal(repo) {
			if st.Err == nil && st.Entity.Name() == "newcomer" {
				return nil
			}
		}
		i, err := identity.NewIdentity(repo, "newcomer", "n@example.com")
		if err != nil {
			return err
		}
		return i.Commit(repo)
	}})
	out = append(out, &c06Scenario{name: "identity-mutate", action: func(repo repository.ClockedRepo) error {
		i, err := identity.ReadLocal(repo, authors[1].Id())
		if err != nil {
			return err
		}
		if i.Email() == "changed@example.com" {
			return nil
		}
		if err := i.Mutate(repo, func(m *identity.Mutator) { m.Email = "changed@example.com" }); err != nil {
			return err
		}
		// a second pending version: one Commit writes both
		if err := i.Mutate(repo, func(m *identity.Mutator) { m.Login = "changed-login" }); err != nil {
			return err
		}
		return i.Commit(repo)
	}})
	// ---- 6. through the cache: a new bug (created and committed in one call), then close
	out = append(out, &c06Scenario{name: "cache-new-bug", noRetry: true, action: func(repo repository.ClockedRepo) error {
		for st := range bug.ReadAll(repo) {
			if st.Err == nil && st.Entity.Compile().Title == "made through the cache" {
				return nil // the retry finds it done
			}
		}
		rc, err := cache.NewRepoCacheNoEvents(repo)
		if err != nil {
			return err
		}
		u, err := rc.Identities().Resolve(authors[0].Id())
		if err != nil {
			return err
		}
		if _, _, err := rc.Bugs().NewRaw(u, 1_700_000_000, "made through the cache", "first", nil, nil); err != nil {
			return err
		}
		return rc.Close()
	}})
	base.Close()
	remote.Close()
	for _, sc := range out {
		sc.dir = baseDir
	}
	_ = dag.ClockLoader
	return out
}

// ---- the clock files: every crash point of every file operation of a clock write, with
// every partial write

type crashFS struct {
	billy.Filesystem
	n, crashAt int
	partial    int // bytes of the interrupted Write that still reach the file
	ops        []string
}

type fsCrash struct{}

func (f *crashFS) tick(op string) {
	if f.n == f.crashAt {
		panic(fsCrash{})
	}
	f.n++
	f.ops = append(f.ops, op)
}

type crashFile struct {
	billy.File
	fs *crashFS
}

func (f *crashFile) Write(p []byte) (int, error) {
	if f.fs.n == f.fs.crashAt {
		k := f.fs.partial
		if k > len(p) {
			k = len(p)
		}
		f.File.Write(p[:k])
		f.File.Close()
		panic(fsCrash{})
	}
	f.fs.n++
	f.fs.ops = append(f.fs.ops, fmt.Sprintf("Write(%d)", len(p)))
	return f.File.Write(p)
}
func (f *crashFile) Close() error { f.fs.tick("Close"); return f.File.Close() }

func (f *crashFS) Create(name string) (billy.File, error) {
	f.tick("Create")
	x, err := f.Filesystem.Create(name)
	if err != nil {
		return nil, err
	}
	return &crashFile{x, f}, nil
}
func (f *crashFS) OpenFile(name string, flag int, perm os.FileMode) (billy.File, error) {
	if flag&(os.O_WRONLY|os.O_RDWR|os.O_CREATE|os.O_TRUNC) == 0 {
		return f.Filesystem.OpenFile(name, flag, perm)
	}
	f.tick("OpenFile")
	x, err := f.Filesystem.OpenFile(name, flag, perm)
	if err != nil {
		return nil, err
	}
	return &crashFile{x, f}, nil
}
func (f *crashFS) TempFile(dir, prefix string) (billy.File, error) {
	f.tick("TempFile")
	x, err := f.Filesystem.TempFile(dir, prefix)
	if err != nil {
		return nil, err
	}
	return &crashFile{x, f}, nil
}
func (f *crashFS) Rename(a, b string) error { f.tick("Rename"); return f.Filesystem.Rename(a, b) }
func (f *crashFS) Remove(a string) error    { f.tick("Remove"); return f.Filesystem.Remove(a) }

// c06ClockCreation: the very first use of a clock (first bug ever, first pull into a fresh clone): the
// process dies at every file operation of the creation, with every partial write.  The next process
// must be able to use the clock: load it, or find that it does not exist and create it.
func c06ClockCreation(c *runCtx, prop string) {
	count := func(crashAt, partial int) (ops []string, died bool, dir string) {
		dir = scratch("c06new")
		fs := &crashFS{Filesystem: osfs.New(dir), crashAt: crashAt, partial: partial}
		func() {
			defer func() {
				if p := recover(); p != nil {
					if _, ok := p.(fsCrash); !ok {
						panic(p)
					}
					died = true
				}
			}()
			clk, err := lamport.NewPersistedClock(fs, "clocks/bugs-edit")
			if err != nil {
				panic(err)
			}
			clk.Increment()
		}()
		return fs.ops, died, dir
	}
	ops, _, d0 := count(-1, 0)
	os.RemoveAll(d0)
	c.count(fmt.Sprintf("clock-creation-ops=%s", strings.Join(ops, ",")))
	for k := 0; k < len(ops); k++ {
		partials := []int{0}
		if strings.HasPrefix(ops[k], "Write(") {
			var n int
			fmt.Sscanf(ops[k], "Write(%d)", &n)
			partials = nil
			for j := 0; j < n; j++ {
				partials = append(partials, j)
			}
		}
		for _, j := range partials {
			_, _, dir := count(k, j)
			c.count("clock-creation-crash-points")
			where := fmt.Sprintf("first creation of a clock, process dies at file operation %d (%s) of %v with %d bytes written", k, ops[k], ops, j)
			content, _ := os.ReadFile(filepath.Join(dir, "clocks", "bugs-edit"))
			fs := osfs.New(dir)
			clk, err := lamport.LoadPersistedClock(fs, "clocks/bugs-edit")
			if err == lamport.ErrClockNotExist {
				clk, err = lamport.NewPersistedClock(fs, "clocks/bugs-edit")
			}
			if err != nil {
				c.violation(-1, prop+"/cannot-reopen", fmt.Sprintf("%s: the clock file holds %q and the clock can neither be loaded nor created: %v", where, content, err), map[string]any{"op": k, "bytes": j})
			} else if _, err := clk.Increment(); err != nil {
				c.violation(-1, prop+"/clock-unusable", fmt.Sprintf("%s: the clock file holds %q and the next increment fails: %v", where, content, err), nil)
			}
			os.RemoveAll(dir)
		}
	}
}

func c06Clocks(c *runCtx, prop string) {
	c06ClockCreation(c, prop)
	r := c.rng.fork()
	// a repository with a bug whose clocks stand at several digits
	repo, dir := newGoGit("c06clock", false)
	authors := mkAuthors(repo, 1)
	start := uint64(r.rangeInt(95, 99999))
	repo.Witness("bugs-edit", lamport.Time(start))
	repo.Witness("bugs-create", lamport.Time(start/2+7))
	g := newOpGen(r.fork(), authors)
	b := bug.NewBug()
	b.Append(g.create())
	if err := b.Commit(repo); err != nil {
		panic(err)
	}
	// the clocks stand above every stored time (bugs seen and removed since, witnessed remotes)
	repo.Witness("bugs-edit", lamport.Time(start+1000))
	repo.Witness("bugs-create", lamport.Time(start/2+1007))
	repo.Close()
	pre, preClocks, err := viewOfDir(dir)
	if err != nil {
		c.violation(-1, prop+"/harness", "clock scenario: "+err.Error(), nil)
		return
	}
	for _, clockName := range []string{"bugs-edit", "bugs-create"} {
		for _, what := range []string{"increment", "witness-higher", "witness-lower"} {
			// the file operations of one clock write, found by a dry run
			count := func(crashAt, partial int) (ops []string, died bool, dirK string) {
				dirK = cpDir(dir, "c06ck")
				fs := &crashFS{Filesystem: osfs.New(filepath.Join(dirK, ".git", gbNamespace)), crashAt: crashAt, partial: partial}
				func() {
					defer func() {
						if p := recover(); p != nil {
							if _, ok := p.(fsCrash); !ok {
								panic(p)
							}
							died = true
						}
					}()
					clk, err := lamport.LoadPersistedClock(fs, "clocks/"+clockName)
					if err != nil {
						panic(err)
					}
					switch what {
					case "increment":
						clk.Increment()
					case "witness-higher":
						clk.Witness(clk.Time() * 10)
					case "witness-lower":
						clk.Witness(1)
					}
				}()
				return fs.ops, died, dirK
			}
			ops, _, d0 := count(-1, 0)
			os.RemoveAll(d0)
			c.count(fmt.Sprintf("clock-write-ops=%s", strings.Join(ops, ",")))
			for k := 0; k < len(ops); k++ {
				partials := []int{0}
				if strings.HasPrefix(ops[k], "Write(") {
					var n int
					fmt.Sscanf(ops[k], "Write(%d)", &n)
					partials = nil
					for j := 0; j < n; j++ {
						partials = append(partials, j)
					}
				}
				for _, j := range partials {
					_, died, dirK := count(k, j)
					c.count("clock-crash-points")
					c.nontrivial(fmt.Sprintf("clock|%s|%s|%d|%d", clockName, what, k, j))
					where := fmt.Sprintf("clock %s, %s, process dies at file operation %d (%s) of %v with %d bytes written", clockName, what, k, ops[k], ops, j)
					c.context(where)
					if !died {
						c.violation(-1, prop+"/harness", where+": crash point not reached", nil)
					}
					content, _ := os.ReadFile(filepath.Join(dirK, ".git", gbNamespace, "clocks", clockName))
					c.count(fmt.Sprintf("clock-content-after-crash=%q", content))
					v, clocks, err := viewOfDir(dirK)
					if err != nil {
						c.violation(-1, prop+"/cannot-reopen", fmt.Sprintf("%s: the clock file holds %q and the repository does not open again: %v", where, content, err), map[string]any{"clock": clockName, "op": k, "bytes": j})
						os.RemoveAll(dirK)
						continue
					}
					if len(v.Errors) > 0 || mustJSON(v.Bugs) != mustJSON(pre.Bugs) {
						c.violation(-1, prop+"/unreadable-entity", fmt.Sprintf("%s: entities read differently: %v", where, v.Errors), nil)
					}
					// a clock never goes back across the death of a process
					if clocks[clockName] < preClocks[clockName] {
						c.violation(-1, prop+"/clock-went-back", fmt.Sprintf("%s: clock %s stood at %d before, and is %d after reopening (file content %q)", where, clockName, preClocks[clockName], clocks[clockName], content), map[string]any{"clock": clockName, "op": k, "bytes": j})
					}
					me, mc := storedTimes(dirK)
					if clocks["bugs-edit"] < me || clocks["bugs-create"] < mc {
						c.violation(-1, prop+"/clock-behind", fmt.Sprintf("%s: the clock file holds %q; clocks %v, stored edit time %d, create time %d", where, content, clocks, me, mc), map[string]any{"clock": clockName, "op": k, "bytes": j})
					}
					// and the next edit is written with a time above everything stored
					if rr, err := openGoGit(dirK); err == nil {
						if bb, err := bug.Read(rr, b.Id()); err == nil {
							gg := newOpGenWith(r.fork(), authors, bb)
							op, _, _ := gg.next()
							bb.Append(op)
							if err := bb.Commit(rr); err != nil {
								c.violation(-1, prop+"/clock-unusable", fmt.Sprintf("%s: the next edit fails: %v", where, err), nil)
							} else if uint64(bb.EditLamportTime()) <= me {
								c.violation(-1, prop+"/clock-behind", fmt.Sprintf("%s: the next edit got time %d, stored %d", where, bb.EditLamportTime(), me), nil)
							}
						} else {
							c.violation(-1, prop+"/unreadable-entity", where+": "+err.Error(), nil)
						}
						rr.Close()
					} else {
						c.violation(-1, prop+"/cannot-reopen", fmt.Sprintf("%s: the clock file holds %q: %v", where, content, err), nil)
					}
					os.RemoveAll(dirK)
				}
			}
		}
	}
}

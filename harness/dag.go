package main

import (
	"crypto/sha256"
	"encoding/json"
	"fmt"
	"strconv"
	"strings"

	"github.com/MichaelMure/git-bug/entities/bug"
	"github.com/MichaelMure/git-bug/entity/dag"
	"github.com/MichaelMure/git-bug/repository"
)

// ---- independent decoding of the on-disk format (documented in doc/model.md), through
// repository.RepoData only — not through entity/dag

type opTokJ struct {
	Id    string `json:"id"`
	Kind  int    `json:"kind"`
	Valid bool   `json:"valid"`
}

type packJ struct {
	Id        string   `json:"id"`
	Author    string   `json:"author"`
	Ops       []opTokJ `json:"ops"`
	Create    uint64   `json:"create"`
	Edit      uint64   `json:"edit"`
	AuthorsOk bool     `json:"authorsOk"`
}

type commitJ struct {
	Hash    string   `json:"hash"`
	Parents []string `json:"parents"`
	Pack    *packJ   `json:"pack,omitempty"`
	Err     string   `json:"err,omitempty"` // class of the decoding error
}

const bugFormatVersion = 4

// authorKnown, when set, tells whether the identity an operation pack names exists locally.
var authorKnown func(repo repository.RepoData, id string) bool

func sha256hex(b []byte) string {
	h := sha256.Sum256(b)
	return fmt.Sprintf("%x", h)
}

func decodeCommit(repo repository.RepoData, c repository.Commit) commitJ {
	out := commitJ{Hash: string(c.Hash), Parents: []string{}}
	for _, p := range c.Parents {
		out.Parents = append(out.Parents, string(p))
	}
	entries, err := repo.ReadTree(c.TreeHash)
	if err != nil {
		out.Err = "decode"
		return out
	}
	version := uint64(0)
	for _, e := range entries {
		if strings.HasPrefix(e.Name, "version-") {
			v, err := strconv.ParseUint(strings.TrimPrefix(e.Name, "version-"), 10, 64)
			if err != nil || v > 1<<12 {
				out.Err = "decode"
				return out
			}
			version = v
			break
		}
	}
	if version != bugFormatVersion {
		out.Err = "decode"
		return out
	}
	p := &packJ{Ops: []opTokJ{}, AuthorsOk: true}
	for _, e := range entries {
		switch {
		case e.Name == "ops":
			data, err := repo.ReadData(e.Hash)
			if err != nil {
				out.Err = "decode"
				return out
			}
			var aux struct {
				Author struct {
					Id string `json:"id"`
				} `json:"author"`
				Ops []json.RawMessage `json:"ops"`
			}
			if err := json.Unmarshal(data, &aux); err != nil || aux.Author.Id == "" {
				out.Err = "decode"
				return out
			}
			if authorKnown != nil && !authorKnown(repo, aux.Author.Id) {
				out.Err = "decode" // the author cannot be resolved
				return out
			}
			p.Id = sha256hex(data)
			p.Author = aux.Author.Id
			for _, raw := range aux.Ops {
				var t struct {
					Type int `json:"type"`
				}
				if err := json.Unmarshal(raw, &t); err != nil {
					out.Err = "decode"
					return out
				}
				// the operation must decode into the struct of its type (public types of the format)
				var target any
				switch t.Type {
				case 1:
					target = &bug.CreateOperation{}
				case 2:
					target = &bug.SetTitleOperation{}
				case 3:
					target = &bug.AddCommentOperation{}
				case 4:
					target = &bug.SetStatusOperation{}
				case 5:
					target = &bug.LabelChangeOperation{}
				case 6:
					target = &bug.EditCommentOperation{}
				case 7:
					target = &dag.NoOpOperation[*bug.Snapshot]{}
				case 8:
					target = &dag.SetMetadataOperation[*bug.Snapshot]{}
				default:
					out.Err = "decode"
					return out
				}
				if err := json.Unmarshal(raw, target); err != nil {
					out.Err = "decode"
					return out
				}
				p.Ops = append(p.Ops, opTokJ{Id: sha256hex(raw), Kind: t.Type, Valid: true})
			}
		case strings.HasPrefix(e.Name, "create-clock-"):
			v, err := strconv.ParseUint(strings.TrimPrefix(e.Name, "create-clock-"), 10, 64)
			if err != nil {
				out.Err = "decode"
				return out
			}
			p.Create = v
		case strings.HasPrefix(e.Name, "edit-clock-"):
			v, err := strconv.ParseUint(strings.TrimPrefix(e.Name, "edit-clock-"), 10, 64)
			if err != nil {
				out.Err = "decode"
				return out
			}
			p.Edit = v
		}
	}
	if p.Author == "" { // no ops entry at all
		out.Err = "decode"
		return out
	}
	out.Pack = p
	return out
}

// dumpCommits returns every commit reachable from the heads, each once, decoded.
func dumpCommits(repo repository.RepoData, heads ...repository.Hash) []commitJ {
	seen := map[repository.Hash]bool{}
	var out []commitJ
	queue := append([]repository.Hash{}, heads...)
	for len(queue) > 0 {
		h := queue[0]
		queue = queue[1:]
		if seen[h] || h == "" {
			continue
		}
		seen[h] = true
		c, err := repo.ReadCommit(h)
		if err != nil {
			continue // a dangling parent: the model will report missingCommit too
		}
		out = append(out, decodeCommit(repo, c))
		queue = append(queue, c.Parents...)
	}
	return out
}

// ---- crafting commits directly in the documented format

type craftPack struct {
	author  string
	ops     []dag.Operation
	edit    uint64
	create  uint64
	version int // 0 = no version entry
	noOps   bool
}

func writeCrafted(repo repository.RepoData, p craftPack, parents ...repository.Hash) repository.Hash {
	empty, err := repo.StoreData([]byte{})
	if err != nil {
		panic(err)
	}
	var tree []repository.TreeEntry
	if p.version != 0 {
		tree = append(tree, repository.TreeEntry{ObjectType: repository.Blob, Hash: empty, Name: fmt.Sprintf("version-%d", p.version)})
	}
	if !p.noOps {
		raws := make([]json.RawMessage, 0, len(p.ops))
		for _, o := range p.ops {
			b, err := json.Marshal(o)
			if err != nil {
				panic(err)
			}
			raws = append(raws, b)
		}
		var opsField any = raws
		if len(raws) == 0 {
			opsField = nil
		}
		blob, _ := json.Marshal(map[string]any{"author": map[string]string{"id": p.author}, "ops": opsField})
		h, err := repo.StoreData(blob)
		if err != nil {
			panic(err)
		}
		tree = append(tree, repository.TreeEntry{ObjectType: repository.Blob, Hash: h, Name: "ops"})
	}
	tree = append(tree, repository.TreeEntry{ObjectType: repository.Blob, Hash: empty, Name: fmt.Sprintf("edit-clock-%d", p.edit)})
	if p.create > 0 {
		tree = append(tree, repository.TreeEntry{ObjectType: repository.Blob, Hash: empty, Name: fmt.Sprintf("create-clock-%d", p.create)})
	}
	th, err := repo.StoreTree(tree)
	if err != nil {
		panic(err)
	}
	ch, err := repo.StoreCommit(th, parents...)
	if err != nil {
		panic(err)
	}
	return ch
}

// readErrClass maps an error of bug.Read / dag.read to the model's error classes.
func readErrClass(err error) string {
	if err == nil {
		return ""
	}
	m := err.Error()
	switch {
	case strings.Contains(m, "multiple leafs"):
		return "multipleRoots"
	case strings.Contains(m, "merge commit cannot have operations"):
		return "mergeWithOps"
	case strings.Contains(m, "creation lamport time not set"):
		return "noCreateTime"
	case strings.Contains(m, "lamport clock ordering"):
		return "clockOrder"
	case strings.Contains(m, "jumping too far"):
		return "clockJump"
	case strings.Contains(m, "lamport edit time is zero"), strings.Contains(m, "different author than"):
		return "invalidPack"
	case strings.HasSuffix(m, "has no operation"):
		return "noOps"
	case m == "bug doesn't exist":
		return "notFound"
	}
	return "decode"
}

package main

import (
	"bytes"
	"encoding/json"
	"fmt"
	"strings"

	"github.com/MichaelMure/git-bug/entities/bug"
	"github.com/MichaelMure/git-bug/entities/identity"
	"github.com/MichaelMure/git-bug/entity"
	"github.com/MichaelMure/git-bug/entity/dag"
	"github.com/MichaelMure/git-bug/repository"
	"github.com/ProtonMail/go-crypto/openpgp"
	"github.com/ProtonMail/go-crypto/openpgp/armor"
	"github.com/ProtonMail/go-crypto/openpgp/packet"
)

func init() { props["C07"] = runC07 }

// a commit described at the level of tree entries and blob bytes
type rawCommit struct {
	entries []rawEntry
	parents []int
	hash    repository.Hash
}

type rawEntry struct {
	name   string
	blob   []byte // nil: the empty blob
	isTree bool   // the entry points to a (empty) tree instead of a blob
}

func writeRaw(repo repository.RepoData, cs []*rawCommit) {
	for _, c := range cs {
		var tree []repository.TreeEntry
		for _, e := range c.entries {
			var h repository.Hash
			var err error
			ot := repository.Blob
			if e.isTree {
				h, err = repo.StoreTree(nil)
				ot = repository.Tree
			} else {
				h, err = repo.StoreData(e.blob)
			}
			if err != nil {
				panic(err)
			}
			tree = append(tree, repository.TreeEntry{ObjectType: ot, Hash: h, Name: e.name})
		}
		th, err := repo.StoreTree(tree)
		if err != nil {
			panic(err)
		}
		var ps []repository.Hash
		for _, p := range c.parents {
			ps = append(ps, cs[p].hash)
		}
		c.hash, err = repo.StoreCommit(th, ps...)
		if err != nil {
			panic(err)
		}
	}
}

// validBugHistory: a linear history of n commits as raw commits (so that every byte can be mutated).
func validBugHistory(r *rng, authors []identity.Interface, n int) ([]*rawCommit, entity.Id, [][]map[string]any) {
	g := newOpGen(r.fork(), authors)
	var cs []*rawCommit
	var id entity.Id
	var opsJ [][]map[string]any
	clock := uint64(r.rangeInt(1, 4))
	for k := 0; k < n; k++ {
		a := pickOne(r, authors)
		g.authors = []identity.Interface{a}
		var ops []dag.Operation
		if k == 0 {
			c := g.create()
			g.record(c, true)
			ops = append(ops, c)
			id = c.Id()
		}
		for j := 0; j < r.rangeInt(0, 2) || len(ops) == 0; j++ {
			op, isC, _ := g.next()
			g.record(op, isC)
			ops = append(ops, op)
		}
		var raws []map[string]any
		for _, o := range ops {
			b, _ := json.Marshal(o)
			var m map[string]any
			json.Unmarshal(b, &m)
			raws = append(raws, m)
		}
		opsJ = append(opsJ, raws)
		if k == 0 {
			// the id of the entity is the hash of its first operation as stored: the element of the
			// "ops" array as the blob below renders it (a map: sorted keys), not as the struct would
			b0, _ := json.Marshal(raws[0])
			id = entity.DeriveId(b0)
		}
		blob, _ := json.Marshal(map[string]any{"author": map[string]any{"id": string(a.Id())}, "ops": raws})
		entries := []rawEntry{{name: fmt.Sprintf("version-%d", bugFormatVersion)}, {name: "ops", blob: blob}, {name: fmt.Sprintf("edit-clock-%d", clock)}}
		if k == 0 {
			entries = append(entries, rawEntry{name: fmt.Sprintf("create-clock-%d", r.rangeInt(1, 5))})
		}
		c := &rawCommit{entries: entries}
		if k > 0 {
			c.parents = []int{k - 1}
		}
		cs = append(cs, c)
		clock += uint64(r.rangeInt(1, 3))
	}
	return cs, id, opsJ
}

type c07Mutation struct {
	name  string
	apply func(r *rng, cs []*rawCommit, authors []identity.Interface) // mutates one commit
	// expectation: true = the history must be refused (invalid); false = still acceptable
	mustRefuse bool
}

func entryIdx(c *rawCommit, prefix string) int {
	for i, e := range c.entries {
		if strings.HasPrefix(e.name, prefix) {
			return i
		}
	}
	return -1
}

func mutateBlob(c *rawCommit, f func(m map[string]any) any) {
	i := entryIdx(c, "ops")
	var m map[string]any
	json.Unmarshal(c.entries[i].blob, &m)
	v := f(m)
	c.entries[i].blob, _ = json.Marshal(v)
}

func firstOp(m map[string]any) map[string]any {
	ops, _ := m["ops"].([]any)
	if len(ops) == 0 {
		return map[string]any{}
	}
	o, _ := ops[0].(map[string]any)
	return o
}

var c07Catalogue = []c07Mutation{
	{"none", func(r *rng, cs []*rawCommit, _ []identity.Interface) {}, false},
	// ---- tree entries
	{"drop-ops-entry", func(r *rng, cs []*rawCommit, _ []identity.Interface) {
		c := pickOne(r, cs)
		i := entryIdx(c, "ops")
		c.entries = append(c.entries[:i], c.entries[i+1:]...)
	}, true},
	{"rename-ops-entry", func(r *rng, cs []*rawCommit, _ []identity.Interface) {
		c := pickOne(r, cs)
		c.entries[entryIdx(c, "ops")].name = "opss"
	}, true},
	{"ops-is-a-tree", func(r *rng, cs []*rawCommit, _ []identity.Interface) {
		c := pickOne(r, cs)
		c.entries[entryIdx(c, "ops")].isTree = true
	}, true},
	{"extra-entry", func(r *rng, cs []*rawCommit, _ []identity.Interface) {
		c := pickOne(r, cs)
		c.entries = append(c.entries, rawEntry{name: "something-else", blob: []byte("x")})
	}, false},
	{"drop-version", func(r *rng, cs []*rawCommit, _ []identity.Interface) {
		c := pickOne(r, cs)
		i := entryIdx(c, "version-")
		c.entries = append(c.entries[:i], c.entries[i+1:]...)
	}, true},
	{"version-not-a-number", func(r *rng, cs []*rawCommit, _ []identity.Interface) {
		c := pickOne(r, cs)
		c.entries[entryIdx(c, "version-")].name = "version-abc"
	}, true},
	{"version-huge", func(r *rng, cs []*rawCommit, _ []identity.Interface) {
		c := pickOne(r, cs)
		c.entries[entryIdx(c, "version-")].name = "version-99999999999999999999999999"
	}, true},
	{"version-zero", func(r *rng, cs []*rawCommit, _ []identity.Interface) {
		c := pickOne(r, cs)
		c.entries[entryIdx(c, "version-")].name = "version-0"
	}, true},
	{"version-other", func(r *rng, cs []*rawCommit, _ []identity.Interface) {
		c := pickOne(r, cs)
		c.entries[entryIdx(c, "version-")].name = fmt.Sprintf("version-%d", pickOne(r, []int{1, 2, 3, 5, 4096, 4097}))
	}, true},
	{"drop-edit-clock", func(r *rng, cs []*rawCommit, _ []identity.Interface) {
		c := pickOne(r, cs)
		i := entryIdx(c, "edit-clock-")
		c.entries = append(c.entries[:i], c.entries[i+1:]...)
	}, true},
	{"edit-clock-not-a-number", func(r *rng, cs []*rawCommit, _ []identity.Interface) {
		c := pickOne(r, cs)
		c.entries[entryIdx(c, "edit-clock-")].name = pickOne(r, []string{"edit-clock-abc", "edit-clock--1", "edit-clock-", "edit-clock-99999999999999999999999"})
	}, true},
	{"create-clock-not-a-number", func(r *rng, cs []*rawCommit, _ []identity.Interface) {
		c := cs[0]
		c.entries[entryIdx(c, "create-clock-")].name = "create-clock-x1"
	}, true},
	{"drop-create-clock", func(r *rng, cs []*rawCommit, _ []identity.Interface) {
		c := cs[0]
		i := entryIdx(c, "create-clock-")
		c.entries = append(c.entries[:i], c.entries[i+1:]...)
	}, true},
	{"empty-tree", func(r *rng, cs []*rawCommit, _ []identity.Interface) { pickOne(r, cs).entries = nil }, true},
	// ---- pack JSON
	{"blob-not-json", func(r *rng, cs []*rawCommit, _ []identity.Interface) {
		c := pickOne(r, cs)
		c.entries[entryIdx(c, "ops")].blob = pickOne(r, [][]byte{[]byte("not json"), {}, []byte("{"), []byte("[]"), []byte("null"), []byte("42"), {0xff, 0xfe, 0x00}})
	}, true},
	{"author-missing", func(r *rng, cs []*rawCommit, _ []identity.Interface) {
		mutateBlob(pickOne(r, cs), func(m map[string]any) any { delete(m, "author"); return m })
	}, true},
	{"author-wrong-type", func(r *rng, cs []*rawCommit, _ []identity.Interface) {
		mutateBlob(pickOne(r, cs), func(m map[string]any) any {
			m["author"] = pickOne(r, []any{"x", 5, nil, []any{}, map[string]any{"id": 7}, map[string]any{"id": ""}, map[string]any{"id": "unset"}})
			return m
		})
	}, true},
	{"author-unknown-identity", func(r *rng, cs []*rawCommit, _ []identity.Interface) {
		mutateBlob(pickOne(r, cs), func(m map[string]any) any { m["author"] = map[string]any{"id": randHexId(r, 64)}; return m })
	}, true},
	{"ops-wrong-type", func(r *rng, cs []*rawCommit, _ []identity.Interface) {
		mutateBlob(pickOne(r, cs), func(m map[string]any) any { m["ops"] = pickOne(r, []any{"x", 5, map[string]any{}, true}); return m })
	}, true},
	{"op-not-an-object", func(r *rng, cs []*rawCommit, _ []identity.Interface) {
		mutateBlob(pickOne(r, cs), func(m map[string]any) any {
			ops, _ := m["ops"].([]any)
			m["ops"] = append(ops, pickOne(r, []any{5, "x", nil, []any{}, true}))
			return m
		})
	}, true},
	{"op-unknown-type", func(r *rng, cs []*rawCommit, _ []identity.Interface) {
		mutateBlob(pickOne(r, cs), func(m map[string]any) any { firstOp(m)["type"] = pickOne(r, []any{99, 9, -1, 0, 1 << 40}); return m })
	}, true},
	{"op-type-wrong-json-type", func(r *rng, cs []*rawCommit, _ []identity.Interface) {
		mutateBlob(pickOne(r, cs), func(m map[string]any) any { firstOp(m)["type"] = pickOne(r, []any{"1", nil, 1.5, []any{}}); return m })
	}, true},
	{"op-type-missing", func(r *rng, cs []*rawCommit, _ []identity.Interface) {
		mutateBlob(pickOne(r, cs), func(m map[string]any) any { delete(firstOp(m), "type"); return m })
	}, true},
	{"op-field-wrong-type", func(r *rng, cs []*rawCommit, _ []identity.Interface) {
		mutateBlob(pickOne(r, cs), func(m map[string]any) any {
			o := firstOp(m)
			k := pickOne(r, []string{"title", "message", "files", "timestamp", "nonce", "metadata", "added", "status", "target", "new_metadata"})
			o[k] = pickOne(r, []any{5, "x", []any{1}, map[string]any{"a": 1}, true})
			return m
		})
	}, false}, // refused or not depending on the field/type pair; never a crash
	{"op-nonce-short", func(r *rng, cs []*rawCommit, _ []identity.Interface) {
		mutateBlob(pickOne(r, cs), func(m map[string]any) any { firstOp(m)["nonce"] = "AAAA"; return m })
	}, true},
	{"op-timestamp-zero", func(r *rng, cs []*rawCommit, _ []identity.Interface) {
		mutateBlob(pickOne(r, cs), func(m map[string]any) any { firstOp(m)["timestamp"] = 0; return m })
	}, true},
	{"op-title-control-char", func(r *rng, cs []*rawCommit, _ []identity.Interface) {
		mutateBlob(cs[0], func(m map[string]any) any { firstOp(m)["title"] = "bad\u0000title"; return m })
	}, true},
	{"op-title-empty", func(r *rng, cs []*rawCommit, _ []identity.Interface) {
		mutateBlob(cs[0], func(m map[string]any) any { firstOp(m)["title"] = " "; return m })
	}, true},
	{"ops-empty-root", func(r *rng, cs []*rawCommit, _ []identity.Interface) {
		mutateBlob(cs[0], func(m map[string]any) any { m["ops"] = []any{}; return m })
	}, true},
	{"ops-empty-everywhere", func(r *rng, cs []*rawCommit, _ []identity.Interface) {
		// a well-formed history (version, clocks, known author) that carries no operation at all
		for _, cm := range cs {
			mutateBlob(cm, func(m map[string]any) any { m["ops"] = []any{}; return m })
		}
	}, true},
	{"ops-null", func(r *rng, cs []*rawCommit, _ []identity.Interface) {
		mutateBlob(cs[0], func(m map[string]any) any { m["ops"] = nil; return m })
	}, true},
	{"label-added-twice-then-removed", func(r *rng, cs []*rawCommit, _ []identity.Interface) {
		// a label change that repeats a label, then its removal: nothing the editing API writes
		mutateBlob(cs[len(cs)-1], func(m map[string]any) any {
			ops, _ := m["ops"].([]any)
			m["ops"] = append(ops,
				map[string]any{"type": 5, "timestamp": 1600000100, "nonce": "QUJDREVGR0hJSktMTU5PUFFSU1RVVg==", "added": []any{"urgent", "urgent"}, "removed": []any{}},
				map[string]any{"type": 5, "timestamp": 1600000101, "nonce": "QUJDREVGR0hJSktMTU5PUFFSU1RVVw==", "added": []any{}, "removed": []any{"urgent"}})
			return m
		})
	}, false},
	{"second-create-op", func(r *rng, cs []*rawCommit, _ []identity.Interface) {
		var create any
		mutateBlob(cs[0], func(m map[string]any) any { create = firstOp(m); return m })
		mutateBlob(cs[len(cs)-1], func(m map[string]any) any {
			c2 := map[string]any{}
			for k, v := range create.(map[string]any) {
				c2[k] = v
			}
			c2["nonce"] = "QUJDREVGR0hJSktMTU5PUFFSU1RVVg=="
			ops, _ := m["ops"].([]any)
			m["ops"] = append(ops, c2)
			return m
		})
	}, true},
	{"duplicate-op", func(r *rng, cs []*rawCommit, _ []identity.Interface) {
		mutateBlob(cs[len(cs)-1], func(m map[string]any) any {
			ops, _ := m["ops"].([]any)
			if len(ops) > 0 {
				m["ops"] = append(ops, ops[len(ops)-1])
			}
			return m
		})
	}, false}, // id collision is refused when the history has > 1 commit... decided by the oracle below
	// an operation of an earlier commit repeated byte for byte in the last one: two operations with one id
	{"replayed-op", func(r *rng, cs []*rawCommit, _ []identity.Interface) {
		if len(cs) < 3 {
			return
		}
		var replay any
		mutateBlob(cs[1], func(m map[string]any) any { // (re-encoded the same way as its copy will be)
			if ops, _ := m["ops"].([]any); len(ops) > 0 {
				replay = ops[len(ops)-1]
			}
			return m
		})
		mutateBlob(cs[len(cs)-1], func(m map[string]any) any {
			ops, _ := m["ops"].([]any)
			if replay != nil {
				m["ops"] = append(ops, replay)
			}
			return m
		})
	}, false},
	{"first-op-not-create", func(r *rng, cs []*rawCommit, _ []identity.Interface) {
		mutateBlob(cs[0], func(m map[string]any) any {
			ops, _ := m["ops"].([]any)
			m["ops"] = ops[1:]
			if len(ops) == 1 {
				m["ops"] = []any{map[string]any{"type": 7, "timestamp": 1600000000, "nonce": "QUJDREVGR0hJSktMTU5PUFFSU1RVVg=="}}
			}
			return m
		})
	}, true},
	// ---- history
	// the last commit becomes a merge commit (two parents, no operation) whose edit clock is not after its parents'
	{"merge-clock-not-after-parents", func(r *rng, cs []*rawCommit, _ []identity.Interface) {
		if len(cs) < 3 {
			return
		}
		c, p := cs[len(cs)-1], cs[len(cs)-2]
		c.parents = []int{len(cs) - 2, len(cs) - 3}
		mutateBlob(c, func(m map[string]any) any { m["ops"] = []any{}; return m })
		pe := p.entries[entryIdx(p, "edit-clock-")].name
		if r.chance(1, 2) {
			pe = cs[0].entries[entryIdx(cs[0], "edit-clock-")].name // below both parents
		}
		c.entries[entryIdx(c, "edit-clock-")].name = pe
	}, true},
	{"two-roots", func(r *rng, cs []*rawCommit, _ []identity.Interface) {
		if len(cs) > 1 {
			cs[len(cs)-1].parents = nil
			cs = append(cs, &rawCommit{})
		}
	}, false},
}

type c07Result struct {
	class string // ok | err | panic
	msg   string
	out   map[string]any
}

func c07ReadLocal(repo repository.ClockedRepo, id entity.Id) c07Result {
	var res c07Result
	p := recoverTo(func() {
		b, err := bug.Read(repo, id)
		if err != nil {
			res = c07Result{"err", err.Error(), map[string]any{"err": readErrClass(err)}}
		} else {
			res = c07Result{"ok", "", map[string]any{"ops": opIdsOf(b.Operations()), "create": uint64(b.CreateLamportTime()), "edit": uint64(b.EditLamportTime())}}
			// what every user of the bug does next (the cache compiles a bug as soon as it holds it)
			b.Compile()
		}
	})
	if p != "" {
		return c07Result{"panic", p, map[string]any{"panic": p}}
	}
	return res
}

func runC07(c *runCtx) {
	defer cleanupScratch()
	authorKnown = func(repo repository.RepoData, id string) bool {
		r, ok := repo.(repository.Repo)
		if !ok {
			return true
		}
		_, err := identity.ReadLocal(r, entity.Id(id))
		return err == nil
	}
	defer func() { authorKnown = nil }()
	N := c.pick(12, 120) // repetitions of the whole catalogue
	for rep := 0; rep < N; rep++ {
		for _, mut := range c07Catalogue {
			r := c.rng.fork()
			repo := newMock()
			authors := mkAuthors(repo, 2)
			cs, id, _ := validBugHistory(r, authors, r.rangeInt(1, 3))
			mut.apply(r, cs, authors)
			c.context(fmt.Sprintf("mutation %s (repetition %d)", mut.name, rep))
			writeRaw(repo, cs)
			head := cs[len(cs)-1].hash
			// (1) corrupt data already stored locally: an error, not a crash
			repo.UpdateRef("refs/bugs/"+string(id), head)
			local := c07ReadLocal(repo, id)
			c.count("local-read=" + local.class)
			c.count("mutation=" + mut.name)
			if local.class == "panic" {
				c.violation(c.nCases, "C07/panic-local-read", fmt.Sprintf("reading a bug with mutation %q crashes: %s", mut.name, local.msg), nil)
			}
			// (the property asks for an error instead of a crash on local corrupt data; data that
			// decodes but is invalid is refused when it is merged, see below)
			if mut.name == "none" && local.class != "ok" {
				c.violation(c.nCases, "C07/refused-valid", "the unmutated history is refused: "+local.msg, nil)
			}
			repo.RemoveRef("refs/bugs/" + string(id))
			c.emit(map[string]any{"cmd": "read", "commits": dumpCommits(repo, head), "head": string(head), "mutation": mut.name}, local.out)
			c.nontrivial(mut.name + "|" + string(head))
			if local.class == "panic" {
				continue // merging it would crash the process in MergeAll's goroutine
			}
			// (2) the same data served by a remote, in every local situation
			c07Merge(c, r, mut, authors)
		}
	}
	c07Identities(c)
	c09Foreign(c, "C07")
	c07Unsigned(c)
}

// c07Unsigned: a remote serves commits that name an author who has a signing key, without a
// signature: reported invalid, nothing local changes — whether the author's identity is older than
// the repository's bug clocks (its version carries no bug time) or not.
func c07Unsigned(c *runCtx) {
	key := identity.GenerateKey()
	for rep := 0; rep < c.pick(2, 10); rep++ {
		for _, olderThanClock := range []bool{true, false} {
			r := c.rng.fork()
			repo := newMock()
			if !olderThanClock {
				repo.Witness("bugs-edit", 1)
				repo.Witness("bugs-create", 1)
			}
			iden, err := identity.NewIdentityFull(repo, "keyed author", "k@example.com", "", "", []*identity.Key{key})
			if err != nil {
				panic(err)
			}
			if err := iden.Commit(repo); err != nil {
				panic(err)
			}
			g := newOpGen(r.fork(), []identity.Interface{iden})
			cop := g.create()
			id := cop.Id()
			// a plain commit: no signature
			head := writeCrafted(repo, craftPack{author: string(iden.Id()), ops: opsOf1(cop), edit: 1, create: 1, version: bugFormatVersion})
			remoteRef := "refs/remotes/origin/bugs/" + string(id)
			repo.UpdateRef(remoteRef, head)
			c.context(fmt.Sprintf("unsigned commits of a keyed author (identity older than the clocks: %v): MergeAll", olderThanClock))
			before := snapshotRefs(repo)
			var status entity.MergeStatus
			reason := ""
			crashed := recoverTo(func() {
				for res := range bug.MergeAll(repo, resolversFor(repo), "origin", iden) {
					status = res.Status
					reason = res.Reason
				}
			})
			c.count(fmt.Sprintf("unsigned-keyed-author[older=%v]=%s (%s)", olderThanClock, mergeStatusName(status), trunc(reason, 70)))
			c.nontrivial(fmt.Sprintf("unsigned|%v|%s", olderThanClock, id))
			if crashed != "" {
				c.violation(-1, "C07/panic-merge", "merging unsigned commits of a keyed author crashes: "+crashed, nil)
				continue
			}
			if status != entity.MergeStatusInvalid {
				c.violation(-1, "C07/unsigned-accepted", fmt.Sprintf("unsigned commits naming an author who has a signing key (identity older than the bug clocks: %v) were reported %s", olderThanClock, mergeStatusName(status)), nil)
			}
			if mustJSON(before) != mustJSON(snapshotRefs(repo)) {
				c.violation(-1, "C07/invalid-not-inert", "refs changed after unsigned commits of a keyed author were offered", nil)
			}
		}
	}
}

// c07Merge: local situation x hostile remote version -> MergeAll; local refs and reads unchanged.
func c07Merge(c *runCtx, r *rng, mut c07Mutation, authors0 []identity.Interface) {
	situations := []string{"absent", "equal-prefix", "local-ahead", "diverged"}
	if mut.name == "none" {
		situations = append(situations, "ref-id-mismatch", "unrelated-same-id")
	}
	for _, situation := range situations {
		repo := newMock()
		authors := mkAuthors(repo, 2)
		cs, id, _ := validBugHistory(r, authors, 3)
		// the local side is built from the unmutated commits
		localCs := make([]*rawCommit, len(cs))
		for i, cm := range cs {
			cp := *cm
			cp.entries = append([]rawEntry{}, cm.entries...)
			localCs[i] = &cp
		}
		writeRaw(repo, localCs)
		switch situation {
		case "absent":
		case "equal-prefix":
			repo.UpdateRef("refs/bugs/"+string(id), localCs[1].hash)
		case "local-ahead":
			repo.UpdateRef("refs/bugs/"+string(id), localCs[2].hash)
		case "diverged":
			repo.UpdateRef("refs/bugs/"+string(id), localCs[2].hash)
		}
		remoteCs := cs
		if situation == "local-ahead" {
			remoteCs = cs[:2]
		}
		if situation == "diverged" {
			// another third commit on the remote side
			alt, _, _ := validBugHistory(r, authors, 3)
			remoteCs = []*rawCommit{cs[0], cs[1], {entries: alt[2].entries, parents: []int{1}}}
			remoteCs[2].entries[entryIdx(remoteCs[2], "edit-clock-")].name = "edit-clock-40"
		}
		mut.apply(r, remoteCs, authors)
		if situation == "unrelated-same-id" {
			// same operations, hence same id, but other commits (an extra tree entry in the root)
			repo.UpdateRef("refs/bugs/"+string(id), localCs[2].hash)
			remoteCs[0].entries = append(remoteCs[0].entries, rawEntry{name: "zzz", blob: []byte("x")})
		}
		writeRaw(repo, remoteCs)
		remoteRef := "refs/remotes/origin/bugs/" + string(id)
		if situation == "ref-id-mismatch" {
			remoteRef = "refs/remotes/origin/bugs/" + randHexId(r, 64)
		}
		repo.UpdateRef(remoteRef, remoteCs[len(remoteCs)-1].hash)
		c.context(fmt.Sprintf("mutation %s, local situation %s: MergeAll", mut.name, situation))
		// would reading the remote version crash? (MergeAll runs in a goroutine nobody can recover)
		probe := newMock()
		mkAuthorsLike(probe, authors)
		before := snapshotRefs(repo)
		beforeOps := readAllBugOps(repo)
		var status entity.MergeStatus
		var merr error
		reason := ""
		crashed := recoverTo(func() {
			for res := range bug.MergeAll(repo, resolversFor(repo), "origin", authors[0]) {
				status = res.Status
				merr = res.Err
				reason = res.Reason
			}
		})
		if merr != nil {
			c.count("merge-error=" + trunc(merr.Error(), 90))
		}
		if crashed != "" {
			c.violation(c.nCases, "C07/panic-merge", fmt.Sprintf("merging a remote bug with mutation %q (local %s) crashes: %s", mut.name, situation, crashed), nil)
			continue
		}
		after := snapshotRefs(repo)
		afterOps := readAllBugOps(repo)
		c.count(fmt.Sprintf("merge[%s]=%s", situation, mergeStatusName(status)))
		// a remote that is refused leaves everything local as it was
		remoteReadable := c07ReadAt(repo, remoteRef, id)
		if status == entity.MergeStatusInvalid || status == entity.MergeStatusError {
			delete(after, remoteRef)
			delete(before, remoteRef)
			if mustJSON(before) != mustJSON(after) {
				c.violation(c.nCases, "C07/invalid-not-inert", fmt.Sprintf("mutation %q (local %s) was reported %s but local refs changed", mut.name, situation, mergeStatusName(status)), nil)
			}
			if mustJSON(beforeOps) != mustJSON(afterOps) {
				c.violation(c.nCases, "C07/invalid-not-inert", fmt.Sprintf("mutation %q (local %s): a local bug reads differently after a refused merge", mut.name, situation), nil)
			}
		}
		if mut.mustRefuse && !remoteReadable && status != entity.MergeStatusInvalid && !(situation == "local-ahead" && false) {
			c.violation(c.nCases, "C07/not-reported-invalid", fmt.Sprintf("an unreadable remote bug (mutation %q, local %s) was reported %s", mut.name, situation, mergeStatusName(status)), nil)
		}
		// a well-formed remote is taken
		if mut.name == "none" {
			want := map[string]entity.MergeStatus{"absent": entity.MergeStatusNew, "equal-prefix": entity.MergeStatusUpdated,
				"local-ahead": entity.MergeStatusNothing, "diverged": entity.MergeStatusUpdated}
			if w, ok := want[situation]; ok && status != w {
				c.violation(c.nCases, "C07/refused-valid", fmt.Sprintf("a well-formed remote bug (local %s) was reported %s instead of %s: %s %v", situation, mergeStatusName(status), mergeStatusName(w), reason, merr), nil)
			}
		}
		// malformed whatever the reader says (the judgement above asks the implementation's own reader)
		if mut.name == "merge-clock-not-after-parents" && len(remoteCs) >= 3 && status != entity.MergeStatusInvalid {
			c.violation(c.nCases, "C07/not-reported-invalid", fmt.Sprintf("a remote history whose merge commit's edit clock is not after its parents' (local %s) was reported %s", situation, mergeStatusName(status)), nil)
		}
		if (mut.name == "duplicate-op" || mut.name == "replayed-op") && len(remoteCs) >= 3 && situation != "local-ahead" && situation != "ref-id-mismatch" && status != entity.MergeStatusInvalid {
			c.violation(c.nCases, "C07/not-reported-invalid", fmt.Sprintf("a remote history holding the same operation twice (mutation %q, local %s) was reported %s", mut.name, situation, mergeStatusName(status)), nil)
		}
		if mut.name == "ops-empty-everywhere" && status != entity.MergeStatusInvalid {
			c.violation(c.nCases, "C07/empty-history-accepted", fmt.Sprintf("a remote history without any operation (local %s) was reported %s", situation, mergeStatusName(status)), nil)
		}
		if situation == "ref-id-mismatch" {
			if status != entity.MergeStatusInvalid {
				c.violation(c.nCases, "C07/ref-id-mismatch-accepted", fmt.Sprintf("a remote ref whose name is not the id of its content was reported %s", mergeStatusName(status)), nil)
			}
			if mustJSON(before) != mustJSON(after) {
				c.violation(c.nCases, "C07/ref-id-mismatch-accepted", "a remote ref whose name is not the id of its content changed local refs", nil)
			}
		}
		if situation == "unrelated-same-id" && status != entity.MergeStatusInvalid {
			c.violation(c.nCases, "C07/unrelated-history-merged", fmt.Sprintf("a remote history unrelated to the local one (same id, other root commit) was reported %s", mergeStatusName(status)), nil)
		}
		// whatever happened, every local bug is still readable
		for id2, ops := range beforeOps {
			if _, ok := afterOps[id2]; !ok && ops != nil {
				c.violation(c.nCases, "C07/local-damaged", fmt.Sprintf("after merging mutation %q (local %s) a local bug is not readable any more", mut.name, situation), nil)
			}
		}
	}
}

func mkAuthorsLike(repo repository.ClockedRepo, authors []identity.Interface) {}

func snapshotRefs(repo repository.RepoData) map[string]string {
	out := map[string]string{}
	refs, _ := repo.ListRefs("refs/")
	for _, r := range refs {
		h, _ := repo.ResolveRef(r)
		out[r] = string(h)
	}
	return out
}

func readAllBugOps(repo repository.ClockedRepo) map[string][]string {
	out := map[string][]string{}
	ids, _ := bug.ListLocalIds(repo)
	for _, id := range ids {
		if b, err := safeRead(repo, id); err == nil {
			out[string(id)] = opIdsOf(b.Operations())
		}
	}
	return out
}

// c07ReadAt: is the bug at this ref readable (by pointing a scratch local ref of a copy at it)?
func c07ReadAt(repo repository.ClockedRepo, ref string, id entity.Id) bool {
	h, err := repo.ResolveRef(ref)
	if err != nil {
		return false
	}
	// decide with the independent decoder: undecodable commits make it unreadable
	for _, cm := range dumpCommits(repo, h) {
		if cm.Pack == nil {
			return false
		}
	}
	return true
}

// ---- identities: hostile version blobs and trees served by a remote

type idMutation struct {
	name string
	blob func(r *rng, valid []byte) []byte // nil: keep
	tree func(r *rng, th repository.Hash, repo repository.RepoData, blob repository.Hash) repository.Hash
}

func c07Identities(c *runCtx) {
	muts := []idMutation{
		{name: "none"},
		{name: "not-json", blob: func(r *rng, v []byte) []byte {
			return pickOne(r, [][]byte{[]byte("x"), {}, []byte("[]"), []byte("null"), {0xff, 0x00}})
		}},
		{name: "wrong-version", blob: func(r *rng, v []byte) []byte {
			return []byte(strings.Replace(string(v), `"version":2`, `"version":`+pickOne(r, []string{"1", "3", "0", "99999999999", "\"2\"", "null"}), 1))
		}},
		{name: "times-wrong-type", blob: func(r *rng, v []byte) []byte {
			return []byte(strings.Replace(string(v), `"times":{`, `"times":{"x":"y",`, 1))
		}},
		{name: "nonce-not-base64", blob: func(r *rng, v []byte) []byte {
			return []byte(strings.Replace(string(v), `"nonce":"`, `"nonce":"!!!`, 1))
		}},
		{name: "keys-garbage", blob: func(r *rng, v []byte) []byte {
			return []byte(strings.Replace(string(v), `"nonce":`, `"pub_keys":[`+pickOne(r, []string{`"garbage"`, `5`, `null`, `{"a":1}`, `"-----BEGIN PGP PUBLIC KEY BLOCK-----\n\nAAAA\n-----END PGP PUBLIC KEY BLOCK-----"`})+`],"nonce":`, 1))
		}},
		// a correctly armored "PGP PUBLIC KEY BLOCK" that holds a valid OpenPGP packet of another kind
		{name: "keys-wrong-packet", blob: func(r *rng, v []byte) []byte {
			q, _ := json.Marshal(c07ArmoredPacket(r.intn(3)))
			return []byte(strings.Replace(string(v), `"nonce":`, `"pub_keys":[`+string(q)+`],"nonce":`, 1))
		}},
		{name: "name-control-char", blob: func(r *rng, v []byte) []byte {
			return []byte(strings.Replace(string(v), `"name":"`, `"name":"\u0000`, 1))
		}},
		{name: "huge-field", blob: func(r *rng, v []byte) []byte {
			return []byte(strings.Replace(string(v), `"name":"`, `"name":"`+strings.Repeat("x", 200000), 1))
		}},
		{name: "entry-renamed", tree: func(r *rng, th repository.Hash, repo repository.RepoData, blob repository.Hash) repository.Hash {
			h, _ := repo.StoreTree([]repository.TreeEntry{{ObjectType: repository.Blob, Hash: blob, Name: "versions"}})
			return h
		}},
		{name: "two-entries", tree: func(r *rng, th repository.Hash, repo repository.RepoData, blob repository.Hash) repository.Hash {
			h, _ := repo.StoreTree([]repository.TreeEntry{{ObjectType: repository.Blob, Hash: blob, Name: "version"}, {ObjectType: repository.Blob, Hash: blob, Name: "zzz"}})
			return h
		}},
		{name: "empty-tree", tree: func(r *rng, th repository.Hash, repo repository.RepoData, blob repository.Hash) repository.Hash {
			h, _ := repo.StoreTree(nil)
			return h
		}},
	}
	for rep := 0; rep < c.pick(6, 60); rep++ {
		for _, mut := range muts {
			for _, situation := range []string{"absent", "local-behind", "ref-id-mismatch"} {
				r := c.rng.fork()
				repo := newMock()
				// a valid local identity of 2 versions; the remote has a third one, mutated
				vs := []rawVersion{randRawVersion(r, map[string]uint64{"bugs-edit": 1}, "ok"), {}, {}}
				vs[0].Name, vs[0].Login, vs[0].Email, vs[0].Avatar = "valid", "", "a@b.c", ""
				for k := 1; k < 3; k++ {
					vs[k] = randRawVersion(r, vs[k-1].Times, "ok")
					vs[k].Name, vs[k].Login, vs[k].Email, vs[k].Avatar = "valid", "", "a@b.c", ""
				}
				for k := range vs {
					vs[k].Nonce = "QUJDREVGR0hJSktMTU5PUFFSU1RVVg=="
				}
				base, id := writeIdentityChain(repo, vs[:2], "")
				blob, _ := json.Marshal(vs[2])
				if mut.blob != nil {
					blob = mut.blob(r, blob)
				}
				bh, _ := repo.StoreData(blob)
				th, _ := repo.StoreTree([]repository.TreeEntry{{ObjectType: repository.Blob, Hash: bh, Name: "version"}})
				if mut.tree != nil {
					th = mut.tree(r, th, repo, bh)
				}
				head, _ := repo.StoreCommit(th, base[1])
				refName := string(id)
				switch situation {
				case "local-behind":
					repo.UpdateRef("refs/identities/"+string(id), base[1])
				case "ref-id-mismatch":
					refName = randHexId(r, 64)
				}
				repo.UpdateRef("refs/remotes/origin/identities/"+refName, head)
				c.context(fmt.Sprintf("identity mutation %s, local %s: MergeAll", mut.name, situation))
				before := snapshotRefs(repo)
				var status entity.MergeStatus
				crashed := recoverTo(func() {
					for res := range identity.MergeAll(repo, "origin") {
						status = res.Status
					}
				})
				if crashed != "" {
					c.violation(-1, "C07/panic-identity-merge", fmt.Sprintf("merging a remote identity with mutation %q crashes: %s", mut.name, crashed), nil)
					continue
				}
				after := snapshotRefs(repo)
				c.count(fmt.Sprintf("identity[%s,%s]=%s", mut.name, situation, mergeStatusName(status)))
				hostile := mut.name != "none" && mut.name != "huge-field" || situation == "ref-id-mismatch"
				if hostile && status != entity.MergeStatusInvalid {
					c.violation(-1, "C07/identity-not-invalid", fmt.Sprintf("a remote identity with mutation %q (local %s) was reported %s", mut.name, situation, mergeStatusName(status)), nil)
				}
				if status == entity.MergeStatusInvalid && mustJSON(before) != mustJSON(after) {
					c.violation(-1, "C07/identity-invalid-not-inert", fmt.Sprintf("identity mutation %q was refused but refs changed", mut.name), nil)
				}
				if situation == "local-behind" {
					if _, err := identity.ReadLocal(repo, id); err != nil {
						c.violation(-1, "C07/local-damaged", fmt.Sprintf("after identity mutation %q the local identity is not readable: %v", mut.name, err), nil)
					}
				}
			}
		}
	}
}

// c07ArmoredPacket: an armored block of type PGP PUBLIC KEY BLOCK whose content is a well-formed
// packet that is not a public key (a user id, a private key, a signature).
func c07ArmoredPacket(kind int) string {
	var buf bytes.Buffer
	w, err := armor.Encode(&buf, openpgp.PublicKeyType, nil)
	if err != nil {
		panic(err)
	}
	ent, err := openpgp.NewEntity("x", "", "x@example.com", &packet.Config{Algorithm: packet.PubKeyAlgoEdDSA})
	if err != nil {
		panic(err)
	}
	switch kind {
	case 0:
		packet.NewUserId("somebody", "", "s@example.com").Serialize(w)
	case 1:
		ent.PrivateKey.Serialize(w)
	default:
		for _, id := range ent.Identities {
			id.SelfSignature.Serialize(w)
			break
		}
	}
	w.Close()
	return buf.String()
}

package main

import (
	"fmt"
	"net/http"
	"strings"

	"github.com/MichaelMure/git-bug/api/graphql"
	"github.com/MichaelMure/git-bug/api/graphql/connections"
	"github.com/MichaelMure/git-bug/cache"
	"github.com/MichaelMure/git-bug/entities/common"
	"github.com/MichaelMure/git-bug/repository"
)

// c20Gql walks every paginated field of the served GraphQL schema page by page, one HTTP
// request per page as a client does, over a repository with several identities, bugs, labels
// and one bug with a long history.  Each page is also a case for the Lean model: the nodes are
// named by their position in the list a single request for everything returned.
//
// Oracle (C20): the pages of a walk, put together, hold every element exactly once and in the
// order of the list; flags, cursors and total as for the connection code.

type gqlField struct {
	name    string // e.g. "allBugs" or "bug.comments"
	key     string // node field that identifies an element
	ordered bool   // the list has a documented order (false: only exactly-once is demanded)
}

var c20GqlFields = []gqlField{
	{"allBugs", "id", true},
	{"allIdentities", "id", false},
	{"validLabels", "name", true},
	{"bug.comments", "id", true},
	{"bug.timeline", "id", true},
	{"bug.operations", "id", true},
	{"bug.actors", "id", true},
	{"bug.participants", "id", true},
}

type gqlPage struct {
	keys, cursors    []string
	hasNext, hasPrev bool
	start, end       string
	total            int
	err              string
	edgeNodesAgree   bool
}

func gqlArg(after, before *string, first, last *int) string {
	var parts []string
	if after != nil {
		parts = append(parts, fmt.Sprintf("after: %q", *after))
	}
	if before != nil {
		parts = append(parts, fmt.Sprintf("before: %q", *before))
	}
	if first != nil {
		parts = append(parts, fmt.Sprintf("first: %d", *first))
	}
	if last != nil {
		parts = append(parts, fmt.Sprintf("last: %d", *last))
	}
	if len(parts) == 0 {
		return ""
	}
	return "(" + strings.Join(parts, ", ") + ")"
}

func gqlFetch(h http.Handler, f gqlField, bugPrefix string, after, before *string, first, last *int) gqlPage {
	sel := fmt.Sprintf("%%s%s { totalCount pageInfo { hasNextPage hasPreviousPage startCursor endCursor } edges { cursor node { %s } } nodes { %s } }", gqlArg(after, before, first, last), f.key, f.key)
	var q string
	path := []string{"repository"}
	if strings.HasPrefix(f.name, "bug.") {
		fld := strings.TrimPrefix(f.name, "bug.")
		q = fmt.Sprintf("{ repository { bug(prefix: %q) { %s } } }", bugPrefix, fmt.Sprintf(sel, fld))
		path = append(path, "bug", fld)
	} else {
		q = fmt.Sprintf("{ repository { %s } }", fmt.Sprintf(sel, f.name))
		path = append(path, f.name)
	}
	res, raw := gqlPost(h, q)
	var p gqlPage
	if res["errors"] != nil {
		p.err = trunc(raw, 200)
		return p
	}
	var cur any = res["data"]
	for _, k := range path {
		m, ok := cur.(map[string]any)
		if !ok {
			p.err = "no data at " + k + ": " + trunc(raw, 200)
			return p
		}
		cur = m[k]
	}
	con, ok := cur.(map[string]any)
	if !ok {
		p.err = "no connection: " + trunc(raw, 200)
		return p
	}
	p.total = int(con["totalCount"].(float64))
	pi := con["pageInfo"].(map[string]any)
	p.hasNext, _ = pi["hasNextPage"].(bool)
	p.hasPrev, _ = pi["hasPreviousPage"].(bool)
	p.start, _ = pi["startCursor"].(string)
	p.end, _ = pi["endCursor"].(string)
	p.edgeNodesAgree = true
	edges, _ := con["edges"].([]any)
	nodes, _ := con["nodes"].([]any)
	for i, e := range edges {
		em := e.(map[string]any)
		k := fmt.Sprint(em["node"].(map[string]any)[f.key])
		p.keys = append(p.keys, k)
		p.cursors = append(p.cursors, fmt.Sprint(em["cursor"]))
		if i >= len(nodes) || fmt.Sprint(nodes[i].(map[string]any)[f.key]) != k {
			p.edgeNodesAgree = false
		}
	}
	if len(nodes) != len(edges) {
		p.edgeNodesAgree = false
	}
	return p
}

// c20GqlTied fills a remote with bugs written by a second replica whose clocks run side by side
// with the first one's and whose timestamps are those of the first one's bugs: creation and edit
// Lamport times tie, and so do the unix seconds (two people filing bugs in the same second, or
// two importers of the same tracker).
func c20GqlTied(c *runCtx, repo repository.TestedRepo, n int) {
	remote, _ := newGoGit("c20remote", true)
	repoA, _ := newGoGit("c20a", false)
	for _, rp := range []repository.TestedRepo{repoA, repo} {
		if err := rp.AddRemote("origin", remote.GetLocalRemote()); err != nil {
			panic(err)
		}
	}
	rcA := mustCache(repoA)
	au, err := rcA.Identities().New("other side", "o@example.com")
	if err != nil {
		panic(err)
	}
	rcA.SetUserIdentity(au)
	for i := 0; i < n; i++ {
		b, _, err := rcA.Bugs().NewRaw(au, int64(1600000000+i), fmt.Sprintf("their bug %d", i), "body", nil, nil)
		if err != nil {
			panic(err)
		}
		b.Commit()
	}
	if _, err := rcA.Push("origin"); err != nil {
		panic(err)
	}
	rcA.Close()
	remote.Close()
}

func c20GqlPopulation(c *runCtx, tied, large bool) (*cache.MultiRepoCache, http.Handler, string) {
	repo := newMock()
	if tied {
		repo, _ = newGoGit("c20b", false)
		c20GqlTied(c, repo, 4)
	}
	mrc := cache.NewMultiRepoCache()
	rc, events := mrc.RegisterDefaultRepository(repo)
	for ev := range events {
		if ev.Err != nil {
			panic(ev.Err)
		}
	}
	nId := 5 + c.rng.intn(5)
	nBugs := 4 + c.rng.intn(5)
	if large {
		// lists longer than any page size a resolver could take for granted (10, 25, 50, 100)
		nBugs = 101 + c.rng.intn(30)
		nId = 101 + c.rng.intn(20)
	}
	var idens []*cache.IdentityCache
	for i := 0; i < nId; i++ {
		iden, err := rc.Identities().New(fmt.Sprintf("user %d", i), fmt.Sprintf("u%d@example.com", i))
		if err != nil {
			panic(err)
		}
		idens = append(idens, iden)
	}
	rc.SetUserIdentity(idens[0])
	var rich *cache.BugCache
	for i := 0; i < nBugs; i++ {
		au := idens[c.rng.intn(len(idens))]
		b, _, err := rc.Bugs().NewRaw(au, int64(1600000000+i), fmt.Sprintf("bug %d", i), "body", nil, nil)
		if err != nil {
			panic(err)
		}
		nl := c.rng.intn(3)
		var labels []string
		for j := 0; j < nl; j++ {
			labels = append(labels, fmt.Sprintf("l%d", c.rng.intn(9)))
		}
		if len(labels) > 0 {
			b.ForceChangeLabelsRaw(au, int64(1600000100+i), labels, nil, nil)
		}
		b.Commit()
		if i == 0 {
			rich = b
		}
	}
	nOps := 5 + c.rng.intn(8)
	if large {
		nOps = 110 + c.rng.intn(20)
	}
	for j := 0; j < nOps; j++ {
		au := idens[c.rng.intn(len(idens))]
		t := int64(1600001000 + j)
		switch c.rng.intn(5) {
		case 0, 1:
			rich.AddCommentRaw(au, t, fmt.Sprintf("comment %d", j), nil, nil)
		case 2:
			rich.SetTitleRaw(au, t, fmt.Sprintf("title %d", j), nil)
		case 3:
			rich.ForceChangeLabelsRaw(au, t, []string{fmt.Sprintf("r%d", j)}, nil, nil)
		case 4:
			if rich.Snapshot().Status == common.OpenStatus {
				rich.CloseRaw(au, t, nil)
			} else {
				rich.OpenRaw(au, t, nil)
			}
		}
	}
	rich.Commit()
	if tied {
		if err := rc.Pull("origin"); err != nil {
			panic(err)
		}
		c.count("gql:tied-populations")
	}
	return mrc, graphql.NewHandler(mrc, nil), rich.Id().String()
}

func runC20Gql(c *runCtx) {
	pops := c.pick(3, 9)
	for pop := 0; pop < pops; pop++ {
		large := pop == pops-1
		mrc, h, richId := c20GqlPopulation(c, pop%2 == 1 && !large, large)
		for _, f := range c20GqlFields {
			big := intp(100000)
			ref := gqlFetch(h, f, richId, nil, nil, big, nil)
			if ref.err != "" {
				c.violation(-1, "C20/gql-error", "query failed for "+f.name+": "+ref.err, nil)
				continue
			}
			n := len(ref.keys)
			c.count(fmt.Sprintf("gql:%s:n=%d", f.name, min(n, 9)))
			pos := map[string]int{}
			for i, k := range ref.keys {
				pos[k] = i
			}
			if len(pos) != n || ref.total != n {
				c.violation(-1, "C20/gql-list", fmt.Sprintf("%s: the full list repeats an element or miscounts (total=%d, %v)", f.name, ref.total, ref.keys), nil)
				continue
			}
			// one page = one case for the model (positions in the reference list)
			page := func(after, before *string, first, last *int) gqlPage {
				p := gqlFetch(h, f, richId, after, before, first, last)
				k := c20Case{n: n, after: after, before: before, first: first, last: last, afterTag: "gql", beforeTag: "gql"}
				o := c20Out{Err: "", HasNext: p.hasNext, HasPrev: p.hasPrev, Start: p.start, End: p.end, Total: p.total, Cursors: p.cursors}
				if p.err != "" {
					switch {
					case strings.Contains(p.err, "first less than zero"):
						o.Err = "first"
					case strings.Contains(p.err, "last less than zero"):
						o.Err = "last"
					default:
						o.Err = "other:" + p.err
					}
				}
				unknown := false
				for _, key := range p.keys {
					i, ok := pos[key]
					if !ok {
						unknown = true
						i = -1
					}
					o.Nodes = append(o.Nodes, i)
				}
				id := c.emit(k.json("gql:"+f.name), c20Canon(o))
				c.count("gql:pages")
				if p.err == "" {
					if unknown {
						c.violation(id, "C20/gql-window", f.name+": a page holds an element the full list does not", p.keys)
					}
					if !p.edgeNodesAgree {
						c.violation(id, "C20/gql-nodes", f.name+": nodes and edges of one page differ", p.keys)
					}
					if f.ordered {
						c20Oracle(c, id, k, o)
					} else if p.total != n {
						c.violation(id, "C20/total", "totalCount differs from the list length", o)
					}
					if len(p.keys) > 0 && len(p.keys) < n {
						c.nontrivial(fmt.Sprintf("gql|%s|%d|%v|%v|%v", f.name, n, deref(first), deref(last), o.Nodes))
					}
				}
				return p
			}
			sizes := []int{1, 2, 3, n - 1, n, n + 1}
			if large {
				sizes = []int{7, 10, 25, 49, 50, 51, 100, n - 1, n}
			}
			reps := 1
			if !f.ordered || f.name == "allBugs" {
				reps = 3
			}
			for _, k := range sizes {
				if k < 1 {
					continue
				}
				for rep := 0; rep < reps; rep++ {
					// forward
					var seen []string
					var after *string
					for pages := 0; pages <= n+2; pages++ {
						p := page(after, nil, intp(k), nil)
						seen = append(seen, p.keys...)
						if p.err != "" || !p.hasNext {
							break
						}
						after = strp(p.end)
					}
					c20GqlJudge(c, f, "forward", k, ref.keys, seen)
					// backward
					seen = nil
					var before *string
					for pages := 0; pages <= n+2; pages++ {
						p := page(nil, before, nil, intp(k))
						seen = append(append([]string{}, p.keys...), seen...)
						if p.err != "" || !p.hasPrev {
							break
						}
						before = strp(p.start)
					}
					c20GqlJudge(c, f, "backward", k, ref.keys, seen)
					c.count("gql:walks")
				}
			}
			// a few single pages with odd arguments through the served API
			page(strp(connections.OffsetToCursor(n+5)), nil, intp(2), nil)
			page(strp("not a cursor"), nil, intp(2), nil)
			page(nil, nil, intp(-1), nil)
			page(nil, nil, nil, intp(-1))
			page(nil, nil, intp(0), nil)
			if n >= 3 {
				page(strp(connections.OffsetToCursor(0)), strp(connections.OffsetToCursor(n-1)), intp(1), nil)
			}
		}
		mrc.Close()
		cleanupScratch()
	}
}

func c20GqlJudge(c *runCtx, f gqlField, dir string, k int, ref, seen []string) {
	count := map[string]int{}
	for _, s := range seen {
		count[s]++
	}
	bad := len(seen) != len(ref)
	for _, r := range ref {
		if count[r] != 1 {
			bad = true
		}
	}
	if bad {
		c.violation(-1, "C20/gql-walk:"+f.name, fmt.Sprintf("%s walk of %s with pages of %d does not visit every element exactly once: list %v, visited %v", dir, f.name, k, shortKeys(ref), shortKeys(seen)), nil)
		return
	}
	if f.ordered {
		for i := range ref {
			if ref[i] != seen[i] {
				c.violation(-1, "C20/gql-order:"+f.name, fmt.Sprintf("%s walk of %s with pages of %d is not in list order: list %v, visited %v", dir, f.name, k, shortKeys(ref), shortKeys(seen)), nil)
				return
			}
		}
	}
}

func shortKeys(ks []string) []string {
	out := make([]string, len(ks))
	for i, k := range ks {
		out[i] = trunc(k, 7)
	}
	return out
}

package main

import (
	"bytes"
	"crypto/sha256"
	"fmt"
	"os"
	"os/exec"
	"path/filepath"
	"sort"
	"strings"
	"time"

	"github.com/MichaelMure/git-bug/entities/bug"
	"github.com/MichaelMure/git-bug/entities/identity"
	"github.com/MichaelMure/git-bug/entity"
	"github.com/MichaelMure/git-bug/entity/dag"
	"github.com/MichaelMure/git-bug/repository"
)

func init() { props["C15"] = runC15 }

func gitIn(dir string, args ...string) (string, error) {
	cmd := exec.Command("git", args...)
	cmd.Dir = dir
	cmd.Env = append(os.Environ(), "HOME="+filepath.Dir(dir), "GIT_CONFIG_NOSYSTEM=1", "GIT_AUTHOR_NAME=host", "GIT_AUTHOR_EMAIL=host@example.com",
		"GIT_COMMITTER_NAME=host", "GIT_COMMITTER_EMAIL=host@example.com", "GIT_TERMINAL_PROMPT=0")
	out, err := cmd.CombinedOutput()
	return string(out), err
}

func mustGit(dir string, args ...string) string {
	out, err := gitIn(dir, args...)
	if err != nil {
		panic(fmt.Sprintf("git %v in %s: %v\n%s", args, dir, err, out))
	}
	return out
}

func isGitBugRefName(ref string) bool {
	if strings.HasPrefix(ref, "refs/bugs/") || strings.HasPrefix(ref, "refs/identities/") {
		return true
	}
	if strings.HasPrefix(ref, "refs/remotes/") {
		p := strings.SplitN(strings.TrimPrefix(ref, "refs/remotes/"), "/", 3)
		return len(p) == 3 && (p[1] == "bugs" || p[1] == "identities")
	}
	return false
}

func fileSha(p string) string {
	b, err := os.ReadFile(p)
	if err != nil {
		return "absent"
	}
	return fmt.Sprintf("%x", sha256.Sum256(b))[:16]
}

// hostSnapshot: everything in the repository that is not git-bug's
func hostSnapshot(dir string, bare bool) map[string]string {
	s := map[string]string{}
	gitDir := filepath.Join(dir, ".git")
	if bare {
		gitDir = dir
	}
	refs, _ := gitIn(dir, "for-each-ref", "--format=%(refname) %(objectname)")
	for _, l := range strings.Split(strings.TrimSpace(refs), "\n") {
		f := strings.Fields(l)
		if len(f) == 2 && !isGitBugRefName(f[0]) {
			s["ref:"+f[0]] = f[1]
		}
	}
	s["HEAD"] = fileSha(filepath.Join(gitDir, "HEAD"))
	cfg, _ := gitIn(dir, "config", "--local", "--list")
	var lines []string
	for _, l := range strings.Split(cfg, "\n") {
		if l != "" && !strings.HasPrefix(l, "git-bug.") {
			lines = append(lines, l)
		}
	}
	sort.Strings(lines)
	s["config"] = strings.Join(lines, "\n")
	for _, sub := range []string{"hooks", "info"} {
		for _, f := range listFiles(filepath.Join(gitDir, sub)) {
			s[".git/"+sub+"/"+f] = fileSha(filepath.Join(gitDir, sub, f))
		}
	}
	s[".git/description"] = fileSha(filepath.Join(gitDir, "description"))
	// nothing new at the top of .git but git-bug's own directory
	ents, _ := os.ReadDir(gitDir)
	var top []string
	for _, e := range ents {
		if e.Name() != gbNamespace && e.Name() != "ORIG_HEAD" && e.Name() != "FETCH_HEAD" && e.Name() != "gc.log" && e.Name() != "packed-refs" && e.Name() != "index" {
			top = append(top, e.Name())
		}
	}
	s[".git/*"] = strings.Join(top, ",")
	if !bare {
		s["index"] = fileSha(filepath.Join(gitDir, "index"))
		filepath.Walk(dir, func(p string, info os.FileInfo, err error) error {
			if err != nil {
				return nil
			}
			if info.IsDir() && info.Name() == ".git" {
				return filepath.SkipDir
			}
			if !info.IsDir() {
				rel, _ := filepath.Rel(dir, p)
				s["wt:"+rel] = fileSha(p)
			}
			return nil
		})
		st, _ := gitIn(dir, "status", "--porcelain")
		s["status"] = st
	}
	return s
}

func diffSnap(a, b map[string]string) string {
	var out []string
	for k, v := range a {
		if w, ok := b[k]; !ok {
			out = append(out, k+" disappeared")
		} else if w != v {
			out = append(out, fmt.Sprintf("%s changed (%s -> %s)", k, trunc(v, 60), trunc(w, 60)))
		}
	}
	for k := range b {
		if _, ok := a[k]; !ok {
			out = append(out, k+" appeared")
		}
	}
	sort.Strings(out)
	return strings.Join(out, "; ")
}

func fsckStrict(dir string) string {
	out, err := gitIn(dir, "fsck", "--strict", "--full", "--no-dangling")
	var bad []string
	for _, l := range strings.Split(out, "\n") {
		if l == "" || strings.HasPrefix(l, "notice:") || strings.HasPrefix(l, "Checking") {
			continue
		}
		bad = append(bad, l)
	}
	if err != nil && len(bad) == 0 {
		bad = append(bad, err.Error())
	}
	return strings.Join(bad, "\n")
}

func runC15(c *runCtx) {
	defer cleanupScratch()
	gb := os.Getenv("VERIF_GITBUG")
	if gb == "" {
		panic("C15 needs the git-bug binary (VERIF_GITBUG)")
	}
	c15Trees(c)
	c15Config(c)
	c15PackedRefs(c, gb)
	c15LongLivedHandle(c)
	cleanupScratch()
	N := c.pick(3, 16)
	for i := 0; i < N; i++ {
		c15Session(c, c.rng.fork(), gb, i)
		cleanupScratch()
	}
}

// a host repository with everything a project has, its remote, and a second clone
type c15World struct {
	ident              map[string]string // author.* / committer.* / user.* as set in A's configuration
	root, a, b, origin string
}

func newC15World(r *rng, detached bool) *c15World {
	root := scratch("c15w")
	os.MkdirAll(root, 0o755)
	w := &c15World{root: root, a: filepath.Join(root, "A"), b: filepath.Join(root, "B"), origin: filepath.Join(root, "origin.git")}
	mustGit(root, "init", "-q", "--bare", w.origin)
	mustGit(root, "init", "-q", w.a)
	os.WriteFile(filepath.Join(w.a, "README.md"), []byte("host project\n"), 0o644)
	os.MkdirAll(filepath.Join(w.a, "src", "bugs"), 0o755) // a directory called like a namespace
	os.WriteFile(filepath.Join(w.a, "src", "bugs", "main.c"), []byte("int main(){}\n"), 0o644)
	mustGit(w.a, "add", "-A")
	mustGit(w.a, "commit", "-q", "-m", "initial")
	mustGit(w.a, "branch", "feature")
	mustGit(w.a, "branch", "bugs/fix-1") // a branch named like a namespace
	mustGit(w.a, "branch", "topic/bugs/login-crash")
	mustGit(w.a, "branch", "fix/identities/rename")
	mustGit(w.a, "tag", "v1")
	mustGit(w.a, "tag", "-a", "v1-annotated", "-m", "annotated")
	os.WriteFile(filepath.Join(w.a, "second.txt"), []byte("2\n"), 0o644)
	mustGit(w.a, "add", "-A")
	mustGit(w.a, "commit", "-q", "-m", "second")
	mustGit(w.a, "remote", "add", "origin", w.origin)
	mustGit(w.a, "push", "-q", "origin", "--all")
	mustGit(w.a, "push", "-q", "origin", "--tags")
	// tags the remote has and this repository has not (deleted here after it was published), or has
	// at another commit: a fetch of git-bug's refs has no business following tags
	mustGit(w.a, "tag", "published-then-deleted", "HEAD")
	mustGit(w.a, "tag", "moved-locally", "HEAD~1")
	mustGit(w.a, "push", "-q", "origin", "published-then-deleted", "moved-locally")
	mustGit(w.a, "tag", "-d", "published-then-deleted")
	mustGit(w.a, "tag", "-f", "moved-locally", "HEAD")
	mustGit(w.a, "fetch", "-q", "origin")
	// host branches that are ahead of the remote, and one the remote does not have: nothing of
	// git-bug's may publish them
	mustGit(w.a, "branch", "-f", "feature", "HEAD")
	mustGit(w.a, "commit", "-q", "--allow-empty", "-m", "local only")
	mustGit(w.a, "branch", "unpublished")
	mustGit(w.a, "update-ref", "refs/notes/commits", "HEAD")
	mustGit(w.a, "update-ref", "refs/bugsnag/x", "HEAD")
	mustGit(w.a, "update-ref", "refs/remotes/origin/bugs-backlog", "HEAD")
	// unrelated configuration in several shapes
	for _, kv := range [][2]string{{"foo.bar", "baz"}, {"foo.Sub Section.camelCase", "a value with spaces # and hash"}, {"alias.lg", "log --graph --pretty=format:'%h %s'"},
		{"branch.feature.remote", "origin"}, {"branch.feature.merge", "refs/heads/feature"}, {"url.https://example.com/.insteadOf", "ex:"}, {"gitbug.notours", "1"}, {"git-bugs.notours", "1"},
		{"git-bug-prompt.enabled", "true"}, {"git-bug-helper.sub section.key", "v"}} {
		mustGit(w.a, "config", kv[0], kv[1])
	}
	mustGit(w.a, "config", "--add", "remote.origin.fetch", "+refs/pull/*/head:refs/remotes/origin/pr/*")
	// the host's own identity settings, in forms stock git accepts (it cleans them when it writes a commit)
	w.ident = map[string]string{}
	setIdent := func(k, v string) {
		mustGit(w.a, "config", k, v)
		w.ident[k] = v
	}
	switch r.intn(5) {
	case 0:
		setIdent("user.name", "Alice <ops>")
		setIdent("user.email", "<alice@example.com>")
	case 1:
		setIdent("author.name", "Au <thor>")
		setIdent("author.email", "<au@example.com>")
		setIdent("committer.name", "Com\nmit.")
	case 2:
		setIdent("committer.email", "  c@example.com> ")
		setIdent("author.name", "\"Quoted, Name\"")
	case 3:
		// anything: crud at the ends, brackets and control characters inside, other scripts
		pool := []rune(" .,:;<>\"\\'\t\nabZ9@-é日")
		rnd := func() string {
			n := r.intn(12)
			out := make([]rune, n)
			for i := range out {
				out[i] = pickOne(r, pool)
			}
			return string(out)
		}
		for _, k := range []string{"author.name", "author.email", "committer.name", "committer.email"} {
			if v := rnd(); v != "" {
				setIdent(k, v)
			}
		}
	}
	os.WriteFile(filepath.Join(w.a, ".git", "hooks", "pre-commit"), []byte("#!/bin/sh\nexit 0\n"), 0o755)
	os.WriteFile(filepath.Join(w.a, ".git", "info", "exclude"), []byte("*.tmp\n"), 0o644)
	// dirty working tree: modified, staged, untracked
	os.WriteFile(filepath.Join(w.a, "README.md"), []byte("host project\nmodified\n"), 0o644)
	os.WriteFile(filepath.Join(w.a, "staged.txt"), []byte("staged\n"), 0o644)
	mustGit(w.a, "add", "staged.txt")
	os.WriteFile(filepath.Join(w.a, "untracked.txt"), []byte("untracked\n"), 0o644)
	os.WriteFile(filepath.Join(w.a, "git-bug"), []byte("a file called git-bug\n"), 0o644)
	if detached {
		mustGit(w.a, "checkout", "-q", "--detach", "HEAD")
	}
	mustGit(root, "clone", "-q", w.origin, w.b)
	mustGit(w.b, "config", "foo.other", "clone")
	mustGit(w.b, "tag", "-d", "published-then-deleted")
	return w
}

func c15GB(gb, dir string, args ...string) (string, error) {
	cmd := exec.Command(gb, args...)
	cmd.Dir = dir
	cmd.Env = append(os.Environ(), "HOME="+filepath.Dir(dir), "XDG_CONFIG_HOME="+filepath.Join(filepath.Dir(dir), ".config"), "GIT_CONFIG_NOSYSTEM=1", "EDITOR=true")
	var buf bytes.Buffer
	cmd.Stdout, cmd.Stderr = &buf, &buf
	err := cmd.Run()
	return buf.String(), err
}

func bugIdsCLI(gb, dir string) []string {
	out, _ := c15GB(gb, dir, "bug", "--format", "id")
	var ids []string
	for _, l := range strings.Split(out, "\n") {
		l = strings.TrimSpace(l)
		if len(l) == 64 {
			ids = append(ids, l)
		}
	}
	return ids
}

func c15Session(c *runCtx, r *rng, gb string, n int) {
	w := newC15World(r, n%3 == 2)
	var log []string
	snapA, snapB, snapO := hostSnapshot(w.a, false), hostSnapshot(w.b, false), hostSnapshot(w.origin, true)
	nullRefs := func(dir string, bare bool) []string {
		gitDir := filepath.Join(dir, ".git")
		if bare {
			gitDir = dir
		}
		var bad []string
		filepath.Walk(filepath.Join(gitDir, "refs"), func(p string, info os.FileInfo, err error) error {
			if err == nil && !info.IsDir() {
				if b, err := os.ReadFile(p); err == nil {
					t := strings.TrimSpace(string(b))
					okRef := strings.HasPrefix(t, "ref: ") || len(t) == 40 && strings.Trim(t, "0123456789abcdef") == "" && t != "0000000000000000000000000000000000000000"
					if !okRef {
						rel, _ := filepath.Rel(gitDir, p)
						bad = append(bad, fmt.Sprintf("%s (content %q)", rel, trunc(string(b), 60)))
					}
				}
			}
			return nil
		})
		if b, err := os.ReadFile(filepath.Join(gitDir, "packed-refs")); err == nil {
			for _, l := range strings.Split(string(b), "\n") {
				if strings.HasPrefix(l, "0000000000000000000000000000000000000000 ") {
					bad = append(bad, "packed:"+strings.Fields(l)[1])
				}
			}
		}
		return bad
	}
	reportedNull := map[string]bool{}
	check := func(what string) {
		for _, x := range []struct {
			name string
			dir  string
			bare bool
		}{{"A", w.a, false}, {"B", w.b, false}, {"origin", w.origin, true}} {
			for _, ref := range nullRefs(x.dir, x.bare) {
				if !reportedNull[x.name+ref] {
					reportedNull[x.name+ref] = true
					c.violation(c.nCases, "C15/null-ref", fmt.Sprintf("after %q the ref %s of repository %s does not hold an object id: stock git (fsck, gc, repack) refuses the repository (session %v)", what, ref, x.name, log), map[string]any{"action": what, "ref": ref})
				}
			}
		}
		for _, x := range []struct {
			name string
			dir  string
			bare bool
			snap *map[string]string
		}{{"A", w.a, false, &snapA}, {"B", w.b, false, &snapB}, {"origin", w.origin, true, &snapO}} {
			now := hostSnapshot(x.dir, x.bare)
			if d := diffSnap(*x.snap, now); d != "" {
				c.violation(c.nCases, "C15/host-disturbed", fmt.Sprintf("after %q something of repository %s that is not git-bug's changed: %s (session %v)", what, x.name, d, log), map[string]any{"action": what})
				*x.snap = now
			}
		}
	}
	act := func(dir string, args ...string) (string, error) {
		what := "git-bug " + strings.Join(args, " ") + " [" + filepath.Base(dir) + "]"
		log = append(log, what)
		c.context(fmt.Sprintf("session %d: %v", n, log))
		out, err := c15GB(gb, dir, args...)
		c.count("action=" + strings.Join(args[:min(2, len(args))], " "))
		check(what)
		return out, err
	}
	must := func(dir string, args ...string) string {
		out, err := act(dir, args...)
		if err != nil {
			c.violation(c.nCases, "C15/command-failed", fmt.Sprintf("git-bug %v failed in a host repository: %s", args, trunc(out, 300)), nil)
		}
		return out
	}
	// before git-bug holds anything: a push and a pull have nothing of git-bug's to move, and move nothing else
	act(w.a, "push", "origin")
	act(w.b, "pull", "origin")
	must(w.a, "user", "new", "-n", "Ann Host", "-e", "ann@example.com", "--non-interactive")
	must(w.b, "user", "new", "-n", "Bob Clone", "-e", "bob@example.com", "--non-interactive")
	must(w.a, "bug", "new", "-t", "first "+pickOne(r, titlePool[:3]), "-m", pickOne(r, messagePool[:4]))
	// git-bug run from a linked working tree of A (`git worktree add`): same repository, same refs, and
	// nothing of git-bug's in the worktree's private directory
	if n%2 == 0 {
		wt := filepath.Join(w.root, "A-linked")
		if _, err := gitIn(w.a, "worktree", "add", "-q", wt, "feature"); err == nil {
			snapA = hostSnapshot(w.a, false)
			before := bugIdsCLI(gb, w.a)
			if out, err := act(wt, "bug", "new", "-t", "from the linked worktree", "-m", "m"); err != nil {
				c.violation(c.nCases, "C15/command-failed", "git-bug bug new failed in a linked worktree: "+trunc(out, 200), nil)
			}
			after := bugIdsCLI(gb, w.a)
			refs, _ := gitIn(w.a, "for-each-ref", "--format=%(refname)", "refs/bugs/")
			if len(after) != len(before)+1 || len(strings.Fields(refs)) != len(after) {
				c.violation(c.nCases, "C15/linked-worktree", fmt.Sprintf("a bug created from a linked working tree is not a bug of the repository: %d bugs before, %d after, stock git lists %d refs under refs/bugs/", len(before), len(after), len(strings.Fields(refs))), nil)
			}
			priv := filepath.Join(w.a, ".git", "worktrees", "A-linked")
			for _, sub := range []string{"git-bug", "objects", "refs/bugs", "refs/identities", "config"} {
				if _, err := os.Stat(filepath.Join(priv, sub)); err == nil {
					c.violation(c.nCases, "C15/linked-worktree", "git-bug created "+sub+" inside the private directory of a linked working tree (.git/worktrees/A-linked)", nil)
				}
			}
			c.count("action=linked-worktree")
			gitIn(w.a, "worktree", "remove", "--force", wt)
			snapA = hostSnapshot(w.a, false)
		}
	}
	steps := c.pick(16, 40)
	for k := 0; k < steps; k++ {
		dir := w.a
		if r.chance(1, 3) {
			dir = w.b
		}
		ids := bugIdsCLI(gb, dir)
		pick := func() string {
			if len(ids) == 0 {
				return ""
			}
			return pickOne(r, ids)[:10]
		}
		x := r.intn(22)
		if k == 2 {
			x = 17 // every session has attachments and configuration writes
		}
		switch {
		case x < 2:
			must(dir, "bug", "new", "-t", "t"+randHexId(r, 4)+" "+pickOne(r, titlePool[:3]), "-m", pickOne(r, messagePool[:4]))
		case x < 5:
			if id := pick(); id != "" {
				must(dir, "bug", "comment", "new", id, "-m", pickOne(r, messagePool[:4])+randHexId(r, 3))
			}
		case x < 6:
			if id := pick(); id != "" {
				act(dir, "bug", "label", "new", id, pickOne(r, []string{"ui", "bug", "needs review", "ünï"}))
			}
		case x < 7:
			if id := pick(); id != "" {
				act(dir, "bug", "label", "rm", id, pickOne(r, []string{"ui", "bug"}))
			}
		case x < 8:
			if id := pick(); id != "" {
				must(dir, "bug", "title", "edit", id, "-t", "retitled "+randHexId(r, 4))
			}
		case x < 9:
			if id := pick(); id != "" {
				act(dir, "bug", "status", pickOne(r, []string{"close", "open"}), id)
			}
		case x < 10:
			if id := pick(); id != "" {
				act(dir, "bug", "select", id)
				act(dir, "bug", "comment", "new", "-m", "on the selected bug")
				act(dir, "bug", "deselect")
			}
		case x < 13:
			act(dir, "push", "origin")
		case x < 16:
			act(dir, "pull", "origin")
		case x < 17:
			if id := pick(); id != "" && len(ids) > 1 {
				act(dir, "bug", "rm", id)
			}
		case x < 18:
			// library: a bug with attachments, an identity change, bridge-like configuration
			// (compares the host before/after by itself, as the host's configuration changes in the middle)
			c15Library(c, r, dir, &log)
			snapA, snapB, snapO = hostSnapshot(w.a, false), hostSnapshot(w.b, false), hostSnapshot(w.origin, true)
		case x < 19:
			act(dir, "user")
			act(dir, "label")
			act(dir, "bug", "status:open", "sort:edit")
		default:
			// the host's own life goes on: none of this is git-bug's doing, so take a new snapshot
			switch r.intn(4) {
			case 0:
				os.WriteFile(filepath.Join(dir, "work"+randHexId(r, 3)+".txt"), []byte("w\n"), 0o644)
				gitIn(dir, "add", "-A")
				gitIn(dir, "commit", "-q", "-m", "host work")
			case 1:
				gitIn(dir, "gc", "-q", "--prune=now")
			case 2:
				gitIn(dir, "fetch", "-q", "origin")
			case 3:
				gitIn(dir, "pack-refs", "--all")
			}
			log = append(log, "(host activity in "+filepath.Base(dir)+")")
			snapA, snapB, snapO = hostSnapshot(w.a, false), hostSnapshot(w.b, false), hostSnapshot(w.origin, true)
			if out, err := c15GB(gb, dir, "bug"); err != nil {
				c.violation(c.nCases, "C15/broken-by-host-activity", fmt.Sprintf("after ordinary git activity git-bug no longer lists bugs: %s (session %v)", trunc(out, 200), log), nil)
			}
		}
	}
	// every session has the library actions at least once
	c15Library(c, r, w.a, &log)
	snapA, snapB, snapO = hostSnapshot(w.a, false), hostSnapshot(w.b, false), hostSnapshot(w.origin, true)
	act(w.a, "push", "origin")
	act(w.b, "pull", "origin")
	// ---- every object is valid for stock git, everywhere
	for _, x := range []struct{ name, dir string }{{"A", w.a}, {"B", w.b}, {"origin", w.origin}} {
		if bad := fsckStrict(x.dir); bad != "" {
			c.violation(c.nCases, "C15/fsck", fmt.Sprintf("git fsck --strict in %s: %s (session %v)", x.name, trunc(bad, 400), log), nil)
		}
	}
	// stock git can clone it, fetch git-bug's refs, and the result reads
	mirror := filepath.Join(w.root, "mirror.git")
	if out, err := gitIn(w.root, "clone", "-q", "--mirror", w.origin, mirror); err != nil {
		c.violation(c.nCases, "C15/stock-git-clone", "git clone --mirror of the remote fails: "+trunc(out, 300), nil)
	} else if bad := fsckStrict(mirror); bad != "" {
		c.violation(c.nCases, "C15/fsck", "git fsck --strict in a mirror clone: "+trunc(bad, 400), nil)
	}
	// garbage collection keeps everything git-bug needs (attachments included)
	before := c15ReadAll(w.a)
	gitIn(w.a, "reflog", "expire", "--expire=now", "--all")
	if out, err := gitIn(w.a, "gc", "-q", "--prune=now", "--aggressive"); err != nil {
		c.violation(c.nCases, "C15/gc", "git gc fails: "+trunc(out, 300), nil)
	}
	after := c15ReadAll(w.a)
	if mustJSON(before) != mustJSON(after) {
		c.violation(c.nCases, "C15/gc-lost-data", fmt.Sprintf("after git gc --prune=now the bugs read differently: before %s after %s (session %v)", trunc(mustJSON(before), 300), trunc(mustJSON(after), 300), log), nil)
	}
	c.count(fmt.Sprintf("bugs-at-end=%d", min(len(before), 9)))
	// the trees git-bug wrote, as stored, go to the model
	c15StoredTrees(c, w.a)
	c15Idents(c, w)
	c.nontrivial(strings.Join(log, "|"))
	// wipe leaves the host alone too (the fsck, clone and gc above were the harness's doing)
	// (B has configuration of git-bug's to remove — a web UI preference — next to sections of other tools
	// whose names start the same way)
	gitIn(w.b, "config", "git-bug.webui.open", "false")
	gitIn(w.b, "config", "git-bug-prompt.enabled", "true")
	gitIn(w.b, "config", "git-bugs.notours", "1")
	snapA, snapB, snapO = hostSnapshot(w.a, false), hostSnapshot(w.b, false), hostSnapshot(w.origin, true)
	wout, werr := act(w.b, "wipe")
	if out, _ := gitIn(w.b, "for-each-ref", "--format=%(refname)"); strings.Contains(out, "refs/bugs/") || strings.Contains(out, "refs/identities/") {
		var left []string
		for _, l := range strings.Split(out, "\n") {
			if isGitBugRefName(l) {
				left = append(left, l)
			}
		}
		if keep := os.Getenv("VERIF_KEEP_DIR"); keep != "" {
			exec.Command("cp", "-a", w.b, filepath.Join(keep, fmt.Sprintf("wipe-left-%d", c.nCases))).Run()
		}
		c.violation(c.nCases, "C15/wipe-left-refs", fmt.Sprintf("refs of git-bug remain after wipe: %v; wipe said (err=%v): %s (session %v)", left, werr, trunc(wout, 300), log), nil)
	}
	// after the wipe the repository is a plain host repository again, with work of its own to publish some day
	gitIn(w.b, "commit", "-q", "--allow-empty", "-m", "host work in B")
	gitIn(w.b, "branch", "b-unpublished")
	snapA, snapB, snapO = hostSnapshot(w.a, false), hostSnapshot(w.b, false), hostSnapshot(w.origin, true)
	act(w.b, "push", "origin")
}

// c15ReadAll: every bug with its operation ids and the availability of every attached file
func c15ReadAll(dir string) map[string][]string {
	out := map[string][]string{}
	repo, err := openGoGit(dir)
	if err != nil {
		return map[string][]string{"open-error": {err.Error()}}
	}
	defer repo.Close()
	for st := range bug.ReadAll(repo) {
		if st.Err != nil {
			out["error"] = append(out["error"], st.Err.Error())
			continue
		}
		var l []string
		for _, op := range st.Entity.Operations() {
			l = append(l, string(op.Id()))
			if of, ok := op.(dag.OperationWithFiles); ok {
				for _, f := range of.GetFiles() {
					if _, err := repo.ReadData(f); err != nil {
						l = append(l, "MISSING-FILE:"+string(f))
					} else {
						l = append(l, "file:"+string(f))
					}
				}
			}
		}
		out[string(st.Entity.Id())] = l
	}
	return out
}

func c15Library(c *runCtx, r *rng, dir string, log *[]string) {
	repo, err := openGoGit(dir)
	if err != nil {
		panic(err)
	}
	defer repo.Close()
	snap0 := hostSnapshot(dir, false)
	*log = append(*log, "library actions ["+filepath.Base(dir)+"]")
	var author identity.Interface
	for st := range identity.ReadAllLocal(repo) {
		if st.Err == nil {
			author = st.Entity
		}
	}
	if author == nil {
		return
	}
	restore := storeFilesIn(repo)
	g := newOpGen(r.fork(), []identity.Interface{author})
	b := bug.NewBug()
	cop := g.create()
	b.Append(cop)
	g.record(cop, true)
	for i := 0; i < r.rangeInt(1, 6); i++ {
		op, isC, _ := g.next()
		b.Append(op)
		g.record(op, isC)
	}
	if err := b.Commit(repo); err != nil {
		c.violation(c.nCases, "C15/library-commit-failed", err.Error(), nil)
	}
	// several operations with attachments of their own (and one shared) in a single commit
	{
		f := func() repository.Hash { return fileSource(r) }
		shared := f()
		b2 := bug.NewBug()
		cop := bug.NewCreateOp(author, 1_650_000_000, "with attachments", "see files", []repository.Hash{shared, f()})
		b2.Append(cop)
		b2.Append(bug.NewAddCommentOp(author, 1_650_000_001, "more files", []repository.Hash{shared, f(), f()}))
		b2.Append(bug.NewAddCommentOp(author, 1_650_000_002, "and another", []repository.Hash{f()}))
		if err := b2.Commit(repo); err != nil {
			c.violation(c.nCases, "C15/library-commit-failed", err.Error(), nil)
		}
	}
	restore()
	c.count("action=library bug with attachments")
	// configuration through git-bug's own configuration interface, on a handle that lives on while the
	// host changes its own configuration with stock git (as under `webui`, `termui`, an interactive
	// `bridge new`): git-bug has read the configuration before, and stores its keys afterwards
	cfg := repo.LocalConfig()
	cfg.ReadString("git-bug.identity")
	cfg.ReadAll("git-bug")
	cfg.ReadString("user.name")
	if d := diffSnap(snap0, hostSnapshot(dir, false)); d != "" {
		c.violation(c.nCases, "C15/host-disturbed", fmt.Sprintf("library actions (commits with attachments) changed something of the host that is not git-bug's: %s", d), nil)
	}
	hx := randHexId(r, 3)
	gitIn(dir, "config", "alias.st"+hx, "status -sb")
	gitIn(dir, "remote", "add", "upstream"+hx, "https://example.com/"+hx+".git")
	gitIn(dir, "config", "core.autocrlf", pickOne(r, []string{"input", "false"}))
	gitIn(dir, "config", "branch.main.description", "host text "+hx)
	snap0 = hostSnapshot(dir, false)
	*log = append(*log, "(host configuration changed while the handle is open)")
	cfg.StoreString("git-bug.bridge.tracker.target", "github")
	cfg.StoreString("git-bug.bridge.tracker.owner", "someone")
	if r.chance(1, 2) {
		cfg.RemoveAll("git-bug.bridge.tracker")
	}
	c.count("action=library config")
	// an identity change
	if i, ok := author.(*identity.Identity); ok {
		i.Mutate(repo, func(m *identity.Mutator) { m.Name = "renamed " + randHexId(r, 3) })
		if i.NeedCommit() {
			i.Commit(repo)
		}
	}
	if d := diffSnap(snap0, hostSnapshot(dir, false)); d != "" {
		c.violation(c.nCases, "C15/host-disturbed", fmt.Sprintf("storing git-bug's own configuration keys and an identity change through a handle opened before the host changed its configuration with stock git disturbed the host: %s (session %v)", d, *log), nil)
	}
	_ = entity.Id("")
}

// c15StoredTrees: every tree reachable from git-bug's refs, in stored order
func c15StoredTrees(c *runCtx, dir string) {
	refs, _ := gitIn(dir, "for-each-ref", "--format=%(refname)")
	seen := map[string]bool{}
	n := 0
	for _, ref := range strings.Split(strings.TrimSpace(refs), "\n") {
		if !isGitBugRefName(ref) {
			continue
		}
		commits, _ := gitIn(dir, "rev-list", ref)
		for _, cm := range strings.Fields(commits) {
			var visit func(tree string)
			visit = func(tree string) {
				if seen[tree] || n > 60 {
					return
				}
				seen[tree] = true
				out, _ := gitIn(dir, "ls-tree", tree)
				var entries []map[string]any
				for _, l := range strings.Split(strings.TrimRight(out, "\n"), "\n") {
					tab := strings.SplitN(l, "\t", 2)
					f := strings.Fields(tab[0])
					if len(tab) != 2 || len(f) != 3 {
						continue
					}
					entries = append(entries, map[string]any{"name": tab[1], "tree": f[1] == "tree"})
					if f[1] == "tree" {
						visit(f[2])
					}
				}
				n++
				c.emit(map[string]any{"cmd": "stored", "entries": entries}, map[string]any{"ok": true, "sorted": true})
				c.count(fmt.Sprintf("stored-tree-entries=%d", min(len(entries), 12)))
			}
			visit(strings.TrimSpace(mustGit(dir, "rev-parse", cm+"^{tree}")))
		}
	}
}

// c15Trees: arbitrary entry lists through the real StoreTree, judged by stock git
func c15Trees(c *runCtx) {
	r := c.rng.fork()
	repo, dir := newGoGit("c15t", false)
	defer repo.Close()
	blob, _ := repo.StoreData([]byte("x"))
	sub, _ := repo.StoreTree([]repository.TreeEntry{{ObjectType: repository.Blob, Hash: blob, Name: "leaf"}})
	pool := []string{"a", "a.b", "a0", "a-b", "a b", "A", "file2", "file10", "file1", "é", "z", "ops", "extra", "version-4", "edit-clock-10", "edit-clock-9", "create-clock-1", "Z", "~", "a.", "a/b", ".git", ".."}
	N := c.pick(60, 600)
	for i := 0; i < N; i++ {
		n := r.rangeInt(1, 7)
		var entries []repository.TreeEntry
		var ej []map[string]any
		for k := 0; k < n; k++ {
			name := pickOne(r, pool[:len(pool)-3])
			if r.chance(1, 40) {
				name = pickOne(r, pool[len(pool)-3:])
			}
			isTree := r.chance(1, 3)
			e := repository.TreeEntry{ObjectType: repository.Blob, Hash: blob, Name: name}
			if isTree {
				e.ObjectType, e.Hash = repository.Tree, sub
			}
			entries = append(entries, e)
			ej = append(ej, map[string]any{"name": name, "tree": isTree})
		}
		h, err := repo.StoreTree(entries)
		if err != nil {
			c.count("tree-rejected-by-StoreTree")
			continue
		}
		// stock git's opinion: the order as stored, and fsck on that object
		ls, _ := gitIn(dir, "ls-tree", "-z", "--name-only", string(h))
		order := strings.Split(strings.TrimRight(ls, "\x00"), "\x00")
		fs, _ := gitIn(dir, "fsck", "--strict", "--no-dangling")
		ok := !strings.Contains(fs, string(h))
		c.emit(map[string]any{"cmd": "tree", "entries": ej}, map[string]any{"order": order, "ok": ok})
		c.count(fmt.Sprintf("tree-ok=%v", ok))
		c.nontrivial(mustJSON(ej))
	}
}

// c15PackedRefs: git packs refs (gc does, and git runs gc by itself); a pull that then updates a
// bug must leave a repository stock git still accepts.
func c15PackedRefs(c *runCtx, gb string) {
	for _, packer := range [][]string{{"pack-refs", "--all"}, {"gc", "-q"}} {
		w := newC15World(c.rng.fork(), false)
		step := func(dir string, args ...string) {
			if out, err := c15GB(gb, dir, args...); err != nil {
				c.violation(c.nCases, "C15/command-failed", fmt.Sprintf("packed refs (%v): git-bug %v failed: %s", packer, args, trunc(out, 300)), map[string]any{"packer": packer})
			}
		}
		c.context(fmt.Sprintf("pull after git %v", packer))
		step(w.a, "user", "new", "-n", "Ann", "-e", "ann@example.com", "--non-interactive")
		step(w.b, "user", "new", "-n", "Bob", "-e", "bob@example.com", "--non-interactive")
		step(w.a, "bug", "new", "-t", "packed refs", "-m", "first")
		step(w.a, "push", "origin")
		step(w.b, "pull", "origin")
		mustGit(w.b, packer...) // the host's own housekeeping
		ids := bugIdsCLI(gb, w.a)
		if len(ids) == 0 {
			c.violation(c.nCases, "C15/harness", "no bug to edit", nil)
			continue
		}
		step(w.a, "bug", "comment", "new", ids[0][:10], "-m", "after the refs were packed")
		step(w.a, "push", "origin")
		before := hostSnapshot(w.b, false)
		step(w.b, "pull", "origin")
		if d := diffSnap(before, hostSnapshot(w.b, false)); d != "" {
			c.violation(c.nCases, "C15/host-disturbed", fmt.Sprintf("pull after git %v changed something that is not git-bug's: %s", packer, d), nil)
		}
		if bad := fsckStrict(w.b); bad != "" {
			c.violation(c.nCases, "C15/fsck", fmt.Sprintf("after git %v and a pull that updates a bug: git fsck --strict: %s", packer, trunc(bad, 300)), map[string]any{"packer": packer})
		}
		if out, err := gitIn(w.b, "gc", "-q"); err != nil {
			c.violation(c.nCases, "C15/gc", fmt.Sprintf("after git %v and a pull that updates a bug: git gc fails: %s", packer, trunc(out, 300)), map[string]any{"packer": packer})
		}
		if all := c15ReadAll(w.b); len(all[ids[0]]) != 2 {
			c.violation(c.nCases, "C15/pull-incomplete", fmt.Sprintf("after git %v the pull did not bring the new comment: %v", packer, all), nil)
		}
		c.count("packed-refs=" + packer[0])
		c.nontrivial("packed|" + packer[0])
	}
}

// c15Idents: the author and committer of a commit git-bug wrote in A, against the model's cleaning of
// what A's configuration holds (GitBugModel.Ident.cleanIdent), and fsck's verdict on that line.
func c15Idents(c *runCtx, w *c15World) {
	out, err := gitIn(w.a, "for-each-ref", "--format=%(objectname)", "refs/bugs/", "refs/identities/")
	if err != nil {
		return
	}
	seen := map[string]bool{}
	for _, h := range strings.Fields(out) {
		raw, err := gitIn(w.a, "cat-file", "commit", h)
		if err != nil {
			continue
		}
		// only commits written under A's configuration carry its settings: the others came by pull
		for _, who := range []string{"author", "committer"} {
			// (a newline inside the name would end the header line early: read up to the date by position)
			i := strings.Index(raw, "\n"+who+" ")
			if i < 0 {
				continue
			}
			rest := raw[i+len(who)+2:]
			j := strings.Index(rest, "> ")
			if j < 0 {
				j = strings.Index(rest, "\n")
				if j < 0 {
					continue
				}
			} else {
				j++
			}
			line := rest[:j]
			name, email := w.ident[who+".name"], w.ident[who+".email"]
			key := who + "|" + line
			if seen[key] {
				continue
			}
			seen[key] = true
			// commits that arrived from B were written under B's configuration (nothing set): "<>"
			if line == " <>" && (name != "" || email != "") {
				continue
			}
			id := c.emit(map[string]any{"cmd": "ident", "name": name, "email": email, "who": who}, map[string]any{"line": line, "fsck": true})
			c.count("ident-lines")
			_ = id
		}
	}
}

// c15Config: git-bug's way of removing configuration (goGitConfigWriter.RemoveAll, what wipe and the
// bridges use) against its model (GitBugModel.Config.removeAll): which keys are left, on repositories
// whose other sections are named like git-bug's.
func c15Config(c *runCtx) {
	type sub struct {
		Name    string     `json:"name"`
		Options [][]string `json:"options"`
	}
	type section struct {
		Name    string     `json:"name"`
		Options [][]string `json:"options"`
		Subs    []sub      `json:"subs"`
	}
	r := c.rng.fork()
	names := []string{"git-bug", "git-bug-prompt", "git-bugs", "gitbug", "foo", "bar"}
	for rep := 0; rep < c.pick(40, 300); rep++ {
		dir := scratch("c15cfg")
		mustGit(dir, "init", "-q", dir)
		var cfg []section
		for _, n := range names {
			if !r.chance(2, 3) {
				continue
			}
			sec := section{Name: n, Options: [][]string{}, Subs: []sub{}}
			for k := 0; k < r.intn(3); k++ {
				o := pickOne(r, []string{"open", "user-identity", "enabled", "x"})
				dup := false
				for _, e := range sec.Options {
					dup = dup || e[0] == o
				}
				if !dup {
					sec.Options = append(sec.Options, []string{o, "v" + randHexId(r, 2)})
				}
			}
			for k := 0; k < r.intn(3); k++ {
				sn := pickOne(r, []string{"bridge.x", "webui", "Sub Section", "open"})
				dup := false
				for _, e := range sec.Subs {
					dup = dup || e.Name == sn
				}
				if !dup {
					sec.Subs = append(sec.Subs, sub{Name: sn, Options: [][]string{{"token", "t" + randHexId(r, 2)}}})
				}
			}
			if len(sec.Options)+len(sec.Subs) == 0 {
				continue
			}
			// (git writes a section's plain options and each subsection as separate blocks; options first)
			for _, o := range sec.Options {
				mustGit(dir, "config", n+"."+o[0], o[1])
			}
			for _, sb := range sec.Subs {
				for _, o := range sb.Options {
					mustGit(dir, "config", n+"."+sb.Name+"."+o[0], o[1])
				}
			}
			cfg = append(cfg, sec)
		}
		prefix := pickOne(r, []string{"git-bug", "git-bug", "git-bug.bridge.x", "git-bug.webui", "git-bug.open", "git-bug.nosuch", "nosuch", "git-bugs", "foo.Sub Section"})
		keysOf := func() []string {
			out, _ := gitIn(dir, "config", "--local", "--list", "--name-only")
			ks := []string{} // (an empty list, not null, when nothing is left)
			for _, k := range strings.Fields(strings.ReplaceAll(out, "Sub Section", "Sub\x00Section")) {
				k = strings.ReplaceAll(k, "\x00", " ")
				if !strings.HasPrefix(k, "core.") {
					ks = append(ks, k)
				}
			}
			sort.Strings(ks)
			return ks
		}
		repo, err := openGoGit(dir)
		if err != nil {
			panic(err)
		}
		rmErr := repo.LocalConfig().RemoveAll(prefix)
		repo.Close()
		out := map[string]any{"err": rmErr != nil, "keys": keysOf()}
		if rmErr != nil {
			out["keys"] = nil
		}
		c.emit(map[string]any{"cmd": "config", "sections": cfg, "prefix": prefix}, out)
		c.count(fmt.Sprintf("config-remove/%s/err=%v", prefix, rmErr != nil))
		// the frame, on the real code: keys of sections with another name are all still there
		if rmErr == nil {
			left := map[string]bool{}
			for _, k := range keysOf() {
				left[k] = true
			}
			first := strings.SplitN(prefix, ".", 2)[0]
			for _, sec := range cfg {
				if sec.Name == first {
					continue
				}
				for _, o := range sec.Options {
					if !left[sec.Name+"."+o[0]] {
						c.violation(c.nCases, "C15/host-disturbed", fmt.Sprintf("removing the configuration under %q also removed %s.%s", prefix, sec.Name, o[0]), nil)
					}
				}
				for _, sb := range sec.Subs {
					if !left[strings.ToLower(sec.Name)+"."+sb.Name+".token"] {
						c.violation(c.nCases, "C15/host-disturbed", fmt.Sprintf("removing the configuration under %q also removed %s.%s.token", prefix, sec.Name, sb.Name), nil)
					}
				}
			}
		}
		os.RemoveAll(dir)
	}
}

// c15LongLivedHandle: one repository handle kept over the host's housekeeping (the web UI, a library user):
// bugs are created and removed, the host prunes unreachable objects (`git gc --prune=now`), bugs are created
// again through the same handle. Every object the new bugs point at must be there: `git fsck --strict`
// stays clean and the bugs read back from another handle.
func c15LongLivedHandle(c *runCtx) {
	for rep := 0; rep < c.pick(2, 8); rep++ {
		r := c.rng.fork()
		repo, dir := newGoGit("c15handle", false)
		author, err := identity.NewIdentity(repo, "long lived", "ll@example.com")
		if err != nil {
			panic(err)
		}
		if err := author.Commit(repo); err != nil {
			panic(err)
		}
		mk := func(title string) entity.Id {
			b, _, err := bug.Create(author, time.Now().Unix(), title, "message "+randHexId(r, 4), nil, nil)
			if err != nil {
				panic(err)
			}
			if r.chance(1, 2) {
				bug.AddComment(b, author, time.Now().Unix(), "a comment", nil, nil)
			}
			if err := b.Commit(repo); err != nil {
				panic(err)
			}
			return b.Id()
		}
		var log []string
		for round := 0; round < r.rangeInt(1, 3); round++ {
			var ids []entity.Id
			for k := 0; k < r.rangeInt(1, 3); k++ {
				ids = append(ids, mk(fmt.Sprintf("round %d bug %d", round, k)))
			}
			log = append(log, fmt.Sprintf("create(%d)", len(ids)))
			for _, id := range ids {
				if err := bug.Remove(repo, id); err != nil {
					panic(err)
				}
			}
			log = append(log, "remove-all")
			if out, err := gitIn(dir, "gc", "-q", "--prune=now"); err != nil {
				panic("git gc: " + out)
			}
			log = append(log, "git gc --prune=now")
		}
		id := mk("after the housekeeping")
		log = append(log, "create")
		c.count("long-lived-handle")
		if bad := fsckStrict(dir); bad != "" {
			c.violation(-1, "C15/fsck", fmt.Sprintf("one handle over %v: git fsck --strict reports %s", log, trunc(bad, 300)), nil)
		}
		if r2, err := openGoGit(dir); err == nil {
			if _, err := bug.Read(r2, id); err != nil {
				c.violation(-1, "C15/fsck", fmt.Sprintf("one handle over %v: the last bug does not read from a new handle: %v", log, err), nil)
			}
			r2.Close()
		}
		repo.Close()
	}
}

package main

import (
	"bytes"
	"encoding/json"
	"fmt"
	"mime/multipart"
	"net/http"
	"net/http/httptest"
	"os"
	"path/filepath"
	"sort"
	"strings"

	"github.com/gorilla/mux"

	"github.com/MichaelMure/git-bug/api/auth"
	"github.com/MichaelMure/git-bug/api/graphql"
	httpapi "github.com/MichaelMure/git-bug/api/http"
	"github.com/MichaelMure/git-bug/cache"
	"github.com/MichaelMure/git-bug/entity"
)

func init() { props["C17"] = runC17 }

func gqlPost(h http.Handler, q string) (map[string]any, string) {
	body, _ := json.Marshal(map[string]any{"query": q})
	req := httptest.NewRequest("POST", "/graphql", bytes.NewReader(body))
	req.Header.Set("Content-Type", "application/json")
	rec := httptest.NewRecorder()
	h.ServeHTTP(rec, req)
	var out map[string]any
	json.Unmarshal(rec.Body.Bytes(), &out)
	return out, rec.Body.String()
}

func runC17(c *runCtx) {
	defer cleanupScratch()
	// resolver programs as the extractor sees them in the current source
	var facts struct {
		Progs []struct {
			Name    string
			Checked bool
			Steps   []map[string]any
		} `json:"resolver_programs"`
	}
	if b, err := os.ReadFile(filepath.Join(os.Getenv("VERIF_BUILD"), "facts.json")); err == nil {
		json.Unmarshal(b, &facts)
	}
	progOf := map[string][]map[string]any{}
	for _, p := range facts.Progs {
		progOf[p.Name] = p.Steps
	}
	firstIdx := func(name, kind string) int {
		for i, s := range progOf[name] {
			if s["Kind"] == kind {
				return i
			}
		}
		return -1
	}

	repo, dir := newGoGit("c17", false)
	mrc := cache.NewMultiRepoCache()
	rc, events := mrc.RegisterDefaultRepository(repo)
	for ev := range events {
		if ev.Err != nil {
			panic(ev.Err)
		}
	}
	defer mrc.Close()
	iden, err := rc.Identities().New("web user", "w@example.com")
	if err != nil {
		panic(err)
	}
	rc.SetUserIdentity(iden)
	b0, _, _ := rc.Bugs().New("first bug", "body")
	b0.AddComment("a comment")
	b0.Commit()
	_ = dir

	// the request's user is not the identity configured in the repository
	web, err := rc.Identities().New("request user", "q@example.com")
	if err != nil {
		panic(err)
	}
	gh := graphql.NewHandler(mrc, nil)
	anon := http.Handler(gh)
	authed := auth.Middleware(web.Id())(gh)
	opCount := func() map[entity.Id]int {
		out := map[entity.Id]int{}
		for _, id := range rc.Bugs().AllIds() {
			if x, err := rc.Bugs().Resolve(id); err == nil {
				out[id] = len(x.Snapshot().Operations)
			}
		}
		return out
	}

	// discover the mutation fields and their input types by introspection
	intro, raw := gqlPost(anon, `{ __schema { mutationType { fields { name args { name type { kind name ofType { kind name } } } } } } }`)
	var fields []struct {
		Name string
		Args []struct {
			Name string
			Type struct {
				Kind, Name string
				OfType     *struct{ Kind, Name string }
			}
		}
	}
	func() {
		defer func() { recover() }()
		fj, _ := json.Marshal(intro["data"].(map[string]any)["__schema"].(map[string]any)["mutationType"].(map[string]any)["fields"])
		json.Unmarshal(fj, &fields)
	}()
	if len(fields) == 0 {
		c.violation(-1, "C17/introspection", "queries do not work without a user: "+trunc(raw, 300), nil)
		return
	}
	inputFields := func(typeName string) []map[string]any {
		res, _ := gqlPost(anon, fmt.Sprintf(`{ __type(name: %q) { inputFields { name type { kind name ofType { kind name ofType { kind name } } } } } }`, typeName))
		var out []map[string]any
		func() {
			defer func() { recover() }()
			fj, _ := json.Marshal(res["data"].(map[string]any)["__type"].(map[string]any)["inputFields"])
			json.Unmarshal(fj, &out)
		}()
		return out
	}

	snapshot := func() string {
		refs, _ := repo.ListRefs("refs/")
		sort.Strings(refs)
		var sb strings.Builder
		for _, r := range refs {
			h, _ := repo.ResolveRef(r)
			sb.WriteString(r + "=" + string(h) + "\n")
		}
		ids := rc.Bugs().AllIds()
		sort.Slice(ids, func(i, j int) bool { return ids[i] < ids[j] })
		for _, id := range ids {
			bc, err := rc.Bugs().Resolve(id)
			if err != nil {
				continue
			}
			s := bc.Snapshot()
			sb.WriteString(fmt.Sprintf("%s ops=%d title=%q status=%d labels=%v need=%v\n", id, len(s.Operations), s.Title, s.Status, s.Labels, bc.NeedCommit()))
		}
		files := listFiles(filepath.Join(dir, ".git", "objects"))
		sb.WriteString(fmt.Sprintf("objects=%d\n", len(files)))
		return sb.String()
	}

	R := c.pick(3, 25)
	for rep := 0; rep < R; rep++ {
		for _, f := range fields {
			for _, user := range []bool{false, true} {
				for _, valid := range []bool{true, false} {
					r := c.rng.fork()
					// build the input object from the introspected input type
					snap := b0.Snapshot()
					var parts []string
					typeName := ""
					if len(f.Args) > 0 {
						typeName = f.Args[0].Type.Name
						if f.Args[0].Type.OfType != nil {
							typeName = f.Args[0].Type.OfType.Name
						}
					}
					for _, inf := range inputFields(typeName) {
						name, _ := inf["name"].(string)
						var val string
						switch strings.ToLower(name) {
						case "clientmutationid", "reporef", "files":
							continue
						case "prefix":
							val = fmt.Sprintf("%q", string(b0.Id())[:10])
							if !valid {
								val = `"zzzzzz"`
							}
						case "targetprefix", "target":
							val = fmt.Sprintf("%q", string(snap.Comments[len(snap.Comments)-1].CombinedId())[:12])
							if !valid {
								val = `"zzzzzz"`
							}
						case "title":
							val = fmt.Sprintf("%q", "title "+randHexId(r, 6))
							if !valid {
								val = `""`
							}
						case "message":
							val = fmt.Sprintf("%q", pickOne(r, []string{"hello", "multi\nline", "ünï", longText(500)}))
						case "added":
							val = fmt.Sprintf("[%q]", "label"+randHexId(r, 3))
						case "removed":
							val = `[]`
						default:
							val = `"x"`
						}
						parts = append(parts, name+": "+val)
					}
					q := fmt.Sprintf("mutation { %s(input: {%s}) { clientMutationId } }", f.Name, strings.Join(parts, ", "))
					before := snapshot()
					opsBefore := opCount()
					h := anon
					if user {
						h = authed
					}
					res, rawRes := gqlPost(h, q)
					after := snapshot()
					hasErr := res["errors"] != nil
					outcome := "done"
					if hasErr {
						outcome = "failed"
						if strings.Contains(rawRes, "not authenticated") || strings.Contains(strings.ToLower(rawRes), "read-only") {
							outcome = "refused"
						}
					}
					changed := before != after
					// which call of the program fails in this case: an invalid prefix/target fails the first lookup
					failAt := -1
					if !valid && f.Name != "newBug" {
						failAt = 0
						if f.Name == "editComment" {
							failAt = 2
						}
					} else if !valid && f.Name == "newBug" && user {
						failAt = firstIdx("newBug", "mutate") // empty title: NewRaw refuses
					}
					c.emit(map[string]any{"cmd": "gate", "resolver": f.Name, "user": user, "steps": progOf[f.Name], "failAt": failAt, "query": trunc(q, 300)},
						map[string]any{"outcome": outcome, "changed": changed})
					c.count(fmt.Sprintf("%s/user=%v/valid=%v=%s", "mutation", user, valid, outcome))
					c.nontrivial(f.Name + fmt.Sprint(user, valid))
					if _, ok := progOf[f.Name]; !ok {
						c.violation(c.nCases, "C17/unknown-mutation", fmt.Sprintf("the served schema has a mutation %q that the extracted resolver table does not contain", f.Name), nil)
					}
					// ---- oracle
					if !user {
						if !hasErr {
							c.violation(c.nCases, "C17/not-refused", fmt.Sprintf("mutation %s succeeded without a user: %s", f.Name, trunc(q, 200)), nil)
						}
						if changed {
							c.violation(c.nCases, "C17/changed-without-user", fmt.Sprintf("mutation %s changed the repository or the cache without a user: %s", f.Name, trunc(q, 200)), map[string]any{"before": before, "after": after})
						}
					} else if valid && hasErr && f.Name != "openBug" && f.Name != "addCommentAndReopen" {
						c.violation(c.nCases, "C17/refused-with-user", fmt.Sprintf("mutation %s failed with a user attached: %s", f.Name, trunc(rawRes, 300)), nil)
					} else if valid && !hasErr {
						// the change is recorded: every new operation is authored by the request's user
						newOps := 0
						for id, n := range opCount() {
							x, _ := rc.Bugs().Resolve(id)
							ops := x.Snapshot().Operations
							for _, o := range ops[opsBefore[id]:n] {
								newOps++
								if o.Author().Id() != web.Id() {
									c.violation(c.nCases, "C17/wrong-author", fmt.Sprintf("mutation %s recorded a %T not authored by the request's user", f.Name, o), nil)
								}
							}
						}
						if newOps == 0 {
							c.violation(c.nCases, "C17/no-change-with-user", fmt.Sprintf("mutation %s reported success but recorded no operation", f.Name), nil)
						}
						if !changed {
							c.violation(c.nCases, "C17/no-change-with-user", fmt.Sprintf("mutation %s reported success but nothing changed", f.Name), nil)
						}
					}
				}
			}
		}
		// queries keep working without a user
		if res, raw := gqlPost(anon, `{ repository { allBugs(first: 5) { totalCount nodes { title } } } }`); res["errors"] != nil {
			c.violation(-1, "C17/query-refused", "a query fails without a user: "+trunc(raw, 200), nil)
		}
		// the upload endpoint
		for _, user := range []bool{false, true} {
			router := mux.NewRouter()
			up := httpapi.NewGitUploadFileHandler(mrc)
			if user {
				router.Path("/gitfileupload").Methods("POST").Handler(auth.Middleware(web.Id())(up))
			} else {
				router.Path("/gitfileupload").Methods("POST").Handler(up)
			}
			var buf bytes.Buffer
			mw := multipart.NewWriter(&buf)
			fw, _ := mw.CreateFormFile("uploadfile", "x.png")
			fw.Write(append([]byte("\x89PNG\r\n\x1a\n"), []byte(randHexId(c.rng, 20))...))
			mw.Close()
			req := httptest.NewRequest("POST", "/gitfileupload", &buf)
			req.Header.Set("Content-Type", mw.FormDataContentType())
			rec := httptest.NewRecorder()
			before := snapshot()
			router.ServeHTTP(rec, req)
			after := snapshot()
			outcome := "done"
			if rec.Code == http.StatusForbidden {
				outcome = "refused"
			} else if rec.Code != http.StatusOK {
				outcome = "failed"
			}
			c.emit(map[string]any{"cmd": "gate", "resolver": "upload", "user": user, "steps": progOf["upload"], "failAt": -1},
				map[string]any{"outcome": outcome, "changed": before != after})
			c.count(fmt.Sprintf("upload/user=%v=%s", user, outcome))
			if !user && (rec.Code == http.StatusOK || before != after) {
				c.violation(c.nCases, "C17/upload-without-user", fmt.Sprintf("the upload endpoint answered %d without a user (objects changed: %v)", rec.Code, before != after), nil)
			}
			if user && rec.Code != http.StatusOK {
				c.violation(c.nCases, "C17/upload-refused-with-user", fmt.Sprintf("the upload endpoint answered %d with a user: %s", rec.Code, trunc(rec.Body.String(), 200)), nil)
			}
		}
	}
	_ = entity.Id("")
}

package main

import (
	"bytes"
	"encoding/json"
	"fmt"
	"mime/multipart"
	"net/http"
	"net/http/httptest"
	"os"
	"path/filepath"
	"sort"
	"strings"

	"github.com/gorilla/mux"

	"github.com/MichaelMure/git-bug/api/auth"
	"github.com/MichaelMure/git-bug/api/graphql"
	httpapi "github.com/MichaelMure/git-bug/api/http"
	"github.com/MichaelMure/git-bug/cache"
	"github.com/MichaelMure/git-bug/entities/bug"
	"github.com/MichaelMure/git-bug/entity"
	"github.com/MichaelMure/git-bug/entity/dag"
	"github.com/MichaelMure/git-bug/repository"
)

func init() { props["C17"] = runC17 }

func gqlPost(h http.Handler, q string) (map[string]any, string) {
	body, _ := json.Marshal(map[string]any{"query": q})
	req := httptest.NewRequest("POST", "/graphql", bytes.NewReader(body))
	req.Header.Set("Content-Type", "application/json")
	rec := httptest.NewRecorder()
	h.ServeHTTP(rec, req)
	var out map[string]any
	json.Unmarshal(rec.Body.Bytes(), &out)
	return out, rec.Body.String()
}

func runC17(c *runCtx) {
	defer cleanupScratch()
	// resolver programs as the extractor sees them in the current source
	var facts struct {
		Progs []struct {
			Name    string
			Checked bool
			Steps   []map[string]any
		} `json:"resolver_programs"`
	}
	if b, err := os.ReadFile(filepath.Join(os.Getenv("VERIF_BUILD"), "facts.json")); err == nil {
		json.Unmarshal(b, &facts)
	}
	progOf := map[string][]map[string]any{}
	for _, p := range facts.Progs {
		progOf[p.Name] = p.Steps
	}
	firstIdx := func(name, kind string) int {
		for i, s := range progOf[name] {
			if s["Kind"] == kind {
				return i
			}
		}
		return -1
	}

	repo, dir := newGoGit("c17", false)
	mrc := cache.NewMultiRepoCache()
	rc, events := mrc.RegisterDefaultRepository(repo)
	for ev := range events {
		if ev.Err != nil {
			panic(ev.Err)
		}
	}
	defer mrc.Close()
	iden, err := rc.Identities().New("web user", "w@example.com")
	if err != nil {
		panic(err)
	}
	rc.SetUserIdentity(iden)
	b0, _, _ := rc.Bugs().New("first bug", "body")
	fileHash, err := repo.StoreData([]byte("an uploaded file " + randHexId(c.rng, 6)))
	if err != nil {
		panic(err)
	}
	b0.AddComment("a comment")
	b0.Commit()
	_ = dir

	// the request's user is not the identity configured in the repository
	web, err := rc.Identities().New("request user", "q@example.com")
	if err != nil {
		panic(err)
	}
	gh := graphql.NewHandler(mrc, nil)
	anon := http.Handler(gh)
	authed := auth.Middleware(web.Id())(gh)
	opCount := func() map[entity.Id]int {
		out := map[entity.Id]int{}
		for _, id := range rc.Bugs().AllIds() {
			if x, err := rc.Bugs().Resolve(id); err == nil {
				out[id] = len(x.Snapshot().Operations)
			}
		}
		return out
	}

	// discover the mutation fields and their input types by introspection
	intro, raw := gqlPost(anon, `{ __schema { mutationType { fields { name args { name type { kind name ofType { kind name } } } } } } }`)
	var fields []struct {
		Name string
		Args []struct {
			Name string
			Type struct {
				Kind, Name string
				OfType     *struct{ Kind, Name string }
			}
		}
	}
	func() {
		defer func() { recover() }()
		fj, _ := json.Marshal(intro["data"].(map[string]any)["__schema"].(map[string]any)["mutationType"].(map[string]any)["fields"])
		json.Unmarshal(fj, &fields)
	}()
	if len(fields) == 0 {
		c.violation(-1, "C17/introspection", "queries do not work without a user: "+trunc(raw, 300), nil)
		return
	}
	// the payload type of each mutation: its operation fields are asked for as well
	opFields := map[string][]string{}
	func() {
		defer func() { recover() }()
		res, _ := gqlPost(anon, `{ __schema { mutationType { fields { name type { kind name ofType { kind name } } } } } }`)
		for _, fx := range res["data"].(map[string]any)["__schema"].(map[string]any)["mutationType"].(map[string]any)["fields"].([]any) {
			fm := fx.(map[string]any)
			tm := fm["type"].(map[string]any)
			tn, _ := tm["name"].(string)
			if tn == "" {
				tn, _ = tm["ofType"].(map[string]any)["name"].(string)
			}
			r2, _ := gqlPost(anon, fmt.Sprintf(`{ __type(name: %q) { fields { name } } }`, tn))
			for _, pf := range r2["data"].(map[string]any)["__type"].(map[string]any)["fields"].([]any) {
				n, _ := pf.(map[string]any)["name"].(string)
				if strings.HasSuffix(strings.ToLower(n), "operation") {
					opFields[fm["name"].(string)] = append(opFields[fm["name"].(string)], n)
				}
			}
		}
	}()
	// the operations each mutation records, by Go type
	wantOps := map[string][]string{
		"newBug": {"*bug.CreateOperation"}, "addComment": {"*bug.AddCommentOperation"},
		"addCommentAndClose": {"*bug.AddCommentOperation", "*bug.SetStatusOperation"}, "addCommentAndReopen": {"*bug.AddCommentOperation", "*bug.SetStatusOperation"},
		"editComment": {"*bug.EditCommentOperation"}, "changeLabels": {"*bug.LabelChangeOperation"},
		"openBug": {"*bug.SetStatusOperation"}, "closeBug": {"*bug.SetStatusOperation"}, "setTitle": {"*bug.SetTitleOperation"},
	}
	inputFields := func(typeName string) []map[string]any {
		res, _ := gqlPost(anon, fmt.Sprintf(`{ __type(name: %q) { inputFields { name type { kind name ofType { kind name ofType { kind name } } } } } }`, typeName))
		var out []map[string]any
		func() {
			defer func() { recover() }()
			fj, _ := json.Marshal(res["data"].(map[string]any)["__type"].(map[string]any)["inputFields"])
			json.Unmarshal(fj, &out)
		}()
		return out
	}

	snapshot := func() string {
		refs, _ := repo.ListRefs("refs/")
		sort.Strings(refs)
		var sb strings.Builder
		for _, r := range refs {
			h, _ := repo.ResolveRef(r)
			sb.WriteString(r + "=" + string(h) + "\n")
		}
		ids := rc.Bugs().AllIds()
		sort.Slice(ids, func(i, j int) bool { return ids[i] < ids[j] })
		for _, id := range ids {
			bc, err := rc.Bugs().Resolve(id)
			if err != nil {
				continue
			}
			s := bc.Snapshot()
			sb.WriteString(fmt.Sprintf("%s ops=%d title=%q status=%d labels=%v need=%v\n", id, len(s.Operations), s.Title, s.Status, s.Labels, bc.NeedCommit()))
		}
		files := listFiles(filepath.Join(dir, ".git", "objects"))
		sb.WriteString(fmt.Sprintf("objects=%d\n", len(files)))
		return sb.String()
	}

	R := c.pick(3, 25)
	for rep := 0; rep < R; rep++ {
		for _, f := range fields {
			for _, user := range []bool{false, true} {
				for variant := 0; variant < 3; variant++ {
					// 0: valid arguments; 1: an id that matches nothing; 2: arguments that resolve but must be
					// refused (a target prefix shared by several comments, a label or title that is empty once
					// cleaned): whatever the answer, an error means that nothing changed
					valid, edge := variant == 0, variant == 2
					r := c.rng.fork()
					// build the input object from the introspected input type
					snap := b0.Snapshot()
					var parts []string
					sent := map[string]string{}
					typeName := ""
					if len(f.Args) > 0 {
						typeName = f.Args[0].Type.Name
						if f.Args[0].Type.OfType != nil {
							typeName = f.Args[0].Type.OfType.Name
						}
					}
					for _, inf := range inputFields(typeName) {
						name, _ := inf["name"].(string)
						var val string
						switch strings.ToLower(name) {
						case "clientmutationid", "reporef":
							continue
						case "files":
							// a file uploaded before (the web UI's attach flow): with valid arguments, half of the time
							if !valid || !r.chance(1, 2) {
								continue
							}
							val = fmt.Sprintf("[%q]", string(fileHash))
							sent["files"] = string(fileHash)
							c.count("mutation-with-files")
						case "prefix":
							val = fmt.Sprintf("%q", string(b0.Id())[:10])
							if !valid && !edge {
								val = `"zzzzzz"`
							}
						case "targetprefix", "target":
							val = fmt.Sprintf("%q", string(snap.Comments[len(snap.Comments)-1].CombinedId())[:12])
							if edge {
								// the first character of a combined id comes from the bug id: every comment of the bug matches
								val = fmt.Sprintf("%q", string(snap.Comments[len(snap.Comments)-1].CombinedId())[:1])
							} else if !valid {
								val = `"zzzzzz"`
							}
						case "title":
							sent["title"] = "title " + randHexId(r, 6)
							val = fmt.Sprintf("%q", sent["title"])
							if edge {
								val = pickOne(r, []string{`"  "`, `"\t"`, `"a\nb"`})
							} else if !valid {
								val = `""`
							}
						case "message":
							sent["message"] = pickOne(r, []string{"hello " + randHexId(r, 4), "multi\nline " + randHexId(r, 4), "ünï " + randHexId(r, 4), longText(500)})
							val = fmt.Sprintf("%q", sent["message"])
						case "added":
							sent["added"] = "label" + randHexId(r, 3)
							val = fmt.Sprintf("[%q]", sent["added"])
							if edge {
								val = pickOne(r, []string{`["  "]`, `["ok` + randHexId(r, 2) + `", ""]`, `["two\nlines"]`})
							}
						case "removed":
							val = `[]`
						default:
							val = `"x"`
						}
						parts = append(parts, name+": "+val)
					}
					opSel := ""
					for _, of := range opFields[f.Name] {
						opSel += " " + of + " { id }"
					}
					q := fmt.Sprintf("mutation { %s(input: {%s}) { clientMutationId%s bug { id title status labels { name } comments(first: 500) { totalCount nodes { message } } } } }", f.Name, strings.Join(parts, ", "), opSel)
					before := snapshot()
					opsBefore := opCount()
					h := anon
					if user {
						h = authed
					}
					res, rawRes := gqlPost(h, q)
					after := snapshot()
					hasErr := res["errors"] != nil
					outcome := "done"
					if hasErr {
						outcome = "failed"
						if strings.Contains(rawRes, "not authenticated") || strings.Contains(strings.ToLower(rawRes), "read-only") {
							outcome = "refused"
						}
					}
					changed := before != after
					// which call of the program fails in this case: an invalid prefix/target fails the first lookup
					failAt := -1
					if edge {
						failAt = -1
						if f.Name == "editComment" {
							failAt = 2 // the ambiguous target is refused by the lookup, before the gate
						}
					} else if !valid && f.Name != "newBug" {
						failAt = 0
						if f.Name == "editComment" {
							failAt = 2
						}
					} else if !valid && f.Name == "newBug" && user {
						failAt = firstIdx("newBug", "mutate") // empty title: NewRaw refuses
					}
					if !edge || !user {
						c.emit(map[string]any{"cmd": "gate", "resolver": f.Name, "user": user, "steps": progOf[f.Name], "failAt": failAt, "query": trunc(q, 300)},
							map[string]any{"outcome": outcome, "changed": changed})
					}
					c.count(fmt.Sprintf("%s/user=%v/variant=%d=%s", "mutation", user, variant, outcome))
					c.nontrivial(f.Name + fmt.Sprint(user, variant))
					if user && hasErr && changed {
						c.violation(c.nCases, "C17/changed-by-refused-mutation", fmt.Sprintf("mutation %s answered with an error and still changed the repository or the cache (an operation left staged, a ref moved): %s -> %s", f.Name, trunc(q, 200), trunc(rawRes, 200)), map[string]any{"before": before, "after": after})
					}
					if user && edge && !hasErr && (f.Name == "editComment") {
						c.violation(c.nCases, "C17/ambiguous-target-accepted", fmt.Sprintf("mutation %s with a target prefix shared by %d comments was carried out: %s", f.Name, len(snap.Comments), trunc(q, 200)), nil)
					}
					if _, ok := progOf[f.Name]; !ok {
						c.violation(c.nCases, "C17/unknown-mutation", fmt.Sprintf("the served schema has a mutation %q that the extracted resolver table does not contain", f.Name), nil)
					}
					// ---- oracle
					if !user {
						if !hasErr {
							c.violation(c.nCases, "C17/not-refused", fmt.Sprintf("mutation %s succeeded without a user: %s", f.Name, trunc(q, 200)), nil)
						}
						if changed {
							c.violation(c.nCases, "C17/changed-without-user", fmt.Sprintf("mutation %s changed the repository or the cache without a user: %s", f.Name, trunc(q, 200)), map[string]any{"before": before, "after": after})
						}
					} else if valid && hasErr && f.Name != "openBug" && f.Name != "addCommentAndReopen" {
						c.violation(c.nCases, "C17/refused-with-user", fmt.Sprintf("mutation %s failed with a user attached: %s", f.Name, trunc(rawRes, 300)), nil)
					} else if valid && !hasErr {
						// the change is recorded: every new operation is authored by the request's user
						newOps := 0
						filesRecorded := false
						var kinds []string
						for id, n := range opCount() {
							x, _ := rc.Bugs().Resolve(id)
							ops := x.Snapshot().Operations
							for _, o := range ops[opsBefore[id]:n] {
								newOps++
								kinds = append(kinds, fmt.Sprintf("%T", o))
								if wf, ok := o.(dag.OperationWithFiles); ok {
									for _, h := range wf.GetFiles() {
										filesRecorded = filesRecorded || string(h) == sent["files"]
									}
								}
								if o.Author().Id() != web.Id() {
									c.violation(c.nCases, "C17/wrong-author", fmt.Sprintf("mutation %s recorded a %T not authored by the request's user", f.Name, o), nil)
								}
							}
						}
						if newOps == 0 {
							c.violation(c.nCases, "C17/no-change-with-user", fmt.Sprintf("mutation %s reported success but recorded no operation", f.Name), nil)
						}
						if sent["files"] != "" && !filesRecorded {
							c.violation(c.nCases, "C17/change-not-reflected", fmt.Sprintf("mutation %s with a user: the attached file %s is on none of the recorded operations", f.Name, sent["files"]), nil)
						}
						// exactly the requested change: the operations of this mutation, no more, no fewer
						if want, ok := wantOps[f.Name]; ok && newOps > 0 {
							sort.Strings(kinds)
							if fmt.Sprint(kinds) != fmt.Sprint(want) {
								c.violation(c.nCases, "C17/change-not-reflected", fmt.Sprintf("mutation %s with a user recorded %v, the request asks for %v (%s)", f.Name, kinds, want, trunc(q, 160)), nil)
							}
						}
						if !changed {
							c.violation(c.nCases, "C17/no-change-with-user", fmt.Sprintf("mutation %s reported success but nothing changed", f.Name), nil)
						}
						c17Recorded(c, repo, rc, f.Name, sent, res)
					}
				}
			}
		}
		// queries keep working without a user
		if res, raw := gqlPost(anon, `{ repository { allBugs(first: 5) { totalCount nodes { title } } } }`); res["errors"] != nil {
			c.violation(-1, "C17/query-refused", "a query fails without a user: "+trunc(raw, 200), nil)
		}
		// the upload endpoint
		for _, user := range []bool{false, true} {
			router := mux.NewRouter()
			up := httpapi.NewGitUploadFileHandler(mrc)
			if user {
				router.Path("/gitfileupload").Methods("POST").Handler(auth.Middleware(web.Id())(up))
			} else {
				router.Path("/gitfileupload").Methods("POST").Handler(up)
			}
			var buf bytes.Buffer
			mw := multipart.NewWriter(&buf)
			fw, _ := mw.CreateFormFile("uploadfile", "x.png")
			fw.Write(append([]byte("\x89PNG\r\n\x1a\n"), []byte(randHexId(c.rng, 20))...))
			mw.Close()
			req := httptest.NewRequest("POST", "/gitfileupload", &buf)
			req.Header.Set("Content-Type", mw.FormDataContentType())
			rec := httptest.NewRecorder()
			before := snapshot()
			router.ServeHTTP(rec, req)
			after := snapshot()
			outcome := "done"
			if rec.Code == http.StatusForbidden {
				outcome = "refused"
			} else if rec.Code != http.StatusOK {
				outcome = "failed"
			}
			c.emit(map[string]any{"cmd": "gate", "resolver": "upload", "user": user, "steps": progOf["upload"], "failAt": -1},
				map[string]any{"outcome": outcome, "changed": before != after})
			c.count(fmt.Sprintf("upload/user=%v=%s", user, outcome))
			if !user && (rec.Code == http.StatusOK || before != after) {
				c.violation(c.nCases, "C17/upload-without-user", fmt.Sprintf("the upload endpoint answered %d without a user (objects changed: %v)", rec.Code, before != after), nil)
			}
			if user && rec.Code != http.StatusOK {
				c.violation(c.nCases, "C17/upload-refused-with-user", fmt.Sprintf("the upload endpoint answered %d with a user: %s", rec.Code, trunc(rec.Body.String(), 200)), nil)
			}
		}
	}
	c17OtherRepo(c, mrc, gh, web.Id(), snapshot)
	_ = entity.Id("")
}

// c17OtherRepo: a second repository served by the same process, in which the request's user does not
// exist; and an identity id no repository knows.  The user attached to a request is a user of the
// repository the request is aimed at: a mutation (or an upload) aimed at a repository that does not know
// that identity is refused and changes nothing there — whatever was asked of the other repository before.
func c17OtherRepo(c *runCtx, mrc *cache.MultiRepoCache, gh http.Handler, user entity.Id, snapshotFirst func() string) {
	repo2, dir2 := newGoGit("c17second", false)
	rc2, events := mrc.RegisterRepository(repo2, "second")
	for ev := range events {
		if ev.Err != nil {
			panic(ev.Err)
		}
	}
	local, err := rc2.Identities().New("somebody else", "e@example.com")
	if err != nil {
		panic(err)
	}
	rc2.SetUserIdentity(local)
	snap2 := func() string {
		refs, _ := repo2.ListRefs("refs/")
		sort.Strings(refs)
		var sb strings.Builder
		for _, r := range refs {
			h, _ := repo2.ResolveRef(r)
			sb.WriteString(r + "=" + string(h) + "\n")
		}
		sb.WriteString(fmt.Sprintf("bugs=%d objects=%d\n", len(rc2.Bugs().AllIds()), len(listFiles(filepath.Join(dir2, ".git", "objects")))))
		return sb.String()
	}
	authed := auth.Middleware(user)(gh)
	// first a request the first repository serves (the user is resolved there) …
	if res, raw := gqlPost(authed, `mutation { newBug(input: {repoRef: "__default", title: "in the first repository", message: "m"}) { bug { id } } }`); res["errors"] != nil {
		c.violation(-1, "C17/refused-with-user", "newBug with a user failed on the default repository: "+trunc(raw, 200), nil)
	}
	// … then the same user aims at the repository that does not know it
	before := snap2()
	res, raw := gqlPost(authed, `mutation { newBug(input: {repoRef: "second", title: "in the second repository", message: "m"}) { bug { id } } }`)
	after := snap2()
	c.count(fmt.Sprintf("other-repo/mutation-refused=%v", res["errors"] != nil))
	if res["errors"] == nil || before != after {
		c.violation(-1, "C17/foreign-user-accepted", fmt.Sprintf("a mutation aimed at a repository that does not know the request's user was carried out (errors: %v, repository changed: %v): %s", res["errors"] != nil, before != after, trunc(raw, 200)), map[string]any{"before": before, "after": after})
	}
	// the upload endpoint, for a repository that does not know the user, and with an id nobody knows
	for _, tc := range []struct {
		name, repo string
		id         entity.Id
	}{{"user of another repository", "second", user}, {"unknown id", "__default", entity.Id(strings.Repeat("ab", 32))}} {
		router := mux.NewRouter()
		up := auth.Middleware(tc.id)(httpapi.NewGitUploadFileHandler(mrc))
		router.Path("/upload/{repo}").Methods("POST").Handler(up)
		router.Path("/upload").Methods("POST").Handler(up)
		var buf bytes.Buffer
		mw := multipart.NewWriter(&buf)
		fw, _ := mw.CreateFormFile("uploadfile", "x.png")
		fw.Write(append([]byte("\x89PNG\r\n\x1a\n"), []byte(randHexId(c.rng, 20))...))
		mw.Close()
		url := "/upload"
		if tc.repo != "" {
			url += "/" + tc.repo
		}
		req := httptest.NewRequest("POST", url, &buf)
		req.Header.Set("Content-Type", mw.FormDataContentType())
		rec := httptest.NewRecorder()
		b1, b2 := snapshotFirst(), snap2()
		router.ServeHTTP(rec, req)
		a1, a2 := snapshotFirst(), snap2()
		c.count(fmt.Sprintf("other-repo/upload(%s)=%d", tc.name, rec.Code))
		if rec.Code == http.StatusOK || b1 != a1 || b2 != a2 {
			c.violation(-1, "C17/foreign-user-accepted", fmt.Sprintf("an upload with %s attached was answered %d (objects changed: %v)", tc.name, rec.Code, b1 != a1 || b2 != a2), nil)
		}
	}
}

// c17Recorded: after a mutation that reported success with a user attached, the requested change is
// recorded (stored in git, nothing left staged), and the bug handed back in the payload reflects it.
func c17Recorded(c *runCtx, repo repository.ClockedRepo, rc *cache.RepoCache, name string, sent map[string]string, res map[string]any) {
	var pb struct {
		Id, Title, Status string
		Labels            []struct{ Name string }
		Comments          struct {
			TotalCount int
			Nodes      []struct{ Message string }
		}
	}
	func() {
		defer func() { recover() }()
		fj, _ := json.Marshal(res["data"].(map[string]any)[name].(map[string]any)["bug"])
		json.Unmarshal(fj, &pb)
	}()
	if pb.Id == "" {
		c.violation(c.nCases, "C17/payload", fmt.Sprintf("mutation %s: the payload holds no bug", name), res)
		return
	}
	bc, err := rc.Bugs().Resolve(entity.Id(pb.Id))
	if err != nil {
		c.violation(c.nCases, "C17/payload", fmt.Sprintf("mutation %s: the payload's bug %s is not in the cache: %v", name, pb.Id, err), nil)
		return
	}
	if bc.NeedCommit() {
		c.violation(c.nCases, "C17/not-recorded", fmt.Sprintf("mutation %s reported success but left operations of bug %s uncommitted", name, pb.Id[:7]), nil)
	}
	stored, err := bug.Read(repo, entity.Id(pb.Id))
	if err != nil {
		c.violation(c.nCases, "C17/not-recorded", fmt.Sprintf("mutation %s: bug %s cannot be read from git: %v", name, pb.Id[:7], err), nil)
		return
	}
	gs := stored.Compile()
	cs := bc.Snapshot()
	if len(gs.Operations) != len(cs.Operations) {
		c.violation(c.nCases, "C17/not-recorded", fmt.Sprintf("mutation %s reported success: git holds %d operations of bug %s, the cache %d", name, len(gs.Operations), pb.Id[:7], len(cs.Operations)), nil)
	}
	labelsOf := func() []string {
		var out []string
		for _, l := range pb.Labels {
			out = append(out, l.Name)
		}
		return out
	}
	// what the request asked for, judged on what git holds and on what the payload says
	type view struct {
		where, title, status string
		labels               []string
		comments             []string
	}
	var gl, gcm []string
	for _, l := range gs.Labels {
		gl = append(gl, string(l))
	}
	for _, cm := range gs.Comments {
		gcm = append(gcm, cm.Message)
	}
	var pcm []string
	for _, n := range pb.Comments.Nodes {
		pcm = append(pcm, n.Message)
	}
	for _, v := range []view{{"git", gs.Title, strings.ToUpper(gs.Status.String()), gl, gcm}, {"payload", pb.Title, pb.Status, labelsOf(), pcm}} {
		bad := func(what string) {
			c.violation(c.nCases, "C17/change-not-reflected", fmt.Sprintf("mutation %s with a user: %s (%s)", name, what, v.where), map[string]any{"sent": sent, "view": fmt.Sprint(v)})
		}
		switch name {
		case "setTitle", "newBug":
			if v.title != sent["title"] {
				bad("title is " + trunc(v.title, 60) + ", requested " + sent["title"])
			}
		}
		switch name {
		case "closeBug", "addCommentAndClose":
			if v.status != "CLOSED" {
				bad("status is " + v.status + " after a close")
			}
		case "openBug", "addCommentAndReopen", "newBug":
			if v.status != "OPEN" {
				bad("status is " + v.status + " after an open")
			}
		}
		switch name {
		case "addComment", "addCommentAndClose", "addCommentAndReopen", "newBug", "editComment":
			if m, ok := sent["message"]; ok && (len(v.comments) == 0 || v.comments[len(v.comments)-1] != m) {
				last := "<none>"
				if len(v.comments) > 0 {
					last = v.comments[len(v.comments)-1]
				}
				bad("last comment is " + trunc(last, 60) + ", requested " + trunc(m, 60))
			}
		case "changeLabels":
			found := false
			for _, l := range v.labels {
				found = found || l == sent["added"]
			}
			if !found {
				bad("label " + sent["added"] + " is missing")
			}
		}
	}
}

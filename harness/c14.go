package main

import (
	"fmt"
	"os"
	"os/exec"
	"path/filepath"
	"sort"
	"strings"

	"github.com/MichaelMure/git-bug/cache"
	"github.com/MichaelMure/git-bug/entities/bug"
	"github.com/MichaelMure/git-bug/entities/identity"
	"github.com/MichaelMure/git-bug/entity"
	"github.com/MichaelMure/git-bug/query"
	"github.com/MichaelMure/git-bug/repository"
)

func init() { props["C14"] = runC14 }

func allRefs(repo repository.RepoData) []string {
	refs, _ := repo.ListRefs("refs/")
	sort.Strings(refs)
	return refs
}

func gitConfigLocal(dir string) string {
	out, _ := exec.Command("git", "-C", dir, "config", "--local", "-l").CombinedOutput()
	lines := strings.Split(strings.TrimSpace(string(out)), "\n")
	sort.Strings(lines)
	return strings.Join(lines, "\n")
}

func listFiles(root string) []string {
	var out []string
	filepath.Walk(root, func(p string, info os.FileInfo, err error) error {
		if err == nil && !info.IsDir() {
			rel, _ := filepath.Rel(root, p)
			out = append(out, rel)
		}
		return nil
	})
	sort.Strings(out)
	return out
}

// c14Scene: a repository with k remotes, the target bug pushed to a subset of them, two
// neighbours (one sharing the situation), identities, and host refs.
type c14Scene struct {
	dir      string
	repo     repository.TestedRepo
	remotes  []string
	target   entity.Id
	others   []entity.Id
	iden     *identity.Identity
	inRemote map[string]bool
}

func newC14Scene(r *rng, k int) *c14Scene {
	s := &c14Scene{inRemote: map[string]bool{}}
	s.repo, s.dir = newGoGit("c14", false)
	for i := 0; i < k; i++ {
		rem, _ := newGoGit(fmt.Sprintf("c14rem%d", i), true)
		// (one name is a prefix of another: "rem0" and "rem01")
		name := []string{"rem0", "rem01", "rem2", "rem3"}[i]
		s.repo.AddRemote(name, rem.GetLocalRemote())
		s.remotes = append(s.remotes, name)
		rem.Close()
	}
	iden, err := identity.NewIdentity(s.repo, "remover", "r@example.com")
	if err != nil {
		panic(err)
	}
	iden.Commit(s.repo)
	s.iden = iden
	defer storeFilesIn(s.repo)()
	mk := func() entity.Id {
		g := newOpGen(r.fork(), []identity.Interface{iden})
		b := bug.NewBug()
		c := g.create()
		b.Append(c)
		g.record(c, true)
		for i := 0; i < r.intn(3); i++ {
			op, isC, _ := g.next()
			b.Append(op)
			g.record(op, isC)
		}
		if err := b.Commit(s.repo); err != nil {
			panic(err)
		}
		return b.Id()
	}
	// neighbours first; they are pushed to every remote
	s.others = []entity.Id{mk(), mk()}
	for _, rm := range s.remotes {
		identity.Push(s.repo, rm)
		bug.Push(s.repo, rm)
	}
	s.target = mk()
	// the target goes to a random subset of the remotes: push everything there again
	for _, rm := range s.remotes {
		if r.chance(1, 2) {
			bug.Push(s.repo, rm)
			s.inRemote[rm] = true
		}
	}
	// host refs that must not move
	if h, err := s.repo.ResolveRef("refs/bugs/" + string(s.others[0])); err == nil {
		s.repo.UpdateRef("refs/heads/host-branch", h)
		s.repo.UpdateRef("refs/tags/host-tag", h)
		// host refs whose names merely start like git-bug's namespaces
		s.repo.UpdateRef("refs/heads/bugs/fix-1", h)
		s.repo.UpdateRef("refs/bugsnag/x", h)
		for _, rm := range s.remotes {
			s.repo.UpdateRef("refs/remotes/"+rm+"/bugs-backlog", h)
			s.repo.UpdateRef("refs/remotes/"+rm+"/identitiesold", h)
			s.repo.UpdateRef("refs/remotes/"+rm+"/main", h)
		}
	}
	return s
}

func runC14(c *runCtx) {
	defer cleanupScratch()
	c14FaultyRemove(c)
	gb := os.Getenv("VERIF_GITBUG")
	N := c.pick(10, 120)
	for i := 0; i < N; i++ {
		r := c.rng.fork()
		k := i % 4
		api := []string{"entity", "cache", "cli"}[i%3]
		if api == "cli" && gb == "" {
			api = "cache"
		}
		s := newC14Scene(r, k)
		before := allRefs(s.repo)
		cfgBefore := gitConfigLocal(s.dir)
		id := s.target
		c.context(fmt.Sprintf("remove %s via %s with %d remotes (pushed to %v)", id.Human(), api, k, s.inRemote))
		var rmErr error
		switch api {
		case "entity":
			rmErr = bug.Remove(s.repo, id)
		case "cache":
			rc := mustCache(s.repo)
			rc.SetUserIdentity(mustIdentCache(rc, s.iden.Id()))
			cfgBefore = gitConfigLocal(s.dir) // setting the user is the harness's doing, not the removal's
			// the entity is loaded in this session, and the session goes on loading others afterwards
			// (a small cache size makes the eviction pass look at every slot it knows)
			// (the cache is reopened first: entities are then loaded on demand, through the LRU)
			rc.Close()
			rc = mustCache(s.repo)
			rc.Bugs().SetCacheSize(2)
			if _, err := rc.Bugs().Resolve(id); err != nil {
				panic(err)
			}
			rmErr = rc.Bugs().Remove(string(id)[:10])
			if p := recoverTo(func() {
				for k := 0; k < 4; k++ {
					if nb, _, err := rc.Bugs().New(fmt.Sprintf("created after the removal %d", k), "m"); err == nil {
						rc.Bugs().Resolve(nb.Id())
					}
				}
				for _, o := range s.others {
					rc.Bugs().Resolve(o)
				}
			}); p != "" {
				c.violation(c.nCases, "C14/cache-entry-left", "after a removal, loading other bugs in the same session crashes (a slot of the removed bug is still in the cache): "+p, nil)
			}
			// gone from the cache: by id, by prefix, by query, by search
			if _, err := rc.Bugs().Resolve(id); err == nil {
				c.violation(c.nCases, "C14/still-resolvable", "the removed bug can still be resolved by id through the cache", nil)
			}
			if _, err := rc.Bugs().ResolvePrefix(string(id)[:8]); err == nil {
				c.violation(c.nCases, "C14/still-resolvable", "the removed bug can still be resolved by prefix", nil)
			}
			for _, qs := range []string{"status:open", "status:closed"} {
				q, _ := query.Parse(qs)
				res, _ := rc.Bugs().Query(q)
				for _, x := range res {
					if x == id {
						c.violation(c.nCases, "C14/still-listed", "the removed bug is still returned by a query", nil)
					}
				}
			}
			// the neighbours are still served
			for _, o := range s.others {
				if _, err := rc.Bugs().Resolve(o); err != nil {
					c.violation(c.nCases, "C14/neighbour-damaged", "another bug cannot be resolved after the removal: "+err.Error(), nil)
				}
			}
			rc.Close()
			// stays gone across reopen and rebuild
			rc2 := mustCache(s.repo)
			if _, err := rc2.Bugs().Resolve(id); err == nil {
				c.violation(c.nCases, "C14/back-after-reopen", "the removed bug is back after reopening the cache", nil)
			}
			// and across a merge without a new fetch
			for _, rm := range s.remotes {
				for range rc2.MergeAll(rm) {
				}
			}
			if _, err := rc2.Bugs().Resolve(id); err == nil {
				c.violation(c.nCases, "C14/back-after-merge", "the removed bug is back after a merge without a new fetch", nil)
			}
			rc2.Close()
		case "cli":
			s.repo.Close()
			// the CLI needs a user identity
			out, err := runGB(gb, s.dir, "user", "adopt", string(s.iden.Id()))
			if err != nil {
				panic(fmt.Sprintf("user adopt: %v %s", err, out))
			}
			cfgBefore = gitConfigLocal(s.dir)
			_, rmErr = runGB(gb, s.dir, "bug", "rm", string(id)[:12])
			rr, err := repository.OpenGoGitRepo(s.dir, gbNamespace, nil)
			if err != nil {
				panic(err)
			}
			s.repo = wrapKeyring(rr)
		}
		if rmErr != nil {
			c.violation(c.nCases, "C14/remove-failed", fmt.Sprintf("removal via %s failed: %v", api, rmErr), nil)
		}
		// (the bugs a cache session created after the removal are not the removal's doing)
		known := map[string]bool{}
		for _, ref := range before {
			known[ref] = true
		}
		filt := func(l []string) []string {
			if api != "cache" {
				return l
			}
			kept := []string{}
			for _, ref := range l {
				if known[ref] || !strings.HasPrefix(ref, "refs/bugs/") {
					kept = append(kept, ref)
				}
			}
			return kept
		}
		after := filt(allRefs(s.repo))
		cid := c.emit(map[string]any{"cmd": "remove", "refs": before, "ns": "bugs", "entity": string(id), "remotes": s.remotes, "api": api}, after)
		c.count("api=" + api)
		c.count(fmt.Sprintf("remotes=%d", k))
		c.nontrivial(mustJSON(before) + string(id))
		// oracle: exactly the target's refs are gone
		want := []string{}
		for _, ref := range before {
			if ref == "refs/bugs/"+string(id) {
				continue
			}
			isTarget := false
			for _, rm := range s.remotes {
				if ref == "refs/remotes/"+rm+"/bugs/"+string(id) {
					isTarget = true
				}
			}
			if !isTarget {
				want = append(want, ref)
			}
		}
		if mustJSON(after) != mustJSON(want) {
			c.violation(cid, "C14/refs", fmt.Sprintf("removal via %s: refs after %v, expected %v", api, after, want), nil)
		}
		if cfg := gitConfigLocal(s.dir); cfg != cfgBefore {
			c.violation(cid, "C14/config-touched", "the removal changed the git configuration", nil)
		}
		// repeating the removal does no further harm
		again := bug.Remove(s.repo, id)
		_ = again
		if a2 := filt(allRefs(s.repo)); mustJSON(a2) != mustJSON(after) {
			c.violation(cid, "C14/not-idempotent", "repeating the removal changed refs again", nil)
		}
		// the neighbours read as before
		for _, o := range s.others {
			if _, err := bug.Read(s.repo, o); err != nil {
				c.violation(cid, "C14/neighbour-damaged", "another bug is not readable after the removal: "+err.Error(), nil)
			}
		}
		s.repo.Close()
		cleanupScratch()
	}
	c14RemoteOnly(c)
	for k := 0; k < c.pick(2, 8); k++ {
		c14LateRemote(c, c.rng.fork(), k)
		cleanupScratch()
	}
	if gb != "" {
		c14Wipe(c, gb)
		c14Selected(c, gb)
	}
	c14ManyIndexed(c)
}

// c14Selected: `bug rm` next to a selected bug: removing something that is not there (a second `rm` of
// the same id, a mistyped id) is an error and touches nothing — in particular not the selected bug.
func c14Selected(c *runCtx, gb string) {
	dir := scratch("c14sel")
	if out, err := exec.Command("git", "init", "-q", dir).CombinedOutput(); err != nil {
		panic(string(out))
	}
	must := func(args ...string) string {
		out, err := runGB(gb, dir, args...)
		if err != nil {
			panic(fmt.Sprintf("git-bug %v: %s", args, out))
		}
		return out
	}
	must("user", "new", "-n", "Ann", "-e", "ann@example.com", "--non-interactive")
	must("bug", "new", "-t", "stays selected", "-m", "m")
	must("bug", "new", "-t", "goes away", "-m", "m")
	ids := bugIdsCLI(gb, dir)
	if len(ids) != 2 {
		panic(fmt.Sprintf("two bugs expected: %v", ids))
	}
	show := func(id string) string { out, _ := runGB(gb, dir, "bug", "show", id); return out }
	keep, gone := ids[0], ids[1]
	if !strings.Contains(show(keep), "stays selected") {
		keep, gone = gone, keep
	}
	must("bug", "select", keep)
	must("bug", "rm", gone)
	refsBefore := refsOfDir(dir)
	for _, arg := range []string{gone, "ffffffffffff"} {
		out, err := runGB(gb, dir, "bug", "rm", arg)
		c.count(fmt.Sprintf("rm-of-absent-with-selection/failed=%v", err != nil))
		if after := refsOfDir(dir); after != refsBefore || len(bugIdsCLI(gb, dir)) != 1 {
			c.violation(-1, "C14/removed-another", fmt.Sprintf("`git-bug bug rm %s` (no such bug; another bug is selected) changed the repository: %d bugs left, answer: %s", arg, len(bugIdsCLI(gb, dir)), trunc(out, 120)), nil)
			break
		} else if err == nil {
			c.violation(-1, "C14/removed-another", fmt.Sprintf("`git-bug bug rm %s` of a bug that does not exist reported success: %s", arg, trunc(out, 120)), nil)
		}
	}
	os.RemoveAll(dir)
}

// c14ManyIndexed: more bugs than any default page of the search engine: after removing them — all at once
// through the cache, or one by one through the entity API followed by a rebuild — no search finds them.
func c14ManyIndexed(c *runCtx) {
	for _, variant := range []string{"cache-remove-all", "entity-remove-then-rebuild"} {
		repo, dir := newGoGit("c14many", false)
		rc := mustCache(repo)
		iden, err := rc.Identities().New("Ann", "a@example.com")
		if err != nil {
			panic(err)
		}
		rc.SetUserIdentity(iden)
		const N = 14
		var ids []entity.Id
		for i := 0; i < N; i++ {
			b, _, err := rc.Bugs().New(fmt.Sprintf("quokka number %d", i), "m")
			if err != nil {
				panic(err)
			}
			ids = append(ids, b.Id())
		}
		keep := 0
		switch variant {
		case "cache-remove-all":
			if err := rc.Bugs().RemoveAll(); err != nil {
				c.violation(-1, "C14/remove-failed", "RemoveAll through the cache failed: "+err.Error(), nil)
			}
		default:
			rc.Close()
			r2, err := openGoGit(dir)
			if err != nil {
				panic(err)
			}
			keep = 1
			for _, id := range ids[keep:] {
				if err := bug.Remove(r2, id); err != nil {
					panic(err)
				}
			}
			os.RemoveAll(filepath.Join(dir, ".git", gbNamespace, "cache")) // the next open rebuilds
			rc = mustCache(r2)
		}
		q, _ := query.Parse("quokka")
		hits, err := rc.Bugs().Query(q)
		c.count("many-indexed/" + variant)
		if err != nil || len(hits) != keep {
			c.violation(-1, "C14/found-after-removal", fmt.Sprintf("%s of %d bugs out of %d: a full-text search still finds %d (expected %d; err %v)", variant, N-keep, N, len(hits), keep, err), nil)
		}
		rc.Close()
		cleanupScratch()
	}
}

// c14RemoteOnly: removal of an entity this repository holds only as remote-tracking refs
// (fetched and never merged; or removed, fetched again and removed again), then a merge.
func c14RemoteOnly(c *runCtx) {
	for rep := 0; rep < c.pick(2, 12); rep++ {
		for _, mode := range []string{"fetched-never-merged", "remove-fetch-remove"} {
			r := c.rng.fork()
			k := r.rangeInt(1, 3)
			s := newC14Scene(r, k)
			var id entity.Id
			switch mode {
			case "fetched-never-merged":
				// another clone pushes a bug to every remote; we fetch it but never merge
				other, _ := newGoGit("c14other", false)
				rems, _ := s.repo.GetRemotes()
				for name, url := range rems {
					other.AddRemote(name, url)
				}
				identity.Pull(other, s.remotes[0])
				oa := mkAuthors(other, 1)
				g := newOpGen(r.fork(), oa)
				b := bug.NewBug()
				b.Append(g.create())
				b.Commit(other)
				id = b.Id()
				for _, rm := range s.remotes {
					identity.Push(other, rm)
					bug.Push(other, rm)
				}
				other.Close()
			case "remove-fetch-remove":
				id = s.others[0] // pushed to every remote
				if err := bug.Remove(s.repo, id); err != nil {
					c.violation(-1, "C14/remove-failed", "removal failed: "+err.Error(), nil)
				}
			}
			for _, rm := range s.remotes {
				bug.Fetch(s.repo, rm)
				identity.Fetch(s.repo, rm)
			}
			before := allRefs(s.repo)
			tracked := 0
			for _, ref := range before {
				if strings.HasSuffix(ref, "/bugs/"+string(id)) && strings.HasPrefix(ref, "refs/remotes/") {
					tracked++
				}
			}
			c.context(fmt.Sprintf("remove %s held only as %d tracking refs (%s)", id.Human(), tracked, mode))
			rmErr := bug.Remove(s.repo, id)
			after := allRefs(s.repo)
			cid := c.emit(map[string]any{"cmd": "remove", "refs": before, "ns": "bugs", "entity": string(id), "remotes": s.remotes, "api": "entity", "mode": mode}, after)
			c.count("remote-only=" + mode)
			c.nontrivial(mode + mustJSON(before))
			if tracked == 0 {
				c.violation(cid, "C14/harness", "scenario did not produce tracking refs", nil)
			}
			if rmErr != nil {
				c.violation(cid, "C14/remove-failed", fmt.Sprintf("removing an entity held only as tracking refs failed: %v", rmErr), nil)
			}
			for _, ref := range after {
				if strings.HasSuffix(ref, "/bugs/"+string(id)) {
					c.violation(cid, "C14/refs", fmt.Sprintf("after removing %s (%s) the ref %s is still there", id.Human(), mode, ref), nil)
					break
				}
			}
			// stays gone across a merge without a new fetch
			for _, rm := range s.remotes {
				for range bug.MergeAll(s.repo, resolversFor(s.repo), rm, s.iden) {
				}
			}
			if ok, _ := s.repo.RefExist("refs/bugs/" + string(id)); ok {
				c.violation(cid, "C14/back-after-merge", fmt.Sprintf("the removed bug (%s) is back after a merge without a new fetch", mode), nil)
			}
			s.repo.Close()
			cleanupScratch()
		}
	}
}

func mustIdentCache(rc *cache.RepoCache, id entity.Id) *cache.IdentityCache {
	ic, err := rc.Identities().Resolve(id)
	if err != nil {
		panic(err)
	}
	return ic
}

// c14Wipe: `git-bug wipe` in several configurations leaves no git-bug ref, configuration or storage.
func c14Wipe(c *runCtx, gb string) {
	confs := []string{"with-user", "no-user", "fetched-never-merged", "removed-locally"}
	// all refs packed by stock git (gc, pack-refs): removal then goes through the packed-refs file, where the
	// bug and the identity removals of a wipe must not undo each other (a race: several runs)
	for k := 0; k < c.pick(6, 30); k++ {
		confs = append(confs, "packed-refs")
	}
	for _, conf := range confs {
		r := c.rng.fork()
		s := newC14Scene(r, 2)
		switch conf {
		case "packed-refs":
			s.repo.Close()
			runGB(gb, s.dir, "user", "adopt", string(s.iden.Id()))
			for k := 0; k < 5; k++ {
				runGB(gb, s.dir, "user", "new", "-n", fmt.Sprintf("extra %d", k), "-e", "x@example.com", "--non-interactive")
				runGB(gb, s.dir, "bug", "new", "-t", fmt.Sprintf("extra bug %d", k), "-m", "m")
			}
			for _, rm := range s.remotes {
				runGB(gb, s.dir, "push", rm)
			}
			if out, err := exec.Command("git", "-C", s.dir, "pack-refs", "--all").CombinedOutput(); err != nil {
				panic(fmt.Sprintf("git pack-refs: %v %s", err, out))
			}
		case "with-user":
			s.repo.Close()
			runGB(gb, s.dir, "user", "adopt", string(s.iden.Id()))
		case "no-user":
			s.repo.Close()
		case "fetched-never-merged":
			// another clone pushes a bug to rem0; we fetch it but never merge
			other, _ := newGoGit("c14other", false)
			rem0, _ := s.repo.GetRemotes()
			other.AddRemote("rem0", rem0["rem0"])
			identity.Pull(other, "rem0")
			oa := mkAuthors(other, 1)
			g := newOpGen(r.fork(), oa)
			b := bug.NewBug()
			b.Append(g.create())
			b.Commit(other)
			identity.Push(other, "rem0")
			bug.Push(other, "rem0")
			other.Close()
			bug.Fetch(s.repo, "rem0")
			identity.Fetch(s.repo, "rem0")
			s.repo.Close()
			runGB(gb, s.dir, "user", "adopt", string(s.iden.Id()))
		case "removed-locally":
			// a bug removed only locally... its tracking refs are removed too by Remove; instead remove the local ref by hand
			s.repo.RemoveRef("refs/bugs/" + string(s.target))
			s.repo.Close()
			runGB(gb, s.dir, "user", "adopt", string(s.iden.Id()))
		}
		// configuration of git-bug that is not the user identity: a bridge, a web UI preference
		for _, kv := range [][2]string{{"git-bug.bridge.tracker.target", "github"}, {"git-bug.bridge.tracker.owner", "someone"}, {"git-bug.webui.open", "false"}} {
			exec.Command("git", "-C", s.dir, "config", kv[0], kv[1]).Run()
		}
		rr, _ := repository.OpenGoGitRepo(s.dir, gbNamespace, nil)
		before := allRefs(rr)
		rr.Close()
		c.context("wipe in configuration " + conf)
		out, err := runGB(gb, s.dir, "wipe")
		rr, _ = repository.OpenGoGitRepo(s.dir, gbNamespace, nil)
		after := allRefs(rr)
		rr.Close()
		cid := c.emit(map[string]any{"cmd": "wipe", "refs": before, "remotes": s.remotes, "conf": conf}, after)
		c.count("wipe=" + conf)
		if err != nil {
			c.violation(cid, "C14/wipe-failed", fmt.Sprintf("git-bug wipe failed in configuration %s: %s", conf, strings.TrimSpace(out)), nil)
		}
		for _, ref := range after {
			if strings.HasPrefix(ref, "refs/bugs/") || strings.HasPrefix(ref, "refs/identities/") || strings.Contains(ref, "/bugs/") && strings.HasPrefix(ref, "refs/remotes/") || strings.Contains(ref, "/identities/") && strings.HasPrefix(ref, "refs/remotes/") {
				c.violation(cid, "C14/wipe-leaves-ref", fmt.Sprintf("after wipe (%s) the ref %s is still there", conf, ref), nil)
				break
			}
		}
		if cfg := gitConfigLocal(s.dir); strings.Contains(cfg, "git-bug.") {
			c.violation(cid, "C14/wipe-leaves-config", "after wipe git-bug configuration keys remain", nil)
		}
		if files := listFiles(filepath.Join(s.dir, ".git", gbNamespace)); len(files) > 0 {
			c.violation(cid, "C14/wipe-leaves-storage", fmt.Sprintf("after wipe (%s) local storage still holds %v", conf, files), nil)
		}
		// host refs untouched
		has := func(l []string, x string) bool {
			for _, y := range l {
				if y == x {
					return true
				}
			}
			return false
		}
		isGB := func(ref string) bool {
			if strings.HasPrefix(ref, "refs/bugs/") || strings.HasPrefix(ref, "refs/identities/") {
				return true
			}
			for _, rm := range s.remotes {
				if strings.HasPrefix(ref, "refs/remotes/"+rm+"/bugs/") || strings.HasPrefix(ref, "refs/remotes/"+rm+"/identities/") {
					return true
				}
			}
			return false
		}
		for _, ref := range before {
			if !isGB(ref) && !has(after, ref) {
				c.violation(cid, "C14/wipe-touched-host", "wipe removed a ref outside git-bug's namespaces: "+ref, nil)
			}
		}
		cleanupScratch()
	}
}

// c14LateRemote: a long-lived repository handle that has already listed its remotes; a remote is then
// configured from outside (stock git), used by the session, and an entity is removed: its tracking ref
// for that remote goes as well, and a merge without a new fetch does not bring it back.
func c14LateRemote(c *runCtx, r *rng, k int) {
	s := newC14Scene(r, k%2)
	s.repo.GetRemotes()
	rc := mustCache(s.repo)
	rc.SetUserIdentity(mustIdentCache(rc, s.iden.Id()))
	late, _ := newGoGit("c14late", true)
	url := late.GetLocalRemote()
	late.Close()
	if out, err := exec.Command("git", "-C", s.dir, "remote", "add", "late", url).CombinedOutput(); err != nil {
		panic(fmt.Sprintf("git remote add: %v %s", err, out))
	}
	c.context("remote configured by stock git while the handle is open, then push, fetch, removal")
	if _, err := rc.Push("late"); err != nil {
		panic(err)
	}
	if _, err := rc.Fetch("late"); err != nil {
		panic(err)
	}
	id := s.target
	tracking := "refs/remotes/late/bugs/" + string(id)
	if ok, _ := s.repo.RefExist(tracking); !ok {
		panic("the tracking ref of the late remote was not created: " + tracking)
	}
	useCache := k%2 == 0
	var err error
	if useCache {
		err = rc.Bugs().Remove(string(id))
	} else {
		err = bug.Remove(s.repo, id)
	}
	c.count(fmt.Sprintf("late-remote/cache=%v", useCache))
	if err != nil {
		c.violation(-1, "C14/remove-failed", "removal with a remote configured during the session failed: "+err.Error(), nil)
	}
	for _, ref := range allRefs(s.repo) {
		if strings.HasSuffix(ref, "/"+string(id)) {
			c.violation(-1, "C14/refs", fmt.Sprintf("after the removal the ref %s is left (the remote was configured by stock git after the handle had listed its remotes)", ref), nil)
		}
	}
	if useCache {
		for range rc.MergeAll("late") {
		}
		if _, err := rc.Bugs().Resolve(id); err == nil {
			c.violation(-1, "C14/back-after-merge", "the removed bug is back after a merge without a new fetch (remote configured during the session)", nil)
		}
	}
	rc.Close()
	s.repo.Close()
}

// failRefRepo: a repository whose n-th RemoveRef fails (a full disk, a lock file left by git, a ref packed
// while it was being removed)
type failRefRepo struct {
	repository.TestedRepo
	failAt, n int
}

func (f *failRefRepo) RemoveRef(ref string) error {
	f.n++
	if f.n == f.failAt {
		return fmt.Errorf("injected: cannot remove %s", ref)
	}
	return f.TestedRepo.RemoveRef(ref)
}

// c14FaultyRemove: a removal through the cache during which one ref cannot be removed. The removal reports
// the failure; the removal can be asked for again ("repeating the removal does no further harm"), and then
// nothing of the bug is left: no ref, no cache entry, and a rebuilt cache does not bring it back.
func c14FaultyRemove(c *runCtx) {
	for rep := 0; rep < c.pick(4, 24); rep++ {
		r := c.rng.fork()
		k := 1 + rep%3
		s := newC14Scene(r, k)
		failAt := 1 + rep%(k+1)
		fr := &failRefRepo{TestedRepo: s.repo, failAt: failAt}
		rc := mustCache(fr)
		rc.SetUserIdentity(mustIdentCache(rc, s.iden.Id()))
		id := s.target
		c.context(fmt.Sprintf("removal of %s with %d remotes, RemoveRef call %d fails", id.Human(), k, failAt))
		err1 := rc.Bugs().Remove(string(id)[:12])
		c.count(fmt.Sprintf("faulty-remove/failed=%v", err1 != nil))
		listed := false
		for _, x := range rc.Bugs().AllIds() {
			listed = listed || x == id
		}
		localRef := false
		for _, ref := range allRefs(s.repo) {
			localRef = localRef || ref == "refs/bugs/"+string(id)
		}
		// (what a removal that failed half-way leaves is not what the property speaks about: counted only)
		c.count(fmt.Sprintf("faulty-remove/listed=%v/local-ref=%v", listed, localRef))
		// asked again, the removal goes through and nothing is left
		fr.failAt = 0
		err2 := rc.Bugs().Remove(string(id)[:12])
		var left []string
		for _, ref := range allRefs(s.repo) {
			if strings.HasSuffix(ref, "/"+string(id)) {
				left = append(left, ref)
			}
		}
		stillListed := false
		for _, x := range rc.Bugs().AllIds() {
			stillListed = stillListed || x == id
		}
		if err1 != nil && (err2 != nil || len(left) > 0 || stillListed) {
			c.violation(-1, "C14/remove-not-repeatable", fmt.Sprintf("after a failed removal (%v) the second one answers %v, leaves %v, the cache lists the bug: %v", err1, err2, left, stillListed), nil)
		}
		rc.Close()
	}
}

package main

import (
	"fmt"
	"sort"
	"strings"

	"github.com/MichaelMure/git-bug/entities/bug"
	"github.com/MichaelMure/git-bug/entities/identity"
	"github.com/MichaelMure/git-bug/entity"
	"github.com/MichaelMure/git-bug/entity/dag"
	"github.com/MichaelMure/git-bug/repository"
)

// A replica system: k go-git repositories sharing one bare remote "origin".
type replica struct {
	name string
	repo repository.TestedRepo
	dir  string
}

type replicaSys struct {
	c       *runCtx
	r       *rng
	reps    []*replica
	remote  repository.TestedRepo
	alt     repository.TestedRepo // a second remote ("alt"): another channel between the same replicas
	authors []identity.Interface
	bugIds  []entity.Id // every bug created anywhere
	log     []string    // the schedule, for replays
	gens    map[entity.Id]*opGen
	onlyBug entity.Id // when set, edits go to this bug
	// statistics of this scenario
	scen5, ffwd, newE, nothing int
}

func resolversFor(repo repository.ClockedRepo) entity.Resolvers {
	return entity.Resolvers{&identity.Identity{}: identity.NewSimpleResolver(repo)}
}

func newReplicaSys(c *runCtx, r *rng, k int) *replicaSys {
	s := &replicaSys{c: c, r: r, gens: map[entity.Id]*opGen{}}
	s.remote, _ = newGoGit("remote", true)
	s.alt, _ = newGoGit("altremote", true)
	for i := 0; i < k; i++ {
		repo, dir := newGoGit(fmt.Sprintf("rep%c", 'A'+i), false)
		if err := repo.AddRemote("origin", s.remote.GetLocalRemote()); err != nil {
			panic(err)
		}
		if err := repo.AddRemote("alt", s.alt.GetLocalRemote()); err != nil {
			panic(err)
		}
		s.reps = append(s.reps, &replica{name: string(rune('A' + i)), repo: repo, dir: dir})
	}
	// identities: created on A, distributed to everybody before any bug work
	s.authors = mkAuthors(s.reps[0].repo, 3)
	if r.chance(1, 3) {
		// the first author — who also writes the merge commits — has a signing key from the start: every
		// commit in that name is signed, the empty ones that join two branches included
		keyed, err := identity.NewIdentityFull(s.reps[0].repo, "keyed author", "k@example.com", "", "", []*identity.Key{identity.GenerateKey()})
		if err != nil {
			panic(err)
		}
		if err := keyed.Commit(s.reps[0].repo); err != nil {
			panic(err)
		}
		s.authors[0] = keyed
		c.count("replica-systems-with-a-keyed-merge-author")
	}
	if _, err := identity.Push(s.reps[0].repo, "origin"); err != nil {
		panic(err)
	}
	for _, rp := range s.reps[1:] {
		if err := identity.Pull(rp.repo, "origin"); err != nil {
			panic(err)
		}
	}
	return s
}

func (s *replicaSys) close() {
	for _, rp := range s.reps {
		rp.repo.Close()
	}
	s.remote.Close()
	s.alt.Close()
}

func (s *replicaSys) logf(f string, a ...any) {
	s.log = append(s.log, fmt.Sprintf(f, a...))
	s.c.context(strings.Join(s.log, " "))
}

// safeRead is bug.Read with panics turned into errors.
func safeRead(repo repository.ClockedRepo, id entity.Id) (b *bug.Bug, err error) {
	defer func() {
		if r := recover(); r != nil {
			b, err = nil, fmt.Errorf("PANIC: %v", r)
		}
	}()
	return bug.Read(repo, id)
}

func (s *replicaSys) newBug(rp *replica) {
	defer storeFilesIn(rp.repo)()
	g := newOpGen(s.r.fork(), s.authors)
	cop := g.create()
	b := bug.NewBug()
	b.Append(cop)
	g.record(cop, true)
	for i := 0; i < s.r.intn(3); i++ {
		op, isC, _ := g.next()
		b.Append(op)
		g.record(op, isC)
	}
	if err := b.Commit(rp.repo); err != nil {
		panic(fmt.Sprintf("commit new bug: %v", err))
	}
	s.bugIds = append(s.bugIds, b.Id())
	s.gens[b.Id()] = g
	s.logf("%s:new(%s)", rp.name, b.Id().Human())
}

// edit appends 1..n operations (possibly by several authors: several commits) to a bug the
// replica has, and commits.
func (s *replicaSys) edit(rp *replica, n int) bool {
	defer storeFilesIn(rp.repo)()
	ids, _ := bug.ListLocalIds(rp.repo)
	if len(ids) == 0 {
		return false
	}
	sort.Slice(ids, func(i, j int) bool { return ids[i] < ids[j] })
	id := pickOne(s.r, ids)
	if s.onlyBug != "" {
		id = s.onlyBug
	}
	b, err := safeRead(rp.repo, id)
	if err != nil {
		s.c.violation(-1, "C01/unreadable", fmt.Sprintf("replica %s cannot read its own bug %s: %v (schedule %v)", rp.name, id.Human(), err, s.log), nil)
		return false
	}
	g := s.gens[id]
	// targets the replica can see
	g2 := newOpGen(s.r.fork(), s.authors)
	g2.t = g.t + int64(s.r.intn(100))
	for _, o := range b.Operations() {
		_, isC := o.(*bug.AddCommentOperation)
		_, isCr := o.(*bug.CreateOperation)
		g2.record(o, isC || isCr)
	}
	k := s.r.rangeInt(1, n)
	for i := 0; i < k; i++ {
		op, _, _ := g2.next()
		b.Append(op)
	}
	if err := b.Commit(rp.repo); err != nil {
		panic(fmt.Sprintf("commit edit: %v", err))
	}
	s.logf("%s:edit(%s,%d)", rp.name, id.Human(), k)
	return true
}

func (s *replicaSys) push(rp *replica) { s.pushTo(rp, "origin") }

func (s *replicaSys) pushTo(rp *replica, remote string) {
	_, err := bug.Push(rp.repo, remote)
	tag := ""
	if remote != "origin" {
		tag = "@" + remote
	}
	if err != nil {
		s.logf("%s:push%s!", rp.name, tag) // non-fast-forward: refused as a whole
		s.c.count("push=refused")
	} else {
		s.logf("%s:push%s", rp.name, tag)
		s.c.count("push=ok")
	}
}

type mergeRefJ struct {
	Id          string  `json:"id"`
	Local       *string `json:"local"`
	Remote      string  `json:"remote"`
	NewHash     string  `json:"newHash"`
	MergePackId string  `json:"mergePackId"`
}

// pull = Fetch + MergeAll, recorded as one `mergeAll` case for the model and judged by the
// C02 oracle. Returns whether anything changed locally.
func (s *replicaSys) pull(rp *replica, record bool) bool { return s.pullFrom(rp, "origin", record) }

func (s *replicaSys) pullFrom(rp *replica, remote string, record bool) bool {
	repo := rp.repo
	if _, err := bug.Fetch(repo, remote); err != nil {
		if remote != "origin" && strings.Contains(err.Error(), "empty") {
			s.logf("%s:pull@%s(empty)", rp.name, remote) // nothing was ever pushed there
			return false
		}
		panic(fmt.Sprintf("fetch: %v", err))
	}
	remoteRefs, _ := repo.ListRefs("refs/remotes/" + remote + "/bugs/")
	var refs []mergeRefJ
	var heads []repository.Hash
	before := map[string][]string{} // local op ids before
	beforeAll := s.readAllOps(rp)
	for _, rr := range remoteRefs {
		id := rr[strings.LastIndex(rr, "/")+1:]
		rh, _ := repo.ResolveRef(rr)
		m := mergeRefJ{Id: id, Remote: string(rh)}
		heads = append(heads, rh)
		if lh, err := repo.ResolveRef("refs/bugs/" + id); err == nil {
			l := string(lh)
			m.Local = &l
			heads = append(heads, lh)
			before[id] = beforeAll[id]
		}
		refs = append(refs, m)
	}
	commits := dumpCommits(repo, heads...)
	ce0, cc0 := clockTime(repo, "bugs-edit"), clockTime(repo, "bugs-create")
	mergeAuthor := s.authors[0]
	results := map[string]entity.MergeResult{}
	var order []string
	for res := range bug.MergeAll(repo, resolversFor(repo), remote, mergeAuthor) {
		results[string(res.Id)] = res
		order = append(order, string(res.Id))
	}
	ce1, cc1 := clockTime(repo, "bugs-edit"), clockTime(repo, "bugs-create")
	changed := false
	var outs []map[string]any
	for i := range refs {
		m := &refs[i]
		res, ok := results[m.Id]
		if !ok {
			panic("no merge result for " + m.Id)
		}
		nh, _ := repo.ResolveRef("refs/bugs/" + m.Id)
		m.NewHash = string(nh)
		out := map[string]any{"status": mergeStatusName(res.Status), "head": string(nh), "ops": []string{}, "merge": nil}
		if nh == "" {
			out["head"] = nil
		}
		if res.Status == entity.MergeStatusNew || res.Status == entity.MergeStatusUpdated {
			changed = true
			out["ops"] = opIdsOf(res.Entity.(*bug.Bug).Operations())
		}
		if m.Local != nil && string(nh) != *m.Local && string(nh) != m.Remote {
			// a merge commit was written
			cm := dumpCommits(repo, nh)[0]
			if cm.Pack != nil {
				m.MergePackId = cm.Pack.Id
				out["merge"] = map[string]any{"parents": cm.Parents, "edit": cm.Pack.Edit}
				// C05 on the real code: the merge commit is written now, its time is above every time this
				// replica had handed out or seen when the pull began
				if cm.Pack.Edit <= ce0 {
					s.c.violation(-1, "C05/written-not-above", fmt.Sprintf("the merge commit written by the pull on %s has edit time %d, the clock stood at %d before the pull; schedule %v", rp.name, cm.Pack.Edit, ce0, s.log), nil)
				}
			}
			s.scen5++
			s.c.count("merge=scenario5")
		} else {
			switch res.Status {
			case entity.MergeStatusNew:
				s.newE++
				s.c.count("merge=new")
			case entity.MergeStatusUpdated:
				s.ffwd++
				s.c.count("merge=fast-forward")
			case entity.MergeStatusNothing:
				s.nothing++
				s.c.count("merge=nothing")
			default:
				s.c.count("merge=" + mergeStatusName(res.Status))
			}
		}
		outs = append(outs, out)
	}
	if remote == "origin" {
		s.logf("%s:pull", rp.name)
	} else {
		s.logf("%s:pull@%s", rp.name, remote)
	}
	caseId := -1
	if record {
		caseId = s.c.emit(map[string]any{"cmd": "mergeAll", "commits": commits, "refs": refs, "clockEdit": ce0, "clockCreate": cc0,
			"author": string(mergeAuthor.Id()), "schedule": strings.Join(s.log, " ")},
			map[string]any{"results": outs, "clockEdit": ce1, "clockCreate": cc1})
		s.c.nontrivial(mustJSON(refs))
	}
	// ---- C05 on the real code: what was taken in is dominated by the clocks (read right after the merge,
	// before the oracle below reads the bugs itself, which would witness them)
	{
		var me, mc uint64
		for _, m := range refs {
			if m.NewHash == "" {
				continue
			}
			for _, cm := range dumpCommits(repo, repository.Hash(m.NewHash)) {
				if cm.Pack != nil {
					if cm.Pack.Edit > me {
						me = cm.Pack.Edit
					}
					if cm.Pack.Create > mc {
						mc = cm.Pack.Create
					}
				}
			}
		}
		if ce1 < me || cc1 < mc {
			s.c.violation(caseId, "C05/clock-below-stored", fmt.Sprintf("after the pull on %s the clocks stand at edit=%d create=%d, below times stored in what was merged (edit %d, create %d); schedule %v", rp.name, ce1, cc1, me, mc, s.log), nil)
		}
	}
	// ---- C02 oracle on the real code
	afterAll := s.readAllOps(rp)
	for _, m := range refs {
		res := results[m.Id]
		after, readable := afterAll[m.Id]
		if !readable {
			s.c.violation(caseId, "C02/unreadable-after-pull", fmt.Sprintf("bug %s is not readable after the pull on %s; schedule %v", m.Id[:7], rp.name, s.log), nil)
			continue
		}
		has := map[string]bool{}
		for _, o := range after {
			has[o] = true
		}
		for _, o := range before[m.Id] {
			if !has[o] {
				s.c.violation(caseId, "C02/lost-local-op", fmt.Sprintf("an operation the local bug %s had before the pull is gone; schedule %v", m.Id[:7], s.log), nil)
				break
			}
		}
		// everything of the (valid) remote version is now local
		if rb, err := readAtRef(repo, "refs/remotes/"+remote+"/bugs/"+m.Id); err == nil {
			for _, o := range rb {
				if !has[o] {
					s.c.violation(caseId, "C02/missing-remote-op", fmt.Sprintf("an operation of the remote version of %s is missing locally after the pull; schedule %v", m.Id[:7], s.log), nil)
					break
				}
			}
		}
		// the report agrees with what changed
		changedOps := strings.Join(before[m.Id], ",") != strings.Join(after, ",")
		switch res.Status {
		case entity.MergeStatusNothing:
			if changedOps || m.Local == nil {
				s.c.violation(caseId, "C02/status", "reported `nothing` but the local entity changed", s.log)
			}
		case entity.MergeStatusNew:
			if m.Local != nil {
				s.c.violation(caseId, "C02/status", "reported `new` for an entity that existed locally", s.log)
			}
		case entity.MergeStatusUpdated:
			// (two merge commits over the same heads are joined by a third one: the history under the
			// ref changed though no operation is new — `updated` says so truthfully)
			if m.Local == nil || !changedOps && m.NewHash == *m.Local {
				s.c.violation(caseId, "C02/status", "reported `updated` but nothing of the local entity changed", s.log)
			}
		}
		// the entity handed back is the merged result
		if res.Status == entity.MergeStatusNew || res.Status == entity.MergeStatusUpdated {
			got := opIdsOf(res.Entity.(*bug.Bug).Operations())
			if strings.Join(got, ",") != strings.Join(after, ",") {
				s.c.violation(caseId, "C02/returned-entity", fmt.Sprintf("the entity handed back with `%s` is not the merged result (it has %d operations, the merged bug %d); schedule %v",
					mergeStatusName(res.Status), len(got), len(after), s.log), nil)
			}
		}
	}
	return changed
}

func clockTime(repo repository.ClockedRepo, name string) uint64 {
	c, err := repo.GetOrCreateClock(name)
	if err != nil {
		panic(err)
	}
	return uint64(c.Time())
}

func mergeStatusName(s entity.MergeStatus) string {
	switch s {
	case entity.MergeStatusNew:
		return "new"
	case entity.MergeStatusInvalid:
		return "invalid"
	case entity.MergeStatusUpdated:
		return "updated"
	case entity.MergeStatusNothing:
		return "nothing"
	case entity.MergeStatusError:
		return "error"
	}
	return "?"
}

func opIdsOf(ops []bug.Operation) []string {
	out := make([]string, 0, len(ops))
	for _, o := range ops {
		out = append(out, string(o.Id()))
	}
	return out
}

// readAllOps reads every local bug: id -> ordered op ids (absent when unreadable).
func (s *replicaSys) readAllOps(rp *replica) map[string][]string {
	out := map[string][]string{}
	ids, _ := bug.ListLocalIds(rp.repo)
	for _, id := range ids {
		b, err := safeRead(rp.repo, id)
		if err != nil {
			continue
		}
		out[string(id)] = opIdsOf(b.Operations())
	}
	return out
}

// readAtRef reads the bug stored at an arbitrary ref by pointing a scratch local ref at it
// would disturb the repository; instead decode and order independently is the model's job.
// Here we use the library through a temporary copy of the ref under a throw-away namespace.
func readAtRef(repo repository.ClockedRepo, ref string) ([]string, error) {
	h, err := repo.ResolveRef(ref)
	if err != nil {
		return nil, err
	}
	// all operations reachable from the head, as a set (order is judged elsewhere)
	var out []string
	for _, c := range dumpCommits(repo, h) {
		if c.Pack == nil {
			return nil, fmt.Errorf("undecodable")
		}
		for _, o := range c.Pack.Ops {
			out = append(out, o.Id)
		}
	}
	return out, nil
}

var _ = dag.Definition{}

// syncToQuiescence: everybody pulls and pushes until nothing changes any more.
func (s *replicaSys) syncToQuiescence(record bool) bool {
	for round := 0; round < 8; round++ {
		changed := false
		for _, rp := range s.reps {
			if s.pull(rp, record) {
				changed = true
			}
			before, _ := s.remote.ListRefs("refs/bugs/")
			bh := refHeads(s.remote, before)
			s.push(rp)
			after, _ := s.remote.ListRefs("refs/bugs/")
			if refHeads(s.remote, after) != bh {
				changed = true
			}
		}
		if !changed {
			return true
		}
	}
	return false
}

func refHeads(repo repository.TestedRepo, refs []string) string {
	sort.Strings(refs)
	var sb strings.Builder
	for _, r := range refs {
		h, _ := repo.ResolveRef(r)
		sb.WriteString(r + "=" + string(h) + ";")
	}
	return sb.String()
}

module verifharness

go 1.22.5

replace github.com/MichaelMure/git-bug => /repo

// repeated from /repo/go.mod (replace directives of a dependency are not inherited)
replace github.com/praetorian-inc/gokart v0.5.1 => github.com/selesy/gokart v0.5.2-rc1

replace github.com/willf/bitset v1.1.11 => github.com/bits-and-blooms/bitset v1.1.11

require (
	github.com/99designs/keyring v1.2.2
	github.com/MichaelMure/git-bug v0.0.0
	github.com/ProtonMail/go-crypto v1.0.0
	github.com/go-git/go-billy/v5 v5.5.0
	github.com/go-git/go-git/v5 v5.12.0
	github.com/gorilla/mux v1.8.1
)

require (
	dario.cat/mergo v1.0.0 // indirect
	github.com/99designs/gqlgen v0.17.49 // indirect
	github.com/RoaringBitmap/roaring v1.9.4 // indirect
	github.com/agnivade/levenshtein v1.1.1 // indirect
	github.com/bits-and-blooms/bitset v1.13.0 // indirect
	github.com/blevesearch/bleve v1.0.14 // indirect
	github.com/blevesearch/go-porterstemmer v1.0.3 // indirect
	github.com/blevesearch/mmap-go v1.0.4 // indirect
	github.com/blevesearch/segment v0.9.1 // indirect
	github.com/blevesearch/snowballstem v0.9.0 // indirect
	github.com/blevesearch/zap/v11 v11.0.14 // indirect
	github.com/blevesearch/zap/v12 v12.0.14 // indirect
	github.com/blevesearch/zap/v13 v13.0.6 // indirect
	github.com/blevesearch/zap/v14 v14.0.5 // indirect
	github.com/blevesearch/zap/v15 v15.0.3 // indirect
	github.com/cheekybits/genny v1.0.0 // indirect
	github.com/cloudflare/circl v1.3.9 // indirect
	github.com/couchbase/vellum v1.0.2 // indirect
	github.com/cyphar/filepath-securejoin v0.3.0 // indirect
	github.com/davecgh/go-spew v1.1.1 // indirect
	github.com/dustin/go-humanize v1.0.1 // indirect
	github.com/dvsekhvalnov/jose2go v1.7.0 // indirect
	github.com/emirpasic/gods v1.18.1 // indirect
	github.com/fatih/color v1.17.0 // indirect
	github.com/go-git/gcfg v1.5.1-0.20230307220236-3a3c6141e376 // indirect
	github.com/godbus/dbus v0.0.0-20190726142602-4481cbc300e2 // indirect
	github.com/golang/groupcache v0.0.0-20210331224755-41bb18bfe9da // indirect
	github.com/golang/protobuf v1.5.4 // indirect
	github.com/golang/snappy v0.0.4 // indirect
	github.com/google/go-querystring v1.1.0 // indirect
	github.com/google/uuid v1.6.0 // indirect
	github.com/gorilla/websocket v1.5.3 // indirect
	github.com/gsterjov/go-libsecret v0.0.0-20161001094733-a6f4afe4910c // indirect
	github.com/hashicorp/go-cleanhttp v0.5.2 // indirect
	github.com/hashicorp/go-retryablehttp v0.7.7 // indirect
	github.com/hashicorp/golang-lru/v2 v2.0.7 // indirect
	github.com/jbenet/go-context v0.0.0-20150711004518-d14ea06fba99 // indirect
	github.com/kevinburke/ssh_config v1.2.0 // indirect
	github.com/mattn/go-colorable v0.1.13 // indirect
	github.com/mattn/go-isatty v0.0.20 // indirect
	github.com/mitchellh/mapstructure v1.5.0 // indirect
	github.com/mtibben/percent v0.2.1 // indirect
	github.com/pjbgf/sha1cd v0.3.0 // indirect
	github.com/pkg/errors v0.9.1 // indirect
	github.com/pmezard/go-difflib v1.0.0 // indirect
	github.com/sergi/go-diff v1.3.2-0.20230802210424-5b0b94c5c0d3 // indirect
	github.com/shurcooL/githubv4 v0.0.0-20240429030203-be2daab69064 // indirect
	github.com/shurcooL/graphql v0.0.0-20230722043721-ed46e5a46466 // indirect
	github.com/skeema/knownhosts v1.3.0 // indirect
	github.com/sosodev/duration v1.3.1 // indirect
	github.com/steveyen/gtreap v0.1.0 // indirect
	github.com/stretchr/testify v1.9.0 // indirect
	github.com/vektah/gqlparser/v2 v2.5.16 // indirect
	github.com/willf/bitset v1.1.11 // indirect
	github.com/xanzy/go-gitlab v0.107.0 // indirect
	github.com/xanzy/ssh-agent v0.3.3 // indirect
	go.etcd.io/bbolt v1.3.10 // indirect
	golang.org/x/crypto v0.26.0 // indirect
	golang.org/x/net v0.27.0 // indirect
	golang.org/x/oauth2 v0.22.0 // indirect
	golang.org/x/sync v0.8.0 // indirect
	golang.org/x/sys v0.23.0 // indirect
	golang.org/x/term v0.23.0 // indirect
	golang.org/x/text v0.17.0 // indirect
	golang.org/x/time v0.5.0 // indirect
	google.golang.org/protobuf v1.34.2 // indirect
	gopkg.in/warnings.v0 v0.1.2 // indirect
	gopkg.in/yaml.v3 v3.0.1 // indirect
)

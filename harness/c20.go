package main

import (
	"encoding/base64"
	"fmt"

	"github.com/MichaelMure/git-bug/api/graphql/connections"
	"github.com/MichaelMure/git-bug/api/graphql/models"
	"github.com/MichaelMure/git-bug/entities/bug"
	"github.com/MichaelMure/git-bug/entity"
)

func init() { props["C20"] = runC20 }

type c20Out struct {
	Err     string   `json:"err,omitempty"`
	Nodes   []int    `json:"nodes"`
	Cursors []string `json:"cursors"`
	HasNext bool     `json:"hasNext"`
	HasPrev bool     `json:"hasPrev"`
	Start   string   `json:"start"`
	End     string   `json:"end"`
	Total   int      `json:"total"`
}

func c20Canon(o c20Out) any {
	if o.Err != "" {
		return map[string]any{"err": o.Err}
	}
	if o.Nodes == nil {
		o.Nodes = []int{}
	}
	if o.Cursors == nil {
		o.Cursors = []string{}
	}
	return map[string]any{"nodes": o.Nodes, "cursors": o.Cursors, "hasNext": o.HasNext,
		"hasPrev": o.HasPrev, "start": o.Start, "end": o.End, "total": o.Total}
}

func errClass(err error) string {
	switch err.Error() {
	case "first less than zero":
		return "first"
	case "last less than zero":
		return "last"
	}
	return "other:" + err.Error()
}

// c20Instances calls each genny instance of the template on a source of n elements whose
// i-th element is recognisable as i.
var c20Instances = []struct {
	name string
	call func(n int, in models.ConnectionInput) c20Out
}{
	{"Label", func(n int, in models.ConnectionInput) c20Out {
		src := make([]bug.Label, n)
		for i := range src {
			src[i] = bug.Label(fmt.Sprintf("%d", i))
		}
		var out c20Out
		con, err := connections.LabelCon(src,
			func(v bug.Label, off int) connections.Edge {
				return models.LabelEdge{Node: v, Cursor: connections.OffsetToCursor(off)}
			},
			func(edges []*models.LabelEdge, nodes []bug.Label, info *models.PageInfo, total int) (*models.LabelConnection, error) {
				if len(edges) != len(nodes) {
					out.Err = fmt.Sprintf("%d edges for %d nodes", len(edges), len(nodes))
					return nil, nil
				}
				for i, nd := range nodes {
					var k int
					fmt.Sscanf(string(nd), "%d", &k)
					out.Nodes = append(out.Nodes, k)
					out.Cursors = append(out.Cursors, edges[i].Cursor)
					if edges[i].Node != nd {
						out.Err = "edge/node mismatch"
					}
				}
				out.HasNext, out.HasPrev, out.Start, out.End, out.Total = info.HasNextPage, info.HasPreviousPage, info.StartCursor, info.EndCursor, total
				return &models.LabelConnection{}, nil
			}, in)
		_ = con
		if err != nil {
			return c20Out{Err: errClass(err)}
		}
		return out
	}},
	{"LazyBug", func(n int, in models.ConnectionInput) c20Out {
		src := make([]entity.Id, n)
		for i := range src {
			src[i] = entity.Id(fmt.Sprintf("%d", i))
		}
		var out c20Out
		_, err := connections.LazyBugCon(src,
			func(v entity.Id, off int) connections.Edge {
				return connections.LazyBugEdge{Id: v, Cursor: connections.OffsetToCursor(off)}
			},
			func(edges []*connections.LazyBugEdge, nodes []entity.Id, info *models.PageInfo, total int) (*models.BugConnection, error) {
				if len(edges) != len(nodes) {
					out.Err = fmt.Sprintf("%d edges for %d nodes", len(edges), len(nodes))
					return nil, nil
				}
				for i, nd := range nodes {
					var k int
					fmt.Sscanf(string(nd), "%d", &k)
					out.Nodes = append(out.Nodes, k)
					out.Cursors = append(out.Cursors, edges[i].Cursor)
					if edges[i].Id != nd {
						out.Err = "edge/node mismatch"
					}
				}
				out.HasNext, out.HasPrev, out.Start, out.End, out.Total = info.HasNextPage, info.HasPreviousPage, info.StartCursor, info.EndCursor, total
				return &models.BugConnection{}, nil
			}, in)
		if err != nil {
			return c20Out{Err: errClass(err)}
		}
		return out
	}},
	{"LazyIdentity", func(n int, in models.ConnectionInput) c20Out {
		src := make([]entity.Id, n)
		for i := range src {
			src[i] = entity.Id(fmt.Sprintf("%d", i))
		}
		var out c20Out
		_, err := connections.LazyIdentityCon(src,
			func(v entity.Id, off int) connections.Edge {
				return connections.LazyIdentityEdge{Id: v, Cursor: connections.OffsetToCursor(off)}
			},
			func(edges []*connections.LazyIdentityEdge, nodes []entity.Id, info *models.PageInfo, total int) (*models.IdentityConnection, error) {
				if len(edges) != len(nodes) {
					out.Err = fmt.Sprintf("%d edges for %d nodes", len(edges), len(nodes))
					return nil, nil
				}
				for i, nd := range nodes {
					var k int
					fmt.Sscanf(string(nd), "%d", &k)
					out.Nodes = append(out.Nodes, k)
					out.Cursors = append(out.Cursors, edges[i].Cursor)
					if edges[i].Id != nd {
						out.Err = "edge/node mismatch"
					}
				}
				out.HasNext, out.HasPrev, out.Start, out.End, out.Total = info.HasNextPage, info.HasPreviousPage, info.StartCursor, info.EndCursor, total
				return &models.IdentityConnection{}, nil
			}, in)
		if err != nil {
			return c20Out{Err: errClass(err)}
		}
		return out
	}},
	{"Comment", func(n int, in models.ConnectionInput) c20Out {
		src := make([]bug.Comment, n)
		for i := range src {
			src[i] = bug.Comment{Message: fmt.Sprintf("%d", i)}
		}
		var out c20Out
		_, err := connections.CommentCon(src,
			func(v bug.Comment, off int) connections.Edge {
				return models.CommentEdge{Node: &v, Cursor: connections.OffsetToCursor(off)}
			},
			func(edges []*models.CommentEdge, nodes []bug.Comment, info *models.PageInfo, total int) (*models.CommentConnection, error) {
				if len(edges) != len(nodes) {
					out.Err = fmt.Sprintf("%d edges for %d nodes", len(edges), len(nodes))
					return nil, nil
				}
				for i, nd := range nodes {
					var k int
					fmt.Sscanf(nd.Message, "%d", &k)
					out.Nodes = append(out.Nodes, k)
					out.Cursors = append(out.Cursors, edges[i].Cursor)
					if edges[i].Node.Message != nd.Message {
						out.Err = "edge/node mismatch"
					}
				}
				out.HasNext, out.HasPrev, out.Start, out.End, out.Total = info.HasNextPage, info.HasPreviousPage, info.StartCursor, info.EndCursor, total
				return &models.CommentConnection{}, nil
			}, in)
		if err != nil {
			return c20Out{Err: errClass(err)}
		}
		return out
	}},
}

func strp(s string) *string { return &s }
func intp(i int) *int       { return &i }

type c20Case struct {
	n                   int
	after, before       *string
	first, last         *int
	afterTag, beforeTag string
}

func (k c20Case) input() models.ConnectionInput {
	return models.ConnectionInput{After: k.after, Before: k.before, First: k.first, Last: k.last}
}

func (k c20Case) json(inst string) map[string]any {
	cur := make([]string, k.n)
	for i := range cur {
		cur[i] = connections.OffsetToCursor(i)
	}
	m := map[string]any{"n": k.n, "cursors": cur, "inst": inst}
	if k.after != nil {
		m["after"] = *k.after
	}
	if k.before != nil {
		m["before"] = *k.before
	}
	if k.first != nil {
		m["first"] = *k.first
	}
	if k.last != nil {
		m["last"] = *k.last
	}
	return m
}

// cursor candidates for a list of n elements: none, every valid offset, one past the end
// (foreign), and malformed strings.
func c20Cursors(n int) []struct {
	tag string
	c   *string
} {
	type cc = struct {
		tag string
		c   *string
	}
	out := []cc{{"none", nil}}
	for i := 0; i < n; i++ {
		out = append(out, cc{"valid", strp(connections.OffsetToCursor(i))})
	}
	out = append(out, cc{"foreign", strp(connections.OffsetToCursor(n + 3))})
	out = append(out, cc{"malformed", strp("not base64 !!")})
	out = append(out, cc{"empty", strp("")})
	// cursors no edge carries but that a decoding implementation could mistake for an offset
	b64 := func(s string) *string { return strp(base64.StdEncoding.EncodeToString([]byte(s))) }
	out = append(out, cc{"alias", b64("cursor:-1")})
	out = append(out, cc{"alias", b64("cursor:-2")})
	out = append(out, cc{"alias", b64("-3")})
	out = append(out, cc{"alias", b64("1")})
	out = append(out, cc{"alias", b64("cursor:+1")})
	out = append(out, cc{"alias", b64("cursor:01")})
	out = append(out, cc{"alias", b64("cursor:cursor:1")})
	return out
}

func runC20(c *runCtx) {
	// 1. exhaustive: every n ≤ N, every first/last in {nil, -1..N+1}, every cursor candidate
	N := c.pick(4, 7)
	sizes := []*int{nil}
	for v := -1; v <= N+1; v++ {
		sizes = append(sizes, intp(v))
	}
	one := func(k c20Case, inst int) {
		in := c20Instances[inst]
		out := in.call(k.n, k.input())
		id := c.emit(k.json(in.name), c20Canon(out))
		c.count("after=" + k.afterTag)
		c.count("before=" + k.beforeTag)
		if out.Err != "" {
			c.count("result=err:" + out.Err)
		} else {
			c.count("result=ok")
			c.count(fmt.Sprintf("pagelen=%d", min(len(out.Nodes), 9)))
			if len(out.Nodes) > 0 && len(out.Nodes) < k.n {
				c.nontrivial(fmt.Sprintf("%d|%v|%v|%v|%v", k.n, k.afterTag, k.beforeTag, deref(k.first), deref(k.last)) + fmt.Sprint(out.Nodes))
			}
			c20Oracle(c, id, k, out)
		}
	}
	for n := 0; n <= N; n++ {
		for _, a := range c20Cursors(n) {
			for _, b := range c20Cursors(n) {
				for _, f := range sizes {
					for _, l := range sizes {
						one(c20Case{n: n, after: a.c, before: b.c, first: f, last: l, afterTag: a.tag, beforeTag: b.tag}, 0)
					}
				}
			}
		}
	}
	c.extra["exhaustive"] = true
	c.extra["exhaustive_bound"] = fmt.Sprintf("n<=%d, first/last in {nil,-1..%d}, cursors {none, each valid, foreign, malformed, empty}^2, instance Label", N, N+1)
	// 2. the other instances of the template, random larger cases
	R := c.pick(400, 20000)
	for i := 0; i < R; i++ {
		n := c.rng.intn(c.pick(40, 300))
		k := c20Case{n: n, afterTag: "none", beforeTag: "none"}
		cs := c20Cursors(n)
		if c.rng.chance(2, 3) {
			x := pickOne(c.rng, cs)
			k.after, k.afterTag = x.c, x.tag
		}
		if c.rng.chance(1, 2) {
			x := pickOne(c.rng, cs)
			k.before, k.beforeTag = x.c, x.tag
		}
		if c.rng.chance(2, 3) {
			k.first = intp(c.rng.rangeInt(-1, n+2))
		}
		if c.rng.chance(1, 2) {
			k.last = intp(c.rng.rangeInt(-1, n+2))
		}
		one(k, c.rng.intn(len(c20Instances)))
	}
	// 3. implementation-side walk oracle: forward and backward walks visit each element once
	W := c.pick(12, 60)
	for n := 0; n <= W; n++ {
		for k := 1; k <= n+1; k++ {
			for inst := range c20Instances {
				if inst != 0 && (n+k)%4 != inst {
					continue
				}
				c20Walk(c, inst, n, k)
			}
		}
	}
	// 4. the paginated fields of the served GraphQL API, one request per page
	runC20Gql(c)
}

func deref(p *int) any {
	if p == nil {
		return nil
	}
	return *p
}

// c20Oracle checks on the implementation's own answer the parts of C20 that concern one
// page: nodes are a contiguous in-order window, cursors designate the first/last edge,
// total is the list length.
func c20Oracle(c *runCtx, id int, k c20Case, o c20Out) {
	if o.Total != k.n {
		c.violation(id, "C20/total", "totalCount differs from the list length", o)
	}
	for i, nd := range o.Nodes {
		if i > 0 && nd != o.Nodes[i-1]+1 {
			c.violation(id, "C20/window", "page is not a contiguous in-order window", o)
			break
		}
		if nd < 0 || nd >= k.n {
			c.violation(id, "C20/window", "node outside the list", o)
			break
		}
		if o.Cursors[i] != connections.OffsetToCursor(nd) {
			c.violation(id, "C20/cursor", "edge cursor does not designate its node's offset", o)
			break
		}
	}
	if len(o.Nodes) > 0 && (o.Start != o.Cursors[0] || o.End != o.Cursors[len(o.Cursors)-1]) {
		c.violation(id, "C20/ends", "start/end cursor are not those of the first/last edge", o)
	}
	// the flags of the direction that is paged in, and the window between two matched cursors
	idxOf := func(cur *string) int {
		if cur == nil {
			return -1
		}
		for i := 0; i < k.n; i++ {
			if connections.OffsetToCursor(i) == *cur {
				return i
			}
		}
		return -1
	}
	a, b := idxOf(k.after), idxOf(k.before)
	lo, hi := 0, k.n // the window the cursors leave: (after, before)
	if a >= 0 {
		lo = a + 1
	}
	if b >= 0 && b >= lo {
		hi = b
	}
	for _, nd := range o.Nodes {
		if nd < lo || nd >= hi {
			c.violation(id, "C20/window", fmt.Sprintf("node %d lies outside the window the cursors leave [%d,%d)", nd, lo, hi), o)
			break
		}
	}
	// (with the opposite cursor given as well, elements beyond it exist and the flag may say so)
	if k.first != nil && *k.first >= 0 && k.last == nil && k.before == nil {
		if want := hi-lo > *k.first; o.HasNext != want {
			c.violation(id, "C20/hasNext", fmt.Sprintf("hasNextPage=%v for first=%d over a window of %d elements", o.HasNext, *k.first, hi-lo), o)
		}
	}
	if k.last != nil && *k.last >= 0 && k.first == nil && k.after == nil {
		if want := hi-lo > *k.last; o.HasPrev != want {
			c.violation(id, "C20/hasPrev", fmt.Sprintf("hasPreviousPage=%v for last=%d over a window of %d elements", o.HasPrev, *k.last, hi-lo), o)
		}
	}
	if k.first != nil && *k.first >= 0 && len(o.Nodes) > *k.first {
		c.violation(id, "C20/size", "more than `first` nodes returned", o)
	}
	if k.last != nil && *k.last >= 0 && len(o.Nodes) > *k.last {
		c.violation(id, "C20/size", "more than `last` nodes returned", o)
	}
}

func c20Walk(c *runCtx, inst, n, k int) {
	in := c20Instances[inst]
	// forward
	var seen []int
	var after *string
	pages := 0
	for {
		out := in.call(n, models.ConnectionInput{After: after, First: intp(k)})
		pages++
		seen = append(seen, out.Nodes...)
		if out.Err == "" && out.HasNext != (len(seen) < n) {
			c.violation(-1, "C20/hasNext", fmt.Sprintf("hasNextPage=%v after %d of %d elements (n=%d first=%d inst=%s)", out.HasNext, len(seen), n, n, k, in.name), nil)
		}
		if out.Err != "" || !out.HasNext || pages > n+2 {
			break
		}
		after = strp(out.End)
	}
	c.count("walks")
	okf := len(seen) == n
	for i := range seen {
		okf = okf && seen[i] == i
	}
	if !okf {
		c.violation(-1, "C20/walk-forward", fmt.Sprintf("forward walk n=%d k=%d inst=%s visited %v", n, k, in.name, seen), nil)
	}
	// backward
	seen = nil
	var before *string
	pages = 0
	for {
		out := in.call(n, models.ConnectionInput{Before: before, Last: intp(k)})
		pages++
		seen = append(append([]int{}, out.Nodes...), seen...)
		if out.Err == "" && out.HasPrev != (len(seen) < n) {
			c.violation(-1, "C20/hasPrev", fmt.Sprintf("hasPreviousPage=%v after %d of %d elements (n=%d last=%d inst=%s)", out.HasPrev, len(seen), n, n, k, in.name), nil)
		}
		if out.Err != "" || !out.HasPrev || pages > n+2 {
			break
		}
		before = strp(out.Start)
	}
	okb := len(seen) == n
	for i := range seen {
		okb = okb && seen[i] == i
	}
	if !okb {
		c.violation(-1, "C20/walk-backward", fmt.Sprintf("backward walk n=%d k=%d inst=%s visited %v", n, k, in.name, seen), nil)
	}
}

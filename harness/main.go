// Command harness drives the real git-bug packages in-process for the correspondence
// check of /verif.  One sub-command per property slice:
//
//	harness <Cxx> -seed N -tier quick|thorough -out DIR [-replay FILE]
//
// It writes, under DIR:
//
//	cases.jsonl  one JSON object per case: the input, with the environment-provided
//	             values the Lean driver needs (hashes, cursors, lower-cased strings…)
//	impl.jsonl   {"id":…, "out":…} what the real code did, canonicalised
//	oracle.jsonl {"id":…, "key":…, "what":…} property violations seen directly on the
//	             real code by the implementation-side oracle (empty when all held)
//	stats.json   the input distribution measured on this run
package main

import (
	"bufio"
	"encoding/json"
	"flag"
	"fmt"
	"os"
	"path/filepath"
	"runtime/debug"
	"sort"
	"time"
)

type runCtx struct {
	prop   string
	seed   uint64
	tier   string
	out    string
	replay string

	rng *rng

	cases  *bufio.Writer
	impl   *bufio.Writer
	oracle *bufio.Writer
	files  []*os.File

	nCases   int
	nOracle  int
	stats    map[string]int
	distinct map[string]struct{} // hashes of distinct non-trivial cases
	samples  []any
	extra    map[string]any
}

func (c *runCtx) thorough() bool { return c.tier == "thorough" }

// pick returns q for the quick tier and t for the thorough tier.
func (c *runCtx) pick(q, t int) int {
	if c.thorough() {
		return t
	}
	return q
}

func (c *runCtx) count(key string) { c.stats[key]++ }

// context records what the harness is doing right now, on disk, so that a crash of the real
// code in a goroutine nobody can recover from still leaves the failing input behind.
func (c *runCtx) context(s string) {
	c.extra["context"] = s
	os.WriteFile(filepath.Join(c.out, "last_context.txt"), []byte(s), 0o644)
}
func (c *runCtx) countN(key string, n int) { c.stats[key] += n }

// nontrivial records one distinct non-trivial case, identified by its canonical form.
func (c *runCtx) nontrivial(canon string) { c.distinct[hashStr(canon)] = struct{}{} }

// emit writes one case and the implementation's canonical answer.
func (c *runCtx) emit(in map[string]any, out any) int {
	id := c.nCases
	c.nCases++
	in["id"] = id
	in["p"] = c.prop
	writeJSON(c.cases, in)
	writeJSON(c.impl, map[string]any{"id": id, "out": out})
	if len(c.samples) < 3 {
		c.samples = append(c.samples, map[string]any{"in": in, "impl": out})
	}
	return id
}

// violation records that the implementation-side oracle saw the property fail.
func (c *runCtx) violation(id int, key, what string, detail any) {
	c.nOracle++
	writeJSON(c.oracle, map[string]any{"id": id, "key": key, "what": what, "detail": detail})
}

func writeJSON(w *bufio.Writer, v any) {
	b, err := json.Marshal(v)
	if err != nil {
		panic(err)
	}
	w.Write(b)
	w.WriteByte('\n')
}

func (c *runCtx) open(name string) *bufio.Writer {
	f, err := os.Create(filepath.Join(c.out, name))
	if err != nil {
		panic(err)
	}
	c.files = append(c.files, f)
	return bufio.NewWriterSize(f, 1<<20)
}

func (c *runCtx) close() {
	c.cases.Flush()
	c.impl.Flush()
	c.oracle.Flush()
	for _, f := range c.files {
		f.Close()
	}
	keys := make([]string, 0, len(c.stats))
	for k := range c.stats {
		keys = append(keys, k)
	}
	sort.Strings(keys)
	st := map[string]any{
		"cases":               c.nCases,
		"oracle_violations":   c.nOracle,
		"distinct_nontrivial": len(c.distinct),
		"distribution":        c.stats,
		"samples":             c.samples,
	}
	for k, v := range c.extra {
		st[k] = v
	}
	b, _ := json.MarshalIndent(st, "", " ")
	os.WriteFile(filepath.Join(c.out, "stats.json"), b, 0o644)
}

var props = map[string]func(*runCtx){}

func main() {
	if len(os.Args) < 2 {
		fmt.Fprintln(os.Stderr, "usage: harness <Cxx> -seed N -tier T -out DIR")
		os.Exit(2)
	}
	prop := os.Args[1]
	fs := flag.NewFlagSet("harness", flag.ExitOnError)
	seed := fs.Uint64("seed", 1, "PRNG seed")
	tier := fs.String("tier", "quick", "quick|thorough")
	out := fs.String("out", "", "output directory")
	replay := fs.String("replay", "", "replay file")
	fs.Parse(os.Args[2:])
	fn, ok := props[prop]
	if !ok {
		fmt.Fprintln(os.Stderr, "unknown property slice", prop)
		os.Exit(2)
	}
	if *out == "" {
		fmt.Fprintln(os.Stderr, "-out required")
		os.Exit(2)
	}
	os.MkdirAll(*out, 0o755)
	c := &runCtx{prop: prop, seed: *seed, tier: *tier, out: *out, replay: *replay,
		stats: map[string]int{}, distinct: map[string]struct{}{}, extra: map[string]any{}}
	c.rng = newRng(*seed, prop)
	c.cases = c.open("cases.jsonl")
	c.impl = c.open("impl.jsonl")
	c.oracle = c.open("oracle.jsonl")
	defer c.close()
	// a call into the real code that never returns (a deadlock the slice's own watchdogs cannot get out
	// of) is a finding with the context so far, not a run that is silently cut off from outside
	go func() {
		limit := 600 * time.Second
		if *tier == "thorough" {
			limit = 5400 * time.Second
		}
		time.Sleep(limit)
		c.violation(c.nCases, prop+"/hang", fmt.Sprintf("the run did not finish within %v: a call into the real code does not return", limit), map[string]any{"context": c.extra["context"]})
		c.close()
		os.Exit(0)
	}()
	// a panic of the real code that a slice did not catch itself is a finding with the
	// schedule so far, not a harness failure
	func() {
		defer func() {
			if r := recover(); r != nil {
				c.violation(c.nCases, prop+"/panic", fmt.Sprintf("the real code panicked: %v", r), map[string]any{"stack": trunc(string(debug.Stack()), 3000), "context": c.extra["context"]})
			}
		}()
		fn(c)
	}()
}

func trunc(s string, n int) string {
	if len(s) > n {
		return s[:n]
	}
	return s
}

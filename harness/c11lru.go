//go:build verif

package main

import (
	"fmt"
	"sort"

	"github.com/MichaelMure/git-bug/cache"
	"github.com/MichaelMure/git-bug/entity"
)

// c11Lru: "evicting under memory pressure". Sessions on one cache with a small, changing cache size:
// create, resolve, edit without committing, commit, remove. The model (GitBugModel.Lru: the LRU list,
// the loop of evictIfNeeded, which handles are current) says for every Resolve whether the caller gets
// the instance it holds already; a different answer means another instance was dropped or kept than the
// model says. After the session: every edit that was acknowledged and not committed is still staged on
// the loaded instance, everything committed is stored, and the live cache equals a rebuilt one.
func c11Lru(c *runCtx) {
	defer cleanupScratch()
	N := c.pick(12, 150)
	for si := 0; si < N; si++ {
		r := c.rng.fork()
		repo, dir := newGoGit("c11lru", false)
		u := &c11User{name: "L", dir: dir, repo: repo}
		u.rc = mustCache(repo)
		iden, err := u.rc.Identities().New("user L", "l@example.com")
		if err != nil {
			panic(err)
		}
		if err := u.rc.SetUserIdentity(iden); err != nil {
			panic(err)
		}
		held := map[entity.Id]*cache.BugCache{}
		staged := map[entity.Id]int{}  // acknowledged edits not committed yet
		stored := map[entity.Id]int{}  // operations committed
		var ids []entity.Id
		var calls []map[string]any
		var outs []map[string]any
		var log []string
		record := func(call map[string]any, same []bool, ok bool) {
			calls = append(calls, call)
			if same == nil {
				same = []bool{}
			}
			outs = append(outs, map[string]any{"same": same, "ok": ok})
			log = append(log, fmt.Sprintf("%v", call))
		}
		setSize := func(n int) {
			u.rc.Bugs().SetCacheSize(n)
			record(map[string]any{"c": "setsize", "n": n}, nil, true)
			c.count(fmt.Sprintf("lru-size=%d", n))
		}
		setSize(r.rangeInt(0, 4))
		steps := r.rangeInt(10, c.pick(40, 80))
		failedNew := 0
		for st := 0; st < steps; st++ {
			k := r.intn(100)
			switch {
			case k < 22 || len(ids) == 0:
				b, _, err := u.rc.Bugs().New(fmt.Sprintf("lru bug %d of session %d", st, si), "body")
				if err != nil {
					// the bug is in git; the call failed after storing it
					failedNew++
					record(map[string]any{"c": "new", "id": fmt.Sprintf("failed-%d", failedNew)}, nil, false)
					c.count("lru-new=failed")
					c.violation(-1, "C11/new-under-pressure", fmt.Sprintf("lru session %d: after %v New fails (%v) and the bug is stored in git", si, log, err), nil)
					continue
				}
				ids = append(ids, b.Id())
				held[b.Id()] = b
				stored[b.Id()] = 1
				record(map[string]any{"c": "new", "id": string(b.Id())}, nil, true)
				c.count("lru-new=ok")
			case k < 50:
				id := pickOne(r, ids)
				p, err := u.rc.Bugs().Resolve(id)
				if err != nil {
					panic(err)
				}
				same := held[id] == p
				held[id] = p
				record(map[string]any{"c": "resolve", "id": string(id)}, []bool{same}, true)
				c.count(fmt.Sprintf("lru-resolve-same=%v", same))
			case k < 72, k < 88:
				id := pickOne(r, ids)
				p1, err := u.rc.Bugs().Resolve(id)
				if err != nil {
					panic(err)
				}
				p2, err := u.rc.Bugs().Resolve(id)
				if err != nil {
					panic(err)
				}
				s1, s2 := held[id] == p1, p1 == p2
				held[id] = p2
				if k < 72 {
					ok := false
					if s2 {
						// the instance is the loaded one: an edit on it is safe (an evicted instance is locked for good)
						if _, _, err := p2.AddComment(fmt.Sprintf("edit %d", st)); err != nil {
							panic(err)
						}
						staged[id]++
						ok = true
					}
					record(map[string]any{"c": "edit", "id": string(id)}, []bool{s1, s2}, ok)
					c.count(fmt.Sprintf("lru-edit=%v", ok))
				} else {
					ok := false
					if s2 && p2.NeedCommit() {
						if err := p2.Commit(); err != nil {
							panic(err)
						}
						stored[id] += staged[id]
						staged[id] = 0
						ok = true
					}
					if s2 && (staged[id] > 0) != p2.NeedCommit() {
						c.violation(-1, "C11/lru-staged-lost", fmt.Sprintf("session %d: %v: %d edits were acknowledged on %s and not committed, NeedCommit=%v", si, log, staged[id], id.Human(), p2.NeedCommit()), nil)
					}
					record(map[string]any{"c": "commit", "id": string(id)}, []bool{s1, s2}, ok)
					c.count(fmt.Sprintf("lru-commit=%v", ok))
				}
			case k < 94:
				setSize(r.rangeInt(0, 5))
			default:
				i := r.intn(len(ids))
				id := ids[i]
				if err := u.rc.Bugs().Remove(string(id)); err != nil {
					panic(err)
				}
				ids = append(ids[:i], ids[i+1:]...)
				delete(held, id)
				delete(staged, id)
				delete(stored, id)
				record(map[string]any{"c": "remove", "id": string(id)}, nil, true)
				c.count("lru-remove")
			}
		}
		// at the end every id is resolved once more, in a fixed order: the whole loaded set is read this way
		sorted := append([]entity.Id{}, ids...)
		sort.Slice(sorted, func(i, j int) bool { return sorted[i] < sorted[j] })
		for _, id := range sorted {
			p, err := u.rc.Bugs().Resolve(id)
			if err != nil {
				panic(err)
			}
			same := held[id] == p
			held[id] = p
			record(map[string]any{"c": "resolve", "id": string(id)}, []bool{same}, true)
			// no edit is lost to eviction: what was acknowledged is staged on the instance that is served
			// (an instance that was dropped as soon as it was loaded is locked for good: it is not looked at)
			p2, err := u.rc.Bugs().Resolve(id)
			if err != nil {
				panic(err)
			}
			held[id] = p2
			record(map[string]any{"c": "resolve", "id": string(id)}, []bool{p == p2}, true)
			if p != p2 {
				if staged[id] > 0 {
					c.violation(-1, "C11/lru-staged-lost", fmt.Sprintf("session %d: %v: %s holds %d acknowledged edits and its instance was evicted", si, log, id.Human(), staged[id]), nil)
				}
				continue
			}
			got := len(p2.Snapshot().Operations)
			if got != stored[id]+staged[id] {
				c.violation(-1, "C11/lru-staged-lost", fmt.Sprintf("session %d: %v: %s resolves to %d operations, %d were stored and %d edits acknowledged since", si, log, id.Human(), got, stored[id], staged[id]), nil)
			}
		}
		c.emit(map[string]any{"cmd": "lru", "calls": calls}, outs)
		c.nontrivial(fmt.Sprint(log))
		// and the cache answers what a rebuilt one answers once everything is committed
		u.rc.Bugs().SetCacheSize(1000)
		for _, id := range sorted {
			if staged[id] > 0 {
				if p, err := u.rc.Bugs().Resolve(id); err == nil && p.NeedCommit() {
					if err := p.Commit(); err != nil {
						panic(err)
					}
				}
			}
		}
		live := served(u.rc, nil)
		if re, err := rebuilt(u, nil); err == nil {
			if d := diffServed(live, re); d != "" {
				key := "C11/incoherent"
				if failedNew > 0 {
					key = "C11/new-under-pressure"
				}
				c.violation(-1, key, fmt.Sprintf("lru session %d: after %v the live cache differs from a rebuilt one: %s", si, log, d), nil)
			}
		}
		u.rc.Close()
		u.repo.Close()
	}
}

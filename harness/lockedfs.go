package main

import (
	"os"
	"sync"

	"github.com/go-git/go-billy/v5"

	"github.com/MichaelMure/git-bug/repository"
)

// lockedStorage serialises the filesystem-level operations of the mock repository's
// in-memory LocalStorage: billy's memfs is not goroutine-safe and the cache builds its two
// sub-caches concurrently (test-only artefact of the mock; the real backend uses osfs).
type lockedStorage struct {
	inner repository.LocalStorage
	mu    *sync.Mutex
}

func (l lockedStorage) Create(f string) (billy.File, error) {
	l.mu.Lock()
	defer l.mu.Unlock()
	return l.inner.Create(f)
}
func (l lockedStorage) Open(f string) (billy.File, error) {
	l.mu.Lock()
	defer l.mu.Unlock()
	return l.inner.Open(f)
}
func (l lockedStorage) OpenFile(f string, flag int, perm os.FileMode) (billy.File, error) {
	l.mu.Lock()
	defer l.mu.Unlock()
	return l.inner.OpenFile(f, flag, perm)
}
func (l lockedStorage) Stat(f string) (os.FileInfo, error) {
	l.mu.Lock()
	defer l.mu.Unlock()
	return l.inner.Stat(f)
}
func (l lockedStorage) Rename(a, b string) error {
	l.mu.Lock()
	defer l.mu.Unlock()
	return l.inner.Rename(a, b)
}
func (l lockedStorage) Remove(f string) error {
	l.mu.Lock()
	defer l.mu.Unlock()
	return l.inner.Remove(f)
}
func (l lockedStorage) Join(elem ...string) string { return l.inner.Join(elem...) }
func (l lockedStorage) TempFile(dir, prefix string) (billy.File, error) {
	l.mu.Lock()
	defer l.mu.Unlock()
	return l.inner.TempFile(dir, prefix)
}
func (l lockedStorage) ReadDir(p string) ([]os.FileInfo, error) {
	l.mu.Lock()
	defer l.mu.Unlock()
	return l.inner.ReadDir(p)
}
func (l lockedStorage) MkdirAll(f string, perm os.FileMode) error {
	l.mu.Lock()
	defer l.mu.Unlock()
	return l.inner.MkdirAll(f, perm)
}
func (l lockedStorage) Lstat(f string) (os.FileInfo, error) {
	l.mu.Lock()
	defer l.mu.Unlock()
	return l.inner.Lstat(f)
}
func (l lockedStorage) Symlink(t, link string) error {
	l.mu.Lock()
	defer l.mu.Unlock()
	return l.inner.Symlink(t, link)
}
func (l lockedStorage) Readlink(link string) (string, error) {
	l.mu.Lock()
	defer l.mu.Unlock()
	return l.inner.Readlink(link)
}
func (l lockedStorage) Chroot(p string) (billy.Filesystem, error) {
	l.mu.Lock()
	defer l.mu.Unlock()
	fs, err := l.inner.Chroot(p)
	if err != nil {
		return nil, err
	}
	return lockedFS{fs, l.mu}, nil
}
func (l lockedStorage) Root() string { return l.inner.Root() }
func (l lockedStorage) RemoveAll(p string) error {
	l.mu.Lock()
	defer l.mu.Unlock()
	return l.inner.RemoveAll(p)
}

// lockedFS is the same for a chrooted billy.Filesystem.
type lockedFS struct {
	billy.Filesystem
	mu *sync.Mutex
}

func (l lockedFS) Create(f string) (billy.File, error) {
	l.mu.Lock()
	defer l.mu.Unlock()
	return l.Filesystem.Create(f)
}
func (l lockedFS) Open(f string) (billy.File, error) {
	l.mu.Lock()
	defer l.mu.Unlock()
	return l.Filesystem.Open(f)
}
func (l lockedFS) OpenFile(f string, flag int, perm os.FileMode) (billy.File, error) {
	l.mu.Lock()
	defer l.mu.Unlock()
	return l.Filesystem.OpenFile(f, flag, perm)
}
func (l lockedFS) Remove(f string) error {
	l.mu.Lock()
	defer l.mu.Unlock()
	return l.Filesystem.Remove(f)
}
func (l lockedFS) MkdirAll(f string, perm os.FileMode) error {
	l.mu.Lock()
	defer l.mu.Unlock()
	return l.Filesystem.MkdirAll(f, perm)
}
func (l lockedFS) Stat(f string) (os.FileInfo, error) {
	l.mu.Lock()
	defer l.mu.Unlock()
	return l.Filesystem.Stat(f)
}

type lockedMock struct {
	repository.TestedRepo
	ls lockedStorage
}

func (m *lockedMock) LocalStorage() repository.LocalStorage { return m.ls }

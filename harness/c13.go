package main

import (
	"fmt"
	"path/filepath"
	"sort"
	"strings"

	"github.com/MichaelMure/git-bug/cache"
	_select "github.com/MichaelMure/git-bug/commands/select"
	"github.com/MichaelMure/git-bug/entities/bug"
	"github.com/MichaelMure/git-bug/entity"
	"github.com/MichaelMure/git-bug/repository"
)

func init() { props["C13"] = runC13 }

const hexd = "0123456789abcdef"

func randHexId(r *rng, n int) string {
	b := make([]byte, n)
	for i := range b {
		b[i] = hexd[r.intn(16)]
	}
	return string(b)
}

func runC13(c *runCtx) {
	defer cleanupScratch()
	c13Ids(c)
	c13Resolve(c)
}

// c13Ids: CombineIds / SeparateIds on random ids and on every prefix length, plus
// SeparateIds on arbitrary (unicode) prefixes.
func c13Ids(c *runCtx) {
	N := c.pick(150, 5000)
	weird := []string{"é", "ab€cd", "日本語のテキスト", "a​b", "😀😀😀😀", "x", ""}
	for k := 0; k < N; k++ {
		p, s := randHexId(c.rng, 64), randHexId(c.rng, 64)
		if k%7 == 0 { // longer than needed is fine for CombineIds
			p += randHexId(c.rng, c.rng.intn(5))
		}
		comb := string(entity.CombineIds(entity.Id(p), entity.Id(s)))
		var prefixes []string
		for n := 0; n <= 64; n++ {
			prefixes = append(prefixes, comb[:n])
		}
		// foreign / non-ASCII prefixes (byte offsets differ from rune positions)
		prefixes = append(prefixes, pickOne(c.rng, weird)+comb[:c.rng.intn(20)])
		prefixes = append(prefixes, comb[:c.rng.intn(10)]+pickOne(c.rng, weird)+randHexId(c.rng, c.rng.intn(70)))
		var seps [][]string
		for _, pre := range prefixes {
			a, b := entity.SeparateIds(pre)
			seps = append(seps, []string{a, b})
		}
		id := c.emit(map[string]any{"cmd": "ids", "primary": p, "secondary": s, "prefixes": prefixes},
			map[string]any{"combined": comb, "separated": seps})
		c.count("ids")
		c.nontrivial("ids|" + p + s)
		// oracle: every prefix of the combined id splits into a prefix of each part
		for n := 0; n <= 64; n++ {
			a, b := seps[n][0], seps[n][1]
			if !strings.HasPrefix(p, a) || !strings.HasPrefix(s, b) || len(a)+len(b) != n {
				c.violation(id, "C13/split", fmt.Sprintf("prefix of length %d of the combined id does not split into prefixes of the parts", n),
					map[string]any{"primary": p, "secondary": s, "prefix": comb[:n], "got": seps[n]})
				break
			}
		}
		if len(comb) != 64 {
			c.violation(id, "C13/length", "combined id is not 64 characters", comb)
		}
	}
}

type c13Bug struct {
	Id       string   `json:"id"`
	Comments []string `json:"comments"`
}

func classify(err error) (string, []string) {
	if err == nil {
		return "found", nil
	}
	if mm, ok := err.(*entity.ErrMultipleMatch); ok {
		var ids []string
		for _, m := range mm.Matching {
			ids = append(ids, string(m))
		}
		sort.Strings(ids)
		return "multiple", ids
	}
	if entity.IsErrNotFound(err) || err.Error() == "comment doesn't exist" {
		return "notFound", nil
	}
	return "other:" + err.Error(), nil
}

// c13Resolve: populations of real bugs/comments/identities in a cache; every id, every
// prefix length where matches change, through ResolvePrefix / ResolveExcerptPrefix /
// ResolveComment / identities' ResolvePrefix.
func c13Resolve(c *runCtx) {
	P := c.pick(3, 25)
	for pi := 0; pi < P; pi++ {
		repo := newMock()
		rc := mustCache(repo)
		iden, err := rc.Identities().New("user", "u@example.com")
		if err != nil {
			panic(err)
		}
		rc.SetUserIdentity(iden)
		nb := c.rng.rangeInt(8, c.pick(40, 90))
		var bugs []c13Bug
		for i := 0; i < nb; i++ {
			b, _, err := rc.Bugs().New(fmt.Sprintf("bug %d-%d", pi, i), "first")
			if err != nil {
				panic(err)
			}
			nc := c.rng.intn(4)
			// a comment's combined id is that of the bug and of the operation that made it — whatever
			// happens to the comment later (edits do not give it another address)
			want := []entity.CombinedId{entity.CombineIds(b.Id(), b.Id())}
			for j := 0; j < nc; j++ {
				cid, op, err := b.AddComment(fmt.Sprintf("comment %d", j))
				if err != nil {
					panic(err)
				}
				if cid != entity.CombineIds(b.Id(), op.Id()) {
					c.violation(-1, "C13/combined-id", fmt.Sprintf("AddComment returned %s, which is not the interleaving of the bug id and the operation id", cid), nil)
				}
				want = append(want, entity.CombineIds(b.Id(), op.Id()))
			}
			for j := range want {
				if c.rng.chance(1, 3) {
					if _, err := b.EditComment(want[j], fmt.Sprintf("edited %d", j)); err != nil {
						c.violation(-1, "C13/comment-not-found", fmt.Sprintf("a comment cannot be edited through its combined id %s: %v", want[j], err), nil)
					}
					c.count("population:edited-comment")
					if c.rng.chance(1, 3) {
						b.EditComment(want[j], fmt.Sprintf("edited again %d", j))
					}
				}
			}
			if c.rng.chance(1, 2) {
				b.Commit()
			}
			cb := c13Bug{Id: string(b.Id())}
			for _, w := range want {
				cb.Comments = append(cb.Comments, string(w))
			}
			for k, cm := range b.Snapshot().Comments {
				if k < len(want) && cm.CombinedId() != want[k] {
					c.violation(-1, "C13/combined-id", fmt.Sprintf("comment %d of bug %s is listed under the combined id %s instead of %s", k, b.Id().Human(), cm.CombinedId(), want[k]), nil)
				}
			}
			bugs = append(bugs, cb)
		}
		for i := 0; i < c.rng.intn(6); i++ {
			rc.Identities().New(fmt.Sprintf("other %d", i), "o@example.com")
		}
		var bugIds, idenIds []string
		for _, id := range rc.Bugs().AllIds() {
			bugIds = append(bugIds, string(id))
		}
		for _, id := range rc.Identities().AllIds() {
			idenIds = append(idenIds, string(id))
		}
		sort.Strings(bugIds)
		sort.Strings(idenIds)
		sort.Slice(bugs, func(i, j int) bool { return bugs[i].Id < bugs[j].Id })

		lens := []int{0, 1, 2, 3, 4, 7, 16, 63, 64}
		type q = c13Q
		// one case per (kind, population) so that the driver sees the right id set
		emitQ := func(kind string, ids []string, qs []q, outs []any, fails []string) {
			in := map[string]any{"cmd": "resolve", "ids": ids, "bugs": bugs, "q": qs}
			if kind == "identity" {
				in["bugs"] = []c13Bug{}
			}
			id := c.emit(in, outs)
			for _, f := range fails {
				c.violation(id, "C13/resolve", f, nil)
			}
		}
		// --- bugs by prefix
		var qs []q
		var outs []any
		var fails []string
		resolveOne := func(ids []string, pre string, f func(string) (string, error)) any {
			got, err := f(pre)
			cls, ms := classify(err)
			// oracle straight from the statement of C13
			var want []string
			for _, id := range ids {
				if strings.HasPrefix(id, pre) {
					want = append(want, id)
				}
			}
			c.count(fmt.Sprintf("resolve:%s", cls))
			switch {
			case len(want) == 1:
				if cls != "found" || got != want[0] {
					fails = append(fails, fmt.Sprintf("prefix %q matches exactly %s but resolution gave %s %s", pre, want[0], cls, got))
				}
				return map[string]any{"found": got}
			case len(want) == 0:
				if cls != "notFound" {
					fails = append(fails, fmt.Sprintf("prefix %q matches nothing but resolution gave %s", pre, cls))
				}
			default:
				if cls != "multiple" || strings.Join(ms, ",") != strings.Join(want, ",") {
					fails = append(fails, fmt.Sprintf("prefix %q matches %d ids but resolution gave %s %v", pre, len(want), cls, ms))
				}
			}
			if cls == "found" {
				return map[string]any{"found": got}
			}
			if cls == "multiple" {
				return map[string]any{"multiple": ms}
			}
			if cls == "notFound" {
				return map[string]any{"notFound": true}
			}
			return map[string]any{"error": cls}
		}
		for _, id := range bugIds {
			for _, n := range lens {
				pre := id[:n]
				if c.rng.chance(1, 6) && n > 0 { // a near miss: last character changed
					pre = pre[:n-1] + string(hexd[c.rng.intn(16)])
				}
				qs = append(qs, q{"id", pre})
				outs = append(outs, resolveOne(bugIds, pre, func(p string) (string, error) {
					b, err := rc.Bugs().ResolvePrefix(p)
					if err != nil {
						return "", err
					}
					return string(b.Id()), nil
				}))
				qs = append(qs, q{"id", pre})
				outs = append(outs, resolveOne(bugIds, pre, func(p string) (string, error) {
					b, err := rc.Bugs().ResolveExcerptPrefix(p)
					if err != nil {
						return "", err
					}
					return string(b.Id()), nil
				}))
			}
		}
		emitQ("bug", bugIds, qs, outs, fails)
		c.nontrivial(fmt.Sprintf("pop-bug|%v", bugIds))
		// --- identities by prefix
		qs, outs, fails = nil, nil, nil
		for _, id := range idenIds {
			for _, n := range lens {
				pre := id[:n]
				qs = append(qs, q{"id", pre})
				outs = append(outs, resolveOne(idenIds, pre, func(p string) (string, error) {
					b, err := rc.Identities().ResolvePrefix(p)
					if err != nil {
						return "", err
					}
					return string(b.Id()), nil
				}))
			}
		}
		emitQ("identity", idenIds, qs, outs, fails)
		// --- comments by combined-id prefix
		qs, outs, fails = nil, nil, nil
		for _, b := range bugs {
			for _, cid := range b.Comments {
				for _, n := range []int{0, 1, 2, 3, 4, 5, 6, 7, 8, 10, 12, 16, 32, 64} {
					pre := cid[:n]
					if c.rng.chance(1, 8) && n > 0 {
						pre = pre[:n-1] + string(hexd[c.rng.intn(16)])
					}
					qs = append(qs, q{"comment", pre})
					outs = append(outs, c13Comment(c, rc, bugs, pre, &fails))
				}
			}
		}
		emitQ("comment", bugIds, qs, outs, fails)
		c.nontrivial(fmt.Sprintf("pop-comment|%v", bugs))
		// --- the command-line front (commands/select.Resolve): first argument as a prefix, with
		// nothing selected, another bug selected, or a selection that names no existing bug
		{
			type sq struct {
				Selected string   `json:"selected"`
				Args     []string `json:"args"`
			}
			var sqs []sq
			var souts []any
			var sfails []string
			selFile := filepath.Join("select", bug.Namespace)
			for k := 0; k < c.pick(80, 300); k++ {
				id := bugIds[c.rng.intn(len(bugIds))]
				pre := id[:pickOne(c.rng, []int{0, 1, 1, 2, 2, 3, 3, 4, 7, 64})]
				switch c.rng.intn(8) {
				case 0:
					if len(pre) > 0 { // near miss
						pre = pre[:len(pre)-1] + string(hexd[c.rng.intn(16)])
					}
				case 1:
					pre = pickOne(c.rng, []string{"label", "bad", "feed", "c0de", "a title", "-1"})
				}
				var args []string
				switch c.rng.intn(6) {
				case 0:
				case 1:
					args = []string{pre}
				default:
					args = []string{pre, "more", "arguments"}[:2+c.rng.intn(2)]
				}
				selected := ""
				switch c.rng.intn(4) {
				case 0:
					_select.Clear(rc, bug.Namespace)
				case 1:
					selected = randHexId(c.rng, 64)
				default:
					selected = bugIds[c.rng.intn(len(bugIds))]
				}
				if selected != "" {
					if err := _select.Select(rc, bug.Namespace, entity.Id(selected)); err != nil {
						panic(err)
					}
				}
				got, rest, err := _select.Resolve[*cache.BugCache](rc, bug.Typename, bug.Namespace, rc.Bugs(), args)
				var want []string
				if len(args) > 0 {
					for _, bid := range bugIds {
						if strings.HasPrefix(bid, args[0]) {
							want = append(want, bid)
						}
					}
				}
				selExists := false
				for _, bid := range bugIds {
					selExists = selExists || bid == selected
				}
				cls, ms := classify(err)
				var out any
				switch {
				case err == nil:
					if rest == nil {
						rest = []string{}
					}
					out = map[string]any{"entity": string(got.Id()), "rest": rest}
				case cls == "multiple":
					out = map[string]any{"multiple": ms}
				case _select.IsErrNoValidId(err):
					_, stErr := rc.LocalStorage().Stat(selFile)
					out = map[string]any{"noValidId": selected != "" && stErr != nil}
				default:
					out = map[string]any{"error": err.Error()}
				}
				desc := fmt.Sprintf("arguments %q with selection %q", args, selected)
				switch {
				case len(want) == 1:
					c.count("select:unique-prefix")
					if err != nil || string(got.Id()) != want[0] || strings.Join(rest, "\x00") != strings.Join(args[1:], "\x00") {
						sfails = append(sfails, fmt.Sprintf("%s: the first argument matches exactly %s but the answer is %v", desc, want[0], out))
					}
				case len(want) > 1:
					c.count("select:ambiguous-prefix")
					if selected != "" {
						c.count("select:ambiguous-prefix-with-selection")
					}
					if cls != "multiple" || strings.Join(ms, ",") != strings.Join(want, ",") {
						sfails = append(sfails, fmt.Sprintf("%s: the first argument matches %d ids but the answer is %v, not the multiple-match error listing them", desc, len(want), out))
					}
				case selExists:
					c.count("select:falls-back-to-selection")
					if err != nil || string(got.Id()) != selected || strings.Join(rest, "\x00") != strings.Join(args, "\x00") {
						sfails = append(sfails, fmt.Sprintf("%s: nothing matches, so the selected bug and all arguments are expected, but the answer is %v", desc, out))
					}
				default:
					c.count("select:no-valid-id")
					if !_select.IsErrNoValidId(err) {
						sfails = append(sfails, fmt.Sprintf("%s: nothing matches and nothing valid is selected, but the answer is %v", desc, out))
					}
				}
				if args == nil {
					args = []string{}
				}
				sqs = append(sqs, sq{selected, args})
				souts = append(souts, out)
			}
			_select.Clear(rc, bug.Namespace)
			cid := c.emit(map[string]any{"cmd": "select", "ids": bugIds, "q": sqs}, souts)
			for _, f := range sfails {
				c.violation(cid, "C13/select", f, nil)
			}
		}
		// everything is committed before the cache is closed (staged operations do not survive a close)
		for _, id := range bugIds {
			if b, err := rc.Bugs().Resolve(entity.Id(id)); err == nil {
				if err := b.CommitAsNeeded(); err != nil {
					panic(err)
				}
			}
		}
		// --- the same after a close/reopen with only some of the entities loaded in memory
		// (the answer must not depend on what happens to be loaded)
		if err := rc.Close(); err != nil {
			panic(err)
		}
		rc = mustCache(repo)
		for _, id := range bugIds {
			if c.rng.chance(1, 3) {
				if _, err := rc.Bugs().Resolve(entity.Id(id)); err != nil {
					panic(err)
				}
				c.count("partially-loaded")
			}
		}
		qs, outs, fails = nil, nil, nil
		for _, id := range bugIds {
			for _, n := range []int{0, 1, 2, 3, 64} {
				pre := id[:n]
				qs = append(qs, q{"id", pre})
				outs = append(outs, resolveOne(bugIds, pre, func(p string) (string, error) {
					b, err := rc.Bugs().ResolvePrefix(p)
					if err != nil {
						return "", err
					}
					return string(b.Id()), nil
				}))
			}
		}
		emitQ("bug", bugIds, qs, outs, fails)
		// --- a bug that is not loaded in this session is removed: none of its prefixes answers any more,
		// and what it shared a prefix with resolves as if it had never been there
		var victim string
		for _, id := range bugIds {
			if victim == "" {
				victim = id
			}
		}
		if victim != "" && len(bugIds) > 2 {
			rc.Close()
			rc = mustCache(repo) // nothing loaded
			if err := rc.Bugs().Remove(victim); err != nil {
				c.violation(-1, "C13/remove-failed", "removing a bug that is not loaded failed: "+err.Error(), nil)
			}
			var left []string
			for _, id := range bugIds {
				if id != victim {
					left = append(left, id)
				}
			}
			qs, outs, fails = nil, nil, nil
			for _, n := range []int{1, 2, 3, 7, 64} {
				pre := victim[:n]
				qs = append(qs, q{"id", pre})
				outs = append(outs, resolveOne(left, pre, func(p string) (string, error) {
					b, err := rc.Bugs().ResolvePrefix(p)
					if err != nil {
						return "", err
					}
					return string(b.Id()), nil
				}))
			}
			emitQ("bug", left, qs, outs, fails)
			c.count("removed-not-loaded-then-prefix")
		}
		rc.Close()
	}
	c13AfterPull(c)
}

type c13Q struct {
	K   string `json:"k"`
	Pre string `json:"pre"`
}

// c13Resolve1: one lookup, judged straight from the statement of C13 (as resolveOne in the main slice)
func c13Resolve1(c *runCtx, ids []string, pre string, f func(string) (string, error), fails *[]string) any {
	got, err := f(pre)
	cls, ms := classify(err)
	var want []string
	for _, id := range ids {
		if strings.HasPrefix(id, pre) {
			want = append(want, id)
		}
	}
	c.count(fmt.Sprintf("resolve:%s", cls))
	switch {
	case len(want) == 1:
		if cls != "found" || got != want[0] {
			*fails = append(*fails, fmt.Sprintf("prefix %q matches exactly %s but resolution gave %s %s", pre, want[0], cls, got))
		}
		return map[string]any{"found": got}
	case len(want) == 0:
		if cls != "notFound" {
			*fails = append(*fails, fmt.Sprintf("prefix %q matches nothing but resolution gave %s", pre, cls))
		}
	default:
		if cls != "multiple" || strings.Join(ms, ",") != strings.Join(want, ",") {
			*fails = append(*fails, fmt.Sprintf("prefix %q matches %d ids but resolution gave %s %v", pre, len(want), cls, ms))
		}
	}
	switch cls {
	case "found":
		return map[string]any{"found": got}
	case "multiple":
		return map[string]any{"multiple": ms}
	case "notFound":
		return map[string]any{"notFound": true}
	}
	return map[string]any{"error": cls}
}

// c13AfterPull: lookups made while a prefix identified one bug, then a pull that brings bugs sharing that
// prefix, then the same lookups in the same session: the answer follows the population.
func c13AfterPull(c *runCtx) {
	for rep := 0; rep < c.pick(2, 8); rep++ {
		remote, _ := newGoGit("c13remote", true)
		repoA, _ := newGoGit("c13a", false)
		repoB, _ := newGoGit("c13b", false)
		for _, rp := range []repository.TestedRepo{repoA, repoB} {
			if err := rp.AddRemote("origin", remote.GetLocalRemote()); err != nil {
				panic(err)
			}
		}
		rcA, rcB := mustCache(repoA), mustCache(repoB)
		ia, err := rcA.Identities().New("A", "a@example.com")
		if err != nil {
			panic(err)
		}
		rcA.SetUserIdentity(ia)
		ib, err := rcB.Identities().New("B", "b@example.com")
		if err != nil {
			panic(err)
		}
		rcB.SetUserIdentity(ib)
		for i := 0; i < 3; i++ {
			rcB.Bugs().New(fmt.Sprintf("local %d", i), "m")
		}
		ask := func(when string) {
			var ids []string
			for _, id := range rcB.Bugs().AllIds() {
				ids = append(ids, string(id))
			}
			sort.Strings(ids)
			var qs []c13Q
			var outs []any
			var fails []string
			look := func(p string) (string, error) {
				b, err := rcB.Bugs().ResolvePrefix(p)
				if err != nil {
					return "", err
				}
				return string(b.Id()), nil
			}
			for _, ch := range "0123456789abcdef" {
				qs = append(qs, c13Q{"id", string(ch)})
				outs = append(outs, c13Resolve1(c, ids, string(ch), look, &fails))
			}
			for _, id := range ids {
				qs = append(qs, c13Q{"id", id[:2]})
				outs = append(outs, c13Resolve1(c, ids, id[:2], look, &fails))
			}
			cid := c.emit(map[string]any{"cmd": "resolve", "ids": ids, "bugs": []c13Bug{}, "q": qs, "when": when}, outs)
			for _, f := range fails {
				c.violation(cid, "C13/resolve", when+": "+f, nil)
			}
		}
		ask("before the pull")
		for i := 0; i < 40; i++ {
			rcA.Bugs().New(fmt.Sprintf("remote %d", i), "m")
		}
		rcA.Push("origin")
		if err := rcB.Pull("origin"); err != nil {
			panic(err)
		}
		ask("after the pull")
		c.count("lookups-around-a-pull")
		rcA.Close()
		rcB.Close()
		remote.Close()
		cleanupScratch()
	}
}

func c13Comment(c *runCtx, rc *cache.RepoCache, bugs []c13Bug, pre string, fails *[]string) any {
	b, cid, err := rc.Bugs().ResolveComment(pre)
	cls, ms := classify(err)
	c.count("comment:" + cls)
	// oracle: which (bug, comment) pairs have a combined id starting with pre?
	type pair struct{ b, c string }
	var want []pair
	for _, bb := range bugs {
		for _, cc := range bb.Comments {
			if strings.HasPrefix(cc, pre) {
				want = append(want, pair{bb.Id, cc})
			}
		}
	}
	switch {
	case len(want) == 1:
		if cls != "found" || string(b.Id()) != want[0].b || string(cid) != want[0].c {
			*fails = append(*fails, fmt.Sprintf("combined-id prefix %q identifies exactly comment %s of bug %s but resolution gave %s", pre, want[0].c, want[0].b, cls))
		}
	case len(want) == 0:
		if cls != "notFound" {
			*fails = append(*fails, fmt.Sprintf("combined-id prefix %q matches no comment but resolution gave %s", pre, cls))
		}
	default:
		if cls == "found" {
			*fails = append(*fails, fmt.Sprintf("combined-id prefix %q matches %d comments but resolution returned one", pre, len(want)))
		}
	}
	switch cls {
	case "found":
		return map[string]any{"found": []string{string(b.Id()), string(cid)}}
	case "multiple":
		return map[string]any{"multiple": ms}
	case "notFound":
		return map[string]any{"notFound": true}
	}
	return map[string]any{"error": cls}
}

package main

import (
	"fmt"
	"os"
	"os/exec"
	"path/filepath"
	"runtime"
	"sync/atomic"
	"strings"
	"sync"
	"syscall"
	"time"

	"github.com/go-git/go-billy/v5"
	"github.com/go-git/go-billy/v5/osfs"

	"github.com/MichaelMure/git-bug/entities/bug"
	"github.com/MichaelMure/git-bug/entities/identity"
	"github.com/MichaelMure/git-bug/repository"
	"github.com/MichaelMure/git-bug/util/lamport"
)

func init() { props["C05"] = runC05 }

type clockOp struct {
	O string `json:"o"`
	V uint64 `json:"v,omitempty"`
	J int    `json:"j,omitempty"`
	H bool   `json:"h,omitempty"` // through a clock handle obtained earlier (GetOrCreateClock), not by name
}

// clockSession drives one named clock of a go-git repository (PersistedClock) or of the mock
// repository (MemClock) through a generated operation sequence.
func clockSession(c *runCtx, r *rng, persisted bool, allowDamage bool) {
	name := "verif-clock"
	var repo repository.TestedRepo
	var dir string
	if persisted {
		repo, dir = newGoGit("clk", false)
	} else {
		repo = newMock()
	}
	n := r.rangeInt(1, c.pick(40, 200))
	var ops []clockOp
	outs := []any{}
	var seen uint64 // largest value returned or witnessed so far while the file was intact
	damaged := false
	// a handle on the clock, as the two halves of repo.Increment / repo.Witness hold one while another
	// goroutine lists the clocks (identity creation calls AllClocks): "hold" and "all" are not clock
	// operations (the model skips them), an operation marked h goes through the handle
	var held lamport.Clock
	for i := 0; i < n; i++ {
		var op clockOp
		switch x := r.intn(23); {
		case x >= 20 && x < 22:
			op = clockOp{O: "time", H: true} // and keep the handle
		case x >= 22:
			op = clockOp{O: "all"}
		case x < 7:
			op = clockOp{O: "inc", H: held != nil && r.chance(1, 2)}
		case x < 12:
			op = clockOp{O: "wit", V: uint64(r.intn(int(seen) + 12)), H: held != nil && r.chance(1, 2)}
			if r.chance(1, 10) {
				op.V = seen + uint64(r.intn(100000))
			}
		case x < 15:
			op = clockOp{O: "time"}
		case x < 18 && persisted:
			op = clockOp{O: "reopen"}
		case x < 19 && persisted && allowDamage:
			op = clockOp{O: "delete"}
		case persisted && allowDamage:
			op = clockOp{O: "truncate", J: r.rangeInt(1, 3)}
		default:
			op = clockOp{O: "time"}
		}
		ops = append(ops, op)
		c.count("clock-op=" + op.O)
		var res any
		clockFile := filepath.Join(dir, ".git", gbNamespace, "clocks", name)
		reopen := func() {
			repo.Close()
			rr, err := repository.OpenGoGitRepo(dir, gbNamespace, nil)
			if err != nil {
				panic(err)
			}
			repo = wrapKeyring(rr)
		}
		if op.O == "reopen" || op.O == "delete" || op.O == "truncate" {
			held = nil
		}
		switch op.O {
		case "all":
			if _, err := repo.AllClocks(); err != nil && !damaged {
				c.violation(c.nCases, "C05/all-clocks-failed", "AllClocks failed: "+err.Error(), ops)
			}
			continue
		case "inc":
			var t lamport.Time
			var err error
			if op.H {
				t, err = held.Increment()
			} else {
				t, err = repo.Increment(name)
			}
			if err != nil {
				res = "err"
			} else {
				res = uint64(t)
				if !damaged && uint64(t) <= seen {
					c.violation(c.nCases, "C05/increment-not-fresh", fmt.Sprintf("increment returned %d although %d had been seen", t, seen), ops)
				}
				if uint64(t) > seen {
					seen = uint64(t)
				}
			}
		case "wit":
			var err error
			if op.H {
				err = held.Witness(lamport.Time(op.V))
			} else {
				err = repo.Witness(name, lamport.Time(op.V))
			}
			if err != nil {
				res = "err"
			} else {
				cl, _ := repo.GetOrCreateClock(name)
				res = uint64(cl.Time())
				if uint64(cl.Time()) < op.V {
					c.violation(c.nCases, "C05/witness-not-dominating", fmt.Sprintf("after witnessing %d the clock is %d", op.V, cl.Time()), ops)
				}
				if op.V > seen {
					seen = op.V
				}
			}
		case "time":
			cl, err := repo.GetOrCreateClock(name)
			if err != nil {
				res = "err"
			} else {
				if op.H {
					held = cl
				}
				res = uint64(cl.Time())
				if !damaged && uint64(cl.Time()) < seen {
					c.violation(c.nCases, "C05/clock-went-back", fmt.Sprintf("clock reads %d although %d had been seen", cl.Time(), seen), ops)
				}
			}
		case "reopen":
			reopen()
			res = 0
		case "delete":
			os.Remove(clockFile)
			reopen()
			damaged = true
			res = 0
		case "truncate":
			if b, err := os.ReadFile(clockFile); err == nil {
				k := len(b) - op.J
				if k < 0 {
					k = 0
				}
				os.WriteFile(clockFile, b[:k], 0o644)
			}
			reopen()
			damaged = true
			res = 0
		}
		outs = append(outs, res)
	}
	c.emit(map[string]any{"cmd": "clock", "persisted": persisted, "ops": ops}, outs)
	c.nontrivial(mustJSON(ops))
	repo.Close()
}

func runC05(c *runCtx) {
	defer cleanupScratch()
	N := c.pick(120, 3000)
	for i := 0; i < N; i++ {
		clockSession(c, c.rng.fork(), i%3 != 0, i%4 == 1)
		if i%20 == 19 {
			cleanupScratch()
		}
	}
	c05Entity(c)
	c05Directed(c)
	c05ForeignPush(c)
	c05TransientOpen(c)
	c05Concurrent(c)
	c05FirstAccess(c)
	c05MemStress(c)
	c05LateJoiner(c)
	c05Rebuild(c)
	c05CLI(c)
	c06Clocks(c, "C05") // every crash point of a clock write: the clock never goes back
}

// c05Directed: the interleaving in which a replica fast-forwards onto a merge commit made by
// another replica, then edits: its clock must already dominate the merge commit.
func c05Directed(c *runCtx) {
	for rep := 0; rep < c.pick(3, 20); rep++ {
		r := c.rng.fork()
		s := newReplicaSys(c, r, 2)
		A, B := s.reps[0], s.reps[1]
		s.newBug(A)
		s.push(A)
		s.pull(B, false)
		for k := 0; k < r.rangeInt(1, 3); k++ {
			s.edit(A, 2)
		}
		for k := 0; k < r.rangeInt(1, 3); k++ {
			s.edit(B, 2)
		}
		s.push(A)
		s.pull(B, false) // B writes the merge commit
		s.push(B)
		s.pull(A, false) // A fast-forwards onto it
		for _, rp := range s.reps {
			ids, _ := bug.ListLocalIds(rp.repo)
			var mx uint64
			for _, id := range ids {
				h, _ := rp.repo.ResolveRef("refs/bugs/" + string(id))
				for _, cm := range dumpCommits(rp.repo, h) {
					if cm.Pack != nil && cm.Pack.Edit > mx {
						mx = cm.Pack.Edit
					}
				}
			}
			if ce := clockTime(rp.repo, "bugs-edit"); ce < mx {
				c.violation(-1, "C05/clock-below-stored", fmt.Sprintf("after %v the edit clock of %s is %d but a commit it has merged has edit time %d", s.log, rp.name, ce, mx), nil)
			}
		}
		s.edit(A, 1)
		for _, id := range s.bugIds {
			if _, err := safeRead(A.repo, id); err != nil {
				c.violation(-1, "C05/cannot-read-own-write", fmt.Sprintf("after %v replica A cannot read back what it wrote: %v", s.log, err), nil)
			}
		}
		c.count("directed-merge-then-edit")
		s.close()
		cleanupScratch()
	}
}

// c05Rebuild: any subset of the clock files is lost; reopening with the clock loaders must
// bring every clock back to at least the stored maximum, and the next write must be readable.
func c05Rebuild(c *runCtx) {
	for _, lost := range [][]string{{"bugs-edit"}, {"bugs-create"}, {"bugs-edit", "bugs-create"}} {
		repo, dir := newGoGit("rebuild", false)
		authors := mkAuthors(repo, 1)
		g := newOpGen(c.rng.fork(), authors)
		var last *bug.Bug
		for i := 0; i < 4; i++ {
			b := bug.NewBug()
			b.Append(g.create())
			if err := b.Commit(repo); err != nil {
				panic(err)
			}
			last = b
		}
		// the highest edit times sit on later commits of the bugs, not on their roots
		{
			ids0, _ := bug.ListLocalIds(repo)
			for round := 0; round < 2; round++ {
				for _, id := range ids0 {
					if bb, err := bug.Read(repo, id); err == nil {
						op, _, _ := newOpGenWith(c.rng.fork(), authors, bb).next()
						bb.Append(op)
						if err := bb.Commit(repo); err != nil {
							panic(err)
						}
					}
				}
			}
		}
		var maxEdit, maxCreate uint64
		ids, _ := bug.ListLocalIds(repo)
		for _, id := range ids {
			h, _ := repo.ResolveRef("refs/bugs/" + string(id))
			for _, cm := range dumpCommits(repo, h) {
				if cm.Pack.Edit > maxEdit {
					maxEdit = cm.Pack.Edit
				}
				if cm.Pack.Create > maxCreate {
					maxCreate = cm.Pack.Create
				}
			}
		}
		repo.Close()
		for _, name := range lost {
			os.Remove(filepath.Join(dir, ".git", gbNamespace, "clocks", name))
		}
		rr, err := repository.OpenGoGitRepo(dir, gbNamespace, []repository.ClockLoader{bug.ClockLoader})
		if err != nil {
			c.violation(-1, "C05/reopen-failed", fmt.Sprintf("reopening after losing %v failed: %v", lost, err), nil)
			continue
		}
		ce, cc := clockTime(rr, "bugs-edit"), clockTime(rr, "bugs-create")
		if ce < maxEdit || cc < maxCreate {
			c.violation(-1, "C05/clocks-not-rebuilt", fmt.Sprintf("after losing %v and reopening with the clock loaders the clocks are edit=%d create=%d, below the stored maxima %d/%d", lost, ce, cc, maxEdit, maxCreate), nil)
		}
		b, err := bug.Read(rr, last.Id())
		if err == nil {
			op, _, _ := newOpGenWith(c.rng.fork(), authors, b).next()
			b.Append(op)
			if err := b.Commit(rr); err == nil {
				if _, err := bug.Read(rr, last.Id()); err != nil {
					c.violation(-1, "C05/cannot-read-own-write", fmt.Sprintf("after losing %v: the next edit cannot be read back: %v", lost, err), nil)
				}
			}
		}
		c.count("rebuild-subsets")
		rr.Close()
	}
}

// c05Entity: at the entity level, every written commit's edit time exceeds every edit time
// the repository has written, read or merged before (oracle only; the merge/commit model is
// compared in C02).
func c05Entity(c *runCtx) {
	N := c.pick(12, 80)
	for i := 0; i < N; i++ {
		r := c.rng.fork()
		s := newReplicaSys(c, r, 2)
		maxSeen := map[string]uint64{} // per replica
		check := func(rp *replica, what string) {
			// all edit times reachable from local refs
			ids, _ := bug.ListLocalIds(rp.repo)
			var mx uint64
			for _, id := range ids {
				h, _ := rp.repo.ResolveRef("refs/bugs/" + string(id))
				for _, cm := range dumpCommits(rp.repo, h) {
					if cm.Pack != nil && cm.Pack.Edit > mx {
						mx = cm.Pack.Edit
					}
				}
			}
			ce := clockTime(rp.repo, "bugs-edit")
			if ce < mx {
				c.violation(-1, "C05/clock-below-stored", fmt.Sprintf("after %s the edit clock of %s is %d but a reachable commit has edit time %d; schedule %v", what, rp.name, ce, mx, s.log), nil)
			}
			if ce < maxSeen[rp.name] {
				c.violation(-1, "C05/clock-went-back", fmt.Sprintf("edit clock of %s went from %d to %d; schedule %v", rp.name, maxSeen[rp.name], ce, s.log), nil)
			}
			maxSeen[rp.name] = ce
		}
		s.newBug(s.reps[0])
		s.push(s.reps[0])
		if i%2 == 1 {
			// directed: both edit the first bug concurrently, then B is busy with other bugs (its clock
			// moves on) before it pulls: the merge commit it writes takes its time from B's clock, above
			// everything B has handed out, not from the two heads
			a, b := s.reps[0], s.reps[1]
			s.pull(b, false)
			s.onlyBug = s.bugIds[0]
			s.edit(a, 2)
			s.edit(b, 2)
			s.onlyBug = ""
			for k := 0; k < r.rangeInt(1, 3); k++ {
				s.newBug(b)
			}
			s.push(a)
			s.pull(b, false)
			check(b, "directed concurrent edit, other bugs, pull")
		}
		for st := 0; st < r.rangeInt(5, 20); st++ {
			rp := pickOne(r, s.reps)
			before := clockTime(rp.repo, "bugs-edit")
			switch r.intn(6) {
			case 0:
				s.newBug(rp)
			case 1, 2:
				if s.edit(rp, 3) {
					// the new head's edit time must exceed the clock before
					if after := clockTime(rp.repo, "bugs-edit"); after <= before {
						c.violation(-1, "C05/written-not-above", fmt.Sprintf("an edit was written at clock %d, not above the previous %d", after, before), s.log)
					}
				}
			case 3:
				s.push(rp)
			default:
				s.pull(rp, false)
			}
			check(rp, s.log[len(s.log)-1])
			c.count("entity-steps")
		}
		s.close()
		cleanupScratch()
	}
}

func runGB(gb, dir string, args ...string) (string, error) {
	cmd := exec.Command(gb, args...)
	cmd.Dir = dir
	cmd.Env = append(os.Environ(), "HOME="+dir, "XDG_CONFIG_HOME="+filepath.Join(dir, ".config"), "GIT_CONFIG_NOSYSTEM=1")
	out, err := cmd.CombinedOutput()
	return string(out), err
}

// c05CLI: the command-line path. Clocks deleted (cache present) must be rebuilt to at least
// the stored maximum before the next write; and the known hop-limit finding is replayed.
func c05CLI(c *runCtx) {
	gb := os.Getenv("VERIF_GITBUG")
	if gb == "" {
		c.count("cli=skipped-no-binary")
		return
	}
	dir := scratch("cli")
	if out, err := exec.Command("git", "init", "-q", dir).CombinedOutput(); err != nil {
		panic(string(out))
	}
	must := func(args ...string) string {
		out, err := runGB(gb, dir, args...)
		if err != nil {
			panic(fmt.Sprintf("git-bug %v: %v\n%s", args, err, out))
		}
		return out
	}
	must("user", "new", "-n", "cli user", "-e", "cli@example.com", "--non-interactive")
	for i := 0; i < 6; i++ {
		must("bug", "new", "-t", fmt.Sprintf("bug %d", i), "-m", "message", "--non-interactive")
	}
	maxEdit := func() (uint64, map[string]uint64) {
		repo, err := repository.OpenGoGitRepo(dir, gbNamespace, nil)
		if err != nil {
			panic(err)
		}
		defer repo.Close()
		per := map[string]uint64{}
		var mx uint64
		ids, _ := bug.ListLocalIds(repo)
		for _, id := range ids {
			h, _ := repo.ResolveRef("refs/bugs/" + string(id))
			for _, cm := range dumpCommits(repo, h) {
				if cm.Pack != nil {
					if cm.Pack.Edit > per[string(id)] {
						per[string(id)] = cm.Pack.Edit
					}
					if cm.Pack.Edit > mx {
						mx = cm.Pack.Edit
					}
				}
			}
		}
		return mx, per
	}
	before, perBefore := maxEdit()
	os.RemoveAll(filepath.Join(dir, ".git", gbNamespace, "clocks"))
	must("bug", "new", "-t", "after clock loss", "-m", "message", "--non-interactive")
	_, perAfter := maxEdit()
	for id, e := range perAfter {
		if _, old := perBefore[id]; !old {
			c.count("cli=clock-rebuild-checked")
			if e <= before {
				c.violation(-1, "C05/cli-clocks-not-rebuilt", fmt.Sprintf("after the clock files were deleted, `git-bug bug new` stored a bug at edit time %d while existing bugs reach %d", e, before), nil)
			}
		}
	}
	c05HopLimit(c)
}

// c05HopLimit replays the known finding: after witnessing a valid bug whose clock is far
// ahead, an ordinary edit of an old bug is committed without error and is then unreadable.
func c05HopLimit(c *runCtx) {
	repo, _ := newGoGit("hop", false)
	defer repo.Close()
	authors := mkAuthors(repo, 1)
	g := newOpGen(c.rng.fork(), authors)
	old := bug.NewBug()
	old.Append(g.create())
	if err := old.Commit(repo); err != nil {
		panic(err)
	}
	// a valid bug whose root was created by a replica far ahead
	g2 := newOpGen(c.rng.fork(), authors)
	cop := g2.create()
	far := writeCrafted(repo, craftPack{author: string(authors[0].Id()), ops: opsOf1(cop), edit: 5_000_001, create: 5_000_001, version: bugFormatVersion})
	farId := cop.Id()
	repo.UpdateRef("refs/bugs/"+string(farId), far)
	if _, err := bug.Read(repo, farId); err != nil { // witnesses the far clock
		panic(err)
	}
	b, err := bug.Read(repo, old.Id())
	if err != nil {
		panic(err)
	}
	op, _, _ := newOpGenWith(c.rng.fork(), authors, b).next()
	b.Append(op)
	if err := b.Commit(repo); err != nil {
		c.count("hop=commit-refused") // would be fine: the property only forbids unreadable writes
		return
	}
	if _, err := bug.Read(repo, old.Id()); err != nil {
		c.violation(-1, "C05/hop-limit-after-far-clock", "after witnessing a bug at edit time 5,000,001 an ordinary edit of an older bug was committed without error and the bug is then unreadable: "+strings.TrimSpace(err.Error()), nil)
	} else {
		c.count("hop=readable")
	}
}

var _ = identity.Identity{}

// c05ForeignPush: a local ref that moved without this repository ever reading the new commits
// (another clone pushed straight into it), then a pull that has to write a merge commit: the merge
// commit's edit time must still be above both parents' — the merge reads, hence witnesses, both sides.
func c05ForeignPush(c *runCtx) {
	for rep := 0; rep < c.pick(3, 20); rep++ {
		r := c.rng.fork()
		s := newReplicaSys(c, r, 3)
		A, B, C := s.reps[0], s.reps[1], s.reps[2]
		s.newBug(A)
		s.push(A)
		s.pull(B, false)
		s.pull(C, false)
		if err := B.repo.AddRemote("peer", A.repo.GetLocalRemote()); err != nil {
			panic(err)
		}
		for k := 0; k < r.rangeInt(2, 5); k++ {
			s.edit(B, 1)
		}
		if _, err := bug.Push(B.repo, "peer"); err != nil {
			c.count("foreign-push=refused")
			s.close()
			cleanupScratch()
			continue
		}
		s.logf("B:push@A")
		s.edit(C, 1)
		s.push(C)
		// diverged: A's ref holds B's commits, which A never read — and does not read now either, except
		// through the merge itself (the replica engine's own pull reads every bug first, for its oracle)
		if _, err := bug.Fetch(A.repo, "origin"); err != nil {
			panic(err)
		}
		for res := range bug.MergeAll(A.repo, resolversFor(A.repo), "origin", s.authors[0]) {
			if res.Err != nil {
				c.violation(-1, "C05/merge-failed", fmt.Sprintf("after %v the merge on A fails: %v", s.log, res.Err), nil)
			}
		}
		s.logf("A:pull(raw)")
		for _, id := range s.bugIds {
			if _, err := safeRead(A.repo, id); err != nil {
				c.violation(-1, "C05/cannot-read-own-write", fmt.Sprintf("after %v replica A cannot read the bug it has just merged: %v", s.log, err), nil)
			}
		}
		s.edit(A, 1)
		for _, id := range s.bugIds {
			if _, err := safeRead(A.repo, id); err != nil {
				c.violation(-1, "C05/cannot-read-own-write", fmt.Sprintf("after %v replica A cannot read back what it wrote: %v", s.log, err), nil)
			}
		}
		c.count("foreign-push-then-merge")
		s.close()
		cleanupScratch()
	}
}

// failOpenFS fails one Open of a clock file with "too many open files".
type failOpenFS struct {
	billy.Filesystem
	armed bool
}

func (f *failOpenFS) Open(name string) (billy.File, error) {
	if f.armed {
		f.armed = false
		return nil, &os.PathError{Op: "open", Path: name, Err: syscall.EMFILE}
	}
	return f.Filesystem.Open(name)
}

func (f *failOpenFS) OpenFile(name string, flag int, perm os.FileMode) (billy.File, error) {
	if f.armed && flag&os.O_CREATE == 0 {
		f.armed = false
		return nil, &os.PathError{Op: "open", Path: name, Err: syscall.EMFILE}
	}
	return f.Filesystem.OpenFile(name, flag, perm)
}

// c05TransientOpen: the first access of a process to an existing clock fails for a passing reason
// (file descriptors exhausted).  That is an error — not "this clock does not exist": the caller
// (GoGitRepo.GetOrCreateClock) answers the latter by creating the clock anew at 1 over the intact file.
func c05TransientOpen(c *runCtx) {
	for rep := 0; rep < c.pick(3, 20); rep++ {
		r := c.rng.fork()
		dir := scratch("c05open")
		fs := &failOpenFS{Filesystem: osfs.New(dir)}
		clk, err := lamport.NewPersistedClock(fs, "clocks/bugs-edit")
		if err != nil {
			panic(err)
		}
		n := r.rangeInt(3, 60)
		for k := 0; k < n; k++ {
			clk.Increment()
		}
		before := uint64(clk.Time())
		// a new process
		var after uint64
		var steps []string
		for try := 0; try < 2; try++ {
			fs.armed = try == 0
			c2, err := lamport.LoadPersistedClock(fs, "clocks/bugs-edit")
			if err == lamport.ErrClockNotExist {
				// what the repository does with that answer
				steps = append(steps, "load: does not exist -> created anew")
				c2, err = lamport.NewPersistedClock(fs, "clocks/bugs-edit")
			}
			if err != nil {
				steps = append(steps, "load: error ("+trunc(err.Error(), 40)+")")
				continue
			}
			v, err := c2.Increment()
			if err != nil {
				steps = append(steps, "increment: error")
				continue
			}
			after = uint64(v)
			steps = append(steps, fmt.Sprintf("increment -> %d", after))
			break
		}
		c.count("transient-open")
		if after != 0 && after <= before {
			c.violation(-1, "C05/clock-went-back", fmt.Sprintf("a clock standing at %d, whose file could not be opened once (too many open files), handed out %d afterwards: %v", before, after, steps), nil)
		}
		fs.armed = false
		if c3, err := lamport.LoadPersistedClock(fs, "clocks/bugs-edit"); err != nil || uint64(c3.Time()) < before {
			c.violation(-1, "C05/clock-went-back", fmt.Sprintf("after a failed open the clock file no longer holds at least %d (%v)", before, err), nil)
		}
		os.RemoveAll(dir)
	}
}

// c05Concurrent: several goroutines of one process use one repository's clock at once, as the web UI's
// request handlers do when they commit different bugs: every increment hands out another value, a
// witness never takes the clock back, and what the clock file holds once everybody returned is what
// the clock stood at — the next process must not hand the same times out again.
func c05Concurrent(c *runCtx) {
	for rep := 0; rep < c.pick(16, 60); rep++ {
		r := c.rng.fork()
		repo, dir := newGoGit("c05conc", false)
		start := uint64(r.rangeInt(1, 500))
		// (one run in three: nobody has touched the clock yet — every goroutine's first call finds it unloaded)
		if rep%3 != 1 {
			repo.Witness("bugs-edit", lamport.Time(start))
		} else {
			c.count("concurrent-clock-first-access")
		}
		G, K := r.rangeInt(2, 8), r.rangeInt(20, 120)
		var wg sync.WaitGroup
		var mu sync.Mutex
		seen := map[uint64]int{}
		backwards := ""
		gate := make(chan struct{})
		for g := 0; g < G; g++ {
			wg.Add(1)
			go func(g int) {
				defer wg.Done()
				<-gate
				last := uint64(0)
				for k := 0; k < K; k++ {
					if g%3 == 2 && k%2 == 1 {
						// a witness in between (a pull, a read): of something seen long ago, or of a time just
						// ahead of the clock, which increments by the others overtake while it is being recorded
						w := lamport.Time(start)
						if k%4 == 1 {
							w = lamport.Time(clockTime(repo, "bugs-edit") + 2)
						}
						repo.Witness("bugs-edit", w)
						continue
					}
					v, err := repo.Increment("bugs-edit")
					if err != nil {
						mu.Lock()
						backwards = "increment failed: " + err.Error()
						mu.Unlock()
						return
					}
					mu.Lock()
					seen[uint64(v)]++
					if uint64(v) <= last {
						backwards = fmt.Sprintf("goroutine %d got %d after %d", g, v, last)
					}
					mu.Unlock()
					last = uint64(v)
				}
			}(g)
		}
		close(gate)
		wg.Wait()
		c.count("concurrent-clock-runs")
		if backwards != "" {
			c.violation(-1, "C05/clock-went-back", fmt.Sprintf("%d goroutines incrementing one clock: %s", G, backwards), nil)
		}
		for v, n := range seen {
			if n > 1 {
				c.violation(-1, "C05/time-handed-out-twice", fmt.Sprintf("%d goroutines incrementing one clock: the edit time %d was handed out %d times", G, v, n), nil)
				break
			}
		}
		mem := clockTime(repo, "bugs-edit")
		var mx uint64
		for v := range seen {
			if v > mx {
				mx = v
			}
		}
		if mem < mx {
			c.violation(-1, "C05/clock-went-back", fmt.Sprintf("the clock stands at %d after handing out %d", mem, mx), nil)
		}
		repo.Close()
		// the next process
		r2, err := openGoGit(dir)
		if err != nil {
			c.violation(-1, "C05/cannot-reopen", "after concurrent use of the clock the repository does not open: "+err.Error(), nil)
			continue
		}
		if disk := clockTime(r2, "bugs-edit"); disk < mx {
			c.violation(-1, "C05/clock-went-back", fmt.Sprintf("%d goroutines used one clock at once: it handed out times up to %d, the clock file holds %d: the next process hands the same times out again", G, mx, disk), nil)
		}
		r2.Close()
		cleanupScratch()
	}
}

// c05LateJoiner: a replica that has seen little takes in, in one pull, a bug whose history was merged from
// branches of unequal length: its clocks — the creation clock too — stand at or above every time stored in
// what it merged.
func c05LateJoiner(c *runCtx) {
	for rep := 0; rep < c.pick(3, 15); rep++ {
		r := c.rng.fork()
		s := newReplicaSys(c, r, 3)
		A, B, C := s.reps[0], s.reps[1], s.reps[2]
		s.newBug(A) // creation time 1
		s.newBug(A) // creation time 2: the one that gets the uneven history
		s.onlyBug = s.bugIds[1]
		s.push(A)
		s.pull(C, false)
		for k := 0; k < r.rangeInt(3, 4); k++ {
			s.edit(C, 1)
		}
		s.edit(A, 1)
		s.push(A)
		s.pull(C, false) // C writes the merge commit over branches of 1 and 3..4 commits
		s.push(C)
		s.pull(B, false) // B has never seen anything: the oracle of pull compares its clocks with what it merged
		c.count("late-joiner")
		s.close()
		cleanupScratch()
	}
}

// c05MemStress: the in-memory clock (under every persisted one) with all cores on it: incrementers in a
// tight loop, witnesses of times just ahead of the clock in another.  No time is handed out twice and
// nobody sees the clock go back.
func c05MemStress(c *runCtx) {
	old := runtime.GOMAXPROCS(0)
	defer runtime.GOMAXPROCS(old)
	for rep := 0; rep < c.pick(6, 40); rep++ {
		clk := lamport.NewMemClockWithTime(uint64(10 + rep))
		const G = 8
		perG := make([][]uint64, G)
		wentBack := make([]string, G)
		var wg sync.WaitGroup
		stop := make(chan struct{})
		for g := 0; g < G; g++ {
			wg.Add(1)
			go func(g int) {
				defer wg.Done()
				last := uint64(0)
				for {
					select {
					case <-stop:
						return
					default:
					}
					if g%2 == 0 {
						v, _ := clk.Increment()
						perG[g] = append(perG[g], uint64(v))
					} else {
						clk.Witness(clk.Time() + lamport.Time(1+g%3))
					}
					if t := uint64(clk.Time()); t < last {
						wentBack[g] = fmt.Sprintf("goroutine %d read the clock at %d after having read %d", g, t, last)
					} else {
						last = t
					}
					if len(perG[g]) > 200000 {
						return
					}
				}
			}(g)
		}
		time.Sleep(60 * time.Millisecond)
		close(stop)
		wg.Wait()
		seen := map[uint64]bool{}
		dup := uint64(0)
		for _, l := range perG {
			for _, v := range l {
				if seen[v] {
					dup = v
				}
				seen[v] = true
			}
		}
		c.count("mem-clock-stress-runs")
		if dup != 0 {
			c.violation(-1, "C05/time-handed-out-twice", fmt.Sprintf("in-memory clock under %d goroutines (increments against witnesses of times just ahead): the time %d was handed out twice", G, dup), nil)
			return
		}
		for _, w := range wentBack {
			if w != "" {
				c.violation(-1, "C05/clock-went-back", "in-memory clock under concurrent increments and witnesses: "+w, nil)
				return
			}
		}
	}
}

// c05FirstAccess: a process that has just opened the repository (no clock loaded yet, or no clock file at all)
// and several goroutines whose first call on the clock comes at the same moment — the web UI's first requests.
// Every time handed out is above everything handed out before and is handed out once; round after round, each
// round a new process.
func c05FirstAccess(c *runCtx) {
	for rep := 0; rep < c.pick(3, 12); rep++ {
		r := c.rng.fork()
		repo, dir := newGoGit("c05first", false)
		repo.Close()
		last := uint64(0)
		for round := 0; round < c.pick(12, 40); round++ {
			rp, err := openGoGit(dir)
			if err != nil {
				c.violation(-1, "C05/cannot-reopen", "round "+fmt.Sprint(round)+": "+err.Error(), nil)
				break
			}
			G := r.rangeInt(2, 8)
			times := make([]uint64, G)
			errs := make([]error, G)
			var ready, start int32
			var wg sync.WaitGroup
			for g := 0; g < G; g++ {
				wg.Add(1)
				go func(g int) {
					defer wg.Done()
					// (spinning, so that all of them are running when they are released)
					atomic.AddInt32(&ready, 1)
					for atomic.LoadInt32(&start) == 0 {
					}
					t, err := rp.Increment("bugs-edit")
					times[g], errs[g] = uint64(t), err
				}(g)
			}
			for atomic.LoadInt32(&ready) < int32(G) {
				runtime.Gosched()
			}
			atomic.StoreInt32(&start, 1)
			wg.Wait()
			c.count("first-access-rounds")
			seen := map[uint64]bool{}
			mx := last
			for g := 0; g < G; g++ {
				if errs[g] != nil {
					c.violation(-1, "C05/increment-failed", fmt.Sprintf("first access by %d goroutines: %v", G, errs[g]), nil)
					continue
				}
				if times[g] <= last {
					c.violation(-1, "C05/clock-went-back", fmt.Sprintf("round %d, %d goroutines at their first call on the clock: %d handed out, not above %d handed out by an earlier process (%v)", round, G, times[g], last, times), nil)
				}
				if seen[times[g]] {
					c.violation(-1, "C05/time-handed-out-twice", fmt.Sprintf("round %d, %d goroutines at their first call on the clock: the edit time %d was handed out twice (%v)", round, G, times[g], times), nil)
				}
				seen[times[g]] = true
				if times[g] > mx {
					mx = times[g]
				}
			}
			last = mx
			rp.Close()
		}
	}
}

package main

import (
	"bytes"
	"encoding/json"
	"fmt"
	"io"
	"net"
	"os"
	"os/exec"
	"path/filepath"
	"regexp"
	"sort"
	"strconv"
	"strings"
	"syscall"
	"time"

	"github.com/MichaelMure/git-bug/cache"
	"github.com/MichaelMure/git-bug/entities/bug"
	"github.com/MichaelMure/git-bug/entities/identity"
	"github.com/MichaelMure/git-bug/entity"
)

func init() { props["C19"] = runC19 }

func gbEnv(dir string, extra ...string) []string {
	return append(append(os.Environ(), "HOME="+dir, "XDG_CONFIG_HOME="+filepath.Join(dir, ".config"), "GIT_CONFIG_NOSYSTEM=1"), extra...)
}

// c19Template: a go-git repository with two bugs; with or without an adopted user identity.
func c19Template(gb string, withUser bool) (string, entity.Id) {
	repo, dir := newGoGit("c19t", false)
	iden, err := identity.NewIdentity(repo, "locker", "l@example.com")
	if err != nil {
		panic(err)
	}
	iden.Commit(repo)
	var first entity.Id
	for i := 0; i < 2; i++ {
		b, _, err := bug.Create(iden, time.Now().Unix(), fmt.Sprintf("bug %d", i), "message", nil, nil)
		if err != nil {
			panic(err)
		}
		b.Commit(repo)
		if i == 0 {
			first = b.Id()
		}
	}
	repo.Close()
	if withUser {
		if out, err := runGB(gb, dir, "user", "adopt", string(iden.Id())); err != nil {
			panic("user adopt: " + out)
		}
	} else {
		runGB(gb, dir, "bug") // builds the cache
	}
	return dir, first
}

func copyDir(src string) string {
	dst := scratch("c19c")
	os.RemoveAll(dst)
	if out, err := exec.Command("cp", "-a", src, dst).CombinedOutput(); err != nil {
		panic(string(out))
	}
	return dst
}

func lockPath(dir string) string { return filepath.Join(dir, ".git", gbNamespace, "lock") }

func readLock(dir string) string {
	b, err := os.ReadFile(lockPath(dir))
	if err != nil {
		return ""
	}
	return string(b)
}

// a holder: `git-bug bug comment new <id> -F -` takes the lock in PreRunE and then reads the
// message from its standard input, which we keep open.
type c19Proc struct {
	cmd    *exec.Cmd
	stdin  io.WriteCloser
	stderr *bytes.Buffer
	done   chan struct{}
	err    error
}

func c19Start(gb, dir string, id entity.Id, env ...string) *c19Proc {
	p := &c19Proc{stderr: &bytes.Buffer{}, done: make(chan struct{})}
	p.cmd = exec.Command(gb, "bug", "comment", "new", string(id), "-F", "-")
	p.cmd.Dir = dir
	p.cmd.Env = gbEnv(dir, env...)
	p.cmd.Stderr = p.stderr
	p.cmd.Stdout = io.Discard
	p.stdin, _ = p.cmd.StdinPipe()
	if err := p.cmd.Start(); err != nil {
		panic(err)
	}
	go func() { p.err = p.cmd.Wait(); close(p.done) }()
	return p
}

func (p *c19Proc) pid() string { return strconv.Itoa(p.cmd.Process.Pid) }

func (p *c19Proc) exited() bool {
	select {
	case <-p.done:
		return true
	default:
		return false
	}
}

func (p *c19Proc) wait(d time.Duration) bool {
	select {
	case <-p.done:
		return true
	case <-time.After(d):
		return false
	}
}

// waitOpen: until the process holds the lock (the lock file shows its pid) or has exited
func (p *c19Proc) waitOpen(dir string) string {
	for i := 0; i < 5000; i++ {
		if p.exited() {
			return "exited"
		}
		if readLock(dir) == p.pid() {
			return "acquired"
		}
		time.Sleep(2 * time.Millisecond)
	}
	return "timeout"
}

var lockedByRe = regexp.MustCompile(`already locked by the process pid (\d+)`)

var lastReadErr error

func commentCount(dir string, id entity.Id) int {
	repo, err := openGoGit(dir)
	if err != nil {
		lastReadErr = err
		return -1
	}
	defer repo.Close()
	b, err := bug.Read(repo, id)
	if err != nil {
		lastReadErr = err
		return -1
	}
	return len(b.Compile().Comments)
}

func refsOfDir(dir string) string {
	repo, err := openGoGit(dir)
	if err != nil {
		return "unreadable"
	}
	defer repo.Close()
	return mustJSON(snapshotRefs(repo))
}

func runC19(c *runCtx) {
	defer cleanupScratch()
	gb := os.Getenv("VERIF_GITBUG")
	if gb == "" {
		panic("C19 needs the git-bug binary (VERIF_GITBUG)")
	}
	var facts struct {
		LockExclusive bool `json:"lock_exclusive"`
	}
	if b, err := os.ReadFile(filepath.Join(os.Getenv("VERIF_BUILD"), "facts.json")); err == nil {
		json.Unmarshal(b, &facts)
	}
	tmplUser, bugId := c19Template(gb, true)
	c19Schedules(c, gb, tmplUser, bugId, facts.LockExclusive)
	c19KillAnytime(c, gb, tmplUser, bugId)
	c19Term(c, gb, tmplUser, bugId)
	c19PartialIndex(c, gb, tmplUser)
	c19Commands(c, gb)
	c19Races(c, gb, tmplUser, bugId, facts.LockExclusive)
	c19LockForms(c, gb, tmplUser, bugId)
	c19Webui(c, gb, tmplUser)
	c19DoubleClose(c)
	c19EmptyLock(c, gb, tmplUser, bugId)
}

// c19Webui: the one long-running command, in the configuration in which it fails at once (its port is
// taken): like every command it gives the lock back.
func c19Webui(c *runCtx, gb, tmpl string) {
	dir := copyDir(tmpl)
	ln, err := net.Listen("tcp", "127.0.0.1:0")
	if err != nil {
		c.count("webui=skipped-no-listener")
		return
	}
	defer ln.Close()
	port := ln.Addr().(*net.TCPAddr).Port
	cmd := exec.Command(gb, "webui", "--host", "127.0.0.1", "--port", strconv.Itoa(port), "--no-open")
	cmd.Dir = dir
	cmd.Env = gbEnv(dir)
	done := make(chan struct{})
	var out []byte
	var cerr error
	go func() { out, cerr = cmd.CombinedOutput(); close(done) }()
	select {
	case <-done:
	case <-time.After(30 * time.Second):
		cmd.Process.Kill()
		<-done
		c.violation(-1, "C19/harness", "webui on a taken port did not exit: "+trunc(string(out), 200), nil)
		return
	}
	c.count(fmt.Sprintf("webui-port-taken/failed=%v", cerr != nil))
	if cerr == nil {
		c.violation(-1, "C19/harness", "webui on a taken port reported success: "+trunc(string(out), 200), nil)
	}
	if l := readLock(dir); l != "" {
		c.violation(-1, "C19/lock-left-by-command", fmt.Sprintf("`git-bug webui` that could not start (port %d in use: %s) left the lock file behind (%q)", port, trunc(string(out), 120), l), map[string]any{"command": "webui"})
	}
	os.RemoveAll(dir)
}

// c19DoubleClose: at the level of the cache API, inside one process: a cache that was closed does not
// touch the lock any more — closing it again (a signal handler racing with the normal exit path, a
// deferred Close after an explicit one) must not remove the lock of whoever holds the repository by then.
func c19DoubleClose(c *runCtx) {
	repo, dir := newGoGit("c19dc", false)
	a, err := cache.NewRepoCacheNoEvents(repo)
	if err != nil {
		panic(err)
	}
	if err := a.Close(); err != nil {
		panic(err)
	}
	r2, err := openGoGit(dir)
	if err != nil {
		panic(err)
	}
	b, err := cache.NewRepoCacheNoEvents(r2)
	if err != nil {
		c.violation(-1, "C19/dead-holder-blocks", "a repository whose cache was closed cannot be opened again: "+err.Error(), nil)
		return
	}
	held := readLock(dir)
	a.Close() // the second time
	c.count("double-close")
	if l := readLock(dir); l != held {
		c.violation(-1, "C19/live-lock-removed", fmt.Sprintf("closing an already closed cache a second time changed the lock file of the cache that holds the repository now (%q -> %q)", held, l), nil)
	}
	r3, err := openGoGit(dir)
	if err == nil {
		if x, err := cache.NewRepoCacheNoEvents(r3); err == nil {
			c.violation(-1, "C19/live-lock-removed", "after a second Close of another, already closed cache, a third cache opened the repository next to the one that holds it", nil)
			x.Close()
		}
		r3.Close()
	}
	b.Close()
	if l := readLock(dir); l != "" {
		c.violation(-1, "C19/lock-left", "lock file left after every cache was closed: "+l, nil)
	}
}

// c19EmptyLock: the known finding. A process that dies between creating the lock file and writing
// its pid leaves an empty file; nothing recovers it.
func c19EmptyLock(c *runCtx, gb, tmpl string, id entity.Id) {
	dir := copyDir(tmpl)
	y := filepath.Join(dir, "yield")
	p0 := c19Start(gb, dir, id, "GITBUG_VERIF_YIELD=lock:after-create="+y)
	reached := false
	for i := 0; i < 3000 && !p0.exited(); i++ {
		if _, err := os.Stat(y + ".reached"); err == nil {
			reached = true
			break
		}
		time.Sleep(2 * time.Millisecond)
	}
	if !reached {
		c.count("empty-lock=yield-not-reached")
		p0.cmd.Process.Kill()
		p0.wait(5 * time.Second)
		os.RemoveAll(dir)
		return
	}
	p0.cmd.Process.Kill()
	p0.wait(5 * time.Second)
	content, _ := os.ReadFile(lockPath(dir))
	out, err := runGB(gb, dir, "bug")
	c.count(fmt.Sprintf("empty-lock/next-open-fails=%v", err != nil))
	if err != nil {
		c.violation(-1, "C19/empty-lock-never-recovered", fmt.Sprintf("a process killed between creating the lock file and writing its pid left a lock file holding %q; the next command fails: %s", content, trunc(out, 160)), nil)
	}
	os.RemoveAll(dir)
}

// c19LockForms: what the lock file can hold and who can be asked about it.  A dead holder's pid of
// any length the kernel can hand out is recovered; the pid of a live process that is not ours to
// signal (init; a process of another user) is a live holder: the open is refused, names it and
// leaves the file alone.
func c19LockForms(c *runCtx, gb, tmpl string, id entity.Id) {
	pidMax := 4194304
	if b, err := os.ReadFile("/proc/sys/kernel/pid_max"); err == nil {
		if v, err := strconv.Atoi(strings.TrimSpace(string(b))); err == nil {
			pidMax = v
		}
	}
	alive := func(p int) bool {
		_, err := os.Stat(fmt.Sprintf("/proc/%d", p))
		return err == nil
	}
	// pids of several lengths that no process has now (the kernel hands out pids below pid_max only;
	// where pid_max is at the kernel's limit, a candidate that happens to be in use is left out)
	var dead []int
	for _, w := range []int{99999, 999999, 4194303, pidMax - 1, pidMax + 1} {
		if w > 1 && w <= 4194304 && !alive(w) {
			dead = append(dead, w)
		}
	}
	for _, pid := range dead {
		dir := copyDir(tmpl)
		os.WriteFile(lockPath(dir), []byte(strconv.Itoa(pid)), 0o644)
		out, err := runGB(gb, dir, "bug")
		c.count(fmt.Sprintf("lock-form/dead-digits=%d", len(strconv.Itoa(pid))))
		if err != nil && alive(pid) {
			c.count("lock-form/pid-came-alive")
		} else if err != nil {
			c.violation(-1, "C19/dead-holder-blocks", fmt.Sprintf("the lock left by a dead process with pid %d is not recovered: %s", pid, trunc(out, 200)), nil)
		} else if readLock(dir) != "" {
			c.violation(-1, "C19/lock-left-by-command", fmt.Sprintf("after recovering the lock of dead pid %d the command left a lock file: %q", pid, readLock(dir)), nil)
		}
		os.RemoveAll(dir)
	}
	// what the reader makes of a lock file's content, against the model (GitBugModel.LockFile.readLock
	// with the limits found in the source): numbers no process has, too long, not a number
	var lf struct {
		Limit  int `json:"lock_read_limit"`
		Refuse int `json:"lock_refuse_len"`
	}
	if b, err := os.ReadFile(filepath.Join(os.Getenv("VERIF_BUILD"), "facts.json")); err == nil {
		json.Unmarshal(b, &lf)
	}
	for _, content := range []string{"4194303", "9999999", "99999999", "999999999", "1234567890", "12345678901234", "abc", "", "12 ", "0x1f", "७", "+41943"} {
		dir := copyDir(tmpl)
		os.WriteFile(lockPath(dir), []byte(content), 0o644)
		out, err := runGB(gb, dir, "bug")
		res := "ok"
		switch {
		case err == nil:
		case strings.Contains(out, "the lock file should be"):
			res = "tooLong"
		case strings.Contains(out, "already locked by the process"):
			res = "ok" // parsed; the number happens to be a live process
		case strings.Contains(out, "invalid syntax") || strings.Contains(out, "Atoi") || strings.Contains(out, "ParseInt"):
			res = "notANumber"
		default:
			res = "other:" + trunc(out, 120)
		}
		c.emit(map[string]any{"cmd": "readlock", "limit": lf.Limit, "refuse": lf.Refuse, "content": content}, map[string]any{"res": res})
		c.count("lock-content/" + res)
		os.RemoveAll(dir)
	}
	// a live process that is not a git-bug of ours: pid 1
	{
		dir := copyDir(tmpl)
		os.WriteFile(lockPath(dir), []byte("1"), 0o644)
		out, err := runGB(gb, dir, "bug")
		c.count("lock-form/live-pid-1")
		if err == nil || !strings.Contains(out, "already locked by the process pid 1") || readLock(dir) != "1" {
			c.violation(-1, "C19/live-lock-removed", fmt.Sprintf("the lock of live process 1 did not stop an open (err=%v, lock now %q): %s", err, readLock(dir), trunc(out, 200)), nil)
		}
		os.RemoveAll(dir)
	}
	// a repository shared by two users: the holder belongs to somebody else, the opener may not signal it
	asNobody := func(cmd *exec.Cmd) {
		cmd.SysProcAttr = &syscall.SysProcAttr{Credential: &syscall.Credential{Uid: 65534, Gid: 65534}}
	}
	canRunAsNobody := false
	gbNobody := gb
	if os.Geteuid() == 0 {
		// (the binary and the scratch directory have to be reachable by that user: not so when the
		// framework itself lives under a private directory)
		os.Chmod(scratchRoot, 0o755)
		probe := exec.Command(gb, "version")
		probe.Dir = scratchRoot
		asNobody(probe)
		canRunAsNobody = probe.Run() == nil
		if !canRunAsNobody {
			// a copy of the binary in the scratch directory, which that user can reach
			cp := filepath.Join(scratchRoot, "git-bug-for-nobody")
			if data, err := os.ReadFile(gb); err == nil && os.WriteFile(cp, data, 0o755) == nil {
				probe := exec.Command(cp, "version")
				probe.Dir = scratchRoot
				asNobody(probe)
				if probe.Run() == nil {
					canRunAsNobody = true
					gbNobody = cp
				}
			}
		}
	}
	if canRunAsNobody {
		dir := copyDir(tmpl)
		exec.Command("chmod", "-R", "a+rwX", dir).Run()
		p0 := c19Start(gb, dir, id)
		if r := p0.waitOpen(dir); r != "acquired" {
			c.violation(-1, "C19/harness", "other-user scenario: the holder did not open: "+trunc(p0.stderr.String(), 200), nil)
		} else {
			// (the holder, idle now, replaced some files with private ones while opening: a shared
			// repository has group access set up, which is not what is examined here)
			var out []byte
			var err error
			for try := 0; try < 6; try++ {
				time.Sleep(150 * time.Millisecond)
				exec.Command("chmod", "-R", "a+rwX", dir).Run()
				cmd := exec.Command(gbNobody, "bug")
				cmd.Dir = dir
				cmd.Env = gbEnv(dir)
				asNobody(cmd)
				done := make(chan struct{})
				go func() { out, err = cmd.CombinedOutput(); close(done) }()
				select {
				case <-done:
				case <-time.After(20 * time.Second):
					if cmd.Process != nil {
						cmd.Process.Kill()
					}
					<-done
					err = fmt.Errorf("did not finish in 20 s")
				}
				// the holder may still have been writing private files when the access was opened up
				if !strings.Contains(string(out), "permission denied") {
					break
				}
			}
			c.count("lock-form/holder-of-another-user")
			if err == nil || !strings.Contains(string(out), "already locked by the process pid "+p0.pid()) || readLock(dir) != p0.pid() {
				c.violation(-1, "C19/live-lock-removed", fmt.Sprintf("a live holder (pid %s, another user's process) did not stop an open by an unprivileged user (err=%v, lock now %q): %s", p0.pid(), err, readLock(dir), trunc(string(out), 300)), nil)
			}
		}
		p0.stdin.Close()
		if !p0.wait(10 * time.Second) {
			p0.cmd.Process.Kill()
			p0.wait(5 * time.Second)
		}
		os.RemoveAll(dir)
	} else {
		c.count("lock-form/holder-of-another-user=skipped (not root, or the binary is not reachable by another user)")
	}
}

// c19Schedules: orders of open / close / kill / terminate of up to 3 live processes.
func c19Schedules(c *runCtx, gb, tmpl string, id entity.Id, excl bool) {
	N := c.pick(14, 150)
	L := c.pick(7, 12)
	maxLive := c.pick(2, 3)
	for n := 0; n < N; n++ {
		r := c.rng.fork()
		dir := copyDir(tmpl)
		var procs []*c19Proc // model index = position
		live := map[int]bool{}
		holder := -1 // oracle: index of the live holder
		var events [][]any
		var outs []any
		comments := commentCount(dir, id)
		var log []string
		for k := 0; k < L; k++ {
			var liveIdx []int
			for i := range live {
				liveIdx = append(liveIdx, i)
			}
			sort.Ints(liveIdx)
			choice := r.intn(10)
			switch {
			case len(liveIdx) == 0 || choice < 5 && len(procs) < 10 && len(liveIdx) <= maxLive:
				// open
				before := refsOfDir(dir)
				lockBefore := readLock(dir)
				i := len(procs)
				p := c19Start(gb, dir, id)
				procs = append(procs, p)
				res := p.waitOpen(dir)
				events = append(events, []any{"open", i})
				log = append(log, fmt.Sprintf("open(%d)", i))
				switch res {
				case "acquired":
					outs = append(outs, "acquired")
					live[i] = true
					if holder >= 0 {
						c.violation(c.nCases, "C19/two-holders", fmt.Sprintf("process %d opened the cache while process %d holds it (schedule %v)", i, holder, log), nil)
					}
					holder = i
				case "exited":
					m := lockedByRe.FindStringSubmatch(p.stderr.String())
					if m == nil {
						outs = append(outs, "failed:"+trunc(p.stderr.String(), 120))
						c.violation(c.nCases, "C19/open-failed", fmt.Sprintf("an open failed without naming a holder: %s (schedule %v)", trunc(p.stderr.String(), 200), log), nil)
						break
					}
					named := -1
					for j, q := range procs {
						if q.pid() == m[1] {
							named = j
						}
					}
					outs = append(outs, map[string]any{"refused": named})
					if holder < 0 {
						c.violation(c.nCases, "C19/refused-when-free", fmt.Sprintf("an open was refused although no live process holds the cache (schedule %v): %s", log, trunc(p.stderr.String(), 200)), nil)
					} else if named != holder {
						c.violation(c.nCases, "C19/wrong-holder-named", fmt.Sprintf("the refusal names pid %s, the holder is process %d (pid %s)", m[1], holder, procs[holder].pid()), nil)
					}
					// changes nothing
					if readLock(dir) != lockBefore || refsOfDir(dir) != before {
						c.violation(c.nCases, "C19/refusal-changed-something", fmt.Sprintf("a refused open changed the lock file or refs (schedule %v)", log), nil)
					}
				default:
					outs = append(outs, "timeout")
					c.violation(c.nCases, "C19/open-timeout", fmt.Sprintf("an open neither took the lock nor exited (schedule %v): %s", log, trunc(p.stderr.String(), 200)), nil)
					p.cmd.Process.Kill()
				}
			case choice < 7:
				// clean close of a live process: give it its message
				i := pickOne(r, liveIdx)
				p := procs[i]
				io.WriteString(p.stdin, "comment from process "+strconv.Itoa(i)+"\n")
				p.stdin.Close()
				if !p.wait(10 * time.Second) {
					p.cmd.Process.Kill()
					c.violation(c.nCases, "C19/close-timeout", "a holder did not finish after its input ended", nil)
				}
				events = append(events, []any{"close", i})
				log = append(log, fmt.Sprintf("close(%d)", i))
				outs = append(outs, "released")
				delete(live, i)
				if holder == i {
					holder = -1
				}
				if p.err != nil {
					c.violation(c.nCases, "C19/holder-failed", fmt.Sprintf("the holder's command failed: %v %s", p.err, trunc(p.stderr.String(), 200)), nil)
				}
				comments++
				if l := readLock(dir); l != "" {
					c.violation(c.nCases, "C19/lock-left", fmt.Sprintf("after the holder finished the lock file still holds %q (schedule %v)", l, log), nil)
				}
			case choice < 8:
				// SIGTERM: the signal handler closes the backend
				i := pickOne(r, liveIdx)
				p := procs[i]
				p.cmd.Process.Signal(syscall.SIGTERM)
				if !p.wait(10 * time.Second) {
					p.cmd.Process.Kill()
					c.violation(c.nCases, "C19/term-timeout", "a holder did not exit after SIGTERM", nil)
				}
				// a signal that arrives before the command installed its handler kills the process
				// like SIGKILL does (the lock stays, as the lock of a dead process); c19Term checks
				// the handler itself
				if readLock(dir) == p.pid() {
					events = append(events, []any{"kill", i})
					outs = append(outs, "none")
					c.count("term=left-lock(early)")
				} else {
					events = append(events, []any{"close", i})
					outs = append(outs, "released")
					c.count("term=released")
				}
				log = append(log, fmt.Sprintf("term(%d)", i))
				delete(live, i)
				if holder == i {
					holder = -1
				}
			default:
				// SIGKILL
				i := pickOne(r, liveIdx)
				p := procs[i]
				p.cmd.Process.Kill()
				p.wait(10 * time.Second)
				events = append(events, []any{"kill", i})
				log = append(log, fmt.Sprintf("kill(%d)", i))
				outs = append(outs, "none")
				delete(live, i)
				if holder == i {
					holder = -1
				}
			}
		}
		// the lock file at the end, as a process index
		var file any
		if l := readLock(dir); l != "" {
			file = -1
			for j, q := range procs {
				if q.pid() == l {
					file = j
				}
			}
		}
		holders := []int{}
		if holder >= 0 {
			holders = append(holders, holder)
		}
		c.emit(map[string]any{"cmd": "events", "n": len(procs), "excl": excl, "events": events, "schedule": log},
			map[string]any{"outs": outs, "file": file, "holders": holders})
		c.nontrivial(strings.Join(log, " "))
		c.countN("events", len(events))
		for _, e := range events {
			c.count("event=" + e[0].(string))
		}
		for i := range live {
			procs[i].cmd.Process.Kill()
			procs[i].wait(5 * time.Second)
		}
		// every comment of a cleanly finished holder is there, no other
		if got := commentCount(dir, id); got != comments {
			var empty []string
			filepath.Walk(filepath.Join(dir, ".git"), func(p string, info os.FileInfo, err error) error {
				if err == nil && !info.IsDir() && info.Size() == 0 {
					empty = append(empty, strings.TrimPrefix(p, dir))
				}
				return nil
			})
			c.violation(c.nCases, "C19/lost-or-extra-write", fmt.Sprintf("the bug has %d comments, %d holders finished their command (schedule %v; read error %v; empty files %v)", got, comments, log, lastReadErr, empty), nil)
		}
		os.RemoveAll(dir)
	}
}

// c19KillAnytime: a process killed at an arbitrary moment of its life never stops the next one.
func c19KillAnytime(c *runCtx, gb, tmpl string, id entity.Id) {
	N := c.pick(12, 150)
	for n := 0; n < N; n++ {
		r := c.rng.fork()
		dir := copyDir(tmpl)
		// a cache to rebuild makes the window wider now and then
		if r.chance(1, 3) {
			os.RemoveAll(filepath.Join(dir, ".git", gbNamespace, "cache"))
		}
		p := c19Start(gb, dir, id)
		delay := time.Duration(r.intn(60000)) * time.Microsecond
		time.Sleep(delay)
		p.cmd.Process.Kill()
		p.wait(10 * time.Second)
		left := readLock(dir)
		c.count(fmt.Sprintf("kill-anytime/lock-left=%v", left != ""))
		q := c19Start(gb, dir, id)
		res := q.waitOpen(dir)
		if res != "acquired" {
			c.violation(-1, "C19/dead-holder-blocks", fmt.Sprintf("after a process was killed %v into its life (lock file %q) the next open did not succeed: %s %s", delay, left, res, trunc(q.stderr.String(), 200)), nil)
		}
		io.WriteString(q.stdin, "after the kill\n")
		q.stdin.Close()
		if !q.wait(10*time.Second) || q.err != nil {
			q.cmd.Process.Kill()
			c.violation(-1, "C19/dead-holder-blocks", fmt.Sprintf("the command after a kill at %v failed: %v %s", delay, q.err, trunc(q.stderr.String(), 200)), nil)
		}
		if out, err := runGB(gb, dir, "bug"); err != nil {
			c.violation(-1, "C19/repo-broken-after-kill", "listing bugs fails after a killed holder: "+trunc(out, 200), nil)
		}
		if l := readLock(dir); l != "" {
			c.violation(-1, "C19/lock-left", "lock file left after commands that ended by themselves: "+l, nil)
		}
		os.RemoveAll(dir)
	}
}

// c19PartialIndex: what a process killed while it creates a search index leaves behind
// (directory only; meta file without store; empty meta file) must not stop the next command.
func c19PartialIndex(c *runCtx, gb, tmpl string) {
	for _, variant := range []string{"empty-dir", "meta-only", "empty-meta", "store-garbage"} {
		for _, ns := range []string{"bugs", "identities"} {
			dir := copyDir(tmpl)
			idx := filepath.Join(dir, ".git", gbNamespace, "indexes", ns)
			os.RemoveAll(idx)
			os.RemoveAll(filepath.Join(dir, ".git", gbNamespace, "cache"))
			os.MkdirAll(idx, 0o755)
			switch variant {
			case "meta-only":
				os.WriteFile(filepath.Join(idx, "index_meta.json"), []byte(`{"storage":"boltdb","index_type":"upside_down"}`), 0o644)
			case "empty-meta":
				os.WriteFile(filepath.Join(idx, "index_meta.json"), nil, 0o644)
			case "store-garbage":
				os.WriteFile(filepath.Join(idx, "index_meta.json"), []byte(`{"storage":"boltdb","index_type":"upside_down"}`), 0o644)
				os.WriteFile(filepath.Join(idx, "store"), []byte("torn"), 0o644)
			}
			c.context("partial index " + variant + " for " + ns)
			out, err := runGB(gb, dir, "bug")
			c.count(fmt.Sprintf("partial-index/%s=%v", variant, err == nil))
			c.nontrivial("partial-index|" + variant + ns)
			if err != nil {
				c.violation(-1, "C19/dead-holder-blocks", fmt.Sprintf("a search index left half-created (%s, %s) by a dead process makes the next command fail: %s", variant, ns, trunc(out, 200)), map[string]any{"variant": variant, "namespace": ns})
			} else if out2, err := runGB(gb, dir, "bug", "bug"); err != nil || !strings.Contains(out2, "bug 0") {
				c.violation(-1, "C19/index-not-rebuilt", fmt.Sprintf("after a half-created index (%s, %s) a full-text search finds nothing: %s", variant, ns, trunc(out2, 200)), nil)
			}
			if l := readLock(dir); l != "" {
				c.violation(-1, "C19/lock-left-by-command", "lock left after listing bugs over a half-created index", nil)
			}
			os.RemoveAll(dir)
		}
	}
}

// the command tree as `git-bug commands` prints it: "git-bug bug comment new [BUG_ID] [flags]"
func c19CommandPaths(gb, dir string) [][]string {
	var out [][]string
	list, _ := runGB(gb, dir, "commands")
	word := regexp.MustCompile(`^[a-z][a-z-]*$`)
	for _, line := range strings.Split(list, "\n") {
		f := strings.Fields(line)
		if len(f) < 2 || f[0] != "git-bug" {
			continue
		}
		var path []string
		for _, w := range f[1:] {
			if !word.MatchString(w) {
				break
			}
			path = append(path, w)
		}
		if len(path) > 0 && path[0] != "completion" && path[0] != "help" {
			out = append(out, path)
		}
	}
	return out
}

// c19Commands: every command, in configurations where it fails (and where it succeeds), leaves no lock.
func c19Commands(c *runCtx, gb string) {
	tmplNoUser, _ := c19Template(gb, false)
	tmplUser, id := c19Template(gb, true)
	paths := c19CommandPaths(gb, tmplUser)
	c.countN("command-paths", len(paths))
	if len(paths) < 30 {
		c.violation(-1, "C19/harness", fmt.Sprintf("only %d commands found through --help", len(paths)), nil)
	}
	type conf struct {
		name string
		tmpl string
		args []string
	}
	confs := []conf{
		{"no-identity", tmplNoUser, nil},
		{"unknown-id", tmplUser, []string{"zzzzzzzzzz"}},
		{"bad-flag", tmplUser, []string{"--no-such-flag"}},
		{"valid-id", tmplUser, []string{string(id)[:10]}},
	}
	if !c.thorough() {
		confs = confs[:3]
	}
	for _, path := range paths {
		for _, cf := range confs {
			dir := copyDir(cf.tmpl)
			args := append(append([]string{}, path...), cf.args...)
			if path[0] == "webui" {
				args = append(args, "--no-open", "--port", "0")
			}
			cmd := exec.Command(gb, args...)
			cmd.Dir = dir
			cmd.Env = gbEnv(dir, "EDITOR=true", "VISUAL=true")
			var buf bytes.Buffer
			cmd.Stdout, cmd.Stderr = &buf, &buf
			cmd.Stdin = nil
			cmd.Start()
			done := make(chan error, 1)
			go func() { done <- cmd.Wait() }()
			how := "exit"
			var err error
			select {
			case err = <-done:
			case <-time.After(4 * time.Second):
				// still running (a server, a prompt): ask it to stop
				how = "sigterm"
				cmd.Process.Signal(syscall.SIGTERM)
				select {
				case err = <-done:
				case <-time.After(8 * time.Second):
					how = "sigkill"
					cmd.Process.Kill()
					err = <-done
				}
			}
			outcome := "ok"
			if err != nil {
				outcome = "failed"
			}
			c.count(fmt.Sprintf("command/%s=%s/%s", cf.name, outcome, how))
			c.nontrivial("cmd|" + strings.Join(args, " ") + "|" + cf.name)
			c.context("command " + strings.Join(args, " ") + " in configuration " + cf.name)
			if l := readLock(dir); l != "" && how != "sigkill" {
				c.violation(-1, "C19/lock-left-by-command", fmt.Sprintf("`git-bug %s` (%s, %s, %s) left the lock file behind (pid %s): %s", strings.Join(args, " "), cf.name, outcome, how, l, trunc(buf.String(), 160)),
					map[string]any{"args": args, "configuration": cf.name})
			}
			if how == "sigkill" {
				c.violation(-1, "C19/command-ignores-sigterm", fmt.Sprintf("`git-bug %s` (%s) did not stop on SIGTERM", strings.Join(args, " "), cf.name), nil)
			}
			os.RemoveAll(dir)
		}
	}
}

// c19Races: the overlapping-open schedules of the model, replayed on real processes through the
// yield points of the verif build.
func c19Races(c *runCtx, gb, tmpl string, id entity.Id, excl bool) {
	type race struct {
		name  string
		point string
		stale bool
		sched []int // the model's schedule of file operations
	}
	races := []race{
		{"create-create", "lock:after-available", false, []int{0, 1, 1, 0}},
		{"stale-stale", "lock:before-remove-stale", true, []int{0, 1, 1, 1, 0, 0}},
	}
	for _, rc := range races {
		dir := copyDir(tmpl)
		if rc.stale {
			// the lock of a process that is gone
			dead := exec.Command("true")
			dead.Run()
			os.WriteFile(lockPath(dir), []byte(strconv.Itoa(dead.Process.Pid)), 0o644)
		}
		y := filepath.Join(dir, "yield")
		p0 := c19Start(gb, dir, id, "GITBUG_VERIF_YIELD="+rc.point+"="+y)
		reached := false
		for i := 0; i < 3000 && !p0.exited(); i++ {
			if _, err := os.Stat(y + ".reached"); err == nil {
				reached = true
				break
			}
			time.Sleep(2 * time.Millisecond)
		}
		if !reached {
			c.violation(-1, "C19/harness", fmt.Sprintf("race %s: the first process never reached %s: %s", rc.name, rc.point, trunc(p0.stderr.String(), 200)), nil)
			p0.cmd.Process.Kill()
			continue
		}
		// the second process opens completely while the first one waits
		p1 := c19Start(gb, dir, id)
		r1 := p1.waitOpen(dir)
		os.WriteFile(y+".go", nil, 0o644)
		// the first one goes on: it either takes the lock too, or exits refused
		r0 := "exited"
		for i := 0; i < 3000; i++ {
			if p0.exited() {
				break
			}
			if readLock(dir) == p0.pid() {
				r0 = "acquired"
				break
			}
			time.Sleep(2 * time.Millisecond)
		}
		holders := []int{}
		if r0 == "acquired" && !p0.exited() {
			holders = append(holders, 0)
		}
		if r1 == "acquired" && !p1.exited() {
			holders = append(holders, 1)
		}
		var file any
		switch readLock(dir) {
		case p0.pid():
			file = 0
		case p1.pid():
			file = 1
		case "":
		default:
			file = -1
		}
		cid := c.emit(map[string]any{"cmd": "steps", "n": 2, "excl": excl, "stale": rc.stale, "sched": rc.sched, "race": rc.name},
			map[string]any{"file": file, "holders": holders})
		c.count(fmt.Sprintf("race/%s/holders=%d", rc.name, len(holders)))
		c.nontrivial("race|" + rc.name)
		if len(holders) == 1 && file != any(holders[0]) {
			c.violation(cid, "C19/live-lock-removed", fmt.Sprintf("race %s: process %d holds the cache and is alive, but the lock file now names %v: the refused opener removed or replaced the holder's lock", rc.name, holders[0], file),
				map[string]any{"point": rc.point, "first": trunc(p0.stderr.String(), 200)})
		}
		if len(holders) > 1 {
			c.violation(cid, "C19/overlapping-open-"+rc.name, fmt.Sprintf("two processes opening at the same time (%s) both hold the cache; the lock file names process %v", rc.name, file),
				map[string]any{"point": rc.point, "first": trunc(p0.stderr.String(), 200), "second": trunc(p1.stderr.String(), 200)})
		}
		for _, p := range []*c19Proc{p0, p1} {
			p.cmd.Process.Kill()
			p.wait(5 * time.Second)
		}
		os.RemoveAll(dir)
	}
}

// c19Term: a holder that has been running for a while and gets SIGTERM or SIGINT gives the lock back.
func c19Term(c *runCtx, gb, tmpl string, id entity.Id) {
	for _, sig := range []syscall.Signal{syscall.SIGTERM, syscall.SIGINT} {
		released := false
		var left string
		for _, grace := range []time.Duration{700 * time.Millisecond, 4 * time.Second} {
			dir := copyDir(tmpl)
			p := c19Start(gb, dir, id)
			if p.waitOpen(dir) != "acquired" {
				c.violation(-1, "C19/harness", "holder did not start: "+trunc(p.stderr.String(), 200), nil)
			}
			time.Sleep(grace) // the handler is installed once the cache is loaded
			p.cmd.Process.Signal(sig)
			if !p.wait(10 * time.Second) {
				p.cmd.Process.Kill()
				p.wait(5 * time.Second)
			}
			left = readLock(dir)
			os.RemoveAll(dir)
			if left == "" {
				released = true
				break
			}
		}
		c.count(fmt.Sprintf("signal/%v/released=%v", sig, released))
		if !released {
			c.violation(-1, "C19/signal-leaves-lock", fmt.Sprintf("a holder that received %v after running for seconds left its lock behind (pid %s)", sig, left), nil)
		}
	}
}

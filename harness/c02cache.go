package main

import (
	"fmt"

	"github.com/MichaelMure/git-bug/entities/bug"
	"github.com/MichaelMure/git-bug/entity"
	"github.com/MichaelMure/git-bug/repository"
)

// c02CachePull: C02 through the call users make, RepoCache.Pull: whatever happened before —
// a plain fetch, a pull that stopped half-way, a pull from another remote — once Pull returns
// without error every bug of the remote is local and holds everything the remote version holds.
func init() { props["C02cache"] = runC02Cache }

func runC02Cache(c *runCtx) {
	defer cleanupScratch()
	for rep := 0; rep < c.pick(6, 40); rep++ {
		r := c.rng.fork()
		remote, _ := newGoGit("c02remote", true)
		repoA, _ := newGoGit("c02a", false)
		repoB, _ := newGoGit("c02b", false)
		for _, rp := range []repository.TestedRepo{repoA, repoB} {
			if err := rp.AddRemote("origin", remote.GetLocalRemote()); err != nil {
				panic(err)
			}
		}
		rcA, rcB := mustCache(repoA), mustCache(repoB)
		idA, err := rcA.Identities().New("A", "a@example.com")
		if err != nil {
			panic(err)
		}
		rcA.SetUserIdentity(idA)
		var log []string
		edit := func() {
			ids := rcA.Bugs().AllIds()
			if len(ids) == 0 || r.chance(1, 3) {
				b, _, err := rcA.Bugs().New(fmt.Sprintf("bug %s", randHexId(r, 3)), "m")
				if err != nil {
					panic(err)
				}
				log = append(log, "A:new("+b.Id().Human()+")")
				return
			}
			b, err := rcA.Bugs().Resolve(pickOne(r, ids))
			if err != nil {
				panic(err)
			}
			b.AddComment("c " + randHexId(r, 3))
			b.Commit()
			log = append(log, "A:comment("+b.Id().Human()+")")
		}
		judge := func(what string) {
			log = append(log, what)
			refs, _ := repoB.ListRefs("refs/remotes/origin/bugs/")
			for _, rr := range refs {
				id := entity.Id(rr[len("refs/remotes/origin/bugs/"):])
				want, err := readAtRef(repoB, rr)
				if err != nil {
					continue
				}
				lb, err := bug.Read(repoB, id)
				if err != nil {
					c.violation(-1, "C02/missing-remote-entity", fmt.Sprintf("after %v the pull returned without error and bug %s of the remote is not readable locally: %v", log, id.Human(), err), nil)
					continue
				}
				has := map[string]bool{}
				for _, o := range lb.Operations() {
					has[string(o.Id())] = true
				}
				for _, o := range want {
					if !has[o] {
						c.violation(-1, "C02/missing-remote-op", fmt.Sprintf("after %v the pull returned without error and bug %s lacks an operation of the remote version", log, id.Human()), nil)
						break
					}
				}
				// and the cache knows it
				if _, err := rcB.Bugs().ResolveExcerpt(id); err != nil {
					c.violation(-1, "C02/missing-remote-entity", fmt.Sprintf("after %v bug %s of the remote is not listed by the cache: %v", log, id.Human(), err), nil)
				}
			}
			c.count("cache-pull-judged")
		}
		for k := 0; k < r.rangeInt(1, 3); k++ {
			edit()
		}
		rcA.Push("origin")
		log = append(log, "A:push")
		switch variant := rep % 3; variant {
		case 0:
			// a fetch first (git-bug pull that died after the fetch, or a plain `git fetch` of the refs)
			if _, err := rcB.Fetch("origin"); err != nil {
				panic(err)
			}
			log = append(log, "B:fetch")
			c.count("cache-pull/fetch-first")
		case 1:
			// a first pull that stops after its fetch: B has no user identity yet and A's bugs need none…
			// the merge of a diverged bug would; here the pull is simply attempted once before
			rcB.Pull("origin")
			log = append(log, "B:pull(1st)")
			edit()
			rcA.Push("origin")
			log = append(log, "A:push")
			if _, err := rcB.Fetch("origin"); err != nil {
				panic(err)
			}
			log = append(log, "B:fetch")
			c.count("cache-pull/pull-fetch")
		default:
			c.count("cache-pull/plain")
		}
		if err := rcB.Pull("origin"); err != nil {
			log = append(log, "B:pull!")
			c.count("cache-pull/error")
		} else {
			judge("B:pull")
		}
		// once more, with nothing new on the remote: still everything there
		if err := rcB.Pull("origin"); err == nil {
			judge("B:pull(again)")
		}
		c.nontrivial(fmt.Sprint(log))
		rcA.Close()
		rcB.Close()
		remote.Close()
		cleanupScratch()
	}
}

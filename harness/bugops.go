package main

import (
	"fmt"
	"sort"

	"github.com/MichaelMure/git-bug/entities/bug"
	"github.com/MichaelMure/git-bug/entities/common"
	"github.com/MichaelMure/git-bug/entities/identity"
	"github.com/MichaelMure/git-bug/entity"
	"github.com/MichaelMure/git-bug/entity/dag"
	"github.com/MichaelMure/git-bug/repository"
)

// ---- text pools: valid values with unicode, whitespace, long text

var titlePool = []string{"crash on start", "Ünïcödé title ✓", "a", "title with  two spaces", "日本語のタイトル",
	"very long title " + string(make([]byte, 0)) + "xxxxxxxxxxxxxxxxxxxxxxxxxxxxxxxxxxxxxxxxxxxxxxxxxxxxxxxxxxxxxxxxxxxxxxxxxxxxxxxxxxxx",
	"quote \" and ' and : colon", "tab-less but (parenthesised)", "emoji 🐛 bug",
	"a < b && c > d"}
var messagePool = []string{"", "simple message", "multi\nline\nmessage", "  leading and trailing  ", "unicode: é€😀 日本",
	"tab\tseparated", "a very long message: " + longText(3000), "line with trailing newline\n", "```code\nblock```",
	"<p>html &amp; co</p> \u2028 line separator"}
var labelPool = []string{"bug", "feature", "ui", "Bug", "bug ", "prio:high", "zeta", "alpha", "étiquette", "good first issue", "a", "b", "c"}
var mdKeyPool = []string{"github-id", "origin", "k", "gitlab-url", "key with space", "clé"}
var mdValPool = []string{"", "v", "https://example.com/x?y=1", "multi\nline", "42", "ünï", "https://example.com/x?y=1&z=<2>"}

func longText(n int) string {
	b := make([]byte, n)
	for i := range b {
		b[i] = "abcdefghij klmnop\n"[i%18]
	}
	return string(b)
}

func randFile(r *rng) repository.Hash { return repository.Hash(randHexId(r, 40)) }

// fileSource produces the hash of an attached file. The default invents hashes (fine for
// in-memory compilation); scenarios that push or fsck set it to store a real blob.
// When nil, operations get no attachments: a hash that is not a stored blob makes go-git's push
// fail and then hang forever in Close (its error path never closes the server's stdin).
var fileSource func(r *rng) repository.Hash

func randFiles(r *rng) []repository.Hash {
	if fileSource == nil || !r.chance(1, 3) {
		return nil
	}
	n := r.rangeInt(1, 3)
	out := make([]repository.Hash, n)
	for i := range out {
		out[i] = fileSource(r)
	}
	return out
}

// storeFilesIn makes attached files real blobs of the given repository.
func storeFilesIn(repo repository.RepoData) func() {
	old := fileSource
	var seen []repository.Hash
	fileSource = func(r *rng) repository.Hash {
		// the same file is often attached again (a logo, a quoted screenshot): one time in three
		if len(seen) > 0 && r.chance(1, 3) {
			return pickOne(r, seen)
		}
		h, err := repo.StoreData([]byte("attachment " + randHexId(r, 12)))
		if err != nil {
			panic(err)
		}
		seen = append(seen, h)
		return h
	}
	return func() { fileSource = old }
}

func randMd(r *rng, num, den int) map[string]string {
	if !r.chance(num, den) {
		return nil
	}
	m := map[string]string{}
	for i := 0; i < r.rangeInt(1, 3); i++ {
		m[pickOne(r, mdKeyPool)] = pickOne(r, mdValPool)
	}
	return m
}

func randLabels(r *rng, maxN int) []bug.Label {
	n := r.intn(maxN + 1)
	out := make([]bug.Label, 0, n)
	for i := 0; i < n; i++ {
		out = append(out, bug.Label(pickOne(r, labelPool)))
	}
	return out
}

// ---- building operations directly (no convenience-function filtering), so that every
// operation the format allows can be generated

type opGen struct {
	r       *rng
	authors []identity.Interface
	// ids of operations appended so far, by kind
	commentOps []entity.Id
	otherOps   []entity.Id
	allOps     []entity.Id
	t          int64
	kinds      map[string]int
}

func newOpGen(r *rng, authors []identity.Interface) *opGen {
	return &opGen{r: r, authors: authors, t: 1_600_000_000, kinds: map[string]int{}}
}

func (g *opGen) author() identity.Interface { return pickOne(g.r, g.authors) }
func (g *opGen) now() int64 {
	g.t += int64(g.r.intn(3)) // equal timestamps happen
	return g.t
}

func (g *opGen) create() *bug.CreateOperation {
	op := bug.NewCreateOp(g.author(), g.now(), pickOne(g.r, titlePool), pickOne(g.r, messagePool), randFiles(g.r))
	for k, v := range randMd(g.r, 1, 3) {
		op.SetMetadata(k, v)
	}
	g.kinds["create"]++
	return op
}

func (g *opGen) record(op dag.Operation, isComment bool) {
	id := op.Id()
	g.allOps = append(g.allOps, id)
	if isComment {
		g.commentOps = append(g.commentOps, id)
	} else {
		g.otherOps = append(g.otherOps, id)
	}
}

// mutateAfter14 changes a character of the id that CombineIds does not use (the secondary
// contributes only its first 14 characters).
func mutateAfter14(r *rng, id entity.Id) entity.Id {
	b := []byte(id)
	i := 14 + r.intn(len(b)-14)
	for {
		c := hexd[r.intn(16)]
		if c != b[i] {
			b[i] = c
			break
		}
	}
	return entity.Id(b)
}

// next generates one non-create operation. Target choice for edits / metadata: a known
// comment, an unknown id, a non-comment operation, or an id colliding on the 14 characters
// that the combined id keeps.
func (g *opGen) next() (op bug.Operation, isComment bool, tag string) {
	r := g.r
	a, t := g.author(), g.now()
	setMd := func(o dag.Operation) {
		for k, v := range randMd(r, 1, 4) {
			o.SetMetadata(k, v)
		}
	}
	switch k := r.intn(20); {
	case k < 4:
		o := bug.NewAddCommentOp(a, t, pickOne(r, messagePool), randFiles(r))
		setMd(o)
		return o, true, "addComment"
	case k < 8:
		var target entity.Id
		tag = "edit:valid"
		switch x := r.intn(10); {
		case x < 6 || len(g.otherOps) == 0:
			target = pickOne(r, g.commentOps)
		case x < 8:
			target = entity.Id(randHexId(r, 64))
			tag = "edit:unknown"
		case x < 9:
			target = pickOne(r, g.otherOps)
			tag = "edit:noncomment"
		default:
			target = mutateAfter14(r, pickOne(r, g.commentOps))
			tag = "edit:collide14"
		}
		o := bug.NewEditCommentOp(a, t, target, pickOne(r, messagePool), randFiles(r))
		setMd(o)
		return o, false, tag
	case k < 10:
		o := bug.NewSetTitleOp(a, t, pickOne(r, titlePool), pickOne(r, titlePool))
		setMd(o)
		return o, false, "setTitle"
	case k < 12:
		st := common.OpenStatus
		if r.chance(1, 2) {
			st = common.ClosedStatus
		}
		o := bug.NewSetStatusOp(a, t, st)
		setMd(o)
		return o, false, "setStatus"
	case k < 16:
		added, removed := randLabels(r, 3), randLabels(r, 3)
		if len(added)+len(removed) == 0 {
			added = []bug.Label{"bug"}
		}
		o := bug.NewLabelChangeOperation(a, t, added, removed)
		setMd(o)
		return o, false, "labelChange"
	case k < 19:
		var target entity.Id
		if r.chance(4, 5) {
			target = pickOne(r, g.allOps)
		} else {
			target = entity.Id(randHexId(r, 64))
		}
		nm := randMd(r, 1, 1)
		o := dag.NewSetMetadataOp[*bug.Snapshot](bug.SetMetadataOp, a, t, target, nm)
		return o, false, "setMetadata"
	default:
		o := dag.NewNoOpOp[*bug.Snapshot](bug.NoOpOp, a, t)
		setMd(o)
		return o, false, "noop"
	}
}

// ---- dumping operations and snapshots in the driver's JSON

func sortedPairs(m map[string]string) [][]string {
	keys := make([]string, 0, len(m))
	for k := range m {
		keys = append(keys, k)
	}
	sort.Strings(keys)
	out := make([][]string, 0, len(keys))
	for _, k := range keys {
		out = append(out, []string{k, m[k]})
	}
	return out
}

func hashesStr(h []repository.Hash) []string {
	out := make([]string, 0, len(h))
	for _, x := range h {
		out = append(out, string(x))
	}
	return out
}

func labelsStr(l []bug.Label) []string {
	out := make([]string, 0, len(l))
	for _, x := range l {
		out = append(out, string(x))
	}
	return out
}

func authorId(a identity.Interface) string {
	if a == nil {
		return ""
	}
	return string(a.Id())
}

// ownMetadata returns the metadata carried by the operation itself (not the extra one).
func ownMetadata(op dag.Operation) map[string]string {
	switch o := op.(type) {
	case *bug.CreateOperation:
		return o.Metadata
	case *bug.AddCommentOperation:
		return o.Metadata
	case *bug.EditCommentOperation:
		return o.Metadata
	case *bug.SetTitleOperation:
		return o.Metadata
	case *bug.SetStatusOperation:
		return o.Metadata
	case *bug.LabelChangeOperation:
		return o.Metadata
	case *dag.NoOpOperation[*bug.Snapshot]:
		return o.Metadata
	case *dag.SetMetadataOperation[*bug.Snapshot]:
		return o.Metadata
	}
	return nil
}

// extraMetadata = AllMetadata minus the own metadata (own keys shadow extra ones, which is
// exactly what the model's getMetadata says; shadowed extra keys are not observable).
func opJSON(op dag.Operation) map[string]any {
	m := map[string]any{"id": string(op.Id()), "author": authorId(op.Author()), "time": op.Time().Unix(),
		"md": sortedPairs(ownMetadata(op))}
	switch o := op.(type) {
	case *bug.CreateOperation:
		m["t"], m["title"], m["message"], m["files"] = "create", o.Title, o.Message, hashesStr(o.Files)
	case *bug.AddCommentOperation:
		m["t"], m["message"], m["files"] = "addComment", o.Message, hashesStr(o.Files)
	case *bug.EditCommentOperation:
		m["t"], m["target"], m["message"], m["files"] = "editComment", string(o.Target), o.Message, hashesStr(o.Files)
	case *bug.SetTitleOperation:
		m["t"], m["title"], m["was"] = "setTitle", o.Title, o.Was
	case *bug.SetStatusOperation:
		m["t"], m["status"] = "setStatus", int(o.Status)
	case *bug.LabelChangeOperation:
		m["t"], m["added"], m["removed"] = "labelChange", labelsStr(o.Added), labelsStr(o.Removed)
	case *dag.NoOpOperation[*bug.Snapshot]:
		m["t"] = "noop"
	case *dag.SetMetadataOperation[*bug.Snapshot]:
		m["t"], m["target"], m["newMeta"] = "setMetadata", string(o.Target), sortedPairs(o.NewMetadata)
	default:
		m["t"] = fmt.Sprintf("unknown:%T", op)
	}
	return m
}

func opsJSON(ops []dag.Operation) []map[string]any {
	out := make([]map[string]any, 0, len(ops))
	for _, o := range ops {
		out = append(out, opJSON(o))
	}
	return out
}

func visibleExtra(op dag.Operation) [][]string {
	own := ownMetadata(op)
	extra := map[string]string{}
	for k, v := range op.AllMetadata() {
		if _, ok := own[k]; !ok {
			extra[k] = v
		}
	}
	return sortedPairs(extra)
}

func citemJSON(kind string, c *bug.CommentTimelineItem) map[string]any {
	hist := make([][]any, 0, len(c.History))
	for _, h := range c.History {
		if h.Author != nil {
			kind += "+histauthor"
		}
		hist = append(hist, []any{h.Message, int64(h.UnixTime)})
	}
	return map[string]any{"k": kind, "cid": string(c.CombinedId()), "author": authorId(c.Author), "message": c.Message,
		"files": hashesStr(c.Files), "createdAt": int64(c.CreatedAt), "lastEdit": int64(c.LastEdit), "history": hist}
}

func idsStr(l []identity.Interface) []string {
	out := make([]string, 0, len(l))
	for _, x := range l {
		out = append(out, authorId(x))
	}
	return out
}

// snapJSON renders a compiled snapshot in the driver's canonical form. (A comment's own
// unix time is private in the Go type; it is compared through the timeline item's CreatedAt.)
func snapJSON(s *bug.Snapshot) map[string]any {
	comments := make([]map[string]any, 0)
	for _, c := range s.Comments {
		comments = append(comments, map[string]any{"cid": string(c.CombinedId()), "target": string(c.TargetId()),
			"author": authorId(c.Author), "message": c.Message, "files": hashesStr(c.Files)})
	}
	timeline := make([]map[string]any, 0)
	for _, it := range s.Timeline {
		switch x := it.(type) {
		case *bug.CreateTimelineItem:
			timeline = append(timeline, citemJSON("create", &x.CommentTimelineItem))
		case *bug.AddCommentTimelineItem:
			timeline = append(timeline, citemJSON("addComment", &x.CommentTimelineItem))
		case *bug.LabelChangeTimelineItem:
			timeline = append(timeline, map[string]any{"k": "labelChange", "cid": string(x.CombinedId()), "author": authorId(x.Author),
				"time": int64(x.UnixTime), "added": labelsStr(x.Added), "removed": labelsStr(x.Removed)})
		case *bug.SetStatusTimelineItem:
			timeline = append(timeline, map[string]any{"k": "setStatus", "cid": string(x.CombinedId()), "author": authorId(x.Author),
				"time": int64(x.UnixTime), "status": int(x.Status)})
		case *bug.SetTitleTimelineItem:
			timeline = append(timeline, map[string]any{"k": "setTitle", "cid": string(x.CombinedId()), "author": authorId(x.Author),
				"time": int64(x.UnixTime), "title": x.Title, "was": x.Was})
		default:
			timeline = append(timeline, map[string]any{"k": fmt.Sprintf("unknown:%T", it)})
		}
	}
	ops := make([]map[string]any, 0)
	for _, o := range s.Operations {
		ops = append(ops, map[string]any{"id": string(o.Id()), "extra": visibleExtra(o)})
	}
	return map[string]any{"id": string(s.Id()), "status": int(s.Status), "title": s.Title, "comments": comments,
		"labels": labelsStr(s.Labels), "author": authorId(s.Author), "actors": idsStr(s.Actors),
		"participants": idsStr(s.Participants), "createTime": s.CreateTime.Unix(), "timeline": timeline, "ops": ops}
}

func sortStrings(l []string) { sort.Strings(l) }

func opsOf1(op dag.Operation) []dag.Operation { return []dag.Operation{op} }

// newOpGenWith prepares a generator that knows the operations of an existing bug.
func newOpGenWith(r *rng, authors []identity.Interface, b *bug.Bug) *opGen {
	g := newOpGen(r, authors)
	for _, o := range b.Operations() {
		_, isC := o.(*bug.AddCommentOperation)
		_, isCr := o.(*bug.CreateOperation)
		g.record(o, isC || isCr)
	}
	return g
}

package main

import (
	"sort"
	"strconv"

	"encoding/json"
	"fmt"
	"strings"
	"sync"

	"github.com/MichaelMure/git-bug/cache"
	"github.com/MichaelMure/git-bug/entities/bug"
	"github.com/MichaelMure/git-bug/entities/identity"
	"github.com/MichaelMure/git-bug/entity"
	"github.com/MichaelMure/git-bug/entity/dag"
	"github.com/MichaelMure/git-bug/repository"
)

func init() { props["C04"] = runC04 }

func nonceOf(op dag.Operation) string {
	b, _ := json.Marshal(op)
	var t struct {
		Nonce string `json:"nonce"`
	}
	json.Unmarshal(b, &t)
	return t.Nonce
}

func opJSONWire(op dag.Operation) map[string]any {
	m := opJSON(op)
	m["nonce"] = nonceOf(op)
	return m
}

// canonical form of a stored pack blob: nil slices/maps read as empty
func canonPackBlob(data []byte) (map[string]any, error) {
	var v map[string]any
	if err := json.Unmarshal(data, &v); err != nil {
		return nil, err
	}
	ops, _ := v["ops"].([]any)
	for _, o := range ops {
		m, ok := o.(map[string]any)
		if !ok {
			continue
		}
		for _, k := range []string{"files", "added", "removed"} {
			if x, has := m[k]; has && x == nil {
				m[k] = []any{}
			}
		}
		if x, has := m["new_metadata"]; has && x == nil {
			m["new_metadata"] = map[string]any{}
		}
	}
	if ops == nil {
		v["ops"] = []any{}
	}
	return v, nil
}

// packsOnChain returns the packs of a linear history root..head with their extra-tree files.
func packsOnChain(repo repository.RepoData, ref string) ([]any, error) {
	hashes, err := repo.ListCommits(ref)
	if err != nil {
		return nil, err
	}
	var out []any
	for _, h := range hashes {
		c, err := repo.ReadCommit(h)
		if err != nil {
			return nil, err
		}
		entries, err := repo.ReadTree(c.TreeHash)
		if err != nil {
			return nil, err
		}
		var pack map[string]any
		files := []string{}
		for _, e := range entries {
			switch e.Name {
			case "ops":
				data, err := repo.ReadData(e.Hash)
				if err != nil {
					return nil, err
				}
				if pack, err = canonPackBlob(data); err != nil {
					return nil, err
				}
			case "extra":
				sub, err := repo.ReadTree(e.Hash)
				if err != nil {
					return nil, err
				}
				// entries are file0, file1, …; git sorts names as strings (file10 < file2): order by number
				sort.SliceStable(sub, func(i, j int) bool {
					a, _ := strconv.Atoi(strings.TrimPrefix(sub[i].Name, "file"))
					b, _ := strconv.Atoi(strings.TrimPrefix(sub[j].Name, "file"))
					return a < b
				})
				for _, se := range sub {
					files = append(files, string(se.Hash))
				}
			}
		}
		if pack == nil {
			return nil, fmt.Errorf("no ops entry")
		}
		pack["files"] = files
		out = append(out, pack)
	}
	return out, nil
}

type opView struct {
	Id, Author, Payload string
}

func viewOps[T dag.Operation](ops []T) []opView {
	var out []opView
	for _, o := range ops {
		m := opJSONWire(o)
		out = append(out, opView{Id: string(o.Id()), Author: authorId(o.Author()), Payload: mustJSON(m)})
	}
	return out
}

func diffViews(a, b []opView) string {
	if len(a) != len(b) {
		return fmt.Sprintf("%d operations instead of %d", len(b), len(a))
	}
	for i := range a {
		if a[i] != b[i] {
			return fmt.Sprintf("operation %d differs: %s vs %s", i, a[i].Payload, b[i].Payload)
		}
	}
	return ""
}

func runC04(c *runCtx) {
	defer cleanupScratch()
	c04Identities(c)
	c04Alias(c)
	c04JsonStr(c)
	c04CacheReplica(c)
	c04ParallelRead(c)
	c04KeyChange(c)
	N := c.pick(160, 2500)
	for i := 0; i < N; i++ {
		r := c.rng.fork()
		gogit := i%4 == 3
		var repo, other, remote repository.TestedRepo
		if gogit {
			repo, _ = newGoGit("c04a", false)
			other, _ = newGoGit("c04b", false)
			remote, _ = newGoGit("c04r", true)
			repo.AddRemote("origin", remote.GetLocalRemote())
			other.AddRemote("origin", remote.GetLocalRemote())
		} else {
			repo = newMock()
		}
		restore := storeFilesIn(repo)
		authors := mkAuthors(repo, 3)
		g := newOpGen(r.fork(), authors)
		b := bug.NewBug()
		cop := g.create()
		b.Append(cop)
		g.record(cop, true)
		var stagings [][]map[string]any
		var staging []map[string]any
		staging = append(staging, opJSONWire(cop))
		predicted := []opView{}
		// every operation as it was when the editing API handed it over (id, payload in the order given)
		submitted := viewOps([]bug.Operation{cop})
		commit := func() {
			predicted = viewOps(b.Operations())
			idBefore := b.Id()
			if err := b.Commit(repo); err != nil {
				panic(fmt.Sprintf("commit of API-built operations failed: %v", err))
			}
			if b.Id() != idBefore {
				c.violation(c.nCases, "C04/entity-id-changed", "the entity id changed on commit", nil)
			}
			stagings = append(stagings, staging)
			staging = nil
		}
		n := r.rangeInt(0, c.pick(14, 40))
		for k := 0; k < n; k++ {
			op, isC, tag := g.next()
			submitted = append(submitted, viewOps([]bug.Operation{op})...)
			b.Append(op)
			g.record(op, isC)
			staging = append(staging, opJSONWire(op))
			if r.chance(1, 3) {
				// the cache compiles after every edit, before anything is committed: looking at a bug
				// does not change what is stored
				b.Compile()
				c.count("compile-before-commit")
			}
			c.count("op=" + strings.Split(tag, ":")[0])
			if r.chance(1, 4) {
				commit()
			}
		}
		if b.NeedCommit() {
			commit()
		}
		restore()
		id := b.Id()
		// --- read back: same repository
		check := func(where string, rr repository.ClockedRepo) {
			b2, err := bug.Read(rr, id)
			if err != nil {
				c.violation(c.nCases, "C04/unreadable", fmt.Sprintf("committed bug cannot be read back (%s): %v", where, err), nil)
				return
			}
			if b2.Id() != id {
				c.violation(c.nCases, "C04/entity-id-changed", "entity id differs after reading back ("+where+")", nil)
			}
			if d := diffViews(predicted, viewOps(b2.Operations())); d != "" {
				c.violation(c.nCases, "C04/roundtrip", "read back ("+where+"): "+d, nil)
			} else if d := diffViews(submitted, viewOps(b2.Operations())); d != "" {
				c.violation(c.nCases, "C04/roundtrip", "read back ("+where+") differs from what the editing API was given: "+d, nil)
			}
			if err := b2.Validate(); err != nil {
				c.violation(c.nCases, "C04/invalid-after-read", "the bug read back does not validate ("+where+"): "+err.Error(), nil)
			}
			if string(b2.Operations()[0].Id()) != string(id) {
				c.violation(c.nCases, "C04/id-not-first-op", "entity id is not the id of the first operation as stored", nil)
			}
			// attached files are stored with it
			for _, o := range b2.Operations() {
				if of, ok := o.(dag.OperationWithFiles); ok {
					for _, f := range of.GetFiles() {
						if _, err := rr.ReadData(f); err != nil {
							c.violation(c.nCases, "C04/file-missing", fmt.Sprintf("attached file %s is not available (%s)", f, where), nil)
						}
					}
				}
			}
		}
		check("same repository", repo)
		backend := "mock"
		if gogit {
			backend = "gogit"
			// identities and bugs travel to a second replica
			if _, err := identity.Push(repo, "origin"); err != nil {
				panic(err)
			}
			if _, err := bug.Push(repo, "origin"); err != nil {
				panic(err)
			}
			if err := identity.Pull(other, "origin"); err != nil {
				panic(err)
			}
			if err := bug.Pull(other, resolversFor(other), "origin", authors[0]); err != nil {
				c.violation(c.nCases, "C04/pull-failed", "second replica cannot pull the bug: "+err.Error(), nil)
			} else {
				check("second replica", other)
			}
		}
		packs, err := packsOnChain(repo, "refs/bugs/"+string(id))
		if err != nil {
			c.violation(c.nCases, "C04/stored-form", "stored packs cannot be decoded: "+err.Error(), nil)
			packs = nil
		}
		c.emit(map[string]any{"stagings": stagings, "backend": backend}, packs)
		c.count("backend=" + backend)
		c.count(fmt.Sprintf("commits=%d", min(len(stagings), 8)))
		if n > 0 {
			c.nontrivial(mustJSON(stagings))
		}
		if gogit {
			repo.Close()
			other.Close()
			remote.Close()
			cleanupScratch()
		}
	}
}

var _ = entity.Id("")

// ---- identities: an identity built through the editing API (any order of Id(), SetMetadata,
// Mutate, Commit) keeps the id it showed, reads back with the same versions, and its id is the
// hash of its first version as stored.

type idenView struct {
	Name, Email, Login, Avatar string
	Imm, Mut                   string
	Versions                   int
}

func idenViewOf(i *identity.Identity) idenView {
	return idenView{i.Name(), i.Email(), i.Login(), i.AvatarUrl(), mustJSON(i.ImmutableMetadata()), mustJSON(i.MutableMetadata()), len(i.LastModificationLamports())}
}

func c04Identities(c *runCtx) {
	N := c.pick(60, 600)
	for n := 0; n < N; n++ {
		r := c.rng.fork()
		var repo repository.TestedRepo
		if n%4 == 3 {
			repo, _ = newGoGit("c04i", false)
		} else {
			repo = newMock()
		}
		name := pickOne(r, []string{"René Descartes", "alice", "名前", "a b"})
		iden, err := identity.NewIdentityFull(repo, name, pickOne(r, []string{"a@b.c", "", "é@ü.de"}), pickOne(r, []string{"", "login"}), pickOne(r, []string{"", "https://example.com/a.png"}), nil)
		if err != nil {
			panic(err)
		}
		var shown []entity.Id // every id the identity has shown so far
		var trace []string
		steps := r.rangeInt(1, 8)
		committed := false
		for k := 0; k < steps; k++ {
			switch r.intn(5) {
			case 0:
				shown = append(shown, iden.Id())
				trace = append(trace, "Id")
			case 1:
				iden.SetMetadata(pickOne(r, mdKeyPool), pickOne(r, mdValPool))
				trace = append(trace, "SetMetadata")
			case 2:
				nn := pickOne(r, []string{"bob", "ünï", name})
				if err := iden.Mutate(repo, func(m *identity.Mutator) { m.Name = nn }); err != nil {
					panic(err)
				}
				trace = append(trace, "Mutate")
			default:
				if iden.NeedCommit() {
					if err := iden.Commit(repo); err != nil {
						panic(fmt.Sprintf("identity commit (%v): %v", trace, err))
					}
					committed = true
					shown = append(shown, iden.Id())
					trace = append(trace, "Commit")
				}
			}
		}
		if iden.NeedCommit() {
			if err := iden.Commit(repo); err != nil {
				panic(fmt.Sprintf("identity commit (%v): %v", trace, err))
			}
			committed = true
			trace = append(trace, "Commit")
		}
		_ = committed
		shown = append(shown, iden.Id())
		c.count("identity-trace-len=" + fmt.Sprint(min(len(trace), 9)))
		c.nontrivial("iden|" + strings.Join(trace, ","))
		c.context("identity API sequence " + strings.Join(trace, ","))
		for _, s := range shown {
			if s != shown[0] {
				c.violation(-1, "C04/identity-id-changed", fmt.Sprintf("an identity showed id %s and later %s (sequence %s)", shown[0].Human(), s.Human(), strings.Join(trace, ",")), map[string]any{"trace": trace})
				break
			}
		}
		id := iden.Id()
		got, err := identity.ReadLocal(repo, id)
		if err != nil {
			c.violation(-1, "C04/identity-unreadable", fmt.Sprintf("committed identity cannot be read back under its id (sequence %s): %v", strings.Join(trace, ","), err), map[string]any{"trace": trace})
			continue
		}
		if got.Id() != id {
			c.violation(-1, "C04/identity-id-changed", "the identity read back has another id", map[string]any{"trace": trace})
		}
		if a, b := idenViewOf(iden), idenViewOf(got); a != b {
			c.violation(-1, "C04/identity-roundtrip", fmt.Sprintf("identity read back differs: %+v vs %+v (sequence %s)", a, b, strings.Join(trace, ",")), map[string]any{"trace": trace})
		}
		if err := got.Validate(); err != nil {
			c.violation(-1, "C04/identity-invalid-after-read", err.Error(), nil)
		}
		// id = hash of the first version blob as stored
		commits, _ := repo.ListCommits("refs/identities/" + string(id))
		if len(commits) > 0 {
			entries, _ := repo.ReadTree(commits[0])
			if len(entries) == 1 {
				data, _ := repo.ReadData(entries[0].Hash)
				if sha256hex(data) != string(id) {
					c.violation(-1, "C04/identity-id-not-content", "the identity id is not the hash of its first version as stored", map[string]any{"trace": trace})
				}
			}
		}
		// the id shown before the first commit is what the first ref is created under
		for _, s := range shown {
			if ok, _ := repo.RefExist("refs/identities/" + string(s)); !ok {
				c.violation(-1, "C04/identity-ref-missing", fmt.Sprintf("no ref under the id %s the identity showed (sequence %s)", s.Human(), strings.Join(trace, ",")), nil)
				break
			}
		}
		if n%4 == 3 {
			repo.Close()
			cleanupScratch()
		}
	}
}

// c04Alias: the editing API as a caller uses it, with the caller keeping (and reusing) the metadata map
// it passed (the API copies it key by key; slices of file hashes are handed over to the operation and not
// reused here): what a call accepted — the operation id it handed back and the content — is what
// is read back after the commit, whatever the caller does to its own arguments afterwards.
func c04Alias(c *runCtx) {
	for rep := 0; rep < c.pick(12, 120); rep++ {
		r := c.rng.fork()
		repo := newMock()
		restore := storeFilesIn(repo)
		authors := mkAuthors(repo, 1)
		a := authors[0]
		t := int64(1_600_000_000)
		md := map[string]string{"k": "v" + randHexId(r, 3)}
		files := []repository.Hash{fileSource(r)}
		b, cop, err := bug.Create(a, t, "aliasing "+randHexId(r, 4), "message", files, md)
		if err != nil {
			panic(err)
		}
		type accepted struct {
			call, id, payload string
		}
		var acc []accepted
		note := func(call string, op dag.Operation) {
			acc = append(acc, accepted{call, string(op.Id()), mustJSON(opJSONWire(op))})
		}
		note("Create", cop)
		scribble := func() {
			// the caller reuses its map and slice for the next call
			md["k"] = "changed " + randHexId(r, 3)
			md["extra"+randHexId(r, 2)] = "x"
		}
		scribble()
		n := r.rangeInt(2, 6)
		for k := 0; k < n; k++ {
			t++
			switch r.intn(6) {
			case 0:
				if _, op, err := bug.AddComment(b, a, t, "comment "+randHexId(r, 3), files, md); err == nil {
					note("AddComment", op)
				}
			case 1:
				if _, op, err := bug.EditComment(b, a, t, cop.Id(), "edited "+randHexId(r, 3), files, md); err == nil {
					note("EditComment", op)
				}
			case 2:
				if op, err := bug.SetMetadata(b, a, t, cop.Id(), md); err == nil {
					note("SetMetadata", op)
				}
			case 3:
				add := []string{"l" + randHexId(r, 2), "m" + randHexId(r, 2)}
				if _, op, err := bug.ChangeLabels(b, a, t, add, nil, md); err == nil {
					note("ChangeLabels", op)
					add[0] = "scribbled"
				}
			case 4:
				if op, err := bug.SetTitle(b, a, t, "title "+randHexId(r, 3), md); err == nil {
					note("SetTitle", op)
				}
			case 5:
				add := []string{"f" + randHexId(r, 2)}
				if op, err := bug.ForceChangeLabels(b, a, t, add, nil, md); err == nil {
					note("ForceChangeLabels", op)
					add[0] = "scribbled"
				}
			}
			scribble()
			if r.chance(1, 3) {
				if err := b.Commit(repo); err != nil {
					panic(err)
				}
			}
		}
		if b.NeedCommit() {
			if err := b.Commit(repo); err != nil {
				panic(err)
			}
		}
		c.count(fmt.Sprintf("alias-session-ops=%d", len(acc)))
		rb, err := bug.Read(repo, b.Id())
		if err != nil {
			c.violation(-1, "C04/alias", "a bug written through the editing API (caller reusing its metadata map and file slice) cannot be read back: "+err.Error(), nil)
			restore()
			continue
		}
		ops := rb.Operations()
		if len(ops) != len(acc) {
			c.violation(-1, "C04/alias", fmt.Sprintf("%d operations accepted, %d read back", len(acc), len(ops)), nil)
			restore()
			continue
		}
		for i, o := range ops {
			if string(o.Id()) != acc[i].id {
				c.violation(-1, "C04/alias-id", fmt.Sprintf("%s: the operation id handed back by the call (%s) is not the id of the operation as stored (%s): the caller changed its own metadata map / slice after the call", acc[i].call, acc[i].id[:10], string(o.Id())[:10]), nil)
				break
			}
			if got := mustJSON(opJSONWire(o)); got != acc[i].payload {
				c.violation(-1, "C04/alias-content", fmt.Sprintf("%s: the content read back differs from what the call accepted (the caller changed its own map / slice after the call): accepted %s, stored %s", acc[i].call, trunc(acc[i].payload, 200), trunc(got, 200)), nil)
				break
			}
		}
		restore()
	}
}

// c04JsonStr: the byte level under every stored operation and identity version: what encoding/json
// writes for a string and reads from a literal, against the model (GitBugModel.JsonStr: encode, decode;
// decode (encode s) = s is proved there).
func c04JsonStr(c *runCtx) {
	r := c.rng.fork()
	var strs []string
	// every character below U+3100 alone between letters, then some of the other planes, then mixtures
	for cp := rune(0); cp <= 0x3100; cp++ {
		if cp >= 0xd800 && cp <= 0xdfff {
			continue
		}
		strs = append(strs, "a"+string(cp)+"b")
	}
	for _, cp := range []rune{0xfffd, 0xfffe, 0xffff, 0x10000, 0x1f600, 0x10ffff, 0xe000, 0xd7ff, 0xfeff} {
		strs = append(strs, string(cp), "x"+string(cp)+string(cp))
	}
	alphabet := []rune{'a', '"', '\\', '/', '<', '>', '&', '\n', '\r', '\t', '\b', '\f', 0, 0x1f, 0x7f, 0x80, 0x2028, 0x2029, 'é', '日', 0x1f600, ' ', 'u', '0'}
	for i := 0; i < c.pick(500, 20000); i++ {
		n := r.intn(12)
		rs := make([]rune, n)
		for k := range rs {
			rs[k] = pickOne(r, alphabet)
		}
		strs = append(strs, string(rs))
	}
	enc := make([]string, len(strs))
	for i, s := range strs {
		b, err := json.Marshal(s)
		if err != nil {
			panic(err)
		}
		enc[i] = string(b)
		var back string
		if err := json.Unmarshal(b, &back); err != nil || back != s {
			c.violation(c.nCases, "C04/json-string", fmt.Sprintf("a text does not survive encoding/json: %q -> %s -> %q (%v)", s, b, back, err), nil)
		}
	}
	// literals as a foreign writer could produce them: every escape form, pairs and lone surrogates, bad ones
	lits := []string{`"plain"`, `"\/"`, `"\u00e9\u00E9"`, `"\ud83d\ude00"`, `"\ud83d"`, `"\ud83dx"`, `"\ude00"`, `"\ud83d\u0041"`, `"\ud83d\ud83d\ude00"`,
		`"\x41"`, `"\u12"`, `"\u12g4"`, `"unterminated`, `""`, `"a"b"`, "\"raw\ttab\"", "\"raw\x01\"", `"\b\f\n\r\t\"\\"`, `"\u0000"`, `"\uFFFF\uffff"`, `"\`, `"\u"`, `plain`, `"\ud83d\u"`, `"\ud83d\ude0"`, "\"\x7f\"", `"é日😀"`}
	pieces := []string{`\u`, `d83d`, `de00`, `0041`, `\n`, `\\`, `\"`, `a`, `"`, `\ud800`, `\udfff`, `\udbff\udc00`, `é`, `/`, `\/`, `\z`}
	for i := 0; i < c.pick(300, 10000); i++ {
		var sb strings.Builder
		sb.WriteByte('"')
		for k := 0; k < r.intn(7); k++ {
			sb.WriteString(pickOne(r, pieces))
		}
		if r.chance(9, 10) {
			sb.WriteByte('"')
		}
		lits = append(lits, sb.String())
	}
	dec := make([]any, len(lits))
	for i, l := range lits {
		var back string
		if err := json.Unmarshal([]byte(l), &back); err != nil {
			dec[i] = map[string]any{"err": true}
			c.count("json-literal=err")
		} else {
			dec[i] = map[string]any{"ok": back}
			c.count("json-literal=ok")
		}
	}
	c.emit(map[string]any{"cmd": "jsonstr", "strings": strs, "literals": lits}, map[string]any{"encoded": enc, "decoded": dec})
	c.countN("json-strings", len(strs))
}

// c04CacheReplica: read back "through the cache and a second replica after push/pull", with the second
// replica's cache alive all along and the bug already loaded in it when the update arrives.
func c04CacheReplica(c *runCtx) {
	for rep := 0; rep < c.pick(3, 20); rep++ {
		r := c.rng.fork()
		remote, _ := newGoGit("c04cr", true)
		repoA, _ := newGoGit("c04ca", false)
		repoB, _ := newGoGit("c04cb", false)
		for _, rp := range []repository.TestedRepo{repoA, repoB} {
			if err := rp.AddRemote("origin", remote.GetLocalRemote()); err != nil {
				panic(err)
			}
		}
		rcA, rcB := mustCache(repoA), mustCache(repoB)
		ia, err := rcA.Identities().New("A", "a@example.com")
		if err != nil {
			panic(err)
		}
		rcA.SetUserIdentity(ia)
		ib, err := rcB.Identities().New("B", "b@example.com")
		if err != nil {
			panic(err)
		}
		rcB.SetUserIdentity(ib)
		ba, _, err := rcA.Bugs().New("replicated "+randHexId(r, 3), pickOne(r, messagePool))
		if err != nil {
			panic(err)
		}
		edit := func(b *cache.BugCache, n int) {
			for k := 0; k < n; k++ {
				switch r.intn(3) {
				case 0:
					b.AddComment(pickOne(r, messagePool) + randHexId(r, 2))
				case 1:
					b.ChangeLabels([]string{"l" + randHexId(r, 2), "k" + randHexId(r, 2)}, nil)
				default:
					b.SetTitle("title " + randHexId(r, 3))
				}
			}
			if err := b.Commit(); err != nil {
				panic(err)
			}
		}
		edit(ba, r.rangeInt(1, 3))
		rcA.Push("origin")
		if err := rcB.Pull("origin"); err != nil {
			panic(err)
		}
		id := ba.Id()
		if _, err := rcB.Bugs().Resolve(id); err != nil { // loaded in B's cache from now on
			c.violation(-1, "C04/unreadable", "a pulled bug cannot be resolved through the cache: "+err.Error(), nil)
			continue
		}
		edit(ba, r.rangeInt(1, 4))
		rcA.Push("origin")
		if err := rcB.Pull("origin"); err != nil {
			panic(err)
		}
		want := viewOps(ba.Snapshot().Operations)
		bb, err := rcB.Bugs().Resolve(id)
		if err != nil {
			c.violation(-1, "C04/unreadable", "after the second pull the bug cannot be resolved through the cache: "+err.Error(), nil)
			continue
		}
		if d := diffViews(want, viewOps(bb.Snapshot().Operations)); d != "" {
			c.violation(-1, "C04/roundtrip", "read through the long-lived cache of the second replica after a pull: "+d, nil)
		}
		// and what the second replica writes next builds on all of it
		bb.AddComment("from B")
		if err := bb.Commit(); err != nil {
			c.violation(-1, "C04/roundtrip", "the second replica cannot commit on the pulled bug: "+err.Error(), nil)
		}
		if stored, err := bug.Read(repoB, id); err != nil {
			c.violation(-1, "C04/unreadable", "second replica, after its own edit: "+err.Error(), nil)
		} else if got := viewOps(stored.Operations()); len(got) != len(want)+1 || diffViews(want, got[:len(want)]) != "" {
			c.violation(-1, "C04/roundtrip", fmt.Sprintf("after the second replica edited the pulled bug through its cache, git holds %d operations where %d + 1 are expected, or other ones", len(got), len(want)), nil)
		}
		c.count("cache-replica-roundtrips")
		rcA.Close()
		rcB.Close()
		remote.Close()
		cleanupScratch()
	}
}

// c04KeyChange: an author whose set of signing keys changes during the life of a bug: what was committed
// before the change, unsigned or signed with the earlier key, still reads back, here and on a second replica.
func c04KeyChange(c *runCtx) {
	for rep := 0; rep < c.pick(2, 10); rep++ {
		r := c.rng.fork()
		remote, _ := newGoGit("c04kr", true)
		repo, _ := newGoGit("c04ka", false)
		other, _ := newGoGit("c04kb", false)
		for _, rp := range []repository.TestedRepo{repo, other} {
			if err := rp.AddRemote("origin", remote.GetLocalRemote()); err != nil {
				panic(err)
			}
		}
		iden, err := identity.NewIdentity(repo, "keyed later", "k@example.com")
		if err != nil {
			panic(err)
		}
		if err := iden.Commit(repo); err != nil {
			panic(err)
		}
		// A new identity version records the clocks as they stand, which is the time of the last commit made,
		// and a key counts from its version's time on: the author's own last commit before a key change falls
		// on the boundary (known finding C04/key-change-boundary).  With some other commit in between (every
		// other run) the boundary is not touched and nothing may fail.
		boundary := rep%2 == 1
		spacerId, err := identity.NewIdentity(repo, "somebody else", "s@example.com")
		if err != nil {
			panic(err)
		}
		if err := spacerId.Commit(repo); err != nil {
			panic(err)
		}
		spacer := func() {
			if boundary {
				return
			}
			sb, _, err := bug.Create(spacerId, 1_600_000_000, "another bug "+randHexId(r, 3), "m", nil, nil)
			if err != nil {
				panic(err)
			}
			if err := sb.Commit(repo); err != nil {
				panic(err)
			}
		}
		keyOf := func(k string) string {
			if boundary {
				return "C04/key-change-boundary"
			}
			return k
		}
		b, _, err := bug.Create(iden, 1_600_000_000, "signed from the second commit on", "m", nil, nil)
		if err != nil {
			panic(err)
		}
		if err := b.Commit(repo); err != nil {
			panic(err)
		}
		nBefore := r.rangeInt(0, 2)
		for k := 0; k < nBefore; k++ {
			bug.AddComment(b, iden, int64(1_600_000_100+k), "before the key "+randHexId(r, 2), nil, nil)
			if err := b.Commit(repo); err != nil {
				panic(err)
			}
		}
		keys := []*identity.Key{identity.GenerateKey()}
		for round := 0; round < 2; round++ {
			spacer()
			if err := iden.Mutate(repo, func(m *identity.Mutator) { m.Keys = keys }); err != nil {
				panic(err)
			}
			if err := iden.Commit(repo); err != nil {
				panic(err)
			}
			bug.AddComment(b, iden, int64(1_600_000_200+round), "with key set "+fmt.Sprint(round), nil, nil)
			if err := b.Commit(repo); err != nil {
				c.violation(-1, "C04/roundtrip", "an author who has just changed keys cannot commit: "+err.Error(), nil)
			}
			keys = []*identity.Key{identity.GenerateKey()} // replaced in the next round
		}
		want := viewOps(b.Operations())
		for _, where := range []string{"same repository", "second replica"} {
			rr := repository.ClockedRepo(repo)
			if where == "second replica" {
				identity.Push(repo, "origin")
				bug.Push(repo, "origin")
				if err := identity.Pull(other, "origin"); err != nil {
					panic(err)
				}
				if err := bug.Pull(other, resolversFor(other), "origin", iden); err != nil {
					c.violation(-1, keyOf("C04/pull-failed"), "a bug whose author changed keys during its life cannot be pulled: "+err.Error(), nil)
					continue
				}
				rr = other
			}
			got, err := bug.Read(rr, b.Id())
			if err != nil {
				c.violation(-1, keyOf("C04/unreadable"), fmt.Sprintf("a bug whose author added and then replaced a signing key during its life (%d commits before the first key; the author's last commit right before each change: %v) cannot be read back (%s): %v", nBefore+1, boundary, where, err), nil)
				continue
			}
			if d := diffViews(want, viewOps(got.Operations())); d != "" {
				c.violation(-1, "C04/roundtrip", "read back ("+where+") after key changes: "+d, nil)
			}
		}
		c.count(fmt.Sprintf("key-change-roundtrips/boundary=%v", boundary))
		repo.Close()
		other.Close()
		remote.Close()
		cleanupScratch()
	}
}

// c04ParallelRead: "read back ... through a second replica after push/pull" when the second replica is a
// process with several readers (the web UI answers requests in parallel): the bugs arrive in one packfile,
// eight goroutines read all of them at the same time, each must see every bug exactly as it was committed.
// (A crash of the runtime inside the object storage ends the harness; the check reports that as such.)
func c04ParallelRead(c *runCtx) {
	for rep := 0; rep < c.pick(2, 6); rep++ {
		r := c.rng.fork()
		remote, _ := newGoGit("c04pr", true)
		repoA, _ := newGoGit("c04pa", false)
		repoB, dirB := newGoGit("c04pb", false)
		for _, rp := range []repository.TestedRepo{repoA, repoB} {
			if err := rp.AddRemote("origin", remote.GetLocalRemote()); err != nil {
				panic(err)
			}
		}
		authors := mkAuthors(repoA, 2)
		want := map[entity.Id][]string{}
		for k := 0; k < c.pick(30, 60); k++ {
			g := newOpGen(r.fork(), authors)
			b := bug.NewBug()
			cop := g.create()
			b.Append(cop)
			g.record(cop, true)
			for j := 0; j < r.intn(4); j++ {
				op, isC, _ := g.next()
				b.Append(op)
				g.record(op, isC)
			}
			if err := b.Commit(repoA); err != nil {
				panic(err)
			}
			want[b.Id()] = opIdsOf(b.Operations())
		}
		if _, err := identity.Push(repoA, "origin"); err != nil {
			panic(err)
		}
		if _, err := bug.Push(repoA, "origin"); err != nil {
			panic(err)
		}
		if err := identity.Pull(repoB, "origin"); err != nil {
			panic(err)
		}
		if err := bug.Pull(repoB, resolversFor(repoB), "origin", authors[0]); err != nil {
			panic(err)
		}
		repoB.Close()
		rb, err := openGoGit(dirB)
		if err != nil {
			panic(err)
		}
		var wg sync.WaitGroup
		var mu sync.Mutex
		var problems []string
		gate := make(chan struct{})
		for g := 0; g < 8; g++ {
			wg.Add(1)
			go func() {
				defer wg.Done()
				<-gate
				for id, ops := range want {
					b, err := bug.Read(rb, id)
					got := "unreadable"
					if err == nil {
						got = fmt.Sprint(opIdsOf(b.Operations()))
					}
					if got != fmt.Sprint(ops) {
						mu.Lock()
						problems = append(problems, fmt.Sprintf("bug %s: %v, read %s, committed %v", id.Human(), err, trunc(got, 80), len(ops)))
						mu.Unlock()
					}
				}
			}()
		}
		close(gate)
		wg.Wait()
		c.count("parallel-read")
		if len(problems) > 0 {
			c.violation(-1, "C04/unreadable", fmt.Sprintf("8 readers of a replica that pulled %d bugs: %s", len(want), problems[0]), nil)
		}
		rb.Close()
	}
}

package main

import (
	"time"

	gogit "github.com/go-git/go-git/v5"
	"github.com/go-git/go-git/v5/plumbing"
	"github.com/go-git/go-git/v5/plumbing/object"

	"encoding/base64"
	"encoding/json"
	"fmt"
	"sort"
	"strings"
	"unicode"

	"github.com/MichaelMure/git-bug/entities/identity"
	"github.com/MichaelMure/git-bug/entity"
	"github.com/MichaelMure/git-bug/repository"
	"github.com/MichaelMure/git-bug/util/lamport"
	"github.com/MichaelMure/git-bug/util/text"
)

func init() { props["C09"] = runC09 }

type versionJ struct {
	Commit     string   `json:"commit"`
	Times      [][]any  `json:"times"`
	NameEmpty  bool     `json:"nameEmpty"`
	LoginEmpty bool     `json:"loginEmpty"`
	NameSafe   bool     `json:"nameSafe"`
	LoginSafe  bool     `json:"loginSafe"`
	EmailSafe  bool     `json:"emailSafe"`
	AvatarOk   bool     `json:"avatarOk"`
	NonceLen   int      `json:"nonceLen"`
	KeysOk     bool     `json:"keysOk"`
	Keys       []string `json:"keys"`
	// the texts themselves: the model decides nameSafe/loginSafe/emailSafe from them (the three
	// flags above, computed by the implementation, are then not used by the driver)
	Name  *string `json:"name,omitempty"`
	Login *string `json:"login,omitempty"`
	Email *string `json:"email,omitempty"`
}

// a version as written on disk (entities/identity versionJSON)
type rawVersion struct {
	Version  uint              `json:"version"`
	Times    map[string]uint64 `json:"times"`
	UnixTime int64             `json:"unix_time"`
	Name     string            `json:"name,omitempty"`
	Email    string            `json:"email,omitempty"`
	Login    string            `json:"login,omitempty"`
	Avatar   string            `json:"avatar_url,omitempty"`
	Nonce    string            `json:"nonce"`
	Metadata map[string]string `json:"metadata,omitempty"`
}

func (v rawVersion) flags(commit string) versionJ {
	nonce, _ := base64.StdEncoding.DecodeString(v.Nonce)
	var times [][]any
	names := make([]string, 0)
	for k := range v.Times {
		names = append(names, k)
	}
	sort.Strings(names)
	for _, k := range names {
		times = append(times, []any{k, v.Times[k]})
	}
	if times == nil {
		times = [][]any{}
	}
	return versionJ{Commit: commit, Times: times,
		NameEmpty: text.Empty(v.Name), LoginEmpty: text.Empty(v.Login),
		NameSafe: text.SafeOneLine(v.Name), LoginSafe: text.SafeOneLine(v.Login), EmailSafe: text.SafeOneLine(v.Email),
		AvatarOk: v.Avatar == "" || text.ValidUrl(v.Avatar), NonceLen: len(nonce), KeysOk: true, Keys: []string{},
		Name: &v.Name, Login: &v.Login, Email: &v.Email}
}

// writeIdentityChain writes crafted versions as a commit chain; returns commit hashes and the identity id.
func writeIdentityChain(repo repository.RepoData, vs []rawVersion, parent repository.Hash) ([]repository.Hash, entity.Id) {
	var hashes []repository.Hash
	var id entity.Id
	for i, v := range vs {
		blob, _ := json.Marshal(v)
		if i == 0 && parent == "" {
			id = entity.Id(sha256hex(blob))
		}
		bh, err := repo.StoreData(blob)
		if err != nil {
			panic(err)
		}
		th, err := repo.StoreTree([]repository.TreeEntry{{ObjectType: repository.Blob, Hash: bh, Name: "version"}})
		if err != nil {
			panic(err)
		}
		var ch repository.Hash
		if parent != "" {
			ch, err = repo.StoreCommit(th, parent)
		} else {
			ch, err = repo.StoreCommit(th)
		}
		if err != nil {
			panic(err)
		}
		hashes = append(hashes, ch)
		parent = ch
	}
	return hashes, id
}

var namePool = []string{"René", "", "  ", "alice", "bad\x00name", "tab\tname", "名前", "​", "new\nline"}
var emailPool = []string{"a@b.c", "", "x@\x07y", "é@ü.de"}
var avatarPool = []string{"", "https://example.com/a.png", "not a url", "/relative/path", "http://x\ny"}

func randRawVersion(r *rng, prev map[string]uint64, mode string) rawVersion {
	times := map[string]uint64{}
	for k, v := range prev {
		times[k] = v + uint64(pickOne(r, []int{0, 1, 2, 2, 9}))
	}
	switch mode {
	case "decrease":
		for k, v := range times {
			if v > 0 && prev[k] > 0 {
				// anywhere below the previous version's value: just under it, or further down (still
				// above what an earlier version recorded, or not)
				times[k] = prev[k] - 1 - uint64(r.intn(int(prev[k])))
				break
			}
		}
	case "drop":
		for k := range times {
			delete(times, k)
			break
		}
	case "newclock":
		times[fmt.Sprintf("clock%d", r.intn(5))] = uint64(r.intn(9))
	case "swap": // one clock disappears while another one appears
		for k := range times {
			delete(times, k)
			break
		}
		times[fmt.Sprintf("swapped%d", r.intn(5))] = uint64(r.intn(9))
	}
	nl := 20
	switch r.intn(12) {
	case 0:
		nl = 19
	case 1:
		nl = 64
	case 2:
		nl = 65
	case 3:
		nl = 0
	}
	nonce := make([]byte, nl)
	for i := range nonce {
		nonce[i] = byte(r.intn(256))
	}
	name, login := "valid name", ""
	if r.chance(1, 3) {
		name = pickOne(r, namePool)
	}
	if r.chance(1, 4) {
		login = pickOne(r, namePool)
	}
	email := "a@b.c"
	if r.chance(1, 5) {
		email = pickOne(r, emailPool)
	}
	avatar := ""
	if r.chance(1, 4) {
		avatar = pickOne(r, avatarPool)
	}
	return rawVersion{Version: 2, Times: times, UnixTime: 1_600_000_000 + int64(r.intn(1000)), Name: name, Email: email,
		Login: login, Avatar: avatar, Nonce: base64.StdEncoding.EncodeToString(nonce)}
}

func runC09(c *runCtx) {
	defer cleanupScratch()
	c09Validate(c)
	c09Merge(c)
	c09Real(c)
	c09Cache(c)
	c09Text(c)
	c09Foreign(c, "C09")
}

// recommit writes, with go-git directly, commits carrying the given trees under another author
// signature: the same version blobs in commits that are not the local ones.
func recommit(dir string, trees []repository.Hash, parent repository.Hash, who string) []repository.Hash {
	gr, err := gogit.PlainOpen(dir)
	if err != nil {
		panic(err)
	}
	var out []repository.Hash
	for i, t := range trees {
		cm := &object.Commit{
			Author:    object.Signature{Name: who, Email: who + "@example.com", When: time.Unix(int64(1500000000+i), 0)},
			Committer: object.Signature{Name: who, Email: who + "@example.com", When: time.Unix(int64(1500000000+i), 0)},
			TreeHash:  plumbing.NewHash(string(t)),
		}
		if parent != "" {
			cm.ParentHashes = []plumbing.Hash{plumbing.NewHash(string(parent))}
		}
		obj := gr.Storer.NewEncodedObject()
		if err := cm.Encode(obj); err != nil {
			panic(err)
		}
		h, err := gr.Storer.SetEncodedObject(obj)
		if err != nil {
			panic(err)
		}
		parent = repository.Hash(h.String())
		out = append(out, parent)
	}
	return out
}

// c09Foreign: a remote serves, under the id of a local identity, a chain that repeats the local
// version blobs in other commits (no commit in common) and may add versions of its own.
func c09Foreign(c *runCtx, prop string) {
	for rep := 0; rep < c.pick(2, 10); rep++ {
		for p := 1; p <= 3; p++ {
			for q := 1; q <= p; q++ { // how many of the local versions the foreign chain repeats
				for b := 0; b <= 2; b++ {
					r := c.rng.fork()
					repo, dir := newGoGit("c09f", false)
					var vs []rawVersion
					prev := map[string]uint64{"bugs-edit": 1}
					for k := 0; k < p+b; k++ {
						v := randRawVersion(r, prev, "ok")
						v.Name, v.Login, v.Email, v.Avatar = "valid", "", "a@b.c", ""
						v.Nonce = "QUJDREVGR0hJSktMTU5PUFFSU1RVVg=="
						prev = v.Times
						vs = append(vs, v)
					}
					lh, id := writeIdentityChain(repo, vs[:p], "")
					// trees of the local versions, and of b further ones
					var trees []repository.Hash
					for _, h := range lh[:q] {
						cm, _ := repo.ReadCommit(h)
						trees = append(trees, cm.TreeHash)
					}
					scratchChain, _ := writeIdentityChain(repo, vs[p:], lh[p-1])
					for _, h := range scratchChain {
						cm, _ := repo.ReadCommit(h)
						trees = append(trees, cm.TreeHash)
					}
					fh := recommit(dir, trees, "", "foreign")
					localRef, remoteRef := "refs/identities/"+string(id), "refs/remotes/origin/identities/"+string(id)
					repo.UpdateRef(localRef, lh[p-1])
					repo.UpdateRef(remoteRef, fh[len(fh)-1])
					local, _ := chainFlags(repo, localRef)
					remote, _ := chainFlags(repo, remoteRef)
					c.context(fmt.Sprintf("foreign identity chain p=%d q=%d b=%d", p, q, b))
					status := ""
					for res := range identity.MergeAll(repo, "origin") {
						if string(res.Id) == string(id) {
							status = mergeStatusName(res.Status)
						}
					}
					after, _ := chainFlags(repo, localRef)
					head, _ := repo.ResolveRef(localRef)
					res := map[string]string{"updated": "updated", "nothing": "nothing", "invalid": "nonFF"}[status]
					ref := ""
					if res == "updated" {
						ref = string(head)
					}
					cid := -1
					if prop == "C09" { // the identity merge model is behind the C09 driver
						cid = c.emit(map[string]any{"cmd": "merge", "local": local, "remote": remote, "pab": []int{0, p, q + b}, "via": "foreign"},
							map[string]any{"res": res, "chain": commitsOf(after), "ref": ref})
					}
					c.count("foreign=" + status)
					c.nontrivial(fmt.Sprintf("foreign/%d/%d/%d", p, q, b))
					if status != "invalid" || head != lh[p-1] || mustJSON(commitsOf(after)) != mustJSON(commitsOf(local)) {
						c.violation(cid, prop+"/foreign-identity-chain", fmt.Sprintf("a remote identity chain sharing no commit with the local one (p=%d, repeats %d version blobs, %d own versions) was reported %q; local ref moved: %v", p, q, b, status, head != lh[p-1]), nil)
					}
				}
			}
		}
	}
}

// c09Validate: crafted version chains (all field classes, clock histories) read back through
// identity.ReadLocal and judged by Identity.Validate.
func c09Validate(c *runCtx) {
	repo := newMock()
	N := c.pick(300, 8000)
	for i := 0; i < N; i++ {
		r := c.rng.fork()
		n := r.rangeInt(1, 4)
		var vs []rawVersion
		prev := map[string]uint64{"bugs-edit": uint64(r.intn(5)), "bugs-create": uint64(r.intn(5))}
		if r.chance(1, 6) {
			prev = map[string]uint64{}
		}
		var modes []string
		// one chain in four has irreproachable fields and 3..5 versions: the verdict is then about the
		// clock histories alone (up, then down to somewhere above or below what an earlier version had)
		clean := i%4 == 0
		if clean {
			n = r.rangeInt(3, 5)
		}
		for k := 0; k < n; k++ {
			mode := "ok"
			if k > 0 {
				mode = pickOne(r, []string{"ok", "ok", "ok", "decrease", "drop", "newclock", "swap"})
				if clean {
					mode = pickOne(r, []string{"ok", "ok", "ok", "decrease", "newclock", "swap", "drop"})
				}
			}
			v := randRawVersion(r, prev, mode)
			if clean {
				v.Name, v.Login, v.Email, v.Avatar = "valid name", "", "a@b.c", ""
				v.Nonce = base64.StdEncoding.EncodeToString([]byte("01234567890123456789"))
			}
			prev = v.Times
			vs = append(vs, v)
			modes = append(modes, mode)
		}
		hashes, id := writeIdentityChain(repo, vs, "")
		ref := "refs/identities/" + string(id)
		repo.UpdateRef(ref, hashes[len(hashes)-1])
		var flags []versionJ
		for k, v := range vs {
			flags = append(flags, v.flags(string(hashes[k])))
		}
		var valid bool
		iden, err := identity.ReadLocal(repo, id)
		if err != nil {
			c.count("validate=unreadable")
			repo.RemoveRef(ref)
			continue
		}
		if p := recoverTo(func() { valid = iden.Validate() == nil }); p != "" {
			c.violation(c.nCases, "C09/panic", "Identity.Validate panicked: "+p, vs)
		}
		cid := c.emit(map[string]any{"cmd": "validate", "versions": flags, "modes": modes}, map[string]any{"valid": valid})
		c.count(fmt.Sprintf("validate=%v", valid))
		c.nontrivial(mustJSON(flags))
		// oracle from the statement of C09
		bad := ""
		last := map[string]uint64{}
		for _, v := range vs {
			if strings.TrimFunc(v.Name, func(r rune) bool { return unicode.IsSpace(r) || !unicode.IsGraphic(r) }) == "" &&
				strings.TrimFunc(v.Login, func(r rune) bool { return unicode.IsSpace(r) || !unicode.IsGraphic(r) }) == "" {
				bad = "no name and login"
			}
			for _, s := range []string{v.Name, v.Login, v.Email} {
				for _, ru := range s {
					if unicode.IsControl(ru) {
						bad = "unsafe characters"
					}
				}
			}
			for k, t := range last {
				if now, ok := v.Times[k]; !ok {
					bad = "dropped clock"
				} else if now < t {
					bad = "decreasing clock"
				}
			}
			for k, t := range v.Times {
				last[k] = t
			}
		}
		if bad != "" && valid {
			c.violation(cid, "C09/accepted-invalid", "an identity with "+bad+" passes Validate", vs)
		}
		repo.RemoveRef(ref)
	}
}

// c09Merge: all (p, a, b) chain pairs written directly, merged through identity.MergeAll.
func c09Merge(c *runCtx) {
	maxN := c.pick(2, 3)
	for p := 1; p <= maxN+1; p++ {
		for a := 0; a <= maxN; a++ {
			for b := 0; b <= maxN; b++ {
				for rep := 0; rep < c.pick(1, 4); rep++ {
					c09MergeOne(c, c.rng.fork(), p, a, b)
				}
			}
		}
	}
}

func chainFlags(repo repository.RepoData, ref string) ([]versionJ, error) {
	hashes, err := repo.ListCommits(ref)
	if err != nil {
		return nil, err
	}
	var out []versionJ
	for _, h := range hashes {
		entries, err := repo.ReadTree(h)
		if err != nil || len(entries) != 1 {
			return nil, fmt.Errorf("bad tree")
		}
		data, err := repo.ReadData(entries[0].Hash)
		if err != nil {
			return nil, err
		}
		var rv rawVersion
		if err := json.Unmarshal(data, &rv); err != nil {
			return nil, err
		}
		out = append(out, rv.flags(string(h)))
	}
	return out, nil
}

func commitsOf(vs []versionJ) []string {
	out := make([]string, 0, len(vs))
	for _, v := range vs {
		out = append(out, v.Commit)
	}
	return out
}

func c09MergeOne(c *runCtx, r *rng, p, a, b int) {
	repo := newMock()
	mk := func(n int, prev map[string]uint64) ([]rawVersion, map[string]uint64) {
		var vs []rawVersion
		for k := 0; k < n; k++ {
			v := randRawVersion(r, prev, "ok")
			v.Name, v.Login, v.Email, v.Avatar = "valid", "", "a@b.c", ""
			nonce := make([]byte, 20)
			for i := range nonce {
				nonce[i] = byte(r.intn(256))
			}
			v.Nonce = base64.StdEncoding.EncodeToString(nonce)
			prev = v.Times
			vs = append(vs, v)
		}
		return vs, prev
	}
	common, t := mk(p, map[string]uint64{"bugs-edit": 1})
	ch, id := writeIdentityChain(repo, common, "")
	la, _ := mk(a, t)
	lb, _ := mk(b, t)
	// sometimes the remote side carries a version that does not validate (decreasing or dropped
	// clock, no name and login, unsafe name): the merge must refuse it and leave the local ref alone,
	// also when the remote extends the local history
	madeInvalid := false
	if b > 0 && r.chance(1, 3) {
		madeInvalid = true
		k := r.intn(len(lb))
		prev := t
		if k > 0 {
			prev = lb[k-1].Times
		}
		switch r.intn(4) {
		case 0:
			bad := randRawVersion(r, prev, "decrease")
			lb[k].Times = bad.Times
		case 1:
			bad := randRawVersion(r, prev, "drop")
			lb[k].Times = bad.Times
		case 2:
			lb[k].Name, lb[k].Login = "", ""
		case 3:
			lb[k].Name = "bad\x00name"
		}
		c.count("merge-remote-made-invalid")
	}
	lh, _ := writeIdentityChain(repo, la, ch[len(ch)-1])
	rh, _ := writeIdentityChain(repo, lb, ch[len(ch)-1])
	localRef, remoteRef := "refs/identities/"+string(id), "refs/remotes/origin/identities/"+string(id)
	repo.UpdateRef(localRef, append(ch, lh...)[len(ch)+len(lh)-1])
	repo.UpdateRef(remoteRef, append(ch, rh...)[len(ch)+len(rh)-1])
	local, _ := chainFlags(repo, localRef)
	remote, _ := chainFlags(repo, remoteRef)
	before, _ := repo.ResolveRef(localRef)
	status, reason := "", ""
	for res := range identity.MergeAll(repo, "origin") {
		if string(res.Id) == string(id) {
			status, reason = mergeStatusName(res.Status), res.Reason
		}
	}
	after, _ := chainFlags(repo, localRef)
	head, _ := repo.ResolveRef(localRef)
	res := map[string]string{"updated": "updated", "nothing": "nothing", "invalid": "nonFF"}[status]
	if status == "invalid" && strings.Contains(reason, "remote identity is invalid") {
		res = "invalidRemote"
	}
	ref := ""
	if res == "updated" {
		ref = string(head)
	}
	cid := c.emit(map[string]any{"cmd": "mergeAll", "local": local, "remote": remote, "pab": []int{p, a, b}},
		map[string]any{"res": res, "chain": commitsOf(after), "ref": ref})
	c.count(fmt.Sprintf("merge=%s", res))
	c.nontrivial(fmt.Sprintf("%d/%d/%d/%s", p, a, b, mustJSON(local)))
	// oracle
	remoteValid := !madeInvalid
	switch {
	case !remoteValid:
		if status != "invalid" || head != before || mustJSON(commitsOf(after)) != mustJSON(commitsOf(local)) {
			c.violation(cid, "C09/invalid-remote", fmt.Sprintf("the remote identity does not validate (p=%d,a=%d,b=%d): reported %q, local ref moved: %v", p, a, b, status, head != before), nil)
		}
	case b > 0 && a == 0: // remote extends local
		if status != "updated" || mustJSON(commitsOf(after)) != mustJSON(commitsOf(remote)) {
			c.violation(cid, "C09/extend", fmt.Sprintf("remote extends local (p=%d,b=%d): reported %q, local chain has %d versions", p, b, status, len(after)), nil)
		}
	case b == 0: // local equal or ahead
		if status != "nothing" || head != before {
			c.violation(cid, "C09/behind", fmt.Sprintf("local equal/ahead (p=%d,a=%d): reported %q or ref moved", p, a, status), nil)
		}
	default: // diverged
		if status != "invalid" || head != before {
			c.violation(cid, "C09/diverge", fmt.Sprintf("diverged (p=%d,a=%d,b=%d): reported %q or local ref moved", p, a, b, status), nil)
		}
	}
	if len(after) > 0 && len(local) > 0 && after[0].Commit != local[0].Commit {
		c.violation(cid, "C09/id-changed", "the first version (the identity id) changed", nil)
	}
}

// c09Real: the same through the real mutation API on two go-git replicas.
func c09Real(c *runCtx) {
	N := c.pick(6, 40)
	for i := 0; i < N; i++ {
		r := c.rng.fork()
		remote, _ := newGoGit("idremote", true)
		A, _ := newGoGit("idA", false)
		B, _ := newGoGit("idB", false)
		A.AddRemote("origin", remote.GetLocalRemote())
		B.AddRemote("origin", remote.GetLocalRemote())
		iden, err := identity.NewIdentity(A, "user", "u@example.com")
		if err != nil {
			panic(err)
		}
		mutate := func(repo repository.ClockedRepo, id *identity.Identity, n int) {
			for k := 0; k < n; k++ {
				repo.Increment("bugs-edit")
				err := id.Mutate(repo, func(m *identity.Mutator) { m.Name = fmt.Sprintf("user %d", r.intn(1_000_000)) })
				if err != nil {
					panic(err)
				}
			}
			if err := id.CommitAsNeeded(repo); err != nil {
				panic(err)
			}
		}
		p, a, b := r.intn(3), r.intn(3), r.intn(3)
		iden.Commit(A)
		mutate(A, iden, p)
		identity.Push(A, "origin")
		if err := identity.Pull(B, "origin"); err != nil {
			panic(err)
		}
		id := iden.Id()
		idB, err := identity.ReadLocal(B, id)
		if err != nil {
			panic(err)
		}
		mutate(A, iden, a)
		// B has seen what A has seen (as after pulling bugs too); otherwise B's lower clocks make
		// its new identity version "non-chronological" and the mutation cannot be committed
		B.Witness("bugs-edit", lamport.Time(clockTime(A, "bugs-edit")))
		mutate(B, idB, b)
		identity.Push(A, "origin")
		identity.Fetch(B, "origin")
		localRef, remoteRef := "refs/identities/"+string(id), "refs/remotes/origin/identities/"+string(id)
		local, _ := chainFlags(B, localRef)
		rem, _ := chainFlags(B, remoteRef)
		status := ""
		for res := range identity.MergeAll(B, "origin") {
			if string(res.Id) == string(id) {
				status = mergeStatusName(res.Status)
			}
		}
		after, _ := chainFlags(B, localRef)
		head, _ := B.ResolveRef(localRef)
		res := map[string]string{"updated": "updated", "nothing": "nothing", "invalid": "nonFF"}[status]
		ref := ""
		if res == "updated" {
			ref = string(head)
		}
		c.emit(map[string]any{"cmd": "merge", "local": local, "remote": rem, "pab": []int{p + 1, b, a}, "via": "mutate"},
			map[string]any{"res": res, "chain": commitsOf(after), "ref": ref})
		c.count("real-merge=" + status)
		if a > 0 && b == 0 && status != "updated" {
			c.violation(-1, "C09/extend", fmt.Sprintf("an identity mutated %d times remotely was merged with report %q", a, status), nil)
		}
		A.Close()
		B.Close()
		remote.Close()
		cleanupScratch()
	}
}

// c09Cache: the same through the cache (cache/identity_subcache.go, cache/identity_cache.go): an
// identity that is loaded in B's cache when a remote extension arrives must be the merged one
// afterwards (entity and excerpt), and a further local edit appends to the merged history.
func c09Cache(c *runCtx) {
	N := c.pick(4, 24)
	for i := 0; i < N; i++ {
		r := c.rng.fork()
		remote, _ := newGoGit("idcremote", true)
		A, _ := newGoGit("idcA", false)
		B, _ := newGoGit("idcB", false)
		A.AddRemote("origin", remote.GetLocalRemote())
		B.AddRemote("origin", remote.GetLocalRemote())
		rcA, rcB := mustCache(A), mustCache(B)
		ia, err := rcA.Identities().New("user", "u@example.com")
		if err != nil {
			panic(err)
		}
		rcA.SetUserIdentity(ia)
		own, err := rcB.Identities().New("puller", "p@example.com")
		if err != nil {
			panic(err)
		}
		rcB.SetUserIdentity(own)
		if _, err := rcA.Push("origin"); err != nil {
			panic(err)
		}
		if err := rcB.Pull("origin"); err != nil {
			panic(err)
		}
		id := ia.Id()
		loaded := r.chance(3, 4)
		if loaded {
			if _, err := rcB.Identities().Resolve(id); err != nil {
				panic(err)
			}
			c.count("cache-merge-into-loaded")
		}
		a := 1 + r.intn(3)
		name := ""
		for k := 0; k < a; k++ {
			name = fmt.Sprintf("user %d", r.intn(1_000_000))
			if err := ia.Mutate(A, func(m *identity.Mutator) { m.Name = name }); err != nil {
				panic(err)
			}
			if err := ia.Commit(); err != nil {
				panic(err)
			}
		}
		if _, err := rcA.Push("origin"); err != nil {
			panic(err)
		}
		localRef := "refs/identities/" + string(id)
		local, _ := chainFlags(B, localRef)
		if _, err := rcB.Fetch("origin"); err != nil {
			panic(err)
		}
		rem, _ := chainFlags(B, "refs/remotes/origin/identities/"+string(id))
		status := ""
		for res := range rcB.MergeAll("origin") {
			if res.Id == id {
				status = mergeStatusName(res.Status)
			}
		}
		merged, _ := chainFlags(B, localRef)
		head, _ := B.ResolveRef(localRef)
		ref := ""
		if status == "updated" {
			ref = string(head)
		}
		cid := c.emit(map[string]any{"cmd": "mergeAll", "local": local, "remote": rem, "pab": []int{1, 0, a}, "via": "cache"},
			map[string]any{"res": status, "chain": commitsOf(merged), "ref": ref})
		if status != "updated" || mustJSON(commitsOf(merged)) != mustJSON(commitsOf(rem)) {
			c.violation(cid, "C09/extend", fmt.Sprintf("through the cache: an identity extended %d times remotely was merged with report %q, local chain has %d versions", a, status, len(merged)), nil)
		}
		// what the cache now serves
		ib, err := rcB.Identities().Resolve(id)
		if err != nil {
			panic(err)
		}
		if ib.Name() != name {
			c.violation(cid, "C09/cache-stale-after-merge", fmt.Sprintf("after merging the remote extension the cache serves the identity named %q, the merged one is named %q (loaded before the merge: %v)", ib.Name(), name, loaded), nil)
		}
		if ex, err := rcB.Identities().ResolveExcerpt(id); err != nil || ex.Name != name {
			c.violation(cid, "C09/cache-stale-after-merge", fmt.Sprintf("after merging the remote extension the excerpt is not the merged identity's (loaded before the merge: %v)", loaded), nil)
		}
		// a further local edit through the cache appends to the merged history
		if err := ib.Mutate(B, func(m *identity.Mutator) { m.Name = "edited on B" }); err != nil {
			panic(err)
		}
		if err := ib.Commit(); err != nil {
			panic(err)
		}
		final, _ := chainFlags(B, localRef)
		fc, mc := commitsOf(final), commitsOf(merged)
		grown := len(fc) == len(mc)+1
		for k := 0; grown && k < len(mc); k++ {
			grown = fc[k] == mc[k]
		}
		c.count("cache-edit-after-merge")
		if !grown {
			c.violation(cid, "C09/history-rewritten", fmt.Sprintf("a local edit after the merge left %d versions where the merged history had %d: the history did not grow by appending (loaded before the merge: %v)", len(fc), len(mc), loaded), nil)
		}
		rcA.Close()
		rcB.Close()
		remote.Close()
		cleanupScratch()
	}
}

// c09Text: util/text against its model (GitBugModel.Text): which texts are safe, and what the
// clean-ups return.  Strings are valid UTF-8 (a Go string with invalid bytes reads as U+FFFD,
// which is not a control character; such strings cannot be carried to the model).
func c09Text(c *runCtx) {
	r := c.rng.fork()
	alphabet := []rune{'a', 'b', 'Z', '0', ' ', ' ', '\t', '\n', '\r', '\v', '\f', 0, 1, 0x1b, 0x1f, 0x7f, 0x80, 0x85, 0x9f, 0xa0, 0xad,
		0x1680, 0x2000, 0x200a, 0x200b, 0x2028, 0x2029, 0x202f, 0x205f, 0x3000, 0xfeff, 'é', '日', '😀', '"', '\\', '<'}
	N := c.pick(600, 6000)
	var strs []string
	var outs []any
	for i := 0; i < N; i++ {
		n := r.intn(9)
		var rs []rune
		for k := 0; k < n; k++ {
			if r.chance(1, 6) {
				rs = append(rs, '\r', '\n')
			} else if r.chance(1, 10) {
				rs = append(rs, rune(r.intn(0x250)))
			} else {
				rs = append(rs, pickOne(r, alphabet))
			}
		}
		s := string(rs)
		strs = append(strs, s)
		out := map[string]any{"safe": text.Safe(s), "safeOneLine": text.SafeOneLine(s), "cleanup": text.Cleanup(s), "cleanupOneLine": text.CleanupOneLine(s)}
		outs = append(outs, out)
		c.count(fmt.Sprintf("text:safe=%v/oneLine=%v/cleanup-changes=%v", out["safe"], out["safeOneLine"], out["cleanup"] != s))
		// the statements of the model's theorems, on the real functions
		if !text.Safe(text.Cleanup(s)) || !text.SafeOneLine(text.CleanupOneLine(s)) {
			c.violation(c.nCases, "C09/cleanup-unsafe", fmt.Sprintf("a cleaned text is not safe: %q", s), nil)
		}
		if one := text.CleanupOneLine(s); text.CleanupOneLine(one) != one {
			c.violation(c.nCases, "C09/cleanup-not-idempotent", fmt.Sprintf("CleanupOneLine is not idempotent on %q", s), nil)
		}
	}
	c.emit(map[string]any{"cmd": "text", "strings": strs}, outs)
	// every character of the first planes' lower part once, alone between letters and at the edges:
	// each control character, each kind of space
	strs, outs = nil, nil
	for cp := rune(0); cp <= 0x3100; cp++ {
		if cp >= 0xd800 && cp <= 0xdfff {
			continue
		}
		for _, s := range []string{"a" + string(cp) + "b", string(cp) + "x" + string(cp)} {
			strs = append(strs, s)
			outs = append(outs, map[string]any{"safe": text.Safe(s), "safeOneLine": text.SafeOneLine(s), "cleanup": text.Cleanup(s), "cleanupOneLine": text.CleanupOneLine(s)})
			if !text.Safe(text.Cleanup(s)) || !text.SafeOneLine(text.CleanupOneLine(s)) {
				c.violation(c.nCases, "C09/cleanup-unsafe", fmt.Sprintf("a cleaned text is not safe: %q", s), nil)
			}
		}
	}
	c.count("text:every-character-below-0x3100")
	c.emit(map[string]any{"cmd": "text", "strings": strs}, outs)
}

// the text slice on its own (C16 depends on it: imported text is cleaned, then validated)
func init() {
	props["Text"] = func(c *runCtx) { c.prop = "C09"; c09Text(c) }
}

package main

import (
	"fmt"
	"strings"

	"github.com/MichaelMure/git-bug/util/lamport"
)

func init() {
	props["C01"] = func(c *runCtx) { runReplicas(c, "C01") }
	props["C02"] = func(c *runCtx) { runReplicas(c, "C02") }
}

// runReplicas: random interleavings of {new bug, edit, push, pull} on 2..3 replicas sharing
// a remote, then synchronisation to quiescence. Every pull is a `mergeAll` case for the model
// (C02: statuses, heads, merge commits, returned entities, clocks); at the end every replica's
// view of every bug is a `read` case and the convergence oracle (C01) compares the replicas.
// c01FarMerge: the replica that has to join two branches has seen, on other bugs, clocks far ahead of this
// bug's (the clocks are per kind of entity, not per bug): the commit that joins them stands more than the
// plausible hop above both parents, and is exempt from that limit — everybody reads the merged bug.
func c01FarMerge(c *runCtx, prop string) {
	for rep := 0; rep < c.pick(2, 6); rep++ {
		r := c.rng.fork()
		s := newReplicaSys(c, r, 2)
		A, B := s.reps[0], s.reps[1]
		s.newBug(A)
		s.push(A)
		s.pull(B, false)
		s.edit(A, 2)
		s.edit(B, 2)
		s.push(A)
		if err := B.repo.Witness("bugs-edit", lamport.Time(2_500_000+r.intn(1000))); err != nil {
			panic(err)
		}
		s.logf("B:witness(far)")
		s.pull(B, prop == "C02") // B joins the branches at a far time
		s.push(B)
		s.pull(A, prop == "C02")
		for _, rp := range s.reps {
			for _, id := range s.bugIds {
				if _, err := safeRead(rp.repo, id); err != nil {
					c.violation(-1, "C01/unreadable", fmt.Sprintf("after a merge written by a replica whose clock is far ahead, %s cannot read bug %s: %v; schedule %v", rp.name, id.Human(), err, s.log), nil)
				}
			}
		}
		c.count("far-merge")
		s.close()
		cleanupScratch()
	}
}

func runReplicas(c *runCtx, prop string) {
	defer cleanupScratch()
	c01FarMerge(c, prop)
	N := c.pick(14, 220)
	for i := 0; i < N; i++ {
		r := c.rng.fork()
		k := 2
		if r.chance(1, 3) {
			k = 3
		}
		s := newReplicaSys(c, r, k)
		steps := r.rangeInt(4, c.pick(18, 45))
		// a bug everybody has, so that concurrent edits are likely
		s.newBug(s.reps[0])
		s.push(s.reps[0])
		for _, rp := range s.reps[1:] {
			s.pull(rp, prop == "C02")
		}
		if i%4 == 1 {
			// both sides merge the same pair of concurrent heads, each over its own channel, one
			// publishes its merge commit first and the other goes on editing
			A, B := s.reps[0], s.reps[1]
			s.edit(A, 2)
			s.edit(B, 2)
			s.push(A)
			s.pushTo(B, "alt")
			s.pullFrom(A, "alt", prop == "C02")
			s.pull(B, prop == "C02")
			s.push(B)
			s.pull(A, prop == "C02")
			s.edit(A, 2)
			c.count("directed-both-merge-same-heads")
			if i%8 == 1 {
				steps = 0 // nobody else edits afterwards: the last edit has to travel by itself
			}
		}
		for st := 0; st < steps; st++ {
			rp := pickOne(r, s.reps)
			switch x := r.intn(10); {
			case x < 1:
				s.newBug(rp)
			case x < 6:
				s.edit(rp, 3)
			case x < 8:
				if r.chance(1, 4) {
					s.pushTo(rp, "alt") // a second channel: both sides can end up merging the same pair of heads
				} else {
					s.push(rp)
				}
			default:
				if r.chance(1, 4) {
					s.pullFrom(rp, "alt", prop == "C02")
				} else {
					s.pull(rp, prop == "C02")
				}
			}
		}
		quiescent := s.syncToQuiescence(prop == "C02")
		if !quiescent {
			c.violation(-1, prop+"/no-quiescence", fmt.Sprintf("replicas did not reach quiescence in 8 rounds; schedule %v", s.log), nil)
		}
		c.count(fmt.Sprintf("replicas=%d", k))
		c.countN("steps", len(s.log))
		// ---- C01 oracle: identical operations in identical order, identical snapshots
		views := make([]map[string][]string, len(s.reps))
		for ri, rp := range s.reps {
			views[ri] = s.readAllOps(rp)
		}
		for _, id := range s.bugIds {
			ref := views[0][string(id)]
			for ri := range s.reps {
				got, ok := views[ri][string(id)]
				if !ok {
					c.violation(-1, "C01/unreadable", fmt.Sprintf("after synchronisation replica %s cannot read bug %s; schedule %v", s.reps[ri].name, id.Human(), s.log), nil)
					continue
				}
				if strings.Join(got, ",") != strings.Join(ref, ",") {
					c.violation(-1, "C01/diverged", fmt.Sprintf("after synchronisation replicas %s and %s show bug %s with different operations or order; schedule %v",
						s.reps[0].name, s.reps[ri].name, id.Human(), s.log), map[string]any{"a": ref, "b": got})
				}
			}
			// compiled snapshots
			var snaps []string
			for _, rp := range s.reps {
				if b, err := safeRead(rp.repo, id); err == nil {
					snaps = append(snaps, mustJSON(snapJSON(b.Compile())))
				}
			}
			for _, sn := range snaps {
				if sn != snaps[0] {
					c.violation(-1, "C01/snapshot-diverged", fmt.Sprintf("after synchronisation the compiled state of bug %s differs between replicas; schedule %v", id.Human(), s.log), nil)
				}
			}
		}
		// every replica's view of every bug as a `read` case for the model
		if prop == "C01" {
			for _, rp := range s.reps {
				for _, id := range s.bugIds {
					h, err := rp.repo.ResolveRef("refs/bugs/" + string(id))
					if err != nil {
						continue
					}
					var out map[string]any
					if b, err := safeRead(rp.repo, id); err != nil {
						out = map[string]any{"err": readErrClass(err)}
					} else {
						out = map[string]any{"ops": opIdsOf(b.Operations()), "create": uint64(b.CreateLamportTime()), "edit": uint64(b.EditLamportTime())}
					}
					commits := dumpCommits(rp.repo, h)
					c.emit(map[string]any{"cmd": "read", "commits": commits, "head": string(h), "replica": rp.name, "schedule": strings.Join(s.log, " ")}, out)
					if len(commits) > 2 {
						c.nontrivial(mustJSON(commits))
					}
					c.count(fmt.Sprintf("dag-commits=%d", min(len(commits), 12)))
				}
			}
		}
		if s.scen5 > 0 {
			c.count("scenarios-with-merge-commit")
		}
		s.close()
		cleanupScratch()
	}
}

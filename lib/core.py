"""Orchestration shared by every property check (python3 stdlib only).

One check = extract facts from /repo -> Gen/*.lean ; lake build the property's theorem module
and the driver ; axiom/sorry audit ; build the Go harness against /repo's working tree ; run the
real code and the Lean model on the same cases ; compare ; evaluate the implementation-side
oracle ; verdict, replay file, evidence file.
"""
import fcntl
import hashlib
import json
import os
import re
import shutil
import subprocess
import sys
import tempfile
import time

VERIF = os.path.dirname(os.path.dirname(os.path.abspath(__file__)))
REPO = os.environ.get("VERIF_REPO", "/repo")
LEAN = os.path.join(VERIF, "lean")
BUILD = os.path.join(VERIF, ".build")
ALLOWED_AXIOMS = {"propext", "Classical.choice", "Quot.sound"}
FORBIDDEN = re.compile(r"\b(sorry|admit|native_decide|bv_decide|implemented_by|unsafe)\b|^\s*axiom\s|maxHeartbeats\s+0\b")

GOENV = dict(os.environ, GOFLAGS="-mod=mod", GOPROXY="off", GOSUMDB="off", GOTOOLCHAIN="local")
# git-bug's keyring probes the desktop's secret service over D-Bus; without a session bus every process
# (the harness, each run of the git-bug binary) auto-launches a dbus-daemon that stays behind. A dead
# address makes the probe fail at once and the keyring falls through to its file backend, as it does anyway.
GOENV.setdefault("DBUS_SESSION_BUS_ADDRESS", "unix:path=/nonexistent/verif-no-session-bus")


def log(*a):
    print(*a, file=sys.stderr, flush=True)


class Lock:
    def __init__(self, name):
        os.makedirs(BUILD, exist_ok=True)
        self.path = os.path.join(BUILD, name + ".lock")

    def __enter__(self):
        self.f = open(self.path, "w")
        fcntl.flock(self.f, fcntl.LOCK_EX)
        return self

    def __exit__(self, *a):
        fcntl.flock(self.f, fcntl.LOCK_UN)
        self.f.close()


def run(cmd, cwd=None, env=None, timeout=None, stdin=None, stdout=subprocess.PIPE):
    p = subprocess.run(cmd, cwd=cwd, env=env, timeout=timeout, stdin=stdin, stdout=stdout,
                       stderr=subprocess.STDOUT, text=True)
    return p.returncode, (p.stdout or "")


def repo_tag():
    """Distinguishes build outputs when VERIF_REPO points at a scratch worktree."""
    return "main" if REPO == "/repo" else hashlib.sha1(REPO.encode()).hexdigest()[:10]


# ---------------------------------------------------------------------------------------------
# tie (a): facts extracted from the Go source -> Gen/*.lean

def extract():
    """Regenerates lean/GitBugModel/Gen/*.lean and .build/facts.json from REPO. Returns
    (ok, message, facts)."""
    gen_dir = os.path.join(LEAN, "GitBugModel", "Gen")
    os.makedirs(gen_dir, exist_ok=True)
    exe = os.path.join(BUILD, "extract")
    with Lock("extract"):
        rc, out = run(["go", "build", "-o", exe, "."], cwd=os.path.join(VERIF, "extract"), env=GOENV)
        if rc != 0:
            return False, "extractor build failed:\n" + out, {}
        tmp = tempfile.mkdtemp(prefix="gen-", dir=BUILD)
        try:
            rc, out = run([exe, "-repo", REPO, "-out", tmp], env=GOENV)
            if rc != 0:
                return False, "extractor failed:\n" + out, {}
            # delete stale generated files, then install the new ones (only rewrite on change)
            new = set(os.listdir(tmp))
            for f in os.listdir(gen_dir):
                if f.endswith(".lean") and f not in new:
                    os.remove(os.path.join(gen_dir, f))
            for f in new:
                src = os.path.join(tmp, f)
                dst = os.path.join(gen_dir, f) if f.endswith(".lean") else os.path.join(BUILD, f)
                data = open(src, "rb").read()
                if not os.path.exists(dst) or open(dst, "rb").read() != data:
                    with open(dst, "wb") as fh:
                        fh.write(data)
            facts = json.load(open(os.path.join(BUILD, "facts.json")))
        finally:
            shutil.rmtree(tmp, ignore_errors=True)
    return True, "", facts


# ---------------------------------------------------------------------------------------------
# obligations: lake build + audit

def lake_build(targets):
    with Lock("lake"):
        rc, out = run(["lake", "build"] + targets, cwd=LEAN, timeout=3000)
    return rc == 0, out


def lean_errors(out):
    """First error lines of a failed build, and the declarations they sit in (best effort)."""
    errs = []
    for m in re.finditer(r"^(?:error: )?(\S+\.lean):(\d+):(\d+):(?: error)?[^\n]*(?:\n  [^\n]*){0,4}", out, re.M):
        errs.append({"file": m.group(1), "line": int(m.group(2)), "msg": m.group(0)[:300]})
    for e in errs:
        path = e["file"] if os.path.isabs(e["file"]) else os.path.join(LEAN, e["file"])
        try:
            lines = open(path).read().split("\n")
            for i in range(min(e["line"], len(lines)) - 1, -1, -1):
                mm = re.match(r"\s*(?:private\s+)?(theorem|lemma|example|def|instance)\s+(\S+)?", lines[i])
                if mm:
                    e["decl"] = mm.group(2) or "example"
                    break
        except OSError:
            pass
    return errs


def module_sources(module):
    """Source files of `module` and of everything under GitBugModel it imports, transitively."""
    seen, todo = [], [module]
    while todo:
        m = todo.pop()
        if m in seen or not m.startswith("GitBugModel"):
            continue
        path = os.path.join(LEAN, *m.split(".")) + ".lean"
        if not os.path.exists(path):
            continue
        seen.append(m)
        for mm in re.finditer(r"^import\s+(\S+)", open(path).read(), re.M):
            todo.append(mm.group(1))
    return [os.path.join(LEAN, *m.split(".")) + ".lean" for m in seen]


def strip_comments(src):
    src = re.sub(r"/-.*?-/", lambda m: "\n" * m.group(0).count("\n"), src, flags=re.S)
    return re.sub(r"--[^\n]*", "", src)


def grep_forbidden(module):
    hits = []
    for path in module_sources(module):
        for i, line in enumerate(strip_comments(open(path).read()).split("\n"), 1):
            if FORBIDDEN.search(line):
                hits.append(f"{os.path.relpath(path, LEAN)}:{i}: {line.strip()[:120]}")
    return hits


def audit(module):
    """Returns (theorems: {name: [axioms]}, problems: [str])."""
    rc, out = run(["lake", "env", "lean", "--run", "Audit.lean", module], cwd=LEAN, timeout=900)
    thms, problems = {}, []
    for line in out.split("\n"):
        line = line.strip()
        if not line.startswith("{"):
            continue
        try:
            j = json.loads(line)
        except ValueError:
            continue
        if "axiom-declared" in j:
            problems.append("axiom declared: " + j["axiom-declared"])
        elif "theorem" in j and j["theorem"].startswith(module + "."):
            last = j["theorem"].split(".")[-1]
            if re.match(r"(eq_\d+|eq_def|match_\d+|proof_\d+|congr_simp|sizeOf_spec|injEq|inj)$", last):
                continue  # auto-generated equation/matcher lemmas are not counted as obligations
            thms[j["theorem"]] = j["axioms"]
    if rc != 0:
        problems.append("audit tool failed: " + out[-400:])
    for t, ax in thms.items():
        extra = set(ax) - ALLOWED_AXIOMS
        if extra:
            problems.append(f"{t} depends on axioms {sorted(extra)}")
    problems += ["forbidden token: " + h for h in grep_forbidden(module)]
    return thms, problems


def leanchecker(module):
    rc, out = run(["lake", "env", "leanchecker", module], cwd=LEAN, timeout=1800)
    return rc == 0, out[-600:]


# ---------------------------------------------------------------------------------------------
# tie (b): harness and driver

def build_harness():
    """go build of the harness against REPO's working tree with -tags verif."""
    os.makedirs(BUILD, exist_ok=True)
    exe = os.path.join(BUILD, "harness-" + repo_tag())
    hdir = os.path.join(VERIF, "harness")
    with Lock("harness-" + repo_tag()):
        args = ["go", "build", "-tags", "verif", "-o", exe]
        if REPO != "/repo":
            mod = open(os.path.join(hdir, "go.mod")).read().replace("=> /repo", "=> " + REPO)
            modfile = os.path.join(BUILD, f"go.{repo_tag()}.mod")
            open(modfile, "w").write(mod)
            shutil.copy(os.path.join(hdir, "go.sum"), modfile[:-4] + ".sum")
            args += ["-modfile", modfile]
        rc, out = run(args + ["."], cwd=hdir, env=GOENV, timeout=1800)
    return rc == 0, out, exe


def build_gitbug():
    """The git-bug CLI binary built from REPO (used by the CLI-level slices)."""
    exe = os.path.join(BUILD, "git-bug-" + repo_tag())
    with Lock("gitbug-" + repo_tag()):
        rc, out = run(["go", "build", "-tags", "verif", "-o", exe, "."], cwd=REPO, env=GOENV, timeout=1800)
    return rc == 0, out, exe


def driver_exe():
    return os.path.join(LEAN, ".lake", "build", "bin", "driver")


def run_driver(cases_path, model_path):
    with open(cases_path) as fin, open(model_path, "w") as fout:
        p = subprocess.run([driver_exe()], stdin=fin, stdout=fout, stderr=subprocess.PIPE, text=True)
    return p.returncode == 0, p.stderr[-400:]


def canon(v):
    return json.dumps(v, sort_keys=True, separators=(",", ":"), ensure_ascii=False)


def compare_streams(workdir):
    """Line-by-line comparison of impl.jsonl and model.jsonl. Returns (n, disagreements)."""
    dis, n = [], 0
    cases = open(os.path.join(workdir, "cases.jsonl"))
    with open(os.path.join(workdir, "impl.jsonl")) as fi, open(os.path.join(workdir, "model.jsonl")) as fm:
        for li, lm in zip(fi, fm):
            lc = cases.readline()
            n += 1
            ji, jm = json.loads(li), json.loads(lm)
            if canon(ji.get("out")) != canon(jm.get("out")) or ji.get("id") != jm.get("id"):
                if len(dis) < 50:
                    dis.append({"id": ji.get("id"), "case": json.loads(lc), "impl": ji.get("out"), "model": jm.get("out")})
                else:
                    dis.append({"id": ji.get("id")})
    ni = sum(1 for _ in open(os.path.join(workdir, "impl.jsonl")))
    nm = sum(1 for _ in open(os.path.join(workdir, "model.jsonl")))
    if ni != nm:
        dis.append({"id": None, "case": None, "impl": f"{ni} lines", "model": f"{nm} lines"})
    return n, dis


def scratch_dir(prefix):
    base = "/dev/shm" if os.path.isdir("/dev/shm") and os.access("/dev/shm", os.W_OK) else None
    return tempfile.mkdtemp(prefix=prefix, dir=base)


# ---------------------------------------------------------------------------------------------
# known findings

def load_known():
    p = os.path.join(VERIF, "known_findings.json")
    if not os.path.exists(p):
        return []
    return json.load(open(p))

#!/bin/bash
# usage: lib/seedconfirm.sh <worktree> <mutation dir> <pkgdir> <go test -run pattern> [extra test pkgs...]
# confirms: patch applies, builds, demo fails with the patch and passes without it, package tests pass with it.
set -u
WT=$1; M=$2; PKG=$3; PAT=$4; shift 4
export GOFLAGS=-mod=mod GOPROXY=off GOSUMDB=off GOTOOLCHAIN=local
cd "$WT" || exit 2
git checkout -q -- . ; git clean -fdq
cp "$M"/demo_test.go "$PKG"/zz_seed_demo_test.go
go test -vet=off -count=1 -run "$PAT" ./"$PKG"/ > /tmp/sc.$$ 2>&1; echo "demo without patch: rc=$? ($(tail -1 /tmp/sc.$$ | cut -c1-80))"
git apply "$M"/patch.diff || { echo "patch does not apply"; exit 2; }
go build ./... > /tmp/sc.$$ 2>&1; echo "build with patch: rc=$?"
go test -vet=off -count=1 -run "$PAT" ./"$PKG"/ > /tmp/sc.$$ 2>&1; echo "demo with patch: rc=$? ($(grep -m1 -E "^--- FAIL|panic:" /tmp/sc.$$ | cut -c1-100))"
rm -f "$PKG"/zz_seed_demo_test.go
go test -vet=off -count=1 ./"$PKG"/... "$@" 2>&1 | grep -v "no test files" | grep -E "^(ok|FAIL|---)" | cut -c1-100 | head -12
git checkout -q -- . ; git clean -fdq
rm -f /tmp/sc.$$

#!/bin/bash
# thorough tier of every claimed check, one after the other; used with `vp run` (own snapshot of /verif)
cd "$(dirname "$0")/.."
./setup > /dev/null 2>&1
for p in ${@:-C20 C13 C10 C03 C12 C09 C17 C16 C14 C08 C07 C04 C05 C06 C15 C11 C01 C02 C19 C18}; do
  timeout 7000 ./check $p --tier thorough 2>&1 | grep -E "^(OK|VIOLATION|KNOWN)|property fails|broken obligation|disagree" | cut -c1-400 | head -8
done
echo sweep-finished

#!/usr/bin/env python3
"""Regenerates MANIFEST.json from lib/props.py (claimed checks) and properties.jsonl."""
import json
import os
import sys

sys.path.insert(0, os.path.dirname(os.path.abspath(__file__)))
import props  # noqa: E402

V = os.path.dirname(os.path.dirname(os.path.abspath(__file__)))
allp = [json.loads(l) for l in open(os.path.join(V, "properties.jsonl"))]
claimed = [p for p in props.PROPS if not props.PROPS[p].get("unclaimed")]
hooks_commits = getattr(props, "HOOK_COMMITS", [])
m = {
    "version": 1,
    "setup_cmd": "./setup",
    "hooks": {
        "guard": "verif",
        "enable": "go build -tags verif (every check builds the harness and the git-bug binary from /repo's working tree with this tag)",
        "baseline_off_cmd": "cd /repo && go test -vet=off -count=1 -timeout 25m ./...",
        "source_commits": hooks_commits,
        "add_only": True,
    },
    "engines": [{
        "name": "lean-proof+correspondence", "path": "check", "serves_properties": sorted(claimed),
        "kind_free_text": "Lean 4 theorems about a hand-written executable model (lean/GitBugModel), tied to the Go source on every run by a "
                          "fact translator (extract/ -> lean/GitBugModel/Gen/*.lean, obligations proved over the regenerated facts) and a "
                          "differential correspondence run (harness/ calls the real packages, lean/Driver runs the model on the same cases)"}],
    "checks": [],
    "not_applicable": [],
    "notes": "DESIGN.md describes the approach; known_findings.json lists fixed and known defects; seeded/ holds the changes used to test the checks.",
}
for p in allp:
    pid = p["id"]
    if pid in claimed:
        cfg = props.PROPS[pid]
        m["checks"].append({
            "property_id": pid,
            "quick_cmd": f"./check {pid} --tier quick",
            "thorough_cmd": f"./check {pid} --tier thorough",
            "evidence_file": f"evidence/{pid}.json",
            "replay_cmd_template": f"./check {pid} --replay {{path}}",
            "engine": "lean-proof+correspondence",
            "level_claimed": {"category": "proof", "text": cfg["level_text"], "design_ref": cfg.get("design_ref", "DESIGN.md section 4 (" + pid + ")")},
            "level_note": cfg["level_note"],
            "technique": cfg.get("technique", "Lean 4 machine-checked theorems over an executable model; model tied to the Go code by regenerated facts and a differential correspondence run"),
        })
    else:
        reason = props.NOT_CLAIMED.get(pid, "not claimed yet: the Lean slice for this property is not built (the technique applies; see DESIGN.md section 9)")
        m["not_applicable"].append({"property_id": pid, "reason": reason})
json.dump(m, open(os.path.join(V, "MANIFEST.json"), "w"), indent=1, ensure_ascii=False)
print("claimed:", ", ".join(claimed))

#!/usr/bin/env python3
"""Regenerates the as-built tables of DESIGN.md (between the BUILD-REPORT markers) from
lib/props.py, known_findings.json and seeded/*/meta.json."""
import json, os, sys, glob, subprocess
V = os.path.dirname(os.path.dirname(os.path.abspath(__file__)))
sys.path.insert(0, os.path.join(V, "lib"))
import props

def esc(s): return str(s).replace("|", "\\|").replace("\n", " ")

out = []
out.append("### 11.1 Claimed properties as built\n")
out.append("| id | theorems required by the check (all kernel-accepted, audited) | regenerated facts | slices run against the real code |")
out.append("|---|---|---|---|")
order = sorted(props.PROPS)
for p in order:
    c = props.PROPS[p]
    out.append(f"| {p} | {esc(', '.join('`'+t+'`' for t in c['required_theorems']))} | {esc('; '.join(c.get('gen_facts') or ['—']))} | {esc(', '.join(c['slices']))}{' (+ git-bug binary)' if c.get('needs_gitbug') else ''} |")
out.append("")
out.append("### 11.2 Level per property (as claimed in MANIFEST.json)\n")
for p in order:
    out.append(f"* **{p}** — {props.PROPS[p]['level_text']}")
out.append("")
kf = json.load(open(os.path.join(V, "known_findings.json")))
out.append("### 11.3 Genuine defects repaired in /repo (`fix:` commits)\n")
out.append("| property | key of the oracle / obligation that failed | commit | what failed |")
out.append("|---|---|---|---|")
for e in kf:
    if e["state"] == "fixed":
        out.append(f"| {e['property']} | `{e['key']}` | {e.get('commit','')} | {esc(e['what'].split(' ',3)[-1] if e['what'].startswith('fixed:') else e['what'])} |")
out.append("")
out.append("### 11.4 Known findings (genuine, not repaired; the check prints KNOWN-FINDING and exits 0)\n")
for e in kf:
    if e["state"] == "known":
        out.append(f"* **{e['property']}** `{e['key']}` — {e['what']} *Replay:* {e['replay']}")
out.append("")
out.append("### 11.5 Seeded changes and which check caught them\n")
out.append("Each was written by a sub-agent that saw only the property text and a scratch worktree, confirmed by `lib/seedconfirm.sh` (builds, package tests pass, demonstration fails with / passes without the patch) and run with `lib/seedrun.sh` (applied to /repo, check, undone).\n")
out.append("| seed | breaks | needs, to manifest | caught |")
out.append("|---|---|---|---|")
for m in sorted(glob.glob(os.path.join(V, "seeded", "*", "meta.json"))):
    j = json.load(open(m))
    out.append(f"| {j['id']} | {j['breaks_property']} | {esc(j['needs_to_manifest'])} | {j['detected_by_check']} |")
out.append("")
text = "\n".join(out)
p = os.path.join(V, "DESIGN.md")
s = open(p).read()
b, e = "<!-- BUILD-REPORT:BEGIN -->", "<!-- BUILD-REPORT:END -->"
if b in s:
    s = s[:s.index(b) + len(b)] + "\n" + text + "\n" + s[s.index(e):]
    open(p, "w").write(s)
    print("DESIGN.md tables regenerated")
else:
    print("markers not found", file=sys.stderr); sys.exit(1)

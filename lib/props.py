"""Per-property configuration of ./check."""

KERNEL = "Lean 4.33.0 kernel (lake build); axioms propext, Classical.choice, Quot.sound only (audited per theorem by lean/Audit.lean)"
TIE = "hand-written Lean model tied to the Go code by the correspondence run (harness/ + Driver/) and by facts regenerated from the source (extract/ -> Gen/)"

NOT_CLAIMED = {}

# commits in /repo that add instrumentation guarded by the build tag `verif`
HOOK_COMMITS = ["e7602bd", "b3759d9"]

PROPS = {
    "C20": {
        "level_text": "FULL for the connection code: unbounded theorems (window, forward/backward walks visit every element once in order, "
                      "truthful flags, end cursors, total, negative sizes rejected, foreign cursors ignored) about a model of NameCon; the "
                      "seven genny instances are shown to be the template by a regenerated obligation; model = code is validated "
                      "exhaustively on small inputs and randomly on larger ones; the cursor encoder of the source (OffsetToCursor: "
                      "base-64 of cursor:<decimal offset>) is modelled and proved injective, so the walk theorems hold for it without "
                      "any assumption (walk_forward_go, walk_backward_go); every paginated field of the served GraphQL schema "
                      "(allBugs, allIdentities, validLabels, a bug's comments, timeline, operations, actors, participants) is walked "
                      "page by page through the real handler, one request per page, and every page is also a case for the model; that "
                      "the list the resolvers page over is the same for every request of a walk is C12's query_deterministic (the bug "
                      "order is total, so independent of map iteration) and, for identities, the sort repaired in /repo",
        "level_note": "Trusted: Lean kernel, the extractor, the harness/comparer. Assumed: edge makers use OffsetToCursor(offset) (true of all "
                      "call sites). Nothing changes the repository between the requests of one walk.",
        "required_theorems": ["page_window", "page_inside_cursors", "walk_forward", "walk_backward", "hasNext_truthful",
                              "hasPrev_truthful", "cursors_are_ends", "total_is_length", "negative_first_rejected",
                              "negative_last_rejected", "foreign_after_ignored", "foreign_before_ignored",
                              "goEnc_injective", "walk_forward_go", "walk_backward_go"],
        "slices": ["C20"],
        "rule": "exhaustive over n<=N x cursor candidates^2 x first/last in {nil,-1..N+1} on one template instance, "
                "plus random larger inputs on the other instances; a case is non-trivial when the page is a proper, "
                "non-empty part of the list; distinct = distinct (n, cursor classes, first, last, page); GraphQL: populations of "
                "5-9 identities, 4-12 bugs (every other population with bugs tied in clock and timestamp across two replicas), one "
                "bug with a long history; forward and backward walks with pages of 1,2,3,n-1,n,n+1 over each of the 8 paginated fields",
        "trusted_base": [KERNEL, TIE,
                         "model: GitBugModel.Conn (paginate, walkForward, walkBackward) for connections.NameCon and its genny instances",
                         "cursor encoder: theorems hold for any injective enc; OffsetToCursor itself is modelled (GitBugModel.Cursor: decimal, prefix, base-64 with padding), proved injective (goEnc_injective) and compared with the implementation's cursors on every case",
                         "gqlgen argument decoding is outside the model; the resolvers' source lists are exercised through the served API (c20Gql)"],
        "assumptions": ["the repository does not change between the pages of one walk",
                        "edge makers build the cursor as OffsetToCursor(offset), as all call sites in api/graphql/resolvers do"],
        "gen_facts": ["Gen.Conn: each gen_*.go body equals connection_template.go up to the genny type names"],
    },
    "C13": {
        "level_text": "FULL: unbounded theorems for prefix resolution (found / multiple with exactly the matching ids / not found), for the "
                      "interleaving (every prefix of a combined id splits into a prefix of each part, for every mask; the source's masks "
                      "are regenerated and shown equal to the model's) and for comment resolution (unique match is returned, never another)",
        "level_note": "Trusted: Lean kernel, extractor, harness. Ids are ASCII strings (Id.Validate); no collision-freeness is assumed. Cache "
                      "populations only share short prefixes; long shared prefixes are covered by the theorems and the id-level slice.",
        "required_theorems": ["resolve_spec", "resolve_found_iff", "resolve_multiple_iff", "resolve_notFound_iff", "resolve_full_id",
                              "combine_split", "combine_split_gen", "combine_length", "combine_total", "mask_counts",
                              "resolveComment_unique", "resolveComment_never_other", "resolveComment_notFound",
                              "candidate_of_combined", "gen_masks_are_model", "select_unique", "select_multiple", "select_entity_cases", "select_stale"],
        "slices": ["C13"],
        "rule": "ids: random 64-hex primary/secondary pairs x every prefix length 0..64 plus non-ASCII prefixes; resolve: real bug/"
                "comment/identity populations in a RepoCache (mock repo), every id x prefix lengths {0,1,2,3,4,7,16,63,64} incl. near "
                "misses, every combined comment id x 14 prefix lengths; distinct = distinct id pairs / populations; all are non-trivial "
                "(populations of >=8 bugs share 1-2 character prefixes by birthday collision: see distribution resolve:multiple)",
        "trusted_base": [KERNEL, TIE,
                         "model: GitBugModel.Ids (combine, separate, resolve, resolveComment) for entity/id_interleaved.go, SubCache.resolveMatcher, RepoCacheBug.ResolveComment",
                         "Gen.Interleave: the case guards of CombineIds/SeparateIds evaluated for i in 0..63 by the extractor",
                         "ids are modelled as character lists; SHA-256 collision-freeness is not assumed by any theorem (hypotheses are on the population)"],
        "assumptions": ["ids are ASCII (hexadecimal), as Id.Validate enforces; for other prefixes SeparateIds' byte-offset behaviour is modelled and compared, but no theorem speaks about it",
                        "engineered shared prefixes longer than what birthday collisions give are covered by the theorems (all populations) and by the id-level slice, not by cache populations"],
        "gen_facts": ["Gen.Interleave.combineMask/separateMask = model mask on 0..63; idLength = 64"],
    },
    "C10": {
        "level_text": "FULL on the operation semantics: unbounded theorems for title/status (last writer), labels (strictly sorted set; "
                      "additions then removals), comments (one per create/add-comment; an edit rewrites exactly the targeted comment; unknown, "
                      "non-comment and wrong-target edits are no-ops), actors/participants (no duplicates), timeline (one entry per state-"
                      "changing operation, full edit history), immutable extra metadata, incremental = from-scratch compilation, and recompiling a compiled snapshot's operations gives the same snapshot (extras included)",
        "level_note": "Trusted: Lean kernel, harness/comparer. The model is hand-written and validated against Bug.Compile and the cache's "
                      "incremental snapshot on generated sequences. Two defects found by this check were repaired in /repo (see known_findings.json).",
        "required_theorems": ["compile_append", "compile_append_list", "title_spec", "status_spec", "labels_sorted_nodup", "labels_spec",
                              "step_labels_other", "comments_count", "edit_unknown_noop", "edit_noncomment_noop", "edit_wrong_target_noop",
                              "editComments_spec", "editComments_keeps", "actors_participants_nodup", "timeline_spec",
                              "CItem_append_history", "metadata_immutable", "setMetadata_only_extra", "noop_changes_nothing",
                              "compile_ignores_extras", "compile_repeatable"],
        "slices": ["C10"],
        "rule": "random operation sequences (length 0..25 quick / 0..120 thorough) built from the operation constructors over all 8 kinds, "
                "incl. edits of valid / unknown / non-comment / 14-character-colliding targets, label changes with duplicates and absent "
                "removals, metadata on known and unknown targets; plus sessions through the BugCache API whose incrementally maintained "
                "snapshot is compared with the model and with a from-scratch compile; non-trivial = at least one operation after the "
                "create; distinct = distinct operation lists (ids are random, so all differ)",
        "trusted_base": [KERNEL, TIE,
                         "model: GitBugModel.Bug (apply, step, compile) for entities/bug/op_*.go, Bug.Compile, cache/with_snapshot.go",
                         "operation and identity ids are environment-provided strings; entity.CombineIds is a parameter of the theorems and "
                         "instantiated with the Ids model in the driver",
                         "sort.Slice on labels is assumed to sort (model: insertion sort with the same comparator; results compared)"],
        "assumptions": ["operations are those the format can carry; validation of field contents (Validate) is C04/C07's subject",
                        "compile_repeatable (a second Compile over the same operation objects gives the same snapshot) is checked by the "
                        "correspondence run (`again`), not yet proved"],
        "gen_facts": [],
    },
    "C03": {
        "level_text": "FULL on the model of dag.read: a read either refuses or returns the packs sorted by (edit time, pack id); "
                      "read_wellformed / wellformed_read characterise exactly which histories are refused (several roots, missing creation "
                      "time, merge commit with operations, undecodable or invalid pack, an edge whose edit time does not strictly increase, "
                      "a non-merge hop above 10^6); read_causal: ancestors' operations come first, each commit's operations contiguous; "
                      "read_enum_indep: independent of map/ref enumeration order; all for unbounded histories",
        "level_note": "Trusted: Lean kernel, extractor, harness (its independent decoder of the on-disk format and the comparer). Hashes, pack "
                      "ids and operation ids are opaque environment values; packs with the same (edit time, id) are assumed to hold the same "
                      "operations (KeyOK: the id is the SHA-256 of the serialised operations). uint64 wrap-around is not modelled. The defect "
                      "this check found (reverse BFS order is not topological) was repaired in /repo, see known_findings.json.",
        "required_theorems": ["read_wellformed", "wellformed_read", "read_causal", "read_pack_contiguous", "read_sorted", "read_enum_indep",
                              "read_deterministic", "refuses_two_roots", "refuses_merge_with_ops", "refuses_root_without_create",
                              "refuses_undecodable", "refuses_bad_clock", "anc_edit_lt", "pass1_ok", "pass1_complete", "pass2_ok",
                              "pass2_complete", "gen_read_comparisons", "refuses_without_operations"],
        "slices": ["C03"],
        "rule": "random fork/merge DAG shapes (1..9 commits quick, 1..16 thorough; all sizes 1..5 first) written directly in the on-disk "
                "format with natural or tie-forcing clocks, one of 13 perturbations (equal/decreasing/jumping clocks, zero edit time, "
                "missing creation time, second root, merge commit with operations, missing/wrong format version, swapped parents, ...), "
                "read through bug.Read on the mock and the go-git backend; non-trivial = more than one commit; distinct = distinct "
                "decoded commit lists",
        "trusted_base": [KERNEL, TIE,
                         "model: GitBugModel.Dag (bfs, pass1, pass2, sortPacks, read) for entity/dag/entity.go read",
                         "the harness decodes commits independently through repository.RepoData (tree entry names, ops blob)",
                         "sort.Slice is assumed to sort under a strict weak order; the model uses insertion sort with the same comparator"],
        "assumptions": ["KeyOK: equal (edit time, pack id) implies equal operations", "no uint64 overflow of Lamport times"],
        "gen_facts": ["Gen.Dag.readComparisons = the comparison list the model transcribes"],
    },
    "C01": {
        "level_text": "FULL for the data and exchange logic, for unbounded histories, replicas and schedules: what a replica shows for a bug is "
                      "a function of the multiset of non-empty operation packs its head reaches (read_ops_determined, convergence: merge "
                      "commits, DAG shape, exchange order and enumeration orders are irrelevant); the breadth-first collection returns "
                      "exactly the reachable commits (Lemmas.Reach: bfs_correct, mem_reach_iff, reach_trans); every outcome of a merge "
                      "leaves a head that reaches exactly what the local and the remote head reached (merge_reach_fastforward, "
                      "merge_reach_nothing, merge_reach_diverged); and at the level of what each replica reaches, one round of pull;push by "
                      "everybody followed by one round of pull leaves every replica with everything the remote or anybody had "
                      "(exchange_converges, any number of replicas, any orders). That the go-git transport implements push and pull as "
                      "modelled, and that refs stay readable on the way (C02, C05), is validated by replica schedules (2..3 go-git "
                      "replicas + bare remote, unequal branch lengths, cross-merges, forced clock ties) with a convergence oracle.",
        "level_note": "Trusted: Lean kernel, harness (replica engine, independent decoder, oracle). KeyOK: equal (edit time, pack id) implies "
                      "equal operations. go-git's transport (all-or-nothing push, fast-forward-only tracking refs) is exercised, not modelled. "
                      "HopOK: a replica whose clock is far ahead (> 10^6) of an old bug's last edit writes a commit every reader refuses — "
                      "recorded under C05 (known finding).",
        "required_theorems": ["read_ops_determined", "merge_commits_irrelevant", "convergence", "convergence_enum_indep",
                              "merge_reach_fastforward", "merge_reach_nothing", "merge_reach_diverged", "exchange_converges"],
        "slices": ["C01"],
        "rule": "random schedules of {new bug, edit with 1..3 operations by any of 3 authors (several commits when authors alternate), "
                "push, pull} on 2..3 go-git replicas sharing a bare remote, starting from equal clocks (ties) and a shared bug, then "
                "pull/push rounds to quiescence; oracle: all replicas list the same operation ids in the same order and compile the same "
                "snapshot; every replica's final view of every bug is also a `read` case for the model; non-trivial = DAG of > 2 commits; "
                "distinct = distinct decoded DAGs",
        "trusted_base": [KERNEL, TIE, "model: GitBugModel.Dag (read, opsOf, bfs, reach), GitBugModel.Knowledge (pull, push), Lemmas.PackSort, Lemmas.Reach", "go-git transport exercised, not modelled"],
        "assumptions": ["KeyOK", "the replicas' identities are known everywhere before bugs are exchanged (the scenario distributes them first)"],
        "gen_facts": ["Gen.Dag.readComparisons (see C03)"],
        "timeout": {"quick": 900, "thorough": 7200},
    },
    "C02": {
        "level_text": "No commit is lost by any scenario of a merge, for any store: the head the local ref is left at reaches everything the old local head reached (mergeExisting_keeps_local) and, when the merge reports updated or nothing, everything the remote head reached (mergeExisting_gets_remote), over the proved-correct breadth-first collection (Lemmas.Reach). FULL on the merge decision logic (model of dag.merge): unreadable/invalid remote => invalid and nothing changes; absent "
                      "locally => new at the remote head; equal or local ahead => nothing; remote ahead => fast-forward, updated; diverged => "
                      "merge commit with parents (local, remote) at an edit time above the clock and above every edit time of both sides, "
                      "updated, and the entity handed back is the one read at the new head; `nothing` iff the local head contains the remote "
                      "head; the ref only becomes itself, the remote head or the merge commit; clocks never decrease. MergeAll = fold of "
                      "merge (compared with the implementation on every pull of the replica schedules). Readability is proved as well (no longer left to the oracle): Dag.read accepts a history exactly when it is Readable, a condition on the store alone (read_iff_readable, using that the breadth-first collection always terminates within its fuel and returns every reachable commit once: Lemmas/BfsComplete); joining two readable histories that share a commit by a merge commit above both clocks is readable (merge_readable, via edit times decreasing towards a common root); hence whatever merge decides for an entity readable locally, the head the ref is left at is readable (pull_keeps_readable), for every store and history shape.",
        "level_note": "Trusted: Lean kernel, harness. The identity half of the property (identity merge reports) is C09's subject. The defect "
                      "this check found (scenario 5 handed back the pre-merge local entity) was repaired in /repo, see known_findings.json.",
        "required_theorems": ["mergeDiverged_spec", "mergeDiverged_local_unreadable", "mergeExisting_nothing", "mergeExisting_fastforward",
                              "mergeExisting_diverged", "mergeExisting_nothing_iff", "merge_unreadable_remote", "merge_invalid_entity",
                              "merge_new", "merge_existing", "merge_commit_dominates_remote", "merge_frame", "merge_clock_monotone",
                              "gen_merge_comparisons", "mergeExisting_keeps_local", "mergeExisting_gets_remote", "mergeDiverged_reaches", "read_iff_readable", "read_packs_complete", "merge_readable", "pull_keeps_readable"],
        "slices": ["C02", "C09", "C02cache"],
        "rule": "same replica schedules as C01; every pull (Fetch + MergeAll) is one case: the decoded commits reachable from all local and "
                "remote-tracking heads, the (local, remote) head pairs in ListRefs order, the clocks; compared: per-entity status, new head, "
                "merge commit parents and edit time, ids of the operations of the entity handed back, clocks after; oracle: every bug "
                "readable after the pull, no local operation lost, every remote operation present, report consistent with the change, "
                "handed-back entity = merged bug; non-trivial/distinct = distinct head-pair lists",
        "trusted_base": [KERNEL, TIE, "model: GitBugModel.Dag (merge, mergeExisting, mergeDiverged, read, reach)"],
        "assumptions": ["git ancestry: the commits reachable from a commit include those reachable from its parents (used by the oracle's reading of the result, not by a theorem)"],
        "gen_facts": ["Gen.Dag.mergeComparisons = the scenario tests the model transcribes"],
        "timeout": {"quick": 900, "thorough": 7200},
    },
    "C05": {
        "level_text": "FULL on the modelled clock logic: for every sequence of increments, witnesses, reads and restarts the clock never "
                      "decreases (run_monotone), an increment returns a value above the clock (increment_fresh), a witness leaves the clock "
                      "at or above the witnessed value, a restart changes nothing (persist_restart), witnessing all packs dominates them "
                      "(rebuild_dominates, merge_witnesses_remote), written times exceed everything seen (written_dominates); a deleted clock "
                      "restarts at 1 and a torn one errors (so rebuilding from the entities is required: checked on the CLI path). The "
                      "necessary hypothesis HopOK is made explicit by a kernel-checked counterexample (commit_unreadable_when_clock_far), "
                      "replayed on the real code every run (known finding). The in-memory clock under concurrency is modelled at the granularity of its atomic operations (load, compare-and-swap, add): for every interleaving of any number of goroutines the counter never decreases and a returned Witness(v) leaves it at or above v for good (CAS.witness_cas_linear). The clock file under concurrent use is modelled too (Model/ClockFile): with the repaired Write - a mutex, the counter read inside it: regenerated obligation FileFollows.gen_clock_write_serialised - any interleaving of any number of goroutines leaves the file at what the clock stands at once everybody has written (FileFollows.file_follows_counter); the two-step Write of the pinned tree has a kernel-checked schedule that leaves the file behind a time already handed out (FileFollows.pinned_write_falls_behind), found on the real code by the goroutine slice c05Concurrent.",
        "level_note": "Trusted: Lean kernel, harness. uint64 overflow and the CAS retry loop under real concurrency are not modelled "
                      "(witness is modelled sequentially; witness_fold shows any order ends at the maximum). Decimal rendering of the clock "
                      "file is abstracted (FileState) and validated on real files. Fixed in /repo: CLI opened the repository without clock "
                      "loaders. Known finding: hop limit vs per-type clock.",
        "required_theorems": ["gen_clock_not_exist_only_when_missing", "FileFollows.file_follows_counter", "FileFollows.pinned_write_falls_behind", "FileFollows.gen_clock_write_serialised", "increment_gt", "witness_ge", "witness_fold", "step_synced", "step_monotone", "run_monotone", "increment_fresh",
                              "witness_dominates", "persist_restart", "deleted_clock_restarts", "torn_clock_errors", "rebuild_dominates",
                              "merge_witnesses_remote", "written_dominates", "commit_unreadable_when_clock_far", "CAS.witness_cas_linear", "CAS.step_inv"],
        "slices": ["C05"],
        "needs_gitbug": True,
        "rule": "clock sessions: 1..40 (quick) / 1..200 (thorough) operations over {increment, witness (small, equal, far ahead), read, "
                "restart, delete file, truncate file by 1..3 digits} on PersistedClock (go-git repository, real files) and MemClock (mock); "
                "entity sessions on two go-git replicas with a clock-vs-stored-times oracle after every step; the CLI path with deleted "
                "clock files; replay of the hop-limit finding; non-trivial/distinct = distinct operation lists",
        "trusted_base": [KERNEL, TIE, "model: GitBugModel.Lamport (increment, witness, getOrCreate, step, run) for util/lamport and the clock table of repository/gogit.go"],
        "assumptions": ["no uint64 overflow", "the file system returns what was last written (torn writes are explored explicitly as truncations)"],
        "gen_facts": [],
    },
    "C09": {
        "level_text": "FULL on the modelled logic: Identity.Merge is shown equal to a specification on the two chains (mergeLoop_eq_spec), "
                      "from which: remote extends local => local becomes the remote chain, ref at its last commit, reported updated; local "
                      "equal/ahead => nothing; chains differing after a common prefix => refused, local untouched; the local chain is always "
                      "a prefix of the result and the first version (the id) never changes; Validate rejects nameless versions, unsafe "
                      "characters, decreasing and dropped clocks (for unbounded chains)",
        "level_note": "Trusted: Lean kernel, harness. The text predicates (text.Empty, SafeOneLine, ValidUrl) and key validity are supplied "
                      "per version as flags by the harness (computed with the real functions). Versions are compared by commit hash, as in "
                      "the code. Fixed in /repo: Identity.Merge never reported an update.",
        "required_theorems": ["mergeLoop_eq_spec", "merge_eq_spec", "idMerge_extend", "idMerge_behind", "idMerge_equal", "idMerge_diverge",
                              "merge_append_only", "merge_keeps_first", "validate_iff", "validateFrom_cons", "rejects_nameless",
                              "rejects_unsafe", "rejects_decreasing_clock", "rejects_dropped_clock", "mergeAll_invalid_untouched", "mergeAll_updated_valid", "mergeAll_valid_is_merge", "control_character_rejected", "cleaned_texts_safe"],
        "slices": ["C09"],
        "rule": "validate: crafted chains of 1..4 versions over name/login/email/avatar/nonce classes and clock histories (ok, decreasing, "
                "dropped, new clock) read back with identity.ReadLocal; merge: every (p,a,b) with p in 1..3(4), a,b in 0..2(3) written "
                "directly and merged by identity.MergeAll (a third of the remote sides made invalid: decreasing or dropped clock, no name and login, unsafe name), plus real chains produced by Identity.Mutate on two go-git replicas, plus merges through RepoCache with the identity loaded or not (entity, excerpt, and a further edit appending to the merged history); "
                "non-trivial/distinct = distinct flag chains",
        "trusted_base": [KERNEL, TIE, "model: GitBugModel.Identity (validate, mergeLoop, merge, mergeAll) for entities/identity/identity.go and identity_actions.go:MergeAll",
                         "model: GitBugModel.Text (isControl, safe, safeOneLine, cleanup, cleanupOneLine) for util/text, compared on generated strings (valid UTF-8 only); text.Empty (Unicode graphic tables) and text.ValidUrl (net/url) stay flags computed by the implementation"],
        "assumptions": ["both identities have the same id (checked by the caller in MergeAll: the local ref is derived from the remote identity's id)"],
        "gen_facts": [],
    },
    "C12": {
        "level_text": "Round trip proved: every structured query written through the documented grammar (every value between quotes of the kind it does not hold, one space between tokens; values holding anything but both kinds of quote at once, which the grammar cannot express) parses back to exactly that query (parse_render, over the lexer quote automaton: Lemmas.Lexer split_fields, token_kv/kvv/search, tokenize_rendered). FULL on evaluation: match_spec (any-of within status/author/actor/participant/metadata, all-of for labels, titles and "
                      "across kinds, no:label), identity_match_ci, query_result/query_exact (the result is exactly the matching excerpts, each "
                      "once, sorted by the requested key and direction; the three comparators are strict weak orders) for unbounded "
                      "populations. Parser: total by construction (the model has no partial operation; the Go code's slices are guarded), "
                      "rejections proved per class (two sorts, unknown qualifier/status/sort/no, edge colon, unmatched quote). The comparators "
                      "are total on bugs with distinct ids (less_total) and the answer does not depend on the order in which the excerpt map is "
                      "enumerated (query_deterministic). Unquoted one-word values and other spacings are validated by the correspondence run "
                      "(structured queries with and without quotes, sub-qualifiers, both quote kinds, several separators), not proved; "
                      "full-text matching is bleve's.",
        "level_note": "Trusted: Lean kernel, harness. unicode.IsSpace, strings.ToLower/TrimSpace are environment functions supplied per case as "
                      "tables by the harness (computed with the real functions). sort.Sort is assumed to sort under a strict weak order. "
                      "Observed and reproduced by the model, not classified as violations: `label::x` parses as label:x and `label:\"\"` as "
                      "an empty value (the in-loop empty-chunk test is dead code). Fixed in /repo: search results were capped at 10.",
        "required_theorems": ["match_spec", "identity_match_ci", "sortBy_perm", "sortBy_sorted", "less_weak", "less_total", "query_result", "query_exact", "query_deterministic",
                              "parse_rejects_two_sorts", "parse_rejects_unknown_qualifier", "parse_rejects_unknown_status",
                              "parse_rejects_unknown_sort", "parse_rejects_unknown_no", "parse_label", "parse_metadata", "parse_search",
                              "split_unmatched", "field_edge_colon", "parse_render", "tokenize_rendered"],
        "slices": ["C12"],
        "rule": "raw strings of 0..9 pieces over an alphabet of qualifiers, values, colons, spaces, tabs, both quotes and unicode (never "
                "panics; same query or same error class as the model); structured queries rendered through the grammar of doc/queries.md "
                "(round trip: parses to what it denotes); ~120 (quick) queries x populations of 10..30 bugs through RepoCacheBug.Query vs "
                "the model; full-text search over >10 matching bugs on the bleve index; non-trivial = distinct strings / populations",
        "trusted_base": [KERNEL, TIE, "model: GitBugModel.Query (splitFunc, tokenize, parse, matchesQ, less, sortBy, run) for query/*.go, cache/filter.go, sorters"],
        "assumptions": ["within one repository sort keys are distinct (creation/edit Lamport times are unique per repository); every other population is written on two replicas and pulled together so that the clocks tie and the timestamp tie-break decides (timestamps are generated distinct: among bugs equal in clock and timestamp the order is unspecified, sort.Sort is not stable)"],
        "gen_facts": [],
    },
    "C04": {
        "level_text": "PARTIAL (byte level outside the model). Proved: for every operation of every kind and any field values, decoding its "
                      "stored JSON tree gives back the operation (fromJ_toJ), hence a pack reads back as the same operations in order when "
                      "ids are the hashes of the stored form (pack_roundtrip, op_id_stable); the tree Write builds is read back with the same "
                      "blob and clocks and a foreign format version is refused (tree_roundtrip, tree_wrong_version); every attached file is "
                      "referenced by the pack's extra tree (extra_tree_covers); Commit's cutting of the staging area into author runs "
                      "preserves order and content, runs are non-empty and single-author (splitRuns_*); a linear history reads back in commit "
                      "order (opsOf_chain) and the entity's first operation is the root's whatever is appended or merged (first_op_is_roots, "
                      "append_keeps_first). Not modelled: how encoding/json renders strings/numbers, UTF-8 validity, decimal rendering of tree "
                      "entry names, git's transfer of reachable blobs - these are compared on every generated case (stored blobs vs the "
                      "model's tree, read-back on the same and on a second replica after push/pull, file availability). Since round 5 the string layer of encoding/json is inside the model (Model/JsonStr: what is written for every character, with HTML escaping, and what the decoder reads, surrogate pairs and lone surrogates included): json_string_roundtrip proves decode (encode s) = s for every text, json_string_injective that different texts are stored differently; the model is compared with json.Marshal / json.Unmarshal on every character below U+3100, on mixtures and on generated escape forms.",
        "level_note": "Trusted: Lean kernel, harness. Hash function H is a parameter (ids are assumed to be H of the stored form, as IdOperation "
                      "and unmarshallPack both hash the same bytes). nil and empty slices are identified (Go reads both as length 0).",
        "required_theorems": ["fromJ_toJ", "pack_roundtrip", "op_id_stable", "tree_roundtrip", "tree_wrong_version", "extra_tree_covers",
                              "splitRuns_flatten", "splitRuns_nonempty", "splitRuns_same_author", "sortPacks_chain", "opsOf_chain",
                              "first_op_is_roots", "append_keeps_first", "json_string_roundtrip", "json_string_injective"],
        "slices": ["C04"],
        "rule": "bugs built from the operation constructors (all 8 kinds, unicode / whitespace / long text / empty-but-valid fields, metadata, "
                "real attachment blobs, 3 authors alternating inside one staging area), committed in random chunkings; compared: ids, "
                "payloads, authors, order before commit vs after bug.Read on the same repository (mock and go-git) and on a second go-git "
                "replica after push/pull; stored pack blobs parsed generically vs the model's JSON tree and author runs; non-trivial = at "
                "least one operation after the create; distinct = distinct staging lists",
        "trusted_base": [KERNEL, TIE, "model: GitBugModel.Pack (toJ, fromJ, writeTree, readTree, splitRuns, extraFiles)"],
        "assumptions": ["no SHA-256 collisions among operation encodings of one entity (Entity.Validate checks)"],
        "gen_facts": [],
    },
    "C07": {
        "level_text": "FULL on the structural catalogue. The model of the read and merge path is total (no panic outcome): every malformed tree, "
                      "pack or operation is a classified error (unknown_type_is_error, missing_type_is_error, tree_without_ops_is_error, "
                      "tree_bad_version, local_corrupt_is_error); whatever makes the remote version invalid — unreadable, failing entity "
                      "validation, stored under a ref that is not its id, unrelated to the local history — the merge reports invalid, leaves "
                      "the local ref untouched and writes nothing (invalid_is_inert, invalid_keeps_local). That the Go read path has no "
                      "explicit panic is a regenerated obligation (gen_no_panic_on_read_path). Nil dereferences cannot be seen by the "
                      "translator: they are hunted by ~35 structural mutations x 4-6 local situations for bugs and 11 x 3 for identities, "
                      "which found six defects, all repaired in /repo.",
        "level_note": "Trusted: Lean kernel, extractor, harness (its independent decoder now also resolves authors and decodes each operation "
                      "into the struct of its type). Byte-level fuzzing of blobs through encoding/json and go-crypto's armor parser is library "
                      "code and only exercised by the catalogue's garbage blobs, not fuzzed at scale.",
        "required_theorems": ["unknown_type_is_error", "missing_type_is_error", "tree_without_ops_is_error", "tree_bad_version",
                              "invalid_is_inert", "invalid_keeps_local", "local_corrupt_is_error", "gen_no_panic_on_read_path", "gen_no_unchecked_assert"],
        "must_hit": {"C07": ["merge[absent]=new", "merge[equal-prefix]=updated", "merge[diverged]=updated", "merge[local-ahead]=nothing", "merge[absent]=invalid", "identity[none,absent]=new", "identity[none,local-behind]=updated", "local-read=ok", "local-read=err"]},
        "slices": ["C07"],
        "rule": "a catalogue of 35 structural mutations (tree entries dropped/renamed/type-confused/extra, version and clock names, pack JSON "
                "shape, author, per-operation type and field types, empty/duplicate/second-create operations, roots) applied at a random "
                "position of valid 1..3-commit bug histories, read locally under recover and merged from a remote ref in the situations "
                "absent / equal-prefix / local-ahead / diverged / ref-id-mismatch / unrelated-same-id; 11 mutations of identity version "
                "blobs and trees x {absent, local-behind, ref-id-mismatch}; the decoded commits are also `read` cases for the model; "
                "non-trivial/distinct = distinct (mutation, head) pairs",
        "trusted_base": [KERNEL, TIE, "model: GitBugModel.Dag (read, merge), GitBugModel.Pack (fromJ, readTree)"],
        "assumptions": ["a crash inside MergeAll's goroutine cannot be recovered by the harness: it ends the run and is reported as the failing input (last_context.txt)"],
        "gen_facts": ["Gen.Panics.readPath: explicit panic( calls per read-path function (all 0)"],
    },
    "C08": {
        "level_text": "FULL on the decision logic: the keys in force at a logical time are those of the last identity version whose (resolved) "
                      "time for the clock is <= that time (validKeysAt_spec, for non-decreasing times, which Validate enforces), a key counts "
                      "exactly on [time of the introducing version, time of the removing version) (key_window); a commit is accepted iff no "
                      "key is in force or it carries a signature good for its exact content by a key in force (accept_iff); unsigned, wrongly "
                      "signed (removed, not-yet-valid, stranger's key) or altered commits are signature errors, not crashes.",
        "level_note": "Trusted: Lean kernel, harness, and OpenPGP itself: `CheckDetachedSignature` is an environment predicate (a signature is "
                      "good for the content or not); signed-then-altered commits are covered by the theorem (good = false) but not produced by "
                      "the harness (the storage API signs what it stores). Boundary worth knowing: a key counts *at* the introducing "
                      "version's time, and a new version records the current clock value without incrementing it, so an author's own "
                      "earlier unsigned commit at that same time becomes unacceptable (observed, reproduced by the model).",
        "required_theorems": ["validKeysFrom_eq", "keysAtPairs_spec", "validKeysAt_spec", "key_window", "accept_iff", "unsigned_rejected",
                              "wrong_signature_rejected", "keyless_accepted"],
        "slices": ["C08"],
        "rule": "identity histories of 1..5 versions built with the real API (NewIdentityFull, Mutate) at chosen non-decreasing logical times "
                "(equal times included) with key sets drawn from 4 real OpenPGP keys; for every logical time 1..max+2 a commit by that author "
                "unsigned, signed by each of the 4 keys and by a stranger's key, read with bug.Read on the mock and go-git back ends with the "
                "identity resolved from the repository; the same with the commit under test as a second commit on a root and as the merge commit of "
                "two branches (the other commits signed as the rule asks); compared: ValidKeysAtTime at every time and the verdict per commit; "
                "non-trivial/distinct = distinct key histories",
        "trusted_base": [KERNEL, TIE, "model: GitBugModel.Identity (validKeysAt, checkCommit) for Identity.ValidKeysAtTime and the signature check of readOperationPack", "OpenPGP (go-crypto) is trusted"],
        "assumptions": ["identity times for the clock never decrease (enforced by Identity.Validate; proved rejected otherwise in C09)"],
        "gen_facts": [],
    },
    "C11": {
        "level_text": "FULL on the modelled cache logic: coherence (excerpts and index are exactly what git holds; every loaded instance is the "
                      "entity its ref reads as) holds after a rebuild and is preserved by every action - new, commit, taking a merge result, "
                      "remove, evict, resolve, close+reopen with the load-or-rebuild heuristic (coh_step, coh_run) - hence after any session "
                      "the cache serves what a rebuild serves (served_eq_rebuild, session_coherent); a merge result is visible in excerpts, "
                      "index and resolution and the kept instance is the merged entity (pull_visible, loaded_after_merge); the pinned tree's "
                      "handling of merge results is shown incoherent by a kernel-checked witness (merged_without_index_incoherent). A finer "
                      "model (GitBugModel.CacheStaged: entities as operation lists, staging areas of loaded instances, the excerpt file on "
                      "disk apart from the map in memory, Close and Load-or-Build) carries the statement with its quantifier: every action, "
                      "including edits that are not committed and a close+reopen at any point, keeps coherence (Staged.coh_step), `dirty` "
                      "is exact (Staged.dirty_false_iff), a reopened cache has nothing staged (Staged.reopen_quiescent), and at every "
                      "quiescent point the listing, the index and every resolved entity are those of a rebuild (Staged.served_eq_rebuild, "
                      "Staged.session_coherent); an edit is listed as soon as it is made (Staged.stage_visible), a commit stores the staged "
                      "operations in order (Staged.commit_stores), edits after a merge build on the merged history (Staged.edit_after_merge); "
                      "eviction under memory pressure is modelled by the loop of evictIfNeeded itself (GitBugModel.Lru): it never drops an "
                      "instance that holds staged operations, in any session and for any cache size set at any point "
                      "(LruEvict.evictLoop_keeps_dirty, LruEvict.staged_never_evicted, LruEvict.dirty_until_commit), which is the guard the "
                      "evict action of the coherence theorems relies on, and it brings the loaded set down to the size unless everything "
                      "left is staged (LruEvict.evict_bound); "
                      "the Close of the pinned tree is shown incoherent by a kernel-checked witness (Staged.pinned_close_incoherent: found by "
                      "the harness, repaired in /repo). The correspondence run: after every action of two-user sessions the live RepoCache is "
                      "compared field by field with a cache rebuilt from a copy of the git data, and the finer model replays each user's "
                      "actions (ids listed and indexed, and per bug the comments its excerpt shows and the operations it resolves to).",
        "level_note": "Trusted: Lean kernel, harness. Entities, excerpts and index documents are abstract (functions of the entity); bleve is "
                      "exercised, not modelled. Query results are compared as sets (ties on the sort key across replicas are ordered by map "
                      "iteration; ordering is C12's subject). Eviction under a small cache size (SetCacheSize) is driven in sessions of "
                      "their own, against GitBugModel.Lru. Fixed in /repo: merge results not indexed; data race in the cache build; (from C02/C09) stale entity after a "
                      "diverged merge, identity updates never reported.",
        "required_theorems": ["coh_rebuild", "coh_step", "coh_run", "served_eq_rebuild", "session_coherent", "pull_visible", "loaded_after_merge",
                              "remove_spec", "merged_without_index_incoherent", "Staged.coh_rebuild", "Staged.coh_install", "Staged.coh_step",
                              "Staged.coh_run", "Staged.dirty_false_iff", "Staged.reopen_quiescent", "Staged.served_eq_rebuild",
                              "Staged.session_coherent", "Staged.stage_visible", "Staged.commit_stores", "Staged.edit_after_merge",
                              "Staged.pinned_close_incoherent", "LruEvict.evictLoop_keeps_dirty", "LruEvict.evictLoop_dropped_clean",
                              "LruEvict.evict_bound", "LruEvict.inv_step", "LruEvict.staged_never_evicted", "LruEvict.dirty_until_commit",
                              "LruEvict.pinned_new_fails_under_pressure", "LruEvict.gen_evict_loop", "LruEvict.gen_evict_order"],
        "slices": ["C11"],
        "rule": "sessions of 8..22 (quick) / ..45 (thorough) actions by two users on two go-git repositories sharing a remote, over {new bug, "
                "comment, label, status, title, edits left staged, commit of everything staged, push, pull, remove, close+reopen (also with "
                "operations still staged)}, each - when nothing is staged - followed by a comparison of everything the live "
                "cache serves (excerpts, resolved snapshots, identities, valid labels, 10 queries, one full-text probe per bug ever "
                "titled) with a cache rebuilt from a copy of the git data; the abstract action list of each user is replayed by the model "
                "(ids in the excerpt map and in the index after every action); sessions of 10..40 (..80) calls on one cache whose "
                "size is set to 0..5 at random points, over {New, Resolve, edit left staged, Commit, Remove}: for every Resolve whether "
                "the caller gets the instance it holds (GitBugModel.Lru says which instances were dropped), no acknowledged edit lost, "
                "live cache = rebuilt cache at the end; non-trivial/distinct = distinct sessions",
        "trusted_base": [KERNEL, TIE, "model: GitBugModel.Cache (step, rebuild, served), GitBugModel.CacheStaged (staging, excerpt file, Close/Load/Build) and GitBugModel.Lru (LRU list, evictIfNeeded) for cache/subcache.go, cache/cached.go, cache/lru_id_cache.go"],
        "assumptions": ["comparison points are quiescent (nothing staged): after an edit that is left staged the comparison waits for the commit or the reopen"],
        "gen_facts": ["Gen.Evict.early/loop = the statements of evictIfNeeded that GitBugModel.Lru.evictLoop transcribes; Gen.Evict.order* = the order in which add, Resolve, SetCacheSize and entityUpdated touch the LRU list, announce and evict"],
        "timeout": {"quick": 900, "thorough": 7200},
    },
    "C14": {
        "level_text": "FULL at the ref level: after a removal the local ref and the remote-tracking ref for every configured remote are absent "
                      "(remove_targets), every other ref is kept in place (remove_frame, remove_subset, remove_sublist), repeating it changes "
                      "nothing (remove_idem), no tracking ref is left for a later merge to bring the entity back (remove_persists); after a "
                      "wipe no ref under the git-bug namespaces remains and nothing outside them is touched (wipe_clean, wipe_frame); the "
                      "pinned tree's RemoveAll is shown to leave tracking refs by a kernel-checked witness. The cache entry, the index "
                      "document, configuration and local storage are checked by the correspondence run (entity API, cache API and the CLI "
                      "binary, 0..3 remotes, any subset holding the entity, neighbours, host refs).",
        "level_note": "Trusted: Lean kernel, harness. Ref names are modelled as strings built from namespace, remote and id; go-git's RemoveRef "
                      "is assumed to delete exactly the named ref. Fixed in /repo: wipe always failed on the configuration step; RemoveAll "
                      "left tracking refs of non-local entities.",
        "required_theorems": ["remove_targets", "remove_frame", "remove_subset", "remove_idem", "remove_sublist", "remove_persists",
                              "wipe_clean", "wipe_frame", "removeAll_local_only_leaves_tracking_ref", "removeSerial_removes", "removeSerial_frame", "packed_rewrite_race"],
        "slices": ["C14"],
        "needs_gitbug": True,
        "rule": "go-git repositories with 0..3 bare remotes, the target bug pushed to a random subset, two neighbours pushed everywhere, a host "
                "branch and tag; removal through bug.Remove, RepoCacheBug.Remove (then resolve/prefix/query, reopen, merge without fetch) "
                "and `git-bug bug rm`; all refs, the local git configuration and neighbour readability before/after, removal repeated; "
                "`git-bug wipe` with and without a user identity, with a fetched-never-merged bug and with a bug whose local ref is gone; "
                "non-trivial/distinct = distinct (refs, id) pairs",
        "trusted_base": [KERNEL, TIE, "model: GitBugModel.Refs (remove, removeAll, wipe)"],
        "assumptions": [],
        "gen_facts": [],
    },
    "C17": {
        "level_text": "FULL for the gate structure: every mutation resolver and the upload endpoint, as extracted from the source on this run, "
                      "is a straight-line program in which auth.UserFromCtx is called, and its error returned at once, before any call "
                      "outside a read-only allowlist (gen_gated); every Mutation field of the served schema has such a resolver "
                      "(gen_schema_covered) and hands the user obtained from the gate to every mutating call but Commit (gen_authored); for every gated program, whichever calls fail, a run without a user changes nothing and never "
                      "completes (no_user_no_change, no_user_refused), and with a user performs exactly its mutations (with_user). The "
                      "served API (gqlgen handler and upload handler, with and without auth.Middleware) is run against a real repository: "
                      "every introspected mutation, valid and invalid arguments.",
        "level_note": "Trusted: Lean kernel, the extractor (its read-only allowlist of callee names is the modelled part: a callee named there "
                      "is assumed not to change the repository), harness. The correspondence run checks that assumption from outside: refs, "
                      "object count, cache content before/after every refused request. gqlgen's dispatch is exercised, not modelled.",
        "required_theorems": ["gate_general", "no_user_no_change", "no_user_refused", "with_user", "gen_gated", "gen_schema_covered", "gen_authored", "recorded_general", "gen_recorded", "gen_gate_stateless"],
        "slices": ["C17"],
        "rule": "in-process graphql.NewHandler and NewGitUploadFileHandler over a go-git repository with a user identity and bugs; every "
                "mutation field found by introspection x {no user, user} x {valid, invalid arguments}; refs, object files and cache "
                "snapshots before/after; the extracted resolver program is run in the model with the same user flag and failing call; "
                "non-trivial/distinct = distinct (mutation, user, valid)",
        "trusted_base": [KERNEL, TIE, "model: GitBugModel.Gate (run, gated) over resolver programs regenerated from api/graphql/resolvers/mutation.go "
                         "and api/http/git_file_upload_handler.go", "extractor's read-only callee allowlist (extract/resolvers.go)"],
        "assumptions": ["callees on the extractor's read-only allowlist do not change the repository (validated from outside by the run)"],
        "gen_facts": ["Gen.Resolvers.programs = call sequence of each mutation resolver and the upload handler; schemaMutations = fields of type Mutation"],
    },
    "C19": {
        "level_text": "PARTIAL (the operating system is outside the model). Proved for any number of processes: every order of opens, closes "
                      "and kills in which opens do not overlap leaves at most one holder and the lock file names it (mutex); an open while "
                      "a live process holds is refused, names it and changes nothing (refuse_while_held, never_remove_live); a dead "
                      "holder's lock does not stop the next open (stale_recovered); closing releases (close_releases). At the level of file "
                      "operations: with the exclusive creation found in the source (gen_lock_exclusive) every interleaving of opening "
                      "processes keeps one holder as long as nobody dies (mutex_excl_interleaved); the remaining overlapping-open schedule "
                      "after a dead holder is a kernel-checked counterexample (race_stale) replayed on real processes and listed as a known "
                      "finding. Command layer: every cobra command found in the source releases the lock in every fate "
                      "(gen_commands_release, command_releases). Real git-bug processes are driven through all of this.",
        "level_note": "Trusted: Lean kernel, extractor, harness. Outside the model: pid reuse, signal delivery, file-system atomicity of "
                      "O_EXCL and unlink. Fixed in /repo: loaders left the lock behind when they failed after taking it; the lock file "
                      "was created non-exclusively. Known: two processes that both find the lock of a dead holder (source TODO).",
        "required_theorems": ["mutex", "refuse_while_held", "never_remove_live", "stale_recovered", "free_acquired", "close_releases",
                              "mutex_excl_interleaved", "race_create_pinned", "race_stale", "command_releases", "pinned_leaves_lock",
                              "gen_commands_release", "gen_commands_release_all", "gen_lock_exclusive", "lock_roundtrip", "lock_too_long", "gen_lock_content", "empty_lock_not_a_number", "gen_webui_releases"],
        "slices": ["C19"],
        "needs_gitbug": True,
        "timeout": {"quick": 2400, "thorough": 7200},
        "rule": "real git-bug processes on copies of a go-git repository: random orders of open (a command that takes the lock and waits on "
                "its standard input), clean end, SIGTERM and SIGKILL of up to 2 (quick) / 3 (thorough) live processes, compared event by "
                "event with the model; a holder killed at a random moment of its life, then the next command; every command found by "
                "crawling --help, in failing configurations (no identity, unknown id, bad flag; thorough: also a valid id), lock file "
                "inspected after exit (a command still running after 4 s gets SIGTERM); the two overlapping-open schedules of the model "
                "replayed through the verif yield points; non-trivial/distinct = distinct schedules / command lines",
        "trusted_base": [KERNEL, TIE, "model: GitBugModel.LockFile (step, openAtomic, runEvs, lockLeftAtExit)",
                         "operating system: process ids are not reused within a run; SIGKILL cannot be handled; O_EXCL creation is atomic"],
        "assumptions": ["opens do not overlap (mutex) or nobody dies while opens overlap (mutex_excl_interleaved); the remaining case is the known finding"],
        "gen_facts": ["Gen.Commands.commands = every cobra.Command literal (loader, CloseBackend wrapper, closes by hand); loaderFailures = failure "
                      "branches of the loaders and whether they close the backend; lockExclusive = RepoCache.lock creates the file with O_EXCL"],
    },
    "C06": {
        "level_text": "PARTIAL (power-loss semantics of the file system are outside the model; the unit of atomicity is one repository call "
                      "or one file operation). Proved: reading an entity is blind to objects nothing points to (bfs_mono, read_mono); a "
                      "write path that stores its objects and clocks first and updates one ref last, interrupted after any number of calls, "
                      "shows every reader exactly the state before or the state after (path_crash_atomic, disciplined_shape); a path that updates "
                      "several refs, each once and each to a head that reads fine when it is set (MergeAll, pull), leaves under every ref name "
                      "exactly the old or exactly the new entity at every crash point (multi_entity_crash_atomic); a retry "
                      "reads the final state (retry_completes); a path that persists the clock before it writes the commit carrying that "
                      "value never leaves a stored time above the persisted clock (clock_not_behind; the converse order has a "
                      "kernel-checked bad crash point); a clock file replaced by rename is never torn (atomic_clock_write) while the "
                      "truncating write of the pinned tree is (truncating_clock_write_tears). Regenerated from the source on every run: "
                      "the storage calls of the seven write functions obey the discipline (gen_paths_disciplined) and the clock file is "
                      "written by rename (gen_clock_write_atomic). Every crash point of the real write paths is executed on disk.",
        "level_note": "Trusted: Lean kernel, extractor, harness. A dying process is simulated inside the harness by a repository wrapper "
                      "that never returns from its k-th storage call (objects written before are on disk as go-git left them); fsync, "
                      "rename atomicity and go-git's loose-object writes are the file system's and library's business. Identity and cache "
                      "scenarios are decided by the oracle only (the Lean store model is the bug DAG). Fixed in /repo: clock files were "
                      "truncated in place.",
        "required_theorems": ["bfs_mono", "read_mono", "path_crash_atomic", "multi_entity_crash_atomic", "refs_run", "last_target_readable", "disciplined_shape", "retry_completes", "clock_not_behind",
                              "commit_before_clock_is_behind", "atomic_clock_write", "truncating_clock_write_tears",
                              "gen_paths_disciplined", "gen_clock_write_atomic", "gen_clock_create_atomic"],
        "slices": ["C06"],
        "rule": "go-git repositories on disk (three authors, bugs with several commits, a remote with a clone that is ahead): for each "
                "write path (new bug; edit staged by several authors; MergeAll with a new, a fast-forward and a diverged bug; pull; new "
                "identity; new identity version; new bug through the cache) the process dies before its k-th storage call for every k; "
                "the directory is reopened, every bug and identity read, compared per entity with the states before and after, clocks "
                "compared with the stored times, the action repeated; the recorded calls and the object store go to the model which "
                "computes the view at every crash point. Clock files: every file operation of Increment/Witness x every partial write. "
                "non-trivial/distinct = distinct (scenario, call sequence) and clock crash points",
        "trusted_base": [KERNEL, TIE, "model: GitBugModel.Crash (applyMut, crash, view) over GitBugModel.Dag.read; GitBugModel.Lamport file states",
                         "file system: a completed call is durable, rename replaces atomically"],
        "assumptions": ["objects written by a path carry hashes not yet in the store (FreshObjs) and every ref read fine before the path started (Readable)"],
        "gen_facts": ["Gen.WritePaths.paths = storage-mutating calls of Entity.Commit, operationPack.Write, dag.merge, Identity.Commit, Identity.Merge, "
                      "version.Write, identity.MergeAll with loop depth and what follows a ref update; clockWrite = file-system calls of PersistedClock.Write"],
    },
    "C15": {
        "level_text": "PARTIAL (go-git's object encoder and stock git are exercised, not modelled). Proved: StoreTree's sort is a permutation "
                      "in git's tree order (sortTree_perm, sortTree_sorted); entries with legal, distinct names come out as a tree "
                      "git fsck --strict accepts (sorted_tree_fsck_ok); that holds for the tree of every operation pack, whatever the "
                      "format version, clock values, creation clock and extra tree (pack_tree_fsck_ok), and for the tree of attached files "
                      "for any number of files (extra_tree_fsck_ok); every ref git-bug builds lies in its namespaces "
                      "(built_refs_in_namespace) and removal/wipe leave every other ref in place (host_refs_untouched, with C14's frame "
                      "theorems). Regenerated on every run: all literals from which ref names, refspecs and configuration keys are built "
                      "(gen_ref_literals, gen_config_literals). Sessions on a real host repository check the frame from outside and let "
                      "stock git judge every object. The author and committer lines are modelled too (Model/Ident: the cleaning of author.* / committer.* and git's fsck_ident): whatever the configuration holds, the line written passes fsck (cleaned_ident_fsck_ok), while the uncleaned strings of the pinned tree did not (raw_ident_fsck_fails); the lines of real commits are compared with the model's.",
        "level_note": "Trusted: Lean kernel, extractor, harness, stock git (fsck, gc, clone) as the judge of object validity. Commit and blob "
                      "encoding is go-git's. The frame is observed through refs, HEAD, index, working tree, hooks, info, local configuration "
                      "and the top level of .git.",
        "required_theorems": ["sortTree_perm", "sortTree_sorted", "sorted_tree_fsck_ok", "pack_tree_fsck_ok", "extra_tree_fsck_ok",
                              "built_refs_in_namespace", "host_refs_untouched", "gen_ref_literals", "gen_config_literals", "cleanIdent_no_special", "plain_ident_fsck_ok", "cleaned_ident_fsck_ok", "raw_ident_fsck_fails", "removeAll_section_frame", "removeAll_sub_frame"],
        "slices": ["C15"],
        "needs_gitbug": True,
        "timeout": {"quick": 2400, "thorough": 7200},
        "rule": "host repository made with stock git (commits, branches and refs named like the namespaces, tags, notes, hooks, "
                "info/exclude, unrelated configuration in several shapes, modified/staged/untracked files, attached or detached HEAD), "
                "its bare remote and a second clone; random sessions of CLI commands (user, bug new/comment/label/title/status/select/rm, "
                "push, pull, queries, wipe) and library actions (bugs with attachments, identity change, configuration writes) in both "
                "clones, interleaved with the host's own commits, gc, fetch, pack-refs; snapshot of everything that is not git-bug's "
                "before/after each action in all three repositories; at the end git fsck --strict in all, mirror clone, "
                "gc --prune=now --aggressive and re-read with attachments; every stored tree goes to the model; random entry lists "
                "through StoreTree are compared with the model's order and verdict against git ls-tree / git fsck; "
                "non-trivial/distinct = distinct sessions and entry lists",
        "trusted_base": [KERNEL, TIE, "model: GitBugModel.GitTree (sortTree, fsckTreeOk, packEntries, extraEntries), GitBugModel.Refs",
                         "stock git 2.x as the oracle for object validity"],
        "assumptions": [],
        "gen_facts": ["Gen.Frame.refLiterals / configLiterals / namespaces = the string literals the source builds ref names, refspecs, configuration keys and its directory from"],
    },
    "C18": {
        "level_text": "PARTIAL (the Go scheduler and memory model are outside the model; thread schedules are sampled, not enumerated). Proved "
                      "for any number of workers and every schedule: when each edit of a loaded entity is an append-and-commit inside that "
                      "entity's lock on a single loaded instance, the stored history holds exactly the acknowledged operations, each once, "
                      "and only ever grows (locked_no_loss, runLocked_perm, runLocked_extends); with a second look under the write lock, "
                      "every interleaving of goroutines resolving the same unloaded entity hands all of them one instance "
                      "(resolve_single_instance), while without it two instances arise (resolve_double_load_pinned) and two instances lose "
                      "an acknowledged edit (two_instances_lose_edit). Regenerated on every run: every statement handing a loaded entity to "
                      "a mutating function sits inside the entity's lock (gen_entity_calls_locked) and Resolve looks again "
                      "(gen_resolve_rechecks). Real goroutines on one cache are run against this. No call deadlocks, at the level of lock requests: for any number of goroutines and read-write mutexes with Go's semantics, when every blocked goroutine holds only mutexes smaller than the one it asks for, some goroutine can always step (deadlock_free); asking again for a read lock one holds, with a writer in between, blocks for ever (nested_rlock_deadlocks: the Query(nil) defect found and repaired); the lock order and the absence of nested acquisition are regenerated from the source (gen_lock_order). That runs only reach such configurations is proved as well: goroutines are straight-line programs of lock requests (Model/RWProg), a program is Safe when it asks only for mutexes above all it holds and releases what it took, and every schedule of any number of Safe programs keeps an invariant that yields the well-formedness deadlock_free assumes (Lemmas/RWProg: inv_init, inv_pstep, inv_run, inv_wf) - hence run_no_deadlock; the request sequences of the cache's calls are Safe (cache_calls_safe, safe_append), the nested read lock of the pinned Query(nil) is not and its run deadlocks (nested_program_deadlocks).",
        "level_note": "Trusted: Lean kernel, extractor, harness. The critical sections are modelled as atomic; that sync.RWMutex makes them so, "
                      "and that nothing outside them touches the entity, is what the extractor and the run check from outside. Eviction of an "
                      "instance a goroutine still holds is a known finding.",
        "required_theorems": ["locked_no_loss", "runLocked_perm", "runLocked_extends", "two_instances_lose_edit", "resolve_single_instance",
                              "resolve_double_load_pinned", "gen_entity_calls_locked", "gen_resolve_rechecks", "deadlock_free", "nested_rlock_deadlocks", "gen_lock_order", "run_no_deadlock", "run_respects_order", "cache_calls_safe", "safe_append", "nested_program_deadlocks"],
        "slices": ["C18"],
        "timeout": {"quick": 2400, "thorough": 7200},
        "rule": "one go-git repository and one RepoCache reopened so that nothing is loaded; 2..16 goroutines x GOMAXPROCS 1..16 x cache size "
                "(unbounded, or 2-3 to force eviction) running seeded mixes of New, Resolve + AddComment/ChangeLabels/SetTitle + "
                "CommitAsNeeded on three shared bugs and private ones, Query, ResolveExcerpt; a 25 s watchdog; afterwards every "
                "acknowledged operation must be stored exactly once in a valid history, the stored acknowledged operations go to the "
                "model (interleaving of the workers' program orders), and the cache left on disk is compared with a rebuilt one; "
                "non-trivial/distinct = distinct (configuration, bug, stored order)",
        "trusted_base": [KERNEL, TIE, "model: GitBugModel.Conc (runLocked, rstep, isInterleaving)", "Go's sync.RWMutex and scheduler"],
        "assumptions": ["goroutines do not keep an instance across its eviction (the known finding covers the case where they do)"],
        "gen_facts": ["Gen.Locks.entityCalls = statements of cache/bug_cache.go and cache/cached.go that hand the entity to a mutating function, and whether they sit between mu.Lock and mu.Unlock; resolveRechecks", "Gen.LockNest: calls made inside the lock regions of the cache methods: nestedSame (a method of the same receiver that takes the held mutex again), againstOrder (sub-cache mutex requested under an entity mutex), acquiring, scanned"],
    },
    "C16": {
        "level_text": "PARTIAL (GitLab bridge only; go-gitlab's client and the HTTP layer are exercised, not modelled). Proved for the "
                      "importer's de-duplication, for every list of events with distinct ids and every starting state: a clean pass leaves "
                      "every event absorbed whatever an earlier failed run left behind (clean_pass_absorbs_all), a second import of the same "
                      "tracker state creates no operation (import_idempotent), after the tracker grew the next import creates exactly what a "
                      "pass over the new events creates (import_incremental), the cursor moves only when no error was relayed (cursor_rule); "
                      "shared ids across event kinds drop events (shared_ids_drop_events, kernel-checked witness of the known finding). "
                      "Regenerated on every run: the cursor write sits inside `if noError`, every fetcher reports a failing request and "
                      "stops (gen_errors_reported), every event kind that creates an operation is looked up first and titles are cleaned "
                      "(gen_events_deduplicated). A simulated GitLab serves generated histories to the real importer.",
        "level_note": "Trusted: Lean kernel, extractor, harness including the simulated GitLab API (issues, notes, label and state events, "
                      "users, pagination, failures). The GitHub, Jira and Launchpad importers are not covered. Texts in the model are texts "
                      "after text.Cleanup. Fixed in /repo: silent failure of the issue listing, nil response dereference, label events "
                      "imported again, uncleaned titles. Known: id spaces shared across event kinds.",
        "required_theorems": ["clean_pass_absorbs_all", "import_idempotent", "import_incremental", "cursor_rule", "step_absorbs", "step_absorbed",
                              "shared_ids_drop_events", "gen_errors_reported", "gen_events_deduplicated"],
        "slices": ["C16", "Text"],
        "timeout": {"quick": 2400, "thorough": 7200},
        "rule": "an in-process HTTP server speaking the part of the GitLab API the importer uses serves generated trackers (issues, comments "
                "and their edits, title changes, description changes, label and state events, ignored system notes, ghost users, hostile "
                "text; pages of 3); a mock repository with a gitlab bridge imports in rounds (resume, resume, re-import everything, …) "
                "with the tracker growing in between; after each round the bugs are compared with the tracker, each round is repeated "
                "(no new operation), and per issue the local state, the events and the number of new operations go to the model; then "
                "a failure (403; thorough: 500 from there on) is injected at every request index of a round: an error must be reported, "
                "the cursor must stay, and a clean run must end where a never-failing import ends; connections dropped from a request on; "
                "one run with id spaces shared across notes/label/state events (known finding); non-trivial/distinct = distinct round logs and failure points",
        "trusted_base": [KERNEL, TIE, "model: GitBugModel.Import (step, pass, cursorAfter)", "the simulated GitLab API of the harness"],
        "assumptions": ["event ids are distinct within an issue (Nodup); the case where they are not is the known finding"],
        "gen_facts": ["Gen.Bridge.cursorGuarded, fetchErrors, eventCases, titleCleaned"],
    },
}

# scenarios added after round 8 (appended to the rule texts above)
_ADDED = {
    "C04": "30..60 bugs pulled by a second go-git replica (one packfile) and read by eight goroutines at once",
    "C05": "a directed prefix (concurrent edit, other bugs, pull) with an oracle on every merge commit a pull writes; new processes whose "
           "2..8 goroutines call the clock for the first time at the same moment (12..40 rounds)",
    "C14": "remote names where one is a prefix of another; a removal during which the n-th RemoveRef fails, then asked for again",
    "C15": "host tags the remote has and the host deleted or moved locally; one repository handle kept over create / remove all / "
           "git gc --prune=now / create, then git fsck --strict",
    "C17": "with a user and valid arguments the payload's operation fields are selected, a previously stored blob is sent as files half of "
           "the time, and exactly the operations the mutation stands for, carrying those files, must have been recorded",
    "C18": "a first-resolves phase (two bugs nobody loaded, resolved, edited and partly committed by all workers at once); the edits of the "
           "bursts are acknowledged edits as well",
}
for _p, _t in _ADDED.items():
    PROPS[_p]["rule"] += "; also: " + _t

"""Per-property configuration of ./check."""

KERNEL = "Lean 4.33.0 kernel (lake build); axioms propext, Classical.choice, Quot.sound only (audited per theorem by lean/Audit.lean)"
TIE = "hand-written Lean model tied to the Go code by the correspondence run (harness/ + Driver/) and by facts regenerated from the source (extract/ -> Gen/)"

PROPS = {
    "C20": {
        "required_theorems": ["page_window", "page_inside_cursors", "walk_forward", "walk_backward", "hasNext_truthful",
                              "hasPrev_truthful", "cursors_are_ends", "total_is_length", "negative_first_rejected",
                              "negative_last_rejected", "foreign_after_ignored", "foreign_before_ignored"],
        "slices": ["C20"],
        "rule": "exhaustive over n<=N x cursor candidates^2 x first/last in {nil,-1..N+1} on one template instance, "
                "plus random larger inputs on the other instances; a case is non-trivial when the page is a proper, "
                "non-empty part of the list; distinct = distinct (n, cursor classes, first, last, page)",
        "trusted_base": [KERNEL, TIE,
                         "model: GitBugModel.Conn (paginate, walkForward, walkBackward) for connections.NameCon and its genny instances",
                         "cursor encoder is a parameter (any injective enc); OffsetToCursor's injectivity is validated by the correspondence run, not proved",
                         "gqlgen argument decoding and the resolvers' choice of source list are outside the model"],
        "assumptions": ["the source list is the same for every page of one walk (the resolvers recompute it per request)",
                        "edge makers build the cursor as OffsetToCursor(offset), as all call sites in api/graphql/resolvers do"],
        "gen_facts": ["Gen.Conn: each gen_*.go body equals connection_template.go up to the genny type names"],
    },
    "C13": {
        "required_theorems": ["resolve_spec", "resolve_found_iff", "resolve_multiple_iff", "resolve_notFound_iff", "resolve_full_id",
                              "combine_split", "combine_split_gen", "combine_length", "combine_total", "mask_counts",
                              "resolveComment_unique", "resolveComment_never_other", "resolveComment_notFound",
                              "candidate_of_combined", "gen_masks_are_model"],
        "slices": ["C13"],
        "rule": "ids: random 64-hex primary/secondary pairs x every prefix length 0..64 plus non-ASCII prefixes; resolve: real bug/"
                "comment/identity populations in a RepoCache (mock repo), every id x prefix lengths {0,1,2,3,4,7,16,63,64} incl. near "
                "misses, every combined comment id x 14 prefix lengths; distinct = distinct id pairs / populations; all are non-trivial "
                "(populations of >=8 bugs share 1-2 character prefixes by birthday collision: see distribution resolve:multiple)",
        "trusted_base": [KERNEL, TIE,
                         "model: GitBugModel.Ids (combine, separate, resolve, resolveComment) for entity/id_interleaved.go, SubCache.resolveMatcher, RepoCacheBug.ResolveComment",
                         "Gen.Interleave: the case guards of CombineIds/SeparateIds evaluated for i in 0..63 by the extractor",
                         "ids are modelled as character lists; SHA-256 collision-freeness is not assumed by any theorem (hypotheses are on the population)"],
        "assumptions": ["ids are ASCII (hexadecimal), as Id.Validate enforces; for other prefixes SeparateIds' byte-offset behaviour is modelled and compared, but no theorem speaks about it",
                        "engineered shared prefixes longer than what birthday collisions give are covered by the theorems (all populations) and by the id-level slice, not by cache populations"],
        "gen_facts": ["Gen.Interleave.combineMask/separateMask = model mask on 0..63; idLength = 64"],
    },
}

"""Per-property configuration of ./check."""

KERNEL = "Lean 4.33.0 kernel (lake build); axioms propext, Classical.choice, Quot.sound only (audited per theorem by lean/Audit.lean)"
TIE = "hand-written Lean model tied to the Go code by the correspondence run (harness/ + Driver/) and by facts regenerated from the source (extract/ -> Gen/)"

PROPS = {
    "C20": {
        "required_theorems": ["page_window", "page_inside_cursors", "walk_forward", "walk_backward", "hasNext_truthful",
                              "hasPrev_truthful", "cursors_are_ends", "total_is_length", "negative_first_rejected",
                              "negative_last_rejected", "foreign_after_ignored", "foreign_before_ignored"],
        "slices": ["C20"],
        "rule": "exhaustive over n<=N x cursor candidates^2 x first/last in {nil,-1..N+1} on one template instance, "
                "plus random larger inputs on the other instances; a case is non-trivial when the page is a proper, "
                "non-empty part of the list; distinct = distinct (n, cursor classes, first, last, page)",
        "trusted_base": [KERNEL, TIE,
                         "model: GitBugModel.Conn (paginate, walkForward, walkBackward) for connections.NameCon and its genny instances",
                         "cursor encoder is a parameter (any injective enc); OffsetToCursor's injectivity is validated by the correspondence run, not proved",
                         "gqlgen argument decoding and the resolvers' choice of source list are outside the model"],
        "assumptions": ["the source list is the same for every page of one walk (the resolvers recompute it per request)",
                        "edge makers build the cursor as OffsetToCursor(offset), as all call sites in api/graphql/resolvers do"],
        "gen_facts": ["Gen.Conn: each gen_*.go body equals connection_template.go up to the genny type names"],
    },
}

#!/bin/bash
# usage: lib/seedrun.sh <Cxx> <patch.diff> [tier]  — applies the patch to /repo, runs the check, undoes the patch.
set -u
P=$1; PATCH=$2; TIER=${3:-quick}
cd /repo || exit 2
if ! git diff --quiet; then echo "/repo not clean"; exit 2; fi
git apply "$PATCH" || { echo "patch does not apply"; exit 2; }
cd /verif
VERIF_SCRATCH_EVIDENCE=1 timeout 1500 ./check "$P" --tier "$TIER" > /tmp/seedrun.$$.out 2> /tmp/seedrun.$$.err
RC=$?
git -C /repo checkout -- . ; git -C /repo clean -fdq
echo "rc=$RC"; grep -E "^(VIOLATION|OK|KNOWN)" /tmp/seedrun.$$.out | cut -c1-200; grep -E "^\[$P\]" /tmp/seedrun.$$.err | cut -c1-260 | head -4
rm -f /tmp/seedrun.$$.out /tmp/seedrun.$$.err

#!/bin/bash
# runs every claimed check (quick by default) and prints one line each
cd /verif
TIER=${1:-quick}
for p in $(python3 -c "import sys; sys.path.insert(0,'lib'); import props; print(' '.join(props.PROPS))"); do
  ( timeout 3000 ./check $p --tier $TIER 2>/dev/null | grep -E "^(OK|VIOLATION)" | tail -1 ) &
  # lake/harness builds are serialised by locks; limit parallelism
  while [ $(jobs -r | wc -l) -ge 6 ]; do sleep 1; done
done
wait

#!/bin/bash
# like seedall.sh, but against a scratch worktree of /repo (VERIF_REPO), so that /repo stays untouched:
# usable under `vp run` next to other sweeps. usage: lib/seedall_wt.sh [worktree dir]
cd "$(dirname "$0")/.."
WT=${1:-/tmp/seedall_wt}
./setup > /dev/null 2>&1
git -C /repo worktree remove --force "$WT" 2>/dev/null
git -C /repo worktree add --detach "$WT" HEAD > /dev/null 2>&1 || { echo "cannot create worktree"; exit 2; }
for d in seeded/*/; do
  id=$(basename $d); [ -f $d/meta.json ] || continue
  p=$(python3 -c "import json;print(json.load(open('$d/meta.json'))['breaks_property'])")
  c=$p
  case $id in C01-2|C02-2|C04-9) c=C11;; C06-9|C06-10) c=C05;; C11-9) c=C18;; esac
  git -C "$WT" checkout -q -- . ; git -C "$WT" clean -fdq
  if ! git -C "$WT" apply --check $PWD/$d/patch.diff 2>/dev/null; then echo "$id $c DOES-NOT-APPLY"; continue; fi
  r=$(lib/seedrun_wt.sh $c "$WT" $PWD/$d/patch.diff 2>&1 | grep -E "^rc=" | head -1)
  echo "$id $c $r"
done
git -C /repo worktree remove --force "$WT"
echo seedall-finished

#!/bin/bash
# usage: lib/seedbatch.sh <Cxx> <worktree> <outdir> [check-id]
# for mutation1/2 under <outdir>: finds the demo's package and -run pattern in notes.md, confirms the seed
# (seedconfirm.sh) and runs the property's check against the patched worktree (seedrun_wt.sh).
P=$1; WT=$2; OUT=$3; CHK=${4:-$P}
cd "$(cd "$(dirname "$0")/.." && pwd)"
git -C "$WT" checkout -q --detach "$(git -C /repo rev-parse HEAD)" 2>/dev/null
for i in 1 2; do
  M=$OUT/mutation$i
  [ -f $M/patch.diff ] || { echo "== $P m$i: no patch"; continue; }
  line=$(grep -hoE "go test[^\`]*-run[ =]+['\"]?[A-Za-z0-9_|^\$.*()]+['\"]?[^\`]*\./[a-z/_]+" $M/notes.md | head -1)
  pat=$(echo "$line" | sed -E "s/.*-run[ =]+['\"]?([A-Za-z0-9_|^\$.*()]+).*/\1/")
  pkg=$(echo "$line" | grep -oE "\./[a-z/_]+" | tail -1 | sed 's#^\./##; s#/$##')
  echo "== $P m$i: pkg=$pkg pat=$pat"
  [ -n "$pkg" ] && [ -z "${SKIP_CONFIRM:-}" ] && lib/seedconfirm.sh $WT $M $pkg "$pat" 2>&1 | grep -E "^(demo|build)" 
  lib/seedrun_wt.sh $CHK $WT $M/patch.diff 2>&1 | tail -5 | cut -c1-420
done

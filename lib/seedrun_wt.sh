#!/bin/bash
# usage: lib/seedrun_wt.sh <Cxx> <worktree> <patch.diff> [tier] — like seedrun.sh, but against a scratch
# worktree (VERIF_REPO) instead of /repo: for use while something else needs /repo untouched.
set -u
HERE=$(cd "$(dirname "$0")/.." && pwd)
P=$1; WT=$2; PATCH=$3; TIER=${4:-quick}
cd "$WT" || exit 2
git checkout -q -- . ; git clean -fdq
git apply "$PATCH" || { echo "patch does not apply"; exit 2; }
cd "$HERE"
VERIF_REPO="$WT" timeout 2400 ./check "$P" --tier "$TIER" > /tmp/seedrunwt.$$.out 2> /tmp/seedrunwt.$$.err
RC=$?
git -C "$WT" checkout -q -- . ; git -C "$WT" clean -fdq
echo "rc=$RC"; grep -E "^(VIOLATION|OK|KNOWN)" /tmp/seedrunwt.$$.out | cut -c1-200; grep -E "^\[$P\]" /tmp/seedrunwt.$$.err | cut -c1-300 | head -4
rm -f /tmp/seedrunwt.$$.out /tmp/seedrunwt.$$.err
# the generated facts and binaries now reflect the worktree: bring them back to /repo
python3 -c "import sys; sys.path.insert(0,'$HERE/lib'); import core; core.extract()" > /dev/null 2>&1

#!/bin/bash
# runs every kept seed against the check of the property it breaks (apply to /repo, check quick, undo)
cd /verif
for d in seeded/*/; do
  id=$(basename $d); [ -f $d/meta.json ] || continue
  p=$(python3 -c "import json;print(json.load(open('$d/meta.json'))['breaks_property'])")
  # cache-level seeds of C01/C02 are decided by the C11 check
  c=$p; case $id in C01-2|C02-2) c=C11;; esac
  if ! git -C /repo apply --check $PWD/$d/patch.diff 2>/dev/null; then echo "$id $c DOES-NOT-APPLY"; continue; fi
  r=$(lib/seedrun.sh $c $PWD/$d/patch.diff 2>&1 | grep -E "^rc=" | head -1)
  echo "$id $c $r"
done

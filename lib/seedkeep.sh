#!/bin/bash
# usage: lib/seedkeep.sh <id> <prop> <mutation dir> <caught: yes|no|after-strengthening> <needs text> 
ID=$1; P=$2; M=$3; CAUGHT=$4; NEEDS=$5
D=/verif/seeded/$ID; mkdir -p $D
cp $M/patch.diff $D/patch.diff; cp $M/demo_test.go $D/demo_test.go 2>/dev/null; cp $M/notes.md $D/notes.md 2>/dev/null
python3 - "$ID" "$P" "$CAUGHT" "$NEEDS" <<'PY'
import json,sys
id_,p,caught,needs=sys.argv[1:5]
json.dump({"id":id_,"breaks_property":p,"needs_to_manifest":needs,"detected_by_check":caught,
 "what_i_ran":["lib/seedconfirm.sh in the agent's scratch worktree: demo passes without the patch, go build passes with it, demo fails with it, package tests pass with it",
               f"lib/seedrun.sh {p} seeded/{id_}/patch.diff (git apply to /repo, ./check {p} --tier quick, git checkout -- .)"],
 "source":"written by an independent sub-agent given only the property text and a scratch worktree"},
 open(f"/verif/seeded/{id_}/meta.json","w"),indent=1)
PY

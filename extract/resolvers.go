package main

import (
	"fmt"
	"go/ast"
	"go/parser"
	"go/token"
	"os"
	"path/filepath"
	"regexp"
	"sort"
	"strings"
)

func init() { extractors = append(extractors, extractResolvers) }

// calls that only look something up or build a value; everything else counts as a mutation
var readOnlyCalls = map[string]bool{
	"getRepo": true, "getBug": true, "ResolveRepo": true, "DefaultRepo": true, "ResolvePrefix": true, "Snapshot": true,
	"Now": true, "Unix": true, "CleanupOneLine": true, "Cleanup": true, "NewLoadedBug": true, "SearchComment": true,
	"Bugs": true, "Identities": true, "ResolveComment": true, "CleanupOneLineArray": true, "Id": true, "String": true, "CombinedId": true, "TargetId": true,
	"len": true, "make": true, "append": true, "string": true,
}

// plumbing of the upload handler only (in a resolver, Close, New, Set or Write would be mutations)
var uploadPlumbing = map[string]bool{
	"Vars": true, "Context": true, "Error": true, "Sprintf": true, "MaxBytesReader": true, "ParseMultipartForm": true,
	"FormFile": true, "Close": true, "ReadAll": true, "DetectContentType": true, "Marshal": true, "Header": true, "Set": true,
	"Write": true, "Errorf": true,
}

var inUpload bool

func isReadOnly(name string) bool { return readOnlyCalls[name] || inUpload && uploadPlumbing[name] }

type step struct{ Kind, Name string }

func callName(c *ast.CallExpr) string {
	switch f := c.Fun.(type) {
	case *ast.Ident:
		return f.Name
	case *ast.SelectorExpr:
		return f.Sel.Name
	case *ast.IndexExpr:
		if s, ok := f.X.(*ast.SelectorExpr); ok {
			return s.Sel.Name
		}
	}
	return "?"
}

// programOf lists the calls of a function body in evaluation order (arguments before the call).
func programOf(body *ast.BlockStmt) []step {
	var out []step
	var visit func(n ast.Node)
	visit = func(n ast.Node) {
		ast.Inspect(n, func(x ast.Node) bool {
			c, ok := x.(*ast.CallExpr)
			if !ok {
				return true
			}
			// receiver / arguments first
			if sel, ok := c.Fun.(*ast.SelectorExpr); ok {
				visit(sel.X)
			}
			for _, a := range c.Args {
				visit(a)
			}
			name := callName(c)
			switch {
			case name == "UserFromCtx":
				out = append(out, step{"gate", name})
			case isReadOnly(name):
				out = append(out, step{"read", name})
			default:
				out = append(out, step{"mutate", name})
			}
			return false
		})
	}
	visit(body)
	return out
}

// authoredCalls: for every mutating call of the body, does it pass the value obtained from
// UserFromCtx (the request's user) as an argument?
func authoredCalls(body *ast.BlockStmt) [][2]string {
	user := ""
	ast.Inspect(body, func(x ast.Node) bool {
		as, ok := x.(*ast.AssignStmt)
		if !ok || len(as.Rhs) != 1 || len(as.Lhs) == 0 {
			return true
		}
		if c, ok := as.Rhs[0].(*ast.CallExpr); ok && callName(c) == "UserFromCtx" {
			if id, ok := as.Lhs[0].(*ast.Ident); ok {
				user = id.Name
			}
		}
		return true
	})
	var out [][2]string
	ast.Inspect(body, func(x ast.Node) bool {
		c, ok := x.(*ast.CallExpr)
		if !ok {
			return true
		}
		name := callName(c)
		if name == "UserFromCtx" || isReadOnly(name) {
			return true
		}
		passes := "false"
		for _, a := range c.Args {
			if id, ok := a.(*ast.Ident); ok && user != "" && id.Name == user {
				passes = "true"
			}
		}
		out = append(out, [2]string{name, passes})
		return true
	})
	return out
}

// gateChecked: the statement following the one that calls UserFromCtx tests err and returns.
func gateChecked(body *ast.BlockStmt) bool {
	for i, st := range body.List {
		has := false
		ast.Inspect(st, func(x ast.Node) bool {
			if c, ok := x.(*ast.CallExpr); ok && callName(c) == "UserFromCtx" {
				has = true
			}
			return true
		})
		if !has {
			continue
		}
		if _, isAssign := st.(*ast.AssignStmt); !isAssign || i+1 >= len(body.List) {
			return false
		}
		ifs, ok := body.List[i+1].(*ast.IfStmt)
		if !ok || !mentions(ifs.Cond, "err") || len(ifs.Body.List) == 0 {
			return false
		}
		_, ret := ifs.Body.List[len(ifs.Body.List)-1].(*ast.ReturnStmt)
		return ret
	}
	return false
}

func extractResolvers(c *ctx) {
	fset := token.NewFileSet()
	type prog struct {
		Name     string
		Checked  bool
		Steps    []step
		Authored [][2]string
	}
	var progs []prog
	if f, err := parser.ParseFile(fset, filepath.Join(c.repo, "api/graphql/resolvers/mutation.go"), nil, 0); err == nil {
		for _, d := range f.Decls {
			fd, ok := d.(*ast.FuncDecl)
			if !ok || fd.Recv == nil || fd.Body == nil || !fd.Name.IsExported() {
				continue
			}
			recv := exprString(fset, fd.Recv.List[0].Type)
			if !strings.Contains(recv, "mutationResolver") {
				continue
			}
			name := strings.ToLower(fd.Name.Name[:1]) + fd.Name.Name[1:]
			progs = append(progs, prog{name, gateChecked(fd.Body), programOf(fd.Body), authoredCalls(fd.Body)})
		}
	}
	if f, err := parser.ParseFile(fset, filepath.Join(c.repo, "api/http/git_file_upload_handler.go"), nil, 0); err == nil {
		for _, d := range f.Decls {
			fd, ok := d.(*ast.FuncDecl)
			if ok && fd.Recv != nil && fd.Name.Name == "ServeHTTP" && fd.Body != nil {
				inUpload = true
				progs = append(progs, prog{"upload", gateChecked(fd.Body), programOf(fd.Body), authoredCalls(fd.Body)})
			}
		}
	}
	sort.Slice(progs, func(i, j int) bool { return progs[i].Name < progs[j].Name })
	// mutation fields of the served schema
	var fields []string
	if src, err := os.ReadFile(filepath.Join(c.repo, "api/graphql/schema/root.graphql")); err == nil {
		if m := regexp.MustCompile(`(?s)type Mutation \{(.*?)\n\}`).FindSubmatch(src); m != nil {
			for _, fm := range regexp.MustCompile(`(?m)^\s*([a-zA-Z_][a-zA-Z0-9_]*)\s*\(`).FindAllSubmatch(m[1], -1) {
				fields = append(fields, string(fm[1]))
			}
		}
	}
	sort.Strings(fields)
	var b strings.Builder
	b.WriteString("namespace GitBugModel.Gen.Resolvers\n\n")
	b.WriteString("/-- (resolver, the gate's error is tested and returned right after the call, calls in evaluation order as (kind, name)) -/\n")
	b.WriteString("def programs : List (String × Bool × List (String × String)) := [\n")
	for i, p := range progs {
		var ss []string
		for _, s := range p.Steps {
			ss = append(ss, fmt.Sprintf("(%q, %q)", s.Kind, s.Name))
		}
		sep := ","
		if i == len(progs)-1 {
			sep = ""
		}
		fmt.Fprintf(&b, "  (%q, %v, [%s])%s\n", p.Name, p.Checked, strings.Join(ss, ", "), sep)
	}
	b.WriteString("]\n\n/-- (resolver, its mutating calls as (callee, the value returned by UserFromCtx is passed as an argument)) -/\n")
	b.WriteString("def mutatingCalls : List (String × List (String × Bool)) := [\n")
	for i, p := range progs {
		var ss []string
		for _, s := range p.Authored {
			ss = append(ss, fmt.Sprintf("(%q, %s)", s[0], s[1]))
		}
		sep := ","
		if i == len(progs)-1 {
			sep = ""
		}
		fmt.Fprintf(&b, "  (%q, [%s])%s\n", p.Name, strings.Join(ss, ", "), sep)
	}
	b.WriteString("]\n\n/-- the fields of `type Mutation` in api/graphql/schema/root.graphql -/\n")
	fmt.Fprintf(&b, "def schemaMutations : List String := %s\n", leanStrList(fields))
	// the gate itself (api/auth): the package-level variables it keeps (state that outlives a request), and
	// the calls `UserFromCtx` makes, with the receiver of each — the user is resolved in the repository the
	// caller hands over, on every call
	var authVars, gateCalls []string
	for _, file := range []string{"context.go", "middleware.go", "errors.go"} {
		f, err := parser.ParseFile(fset, filepath.Join(c.repo, "api/auth", file), nil, 0)
		if err != nil {
			authVars = append(authVars, file+":unparsed")
			continue
		}
		for _, d := range f.Decls {
			switch n := d.(type) {
			case *ast.GenDecl:
				if n.Tok == token.VAR {
					for _, sp := range n.Specs {
						for _, nm := range sp.(*ast.ValueSpec).Names {
							authVars = append(authVars, nm.Name)
						}
					}
				}
			case *ast.FuncDecl:
				if n.Name.Name == "UserFromCtx" && n.Body != nil {
					ast.Inspect(n.Body, func(x ast.Node) bool {
						if call, ok := x.(*ast.CallExpr); ok {
							gateCalls = append(gateCalls, exprString(fset, call.Fun))
						}
						return true
					})
				}
			}
		}
	}
	sort.Strings(authVars)
	fmt.Fprintf(&b, "\n/-- package-level variables of api/auth -/\ndef authVars : List String := %s\n", leanStrList(authVars))
	fmt.Fprintf(&b, "\n/-- the calls made by `auth.UserFromCtx(ctx, r)`, in source order -/\ndef gateCalls : List String := %s\n", leanStrList(gateCalls))
	b.WriteString("\nend GitBugModel.Gen.Resolvers\n")
	c.writeLean("Resolvers.lean", b.String())
	c.facts["resolver_programs"] = progs
	c.facts["schema_mutations"] = fields
}

package main

import (
	"fmt"
	"go/ast"
	"go/parser"
	"go/token"
	"path/filepath"
	"sort"
	"strings"
)

func init() { extractors = append(extractors, extractLockNesting) }

// extractLockNesting: which calls does the cache make while it holds one of its mutexes?
//
// Three mutex families: SUB (SubCache.mu, reached as sc.mu / c.mu from RepoCacheBug and
// RepoCacheIdentity, which embed *SubCache), ENT (CachedEntityBase.mu, reached from BugCache /
// IdentityCache), SNAP (withSnapshot.mu).  For every method the statements are walked in order,
// keeping whether the receiver's mutex is held (Lock/RLock … Unlock/RUnlock, `defer …Unlock()`
// holds to the end; a branch that unlocks and returns does not change the state after it).
// Inside a held region every call `recv.M(…)` is recorded when M (transitively) takes a mutex:
//   - of the same family: a nested acquisition (Go's RWMutex is not re-entrant; a second RLock
//     behind a pending writer never returns),
//   - of a family that must not be requested while this one is held (ENT → SUB through
//     notifyUpdated / entityUpdated; SNAP → anything).
func extractLockNesting(c *ctx) {
	fset := token.NewFileSet()
	files := []string{"cache/subcache.go", "cache/bug_subcache.go", "cache/identity_subcache.go",
		"cache/cached.go", "cache/bug_cache.go", "cache/identity_cache.go", "cache/with_snapshot.go"}
	family := func(recvType string) string {
		switch {
		case strings.Contains(recvType, "SubCache"), strings.Contains(recvType, "RepoCacheBug"), strings.Contains(recvType, "RepoCacheIdentity"):
			return "SUB"
		case strings.Contains(recvType, "CachedEntityBase"), strings.Contains(recvType, "BugCache"), strings.Contains(recvType, "IdentityCache"):
			return "ENT"
		case strings.Contains(recvType, "withSnapshot"):
			return "SNAP"
		}
		return ""
	}
	type method struct {
		file, name, fam, recv string
		body                  *ast.BlockStmt
	}
	var methods []method
	parsed := 0
	for _, file := range files {
		f, err := parser.ParseFile(fset, filepath.Join(c.repo, file), nil, 0)
		if err != nil {
			continue
		}
		parsed++
		for _, d := range f.Decls {
			fd, ok := d.(*ast.FuncDecl)
			if !ok || fd.Recv == nil || fd.Body == nil || len(fd.Recv.List) == 0 || len(fd.Recv.List[0].Names) == 0 {
				continue
			}
			fam := family(exprString(fset, fd.Recv.List[0].Type))
			if fam == "" {
				continue
			}
			methods = append(methods, method{file, fd.Name.Name, fam, fd.Recv.List[0].Names[0].Name, fd.Body})
		}
	}
	// which methods take their family's mutex, directly …
	acquires := map[string]map[string]bool{"SUB": {}, "ENT": {}, "SNAP": {}}
	callsOf := map[string][]string{} // fam:name -> same-receiver callees
	for _, m := range methods {
		key := m.fam + ":" + m.name
		ast.Inspect(m.body, func(x ast.Node) bool {
			call, ok := x.(*ast.CallExpr)
			if !ok {
				return true
			}
			fn := exprString(fset, call.Fun)
			if fn == m.recv+".mu.Lock" || fn == m.recv+".mu.RLock" {
				acquires[m.fam][m.name] = true
			}
			if strings.HasPrefix(fn, m.recv+".") && strings.Count(fn, ".") == 1 {
				callsOf[key] = append(callsOf[key], strings.TrimPrefix(fn, m.recv+"."))
			}
			return true
		})
	}
	// … the notification of the sub-cache from an entity (a function value stored in the entity)
	subFromEnt := map[string]bool{"notifyUpdated": true, "entityUpdated": true}
	// … or through another method of the same receiver
	for changed := true; changed; {
		changed = false
		for _, m := range methods {
			if acquires[m.fam][m.name] {
				continue
			}
			for _, callee := range callsOf[m.fam+":"+m.name] {
				if acquires[m.fam][callee] {
					acquires[m.fam][m.name] = true
					changed = true
				}
			}
		}
	}
	type finding struct{ Method, Callee string }
	var nested, order []finding
	regions, callsSeen := 0, 0
	var walk func(m method, stmts []ast.Stmt, held bool) bool
	record := func(m method, node ast.Node) {
		ast.Inspect(node, func(x ast.Node) bool {
			if _, isLit := x.(*ast.FuncLit); isLit {
				return false
			}
			call, ok := x.(*ast.CallExpr)
			if !ok {
				return true
			}
			fn := exprString(fset, call.Fun)
			if !strings.HasPrefix(fn, m.recv+".") || strings.Count(fn, ".") != 1 {
				return true
			}
			callee := strings.TrimPrefix(fn, m.recv+".")
			callsSeen++
			if acquires[m.fam][callee] {
				nested = append(nested, finding{m.file + ":" + m.name, callee})
			}
			if m.fam == "ENT" && subFromEnt[callee] || m.fam == "SNAP" && (acquires["ENT"][callee] || acquires["SUB"][callee] || subFromEnt[callee]) {
				order = append(order, finding{m.file + ":" + m.name, callee})
			}
			return true
		})
	}
	walk = func(m method, stmts []ast.Stmt, held bool) bool {
		for _, st := range stmts {
			text := ""
			if es, ok := st.(*ast.ExprStmt); ok {
				text = exprString(fset, es.X)
			}
			if ds, ok := st.(*ast.DeferStmt); ok {
				text = "defer " + exprString(fset, ds.Call)
			}
			switch text {
			case m.recv + ".mu.Lock()", m.recv + ".mu.RLock()":
				held = true
				regions++
				continue
			case m.recv + ".mu.Unlock()", m.recv + ".mu.RUnlock()":
				held = false
				continue
			case "defer " + m.recv + ".mu.Unlock()", "defer " + m.recv + ".mu.RUnlock()":
				continue // held to the end of the function
			}
			switch s := st.(type) {
			case *ast.IfStmt:
				if held {
					if s.Init != nil {
						record(m, s.Init)
					}
					record(m, s.Cond)
				}
				walk(m, s.Body.List, held)
				if s.Else != nil {
					if b, ok := s.Else.(*ast.BlockStmt); ok {
						walk(m, b.List, held)
					} else {
						walk(m, []ast.Stmt{s.Else}, held)
					}
				}
			case *ast.ForStmt:
				walk(m, s.Body.List, held)
			case *ast.RangeStmt:
				if held {
					record(m, s.X)
				}
				walk(m, s.Body.List, held)
			case *ast.BlockStmt:
				held = walk(m, s.List, held)
			case *ast.SwitchStmt:
				for _, cc := range s.Body.List {
					if cl, ok := cc.(*ast.CaseClause); ok {
						walk(m, cl.Body, held)
					}
				}
			case *ast.TypeSwitchStmt:
				for _, cc := range s.Body.List {
					if cl, ok := cc.(*ast.CaseClause); ok {
						walk(m, cl.Body, held)
					}
				}
			case *ast.SelectStmt:
				for _, cc := range s.Body.List {
					if cl, ok := cc.(*ast.CommClause); ok {
						walk(m, cl.Body, held)
					}
				}
			case *ast.GoStmt:
				if fl, ok := s.Call.Fun.(*ast.FuncLit); ok {
					walk(m, fl.Body.List, false)
				}
			default:
				if held {
					record(m, st)
				}
				// function literals run later or elsewhere: their own regions, nothing held at entry
				ast.Inspect(st, func(x ast.Node) bool {
					if fl, ok := x.(*ast.FuncLit); ok {
						walk(m, fl.Body.List, false)
						return false
					}
					return true
				})
			}
		}
		return held
	}
	for _, m := range methods {
		walk(m, m.body.List, false)
	}
	srt := func(l []finding) {
		sort.Slice(l, func(i, j int) bool { return l[i].Method+l[i].Callee < l[j].Method+l[j].Callee })
	}
	srt(nested)
	srt(order)
	pairs := func(l []finding) string {
		q := make([]string, len(l))
		for i, x := range l {
			q[i] = fmt.Sprintf("(%q, %q)", x.Method, x.Callee)
		}
		return "[" + strings.Join(q, ", ") + "]"
	}
	var acq []string
	for fam, set := range acquires {
		for name := range set {
			acq = append(acq, fam+":"+name)
		}
	}
	sort.Strings(acq)
	var b strings.Builder
	b.WriteString("namespace GitBugModel.Gen.LockNest\n\n")
	b.WriteString("/-- (method, callee): while the method holds its receiver's mutex it calls a method of the same receiver that takes that mutex again -/\n")
	fmt.Fprintf(&b, "def nestedSame : List (String × String) := %s\n\n", pairs(nested))
	b.WriteString("/-- (method, callee): a call made while holding the entity mutex (or the snapshot mutex) that requests the sub-cache mutex (or the entity mutex): against the lock order SUB < ENT < SNAP -/\n")
	fmt.Fprintf(&b, "def againstOrder : List (String × String) := %s\n\n", pairs(order))
	b.WriteString("/-- methods of the cache that take a mutex of their receiver, directly or through another method of the receiver (family:name) -/\n")
	fmt.Fprintf(&b, "def acquiring : List String := %s\n\n", leanStrList(acq))
	fmt.Fprintf(&b, "/-- source files parsed, lock regions walked, same-receiver calls seen inside them -/\ndef scanned : Nat × Nat × Nat := (%d, %d, %d)\n", parsed, regions, callsSeen)
	b.WriteString("\nend GitBugModel.Gen.LockNest\n")
	c.writeLean("LockNest.lean", b.String())
	c.facts["lock_nested_same"] = nested
	c.facts["lock_against_order"] = order
}

package main

import (
	"fmt"
	"go/ast"
	"go/parser"
	"go/token"
	"path/filepath"
	"strings"
)

func init() { extractors = append(extractors, extractWritePaths) }

var storageMutations = map[string]bool{
	"StoreData": true, "StoreTree": true, "StoreCommit": true, "StoreSignedCommit": true,
	"UpdateRef": true, "CopyRef": true, "RemoveRef": true, "Increment": true, "Witness": true,
}
var refMutations = map[string]bool{"UpdateRef": true, "CopyRef": true}

// sub-paths: calls that write through the repository handed to them
var subPaths = map[string]bool{"Write": true, "Commit": true, "Merge": true}

type wcall struct {
	Name  string
	Depth int
}

// mutationName: the storage mutation (or sub-path) a call expression stands for, "" otherwise
func mutationName(fset *token.FileSet, c *ast.CallExpr) string {
	sel, ok := c.Fun.(*ast.SelectorExpr)
	if !ok {
		return ""
	}
	recv := exprString(fset, sel.X)
	if storageMutations[sel.Sel.Name] && (recv == "repo" || recv == "r") {
		return sel.Sel.Name
	}
	if subPaths[sel.Sel.Name] {
		for _, a := range c.Args {
			if id, ok := a.(*ast.Ident); ok && id.Name == "repo" {
				return "call:" + sel.Sel.Name
			}
		}
	}
	return ""
}

func callsOf(fset *token.FileSet, n ast.Node, depth int, out *[]wcall) {
	switch s := n.(type) {
	case nil:
		return
	case *ast.ForStmt:
		callsOf(fset, s.Init, depth, out)
		callsOf(fset, s.Cond, depth, out)
		callsOf(fset, s.Body, depth+1, out)
		return
	case *ast.RangeStmt:
		callsOf(fset, s.X, depth, out)
		callsOf(fset, s.Body, depth+1, out)
		return
	case *ast.FuncLit:
		callsOf(fset, s.Body, depth, out)
		return
	}
	ast.Inspect(n, func(x ast.Node) bool {
		if x == n {
			return true
		}
		switch y := x.(type) {
		case *ast.ForStmt, *ast.RangeStmt, *ast.FuncLit:
			callsOf(fset, y, depth, out)
			return false
		case *ast.CallExpr:
			// arguments first
			for _, a := range y.Args {
				callsOf(fset, a, depth, out)
			}
			if m := mutationName(fset, y); m != "" {
				*out = append(*out, wcall{m, depth})
			}
			if _, ok := y.Fun.(*ast.FuncLit); ok {
				callsOf(fset, y.Fun, depth, out)
			}
			return false
		}
		return true
	})
}

// afterRef: for every block, the mutations found in the statements that follow a statement
// containing a ref mutation (UpdateRef / CopyRef)
func afterRef(fset *token.FileSet, body *ast.BlockStmt) []string {
	var out []string
	ast.Inspect(body, func(x ast.Node) bool {
		blk, ok := x.(*ast.BlockStmt)
		if !ok {
			return true
		}
		seen := false
		for _, st := range blk.List {
			var cs []wcall
			callsOf(fset, st, 0, &cs)
			if seen {
				for _, c := range cs {
					out = append(out, c.Name)
				}
			}
			// a ref mutation directly in this statement (not inside a nested block of it)
			direct := false
			switch s := st.(type) {
			case *ast.AssignStmt, *ast.ExprStmt, *ast.ReturnStmt:
				var d []wcall
				callsOf(fset, s, 0, &d)
				for _, c := range d {
					if refMutations[c.Name] {
						direct = true
					}
				}
			}
			if direct {
				seen = true
			}
		}
		return true
	})
	return out
}

func extractWritePaths(c *ctx) {
	fset := token.NewFileSet()
	want := []struct{ file, recv, fn string }{
		{"entity/dag/entity.go", "Entity", "Commit"},
		{"entity/dag/operation_pack.go", "operationPack", "Write"},
		{"entity/dag/entity_actions.go", "", "merge"},
		{"entities/identity/identity.go", "Identity", "Commit"},
		{"entities/identity/identity.go", "Identity", "Merge"},
		{"entities/identity/version.go", "version", "Write"},
		{"entities/identity/identity_actions.go", "", "MergeAll"},
	}
	type pathFact struct {
		Name     string
		Calls    []wcall
		AfterRef []string
	}
	var paths []pathFact
	for _, w := range want {
		f, err := parser.ParseFile(fset, filepath.Join(c.repo, w.file), nil, 0)
		if err != nil {
			continue
		}
		for _, d := range f.Decls {
			fd, ok := d.(*ast.FuncDecl)
			if !ok || fd.Body == nil || fd.Name.Name != w.fn {
				continue
			}
			recv := ""
			if fd.Recv != nil && len(fd.Recv.List) > 0 {
				recv = strings.TrimLeft(exprString(fset, fd.Recv.List[0].Type), "*")
				if i := strings.Index(recv, "["); i >= 0 {
					recv = recv[:i]
				}
			}
			if recv != w.recv {
				continue
			}
			var cs []wcall
			callsOf(fset, fd.Body, 0, &cs)
			name := w.fn
			if recv != "" {
				name = recv + "." + w.fn
			}
			paths = append(paths, pathFact{filepath.Base(filepath.Dir(w.file)) + ":" + name, cs, afterRef(fset, fd.Body)})
		}
	}
	// how the persisted clock is written
	clockWrite := "unknown"
	clockWriteOrder := "unknown"
	if f, err := parser.ParseFile(fset, filepath.Join(c.repo, "util/lamport/persisted_clock.go"), nil, 0); err == nil {
		for _, d := range f.Decls {
			fd, ok := d.(*ast.FuncDecl)
			if !ok || fd.Body == nil || fd.Name.Name != "Write" {
				continue
			}
			var names []string
			ast.Inspect(fd.Body, func(x ast.Node) bool {
				if call, ok := x.(*ast.CallExpr); ok {
					n := callName(call)
					if n == "WriteFile" || n == "Rename" || n == "TempFile" || n == "OpenFile" || n == "Create" {
						names = append(names, n)
					}
				}
				return true
			})
			clockWrite = strings.Join(names, ",")
			// the order in which Write takes its mutex, reads the counter and touches the file
			var order []string
			ast.Inspect(fd.Body, func(x ast.Node) bool {
				switch n := x.(type) {
				case *ast.CallExpr:
					switch cn := callName(n); cn {
					case "Lock", "Unlock", "Time", "TempFile", "Rename", "WriteFile", "Create", "OpenFile":
						order = append(order, cn)
					}
				case *ast.SelectorExpr:
					if n.Sel.Name == "counter" {
						order = append(order, "counter")
					}
				}
				return true
			})
			clockWriteOrder = strings.Join(order, ",")
		}
	}
	// how a clock is created (every file-system call and method call on the clock in NewPersistedClock), and
	// which failures of opening the file `read` reports as "this clock does not exist"
	clockCreate, clockNotExist := "unknown", "unknown"
	if f, err := parser.ParseFile(fset, filepath.Join(c.repo, "util/lamport/persisted_clock.go"), nil, 0); err == nil {
		for _, d := range f.Decls {
			fd, ok := d.(*ast.FuncDecl)
			if !ok || fd.Body == nil {
				continue
			}
			switch fd.Name.Name {
			case "NewPersistedClock":
				var names []string
				ast.Inspect(fd.Body, func(x ast.Node) bool {
					if call, ok := x.(*ast.CallExpr); ok {
						switch n := callName(call); n {
						case "WriteFile", "Rename", "TempFile", "OpenFile", "Create", "Write", "MkdirAll":
							names = append(names, n)
						}
					}
					return true
				})
				clockCreate = strings.Join(names, ",")
			case "read":
				var conds []string
				ast.Inspect(fd.Body, func(x ast.Node) bool {
					if is, ok := x.(*ast.IfStmt); ok && len(is.Body.List) == 1 {
						if rs, ok := is.Body.List[0].(*ast.ReturnStmt); ok && len(rs.Results) == 1 && exprString(fset, rs.Results[0]) == "ErrClockNotExist" {
							conds = append(conds, exprString(fset, is.Cond))
						}
					}
					if rs, ok := x.(*ast.ReturnStmt); ok && len(rs.Results) == 1 && exprString(fset, rs.Results[0]) == "ErrClockNotExist" {
						conds = append(conds, "")
					}
					return true
				})
				// every `return ErrClockNotExist` must sit directly under one of the collected conditions
				var guarded []string
				n := 0
				for _, cnd := range conds {
					if cnd == "" {
						n++
					} else {
						guarded = append(guarded, cnd)
					}
				}
				if n == len(guarded) {
					clockNotExist = strings.Join(guarded, ",")
				} else {
					clockNotExist = "unguarded"
				}
			}
		}
	}
	var b strings.Builder
	b.WriteString("namespace GitBugModel.Gen.WritePaths\n\n")
	b.WriteString("/-- per write function: its storage-mutating calls on the repository in source order as (call, loop depth), and the mutating calls that follow a ref update inside the same block -/\n")
	b.WriteString("def paths : List (String × List (String × Nat) × List String) := [\n")
	for i, p := range paths {
		var ss []string
		for _, cl := range p.Calls {
			ss = append(ss, fmt.Sprintf("(%q, %d)", cl.Name, cl.Depth))
		}
		sep := ","
		if i == len(paths)-1 {
			sep = ""
		}
		fmt.Fprintf(&b, "  (%q, [%s], %s)%s\n", p.Name, strings.Join(ss, ", "), leanStrList(p.AfterRef), sep)
	}
	b.WriteString("]\n\n/-- file-system calls of `PersistedClock.Write`, in source order -/\n")
	fmt.Fprintf(&b, "def clockWrite : List String := %s\n", leanStrList(strings.Split(clockWrite, ",")))
	fmt.Fprintf(&b, "\n/-- `PersistedClock.Write` in source order: taking and releasing its mutex, reading the counter, the file-system calls -/\ndef clockWriteOrder : List String := %s\n", leanStrList(strings.Split(clockWriteOrder, ",")))
	fmt.Fprintf(&b, "\n/-- calls of `NewPersistedClock` that touch the file system (`Write` is the clock's own atomic write) -/\ndef clockCreate : List String := %s\n", leanStrList(strings.Split(clockCreate, ",")))
	fmt.Fprintf(&b, "\n/-- the conditions under which `read` answers ErrClockNotExist (each `return ErrClockNotExist` sits directly under one) -/\ndef clockNotExist : List String := %s\n", leanStrList(strings.Split(clockNotExist, ",")))
	b.WriteString("\nend GitBugModel.Gen.WritePaths\n")
	c.writeLean("WritePaths.lean", b.String())
	c.facts["write_paths"] = paths
	c.facts["clock_write"] = clockWrite
}

package main

import (
	"fmt"
	"go/ast"
	"go/parser"
	"go/token"
	"path/filepath"
	"sort"
	"strings"
)

func init() { extractors = append(extractors, extractBridge) }

func extractBridge(c *ctx) {
	fset := token.NewFileSet()
	// (a) the cursor is stored inside `if noError`
	cursorGuarded := false
	if f, err := parser.ParseFile(fset, filepath.Join(c.repo, "bridge/core/bridge.go"), nil, 0); err == nil {
		ast.Inspect(f, func(x ast.Node) bool {
			ifs, ok := x.(*ast.IfStmt)
			if !ok || exprString(fset, ifs.Cond) != "noError" {
				return true
			}
			ast.Inspect(ifs.Body, func(y ast.Node) bool {
				if call, ok := y.(*ast.CallExpr); ok && callName(call) == "StoreTimestamp" {
					cursorGuarded = true
				}
				return true
			})
			return true
		})
		// and nowhere else
		n := 0
		ast.Inspect(f, func(x ast.Node) bool {
			if call, ok := x.(*ast.CallExpr); ok && callName(call) == "StoreTimestamp" {
				n++
			}
			return true
		})
		if n != 1 {
			cursorGuarded = false
		}
	}
	// (b) the fetchers: what happens when a request fails
	type fetch struct {
		Name           string
		Reports, Stops bool
	}
	var fetchers []fetch
	if f, err := parser.ParseFile(fset, filepath.Join(c.repo, "bridge/gitlab/gitlab_api.go"), nil, 0); err == nil {
		for _, d := range f.Decls {
			fd, ok := d.(*ast.FuncDecl)
			if !ok || fd.Body == nil {
				continue
			}
			ast.Inspect(fd.Body, func(x ast.Node) bool {
				ifs, ok := x.(*ast.IfStmt)
				if !ok || exprString(fset, ifs.Cond) != "err != nil" {
					return true
				}
				ft := fetch{Name: fd.Name.Name}
				for _, st := range ifs.Body.List {
					switch s := st.(type) {
					case *ast.SendStmt:
						ft.Reports = true
					case *ast.ExprStmt:
						if call, ok := s.X.(*ast.CallExpr); ok && strings.Contains(strings.ToLower(exprString(fset, call.Fun)), "err") {
							ft.Reports = true
						}
					case *ast.ReturnStmt, *ast.BranchStmt:
						ft.Stops = true
					}
				}
				fetchers = append(fetchers, ft)
				return true
			})
		}
	}
	sort.Slice(fetchers, func(i, j int) bool { return fetchers[i].Name < fetchers[j].Name })
	// (c) ensureIssueEvent: every case that creates an operation looks at errResolve first
	type clause struct {
		Kinds            string
		Creates, Guarded bool
	}
	var clauses []clause
	titleCleaned := false
	if f, err := parser.ParseFile(fset, filepath.Join(c.repo, "bridge/gitlab/import.go"), nil, 0); err == nil {
		for _, d := range f.Decls {
			fd, ok := d.(*ast.FuncDecl)
			if !ok || fd.Body == nil || fd.Name.Name != "ensureIssueEvent" {
				continue
			}
			ast.Inspect(fd.Body, func(x ast.Node) bool {
				cc, ok := x.(*ast.CaseClause)
				if !ok || len(cc.List) == 0 {
					return true
				}
				var kinds []string
				for _, e := range cc.List {
					kinds = append(kinds, exprString(fset, e))
				}
				cl := clause{Kinds: strings.Join(kinds, ",")}
				for _, st := range cc.Body {
					ast.Inspect(st, func(y ast.Node) bool {
						if call, ok := y.(*ast.CallExpr); ok && strings.HasSuffix(callName(call), "Raw") {
							cl.Creates = true
						}
						if id, ok := y.(*ast.Ident); ok && id.Name == "errResolve" {
							cl.Guarded = true
						}
						return true
					})
				}
				clauses = append(clauses, cl)
				return true
			})
		}
	}
	if f, err := parser.ParseFile(fset, filepath.Join(c.repo, "bridge/gitlab/event.go"), nil, 0); err == nil {
		for _, d := range f.Decls {
			fd, ok := d.(*ast.FuncDecl)
			if !ok || fd.Body == nil || fd.Name.Name != "Title" {
				continue
			}
			// every return of Title() goes through text.CleanupOneLine
			all, n := true, 0
			ast.Inspect(fd.Body, func(x ast.Node) bool {
				if r, ok := x.(*ast.ReturnStmt); ok && len(r.Results) == 1 {
					n++
					if !strings.Contains(exprString(fset, r.Results[0]), "CleanupOneLine") {
						all = false
					}
				}
				return true
			})
			titleCleaned = all && n > 0
		}
	}
	var b strings.Builder
	b.WriteString("namespace GitBugModel.Gen.Bridge\n\n")
	fmt.Fprintf(&b, "/-- bridge/core/bridge.go: the only StoreTimestamp of the cursor sits inside `if noError` -/\ndef cursorGuarded : Bool := %v\n\n", cursorGuarded)
	b.WriteString("/-- bridge/gitlab/gitlab_api.go: each `if err != nil` of the fetchers as (function, the error is sent on / handed to a callback, the loop is left) -/\n")
	b.WriteString("def fetchErrors : List (String × Bool × Bool) := [\n")
	for i, ft := range fetchers {
		sep := ","
		if i == len(fetchers)-1 {
			sep = ""
		}
		fmt.Fprintf(&b, "  (%q, %v, %v)%s\n", ft.Name, ft.Reports, ft.Stops, sep)
	}
	b.WriteString("]\n\n/-- bridge/gitlab/import.go ensureIssueEvent: each case as (event kinds, it creates an operation, it looks at errResolve) -/\n")
	b.WriteString("def eventCases : List (String × Bool × Bool) := [\n")
	for i, cl := range clauses {
		sep := ","
		if i == len(clauses)-1 {
			sep = ""
		}
		fmt.Fprintf(&b, "  (%q, %v, %v)%s\n", cl.Kinds, cl.Creates, cl.Guarded, sep)
	}
	b.WriteString("]\n\n")
	fmt.Fprintf(&b, "/-- bridge/gitlab/event.go: every result of NoteEvent.Title() goes through text.CleanupOneLine -/\ndef titleCleaned : Bool := %v\n", titleCleaned)
	b.WriteString("\nend GitBugModel.Gen.Bridge\n")
	c.writeLean("Bridge.lean", b.String())
	c.facts["bridge"] = map[string]any{"cursorGuarded": cursorGuarded, "fetchers": fetchers, "clauses": clauses, "titleCleaned": titleCleaned}
}

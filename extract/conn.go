package main

import (
	"bytes"
	"fmt"
	"go/ast"
	"go/parser"
	"go/printer"
	"go/token"
	"os"
	"path/filepath"
	"regexp"
	"sort"
	"strings"
)

func init() { extractors = append(extractors, extractConn) }

func funcBody(path, name string) (string, bool) {
	fset := token.NewFileSet()
	f, err := parser.ParseFile(fset, path, nil, 0)
	if err != nil {
		return "", false
	}
	for _, d := range f.Decls {
		fd, ok := d.(*ast.FuncDecl)
		if ok && fd.Recv == nil && fd.Name.Name == name && fd.Body != nil {
			var buf bytes.Buffer
			printer.Fprint(&buf, fset, fd.Body)
			return strings.Join(strings.Fields(buf.String()), " "), true
		}
	}
	return "", false
}

var genLine = regexp.MustCompile(`//go:generate genny -in=(\S+) -out=(\S+) gen "Name=(\S+) NodeType=(\S+) EdgeType=(\S+) ConnectionType=(\S+)"`)

// extractConn: every genny instance of the relay connection template still has the
// template's function body up to the four type names (so one model covers all of them).
func extractConn(c *ctx) {
	dir := filepath.Join(c.repo, "api/graphql/connections")
	src, _ := os.ReadFile(filepath.Join(dir, "connections.go"))
	tmpl, tok := funcBody(filepath.Join(dir, "connection_template.go"), "NameCon")
	type inst struct {
		File string `json:"file"`
		Name string `json:"name"`
		Same bool   `json:"same"`
	}
	var insts []inst
	for _, m := range genLine.FindAllStringSubmatch(string(src), -1) {
		out, name, node, edge, con := m[2], m[3], m[4], m[5], m[6]
		body, ok := funcBody(filepath.Join(dir, out), name+"Con")
		want := tmpl
		want = regexp.MustCompile(`\bNodeType\b`).ReplaceAllString(want, node)
		want = regexp.MustCompile(`\bEdgeType\b`).ReplaceAllString(want, edge)
		want = regexp.MustCompile(`\bConnectionType\b`).ReplaceAllString(want, con)
		insts = append(insts, inst{File: out, Name: name, Same: ok && tok && body == want})
	}
	// gen_*.go files on disk that no go:generate line accounts for
	files, _ := filepath.Glob(filepath.Join(dir, "gen_*.go"))
	known := map[string]bool{}
	for _, i := range insts {
		known[i.File] = true
	}
	for _, f := range files {
		if !known[filepath.Base(f)] {
			insts = append(insts, inst{File: filepath.Base(f), Name: "?", Same: false})
		}
	}
	sort.Slice(insts, func(i, j int) bool { return insts[i].File < insts[j].File })
	c.facts["conn_instances"] = insts
	var b strings.Builder
	b.WriteString("namespace GitBugModel.Gen.Conn\n\n")
	b.WriteString("/-- (generated file, instance name, body equals connection_template.go up to the genny type names) -/\n")
	b.WriteString("def instances : List (String × String × Bool) := [\n")
	for i, in := range insts {
		sep := ","
		if i == len(insts)-1 {
			sep = ""
		}
		fmt.Fprintf(&b, "  (%q, %q, %v)%s\n", in.File, in.Name, in.Same, sep)
	}
	b.WriteString("]\n\nend GitBugModel.Gen.Conn\n")
	c.writeLean("Conn.lean", b.String())
}

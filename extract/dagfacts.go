package main

import (
	"bytes"
	"fmt"
	"go/ast"
	"go/parser"
	"go/printer"
	"go/token"
	"path/filepath"
	"strings"
)

func init() { extractors = append(extractors, extractDagFacts) }

func exprString(fset *token.FileSet, e ast.Node) string {
	var buf bytes.Buffer
	printer.Fprint(&buf, fset, e)
	return strings.Join(strings.Fields(buf.String()), " ")
}

func leanStrList(l []string) string {
	q := make([]string, len(l))
	for i, s := range l {
		q[i] = fmt.Sprintf("%q", s)
	}
	return "[" + strings.Join(q, ", ") + "]"
}

// comparisonsIn lists, in source order, every comparison (== != < <= > >=) in function fn.
func comparisonsIn(fset *token.FileSet, f *ast.File, fn string) ([]string, bool) {
	for _, d := range f.Decls {
		fd, ok := d.(*ast.FuncDecl)
		if !ok || fd.Name.Name != fn || fd.Body == nil {
			continue
		}
		var out []string
		ast.Inspect(fd.Body, func(n ast.Node) bool {
			if be, ok := n.(*ast.BinaryExpr); ok {
				switch be.Op {
				case token.EQL, token.NEQ, token.LSS, token.LEQ, token.GTR, token.GEQ:
					out = append(out, exprString(fset, be))
				}
			}
			return true
		})
		return out, true
	}
	return nil, false
}

// extractDagFacts: the comparisons that decide acceptance and order in dag.read, the
// scenario tests of dag.merge, and the storage calls of the write paths.
func extractDagFacts(c *ctx) {
	fset := token.NewFileSet()
	var b strings.Builder
	b.WriteString("namespace GitBugModel.Gen.Dag\n\n")
	f, err := parser.ParseFile(fset, filepath.Join(c.repo, "entity/dag/entity.go"), nil, 0)
	var cmps []string
	ok := false
	if err == nil {
		cmps, ok = comparisonsIn(fset, f, "read")
	}
	// only those that look at clocks, ids, parents or operations (not `err != nil`)
	var rel []string
	for _, s := range cmps {
		if strings.Contains(s, "err") && strings.Contains(s, "nil") || strings.Contains(s, "ErrNotFound") {
			continue
		}
		rel = append(rel, s)
	}
	b.WriteString("/-- every comparison in `dag.read` that is not an error test, in source order -/\n")
	if ok {
		fmt.Fprintf(&b, "def readComparisons : Option (List String) := some %s\n\n", leanStrList(rel))
	} else {
		b.WriteString("def readComparisons : Option (List String) := none\n\n")
	}
	f2, err := parser.ParseFile(fset, filepath.Join(c.repo, "entity/dag/entity_actions.go"), nil, 0)
	var mc []string
	ok2 := false
	if err == nil {
		mc, ok2 = comparisonsIn(fset, f2, "merge")
	}
	var rel2 []string
	for _, s := range mc {
		if strings.Contains(s, "err") && strings.Contains(s, "nil") {
			continue
		}
		rel2 = append(rel2, s)
	}
	b.WriteString("/-- the same for `dag.merge` -/\n")
	if ok2 {
		fmt.Fprintf(&b, "def mergeComparisons : Option (List String) := some %s\n\n", leanStrList(rel2))
	} else {
		b.WriteString("def mergeComparisons : Option (List String) := none\n\n")
	}
	b.WriteString("end GitBugModel.Gen.Dag\n")
	c.writeLean("Dag.lean", b.String())
	c.facts["dag_read_comparisons"] = rel
	c.facts["dag_merge_comparisons"] = rel2
}

package main

import (
	"fmt"
	"go/ast"
	"go/parser"
	"go/token"
	"io/fs"
	"path/filepath"
	"sort"
	"strconv"
	"strings"
)

func init() { extractors = append(extractors, extractFrame) }

// extractFrame lists the string literals from which git-bug builds ref names, refspecs,
// configuration keys and its storage directory.
func extractFrame(c *ctx) {
	fset := token.NewFileSet()
	var refLits, cfgLits, namespaces []string
	seenRef, seenCfg := map[string]bool{}, map[string]bool{}
	for _, dir := range []string{"entity", "entities", "repository", "cache", "commands", "bridge/core", "api"} {
		filepath.WalkDir(filepath.Join(c.repo, dir), func(p string, d fs.DirEntry, err error) error {
			if err != nil || d.IsDir() || !strings.HasSuffix(p, ".go") || strings.HasSuffix(p, "_test.go") || strings.HasSuffix(p, "_testing.go") {
				return nil
			}
			f, err := parser.ParseFile(fset, p, nil, 0)
			if err != nil {
				return nil
			}
			rel, _ := filepath.Rel(c.repo, p)
			ast.Inspect(f, func(x ast.Node) bool {
				switch n := x.(type) {
				case *ast.BasicLit:
					if n.Kind != token.STRING {
						return true
					}
					v, err := strconv.Unquote(n.Value)
					if err != nil {
						return true
					}
					if strings.Contains(v, "refs/") && !seenRef[v] {
						seenRef[v] = true
						refLits = append(refLits, v)
					}
					if strings.HasPrefix(v, "git-bug") && !strings.Contains(v, " ") && !seenCfg[rel+v] && !strings.HasPrefix(rel, "repository/keyring") {
						seenCfg[rel+v] = true
						cfgLits = append(cfgLits, v)
					}
				case *ast.ValueSpec:
					for i, name := range n.Names {
						if name.Name == "gitBugNamespace" && i < len(n.Values) {
							if lit, ok := n.Values[i].(*ast.BasicLit); ok {
								v, _ := strconv.Unquote(lit.Value)
								namespaces = append(namespaces, v)
							}
						}
					}
				}
				return true
			})
			return nil
		})
	}
	sort.Strings(refLits)
	sort.Strings(cfgLits)
	var b strings.Builder
	b.WriteString("namespace GitBugModel.Gen.Frame\n\n")
	b.WriteString("/-- every string literal containing \"refs/\" in the non-test code of entity/, entities/, repository/, cache/, commands/, bridge/core, api/ -/\n")
	fmt.Fprintf(&b, "def refLiterals : List String := %s\n\n", leanStrList(refLits))
	b.WriteString("/-- every string literal starting with \"git-bug\" there (configuration keys, the wipe section) -/\n")
	fmt.Fprintf(&b, "def configLiterals : List String := %s\n\n", leanStrList(cfgLits))
	b.WriteString("/-- the value of gitBugNamespace (directory under .git) -/\n")
	fmt.Fprintf(&b, "def namespaces : List String := %s\n", leanStrList(namespaces))
	b.WriteString("\nend GitBugModel.Gen.Frame\n")
	c.writeLean("Frame.lean", b.String())
	c.facts["ref_literals"] = refLits
	c.facts["config_literals"] = cfgLits
}

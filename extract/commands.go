package main

import (
	"fmt"
	"go/ast"
	"go/parser"
	"go/token"
	"io/fs"
	"path/filepath"
	"sort"
	"strconv"
	"strings"
)

func init() { extractors = append(extractors, extractCommands) }

// hasCloseCall: does the node contain a call `….Close()` on something named Backend?
func hasCloseCall(fset *token.FileSet, n ast.Node) bool {
	found := false
	ast.Inspect(n, func(x ast.Node) bool {
		if c, ok := x.(*ast.CallExpr); ok {
			if sel, ok := c.Fun.(*ast.SelectorExpr); ok && sel.Sel.Name == "Close" && strings.Contains(exprString(fset, sel.X), "Backend") {
				found = true
			}
		}
		return true
	})
	return found
}

// closesOnEveryReturn: every return statement of the function is preceded, in its own block or
// unconditionally at the top level of the function, by a Backend.Close() call.
func closesOnEveryReturn(fset *token.FileSet, body *ast.BlockStmt) bool {
	ok := true
	var walk func(list []ast.Stmt, closedBefore bool)
	walk = func(list []ast.Stmt, closedBefore bool) {
		closed := closedBefore
		for _, st := range list {
			switch s := st.(type) {
			case *ast.ReturnStmt:
				if !closed && !hasCloseCall(fset, s) {
					ok = false
				}
			case *ast.IfStmt:
				walk(s.Body.List, closed)
				if blk, isBlk := s.Else.(*ast.BlockStmt); isBlk {
					walk(blk.List, closed)
				}
			case *ast.BlockStmt:
				walk(s.List, closed)
			case *ast.ForStmt:
				walk(s.Body.List, closed)
			case *ast.RangeStmt:
				walk(s.Body.List, closed)
			case *ast.ExprStmt, *ast.AssignStmt:
				if hasCloseCall(fset, s) {
					closed = true
				}
			}
		}
	}
	walk(body.List, false)
	return ok
}

// failureBlocks lists, for a loader of execenv/loading.go, the `if err != nil { … return err }`
// blocks of its returned closure as (name of the call whose error is tested, the block closes the backend).
func failureBlocks(fset *token.FileSet, fd *ast.FuncDecl) [][2]string {
	var out [][2]string
	ast.Inspect(fd.Body, func(x ast.Node) bool {
		blk, ok := x.(*ast.BlockStmt)
		if !ok {
			return true
		}
		last := ""
		for _, st := range blk.List {
			switch s := st.(type) {
			case *ast.AssignStmt:
				for _, r := range s.Rhs {
					if c, ok := r.(*ast.CallExpr); ok {
						last = callName(c)
						if inner, ok := c.Fun.(*ast.CallExpr); ok { // LoadBackend(env)(cmd, args)
							last = callName(inner)
						}
					}
				}
			case *ast.IfStmt:
				if last != "" && mentions(s.Cond, "err") && len(s.Body.List) > 0 {
					if _, ret := s.Body.List[len(s.Body.List)-1].(*ast.ReturnStmt); ret {
						out = append(out, [2]string{last, fmt.Sprint(hasCloseCall(fset, s.Body))})
					}
				}
			}
		}
		return true
	})
	return out
}

func extractCommands(c *ctx) {
	fset := token.NewFileSet()
	type cmdFact struct {
		File, Use, Loader string
		Wrapped, ByHand   bool
	}
	var cmds []cmdFact
	funcs := map[string]*ast.FuncDecl{} // by package dir + name
	var files []*ast.File
	var names []string
	filepath.WalkDir(filepath.Join(c.repo, "commands"), func(p string, d fs.DirEntry, err error) error {
		if err != nil || d.IsDir() || !strings.HasSuffix(p, ".go") || strings.HasSuffix(p, "_test.go") {
			return nil
		}
		f, err := parser.ParseFile(fset, p, nil, 0)
		if err != nil {
			return nil
		}
		files = append(files, f)
		rel, _ := filepath.Rel(c.repo, p)
		names = append(names, rel)
		for _, d := range f.Decls {
			if fd, ok := d.(*ast.FuncDecl); ok && fd.Recv == nil && fd.Body != nil {
				funcs[filepath.Dir(rel)+"."+fd.Name.Name] = fd
			}
		}
		return nil
	})
	for i, f := range files {
		dir := filepath.Dir(names[i])
		ast.Inspect(f, func(x ast.Node) bool {
			lit, ok := x.(*ast.CompositeLit)
			if !ok || !strings.HasSuffix(exprString(fset, lit.Type), "cobra.Command") {
				return true
			}
			cf := cmdFact{File: names[i], Loader: "none"}
			for _, el := range lit.Elts {
				kv, ok := el.(*ast.KeyValueExpr)
				if !ok {
					continue
				}
				switch exprString(fset, kv.Key) {
				case "Use":
					cf.Use = strings.Trim(exprString(fset, kv.Value), `"`)
				case "PreRunE":
					cf.Loader = "unknown"
					if call, ok := kv.Value.(*ast.CallExpr); ok {
						cf.Loader = callName(call)
					}
				case "RunE", "Run":
					if call, ok := kv.Value.(*ast.CallExpr); ok && callName(call) == "CloseBackend" {
						cf.Wrapped = true
					} else if fl, ok := kv.Value.(*ast.FuncLit); ok {
						// closes by hand: the function literal, or the single function it calls, closes on every return
						cf.ByHand = closesOnEveryReturn(fset, fl.Body) && hasCloseCall(fset, fl.Body)
						if !cf.ByHand {
							ast.Inspect(fl.Body, func(y ast.Node) bool {
								if call, ok := y.(*ast.CallExpr); ok {
									if fd := funcs[dir+"."+callName(call)]; fd != nil && hasCloseCall(fset, fd.Body) && closesOnEveryReturn(fset, fd.Body) {
										cf.ByHand = true
									}
								}
								return true
							})
						}
					}
				}
			}
			cmds = append(cmds, cf)
			return true
		})
	}
	sort.Slice(cmds, func(i, j int) bool {
		if cmds[i].File != cmds[j].File {
			return cmds[i].File < cmds[j].File
		}
		return cmds[i].Use < cmds[j].Use
	})
	// the loaders
	loaders := map[string][][2]string{}
	if f, err := parser.ParseFile(fset, filepath.Join(c.repo, "commands/execenv/loading.go"), nil, 0); err == nil {
		for _, d := range f.Decls {
			if fd, ok := d.(*ast.FuncDecl); ok && fd.Body != nil && strings.HasPrefix(fd.Name.Name, "Load") {
				loaders[fd.Name.Name] = failureBlocks(fset, fd)
			}
		}
	}
	// how RepoCache.lock creates the lock file: Create (truncates) or OpenFile with O_EXCL
	lockExclusive := false
	lockCreation := "unknown"
	if f, err := parser.ParseFile(fset, filepath.Join(c.repo, "cache/repo_cache.go"), nil, 0); err == nil {
		for _, d := range f.Decls {
			fd, ok := d.(*ast.FuncDecl)
			if !ok || fd.Name.Name != "lock" || fd.Body == nil {
				continue
			}
			ast.Inspect(fd.Body, func(x ast.Node) bool {
				call, ok := x.(*ast.CallExpr)
				if !ok {
					return true
				}
				switch callName(call) {
				case "Create":
					lockCreation = "Create"
				case "OpenFile":
					lockCreation = "OpenFile"
					for _, a := range call.Args {
						if strings.Contains(exprString(fset, a), "O_EXCL") {
							lockCreation = "OpenFile(O_EXCL)"
							lockExclusive = true
						}
					}
				}
				return true
			})
		}
	}
	// what the lock file holds and how it is read back: the format verb `lock` writes the pid with,
	// the byte limit of the reader in repoIsAvailable, and the length test that refuses the file
	lockFormat, lockReadLimit, lockRefuseOp, lockRefuseLen, lockParser := "unknown", -1, "unknown", -1, "unknown"
	if f, err := parser.ParseFile(fset, filepath.Join(c.repo, "cache/repo_cache.go"), nil, 0); err == nil {
		for _, d := range f.Decls {
			fd, ok := d.(*ast.FuncDecl)
			if !ok || fd.Body == nil {
				continue
			}
			switch fd.Name.Name {
			case "lock":
				ast.Inspect(fd.Body, func(x ast.Node) bool {
					if call, ok := x.(*ast.CallExpr); ok && callName(call) == "Sprintf" && len(call.Args) == 2 && strings.Contains(exprString(fset, call.Args[1]), "Getpid") {
						if lit, ok := call.Args[0].(*ast.BasicLit); ok {
							lockFormat, _ = strconv.Unquote(lit.Value)
						}
					}
					return true
				})
			case "repoIsAvailable":
				ast.Inspect(fd.Body, func(x ast.Node) bool {
					switch n := x.(type) {
					case *ast.CallExpr:
						switch callName(n) {
						case "LimitReader":
							if len(n.Args) == 2 {
								if lit, ok := n.Args[1].(*ast.BasicLit); ok {
									lockReadLimit, _ = strconv.Atoi(lit.Value)
								}
							}
						case "Atoi", "ParseInt", "ParseUint", "Sscanf", "Sscan":
							lockParser = callName(n) + "(" + exprString(fset, n.Args[0]) + ")"
						}
					case *ast.IfStmt:
						if be, ok := n.Cond.(*ast.BinaryExpr); ok && strings.HasPrefix(exprString(fset, be.X), "len(") {
							if lit, ok := be.Y.(*ast.BasicLit); ok {
								lockRefuseOp = be.Op.String()
								lockRefuseLen, _ = strconv.Atoi(lit.Value)
							}
						}
					}
					return true
				})
			}
		}
	}
	// webui opens the cache inside its run function (its pre-run loader only opens the repository): every
	// return that follows the registration of the repository is preceded, in its own block, by a Close of the
	// cache (mrc / the GraphQL handler that owns it) — except the last one, reached after the signal handler
	// has closed it.
	var webuiReturns []string
	if f, err := parser.ParseFile(fset, filepath.Join(c.repo, "commands/webui.go"), nil, 0); err == nil {
		for _, d := range f.Decls {
			fd, ok := d.(*ast.FuncDecl)
			if !ok || fd.Body == nil || fd.Name.Name != "runWebUI" {
				continue
			}
			opened := false
			closeIn := func(n ast.Node) bool {
				found := false
				ast.Inspect(n, func(x ast.Node) bool {
					if call, ok := x.(*ast.CallExpr); ok {
						if sel, ok := call.Fun.(*ast.SelectorExpr); ok && sel.Sel.Name == "Close" {
							if r := exprString(fset, sel.X); r == "mrc" || r == "graphqlHandler" {
								found = true
							}
						}
					}
					return true
				})
				return found
			}
			for i, st := range fd.Body.List {
				if strings.Contains(exprString(fset, st), "RegisterDefaultRepository") {
					opened = true
					continue
				}
				if !opened {
					continue
				}
				switch n := st.(type) {
				case *ast.IfStmt:
					var walkIf func(is *ast.IfStmt)
					walkIf = func(is *ast.IfStmt) {
						for _, inner := range is.Body.List {
							if _, isRet := inner.(*ast.ReturnStmt); isRet {
								if closeIn(is.Body) {
									webuiReturns = append(webuiReturns, "closed")
								} else {
									webuiReturns = append(webuiReturns, "NOT-CLOSED: "+exprString(fset, is.Cond))
								}
							}
						}
						if e, ok := is.Else.(*ast.IfStmt); ok {
							walkIf(e)
						} else if blk, ok := is.Else.(*ast.BlockStmt); ok {
							for _, inner := range blk.List {
								if _, isRet := inner.(*ast.ReturnStmt); isRet {
									if closeIn(blk) {
										webuiReturns = append(webuiReturns, "closed")
									} else {
										webuiReturns = append(webuiReturns, "NOT-CLOSED: else")
									}
								}
							}
						}
					}
					walkIf(n)
				case *ast.ReturnStmt:
					if i == len(fd.Body.List)-1 {
						webuiReturns = append(webuiReturns, "final")
					} else {
						webuiReturns = append(webuiReturns, "NOT-CLOSED: bare return")
					}
				}
			}
		}
	}
	var b strings.Builder
	b.WriteString("namespace GitBugModel.Gen.Commands\n\n")
	fmt.Fprintf(&b, "/-- the returns of `runWebUI` after the repository's cache was opened -/\ndef webuiReturns : List String := %s\n\n", leanStrList(webuiReturns))
	fmt.Fprintf(&b, "/-- how `RepoCache.lock` creates the lock file -/\ndef lockCreation : String := %q\ndef lockExclusive : Bool := %v\n\n", lockCreation, lockExclusive)
	fmt.Fprintf(&b, "/-- the lock file's content: format verb of the pid, byte limit of the reader, the length test that refuses the file (operator, bound), the parser -/\ndef lockFormat : String := %q\ndef lockReadLimit : Int := %d\ndef lockRefuseOp : String := %q\ndef lockRefuseLen : Int := %d\ndef lockParser : String := %q\n\n", lockFormat, lockReadLimit, lockRefuseOp, lockRefuseLen, lockParser)
	c.facts["lock_exclusive"] = lockExclusive
	c.facts["lock_read_limit"] = lockReadLimit
	c.facts["lock_refuse_len"] = lockRefuseLen
	b.WriteString("/-- every `cobra.Command` literal under commands/: (file, Use, PreRunE loader, RunE wrapped in execenv.CloseBackend, RunE closes the backend by hand on every return) -/\n")
	b.WriteString("def commands : List (String × String × String × Bool × Bool) := [\n")
	for i, cf := range cmds {
		sep := ","
		if i == len(cmds)-1 {
			sep = ""
		}
		fmt.Fprintf(&b, "  (%q, %q, %q, %v, %v)%s\n", cf.File, cf.Use, cf.Loader, cf.Wrapped, cf.ByHand, sep)
	}
	b.WriteString("]\n\n/-- for each loader of commands/execenv/loading.go: its `if err != nil { … return err }` blocks as (call whose error is tested, the block closes the backend) -/\n")
	b.WriteString("def loaderFailures : List (String × List (String × Bool)) := [\n")
	var lnames []string
	for n := range loaders {
		lnames = append(lnames, n)
	}
	sort.Strings(lnames)
	for i, n := range lnames {
		var ss []string
		for _, fb := range loaders[n] {
			ss = append(ss, fmt.Sprintf("(%q, %s)", fb[0], fb[1]))
		}
		sep := ","
		if i == len(lnames)-1 {
			sep = ""
		}
		fmt.Fprintf(&b, "  (%q, [%s])%s\n", n, strings.Join(ss, ", "), sep)
	}
	b.WriteString("]\n\nend GitBugModel.Gen.Commands\n")
	c.writeLean("Commands.lean", b.String())
	c.facts["commands"] = cmds
	c.facts["loader_failures"] = loaders
}

package main

import (
	"fmt"
	"go/ast"
	"go/parser"
	"go/token"
	"path/filepath"
	"sort"
	"strings"
)

func init() { extractors = append(extractors, extractLocks) }

func isCallNamed(fset *token.FileSet, st ast.Stmt, text string) bool {
	es, ok := st.(*ast.ExprStmt)
	return ok && exprString(fset, es.X) == text
}

// extractLocks: do the cache's entity methods touch the entity inside the entity's lock, and does
// Resolve look at the map again under the write lock before storing a freshly loaded instance?
func extractLocks(c *ctx) {
	fset := token.NewFileSet()
	type m struct {
		Name   string
		Locked bool
	}
	var methods []m
	scan := func(file, recvVar string) {
		f, err := parser.ParseFile(fset, filepath.Join(c.repo, file), nil, 0)
		if err != nil {
			return
		}
		for _, d := range f.Decls {
			fd, ok := d.(*ast.FuncDecl)
			if !ok || fd.Recv == nil || fd.Body == nil {
				continue
			}
			// statements (top level) that hand the entity to a mutating function
			for i, st := range fd.Body.List {
				touches := false
				ast.Inspect(st, func(x ast.Node) bool {
					call, ok := x.(*ast.CallExpr)
					if !ok {
						return true
					}
					fn := exprString(fset, call.Fun)
					if strings.HasPrefix(fn, "bug.") && len(call.Args) > 0 && exprString(fset, call.Args[0]) == recvVar+".entity" {
						touches = true
					}
					if fn == recvVar+".entity.Commit" || fn == recvVar+".entity.CommitAsNeeded" || fn == recvVar+".entity.Append" {
						touches = true
					}
					return true
				})
				if !touches {
					continue
				}
				if _, isReturn := st.(*ast.ReturnStmt); isReturn {
					methods = append(methods, m{file + ":" + fd.Name.Name, false})
					continue
				}
				locked := i > 0 && isCallNamed(fset, fd.Body.List[i-1], recvVar+".mu.Lock()")
				// the lock is released afterwards, on the error path too
				after := fd.Body.List[i+1:]
				unlocked := false
				for _, a := range after {
					if isCallNamed(fset, a, recvVar+".mu.Unlock()") {
						unlocked = true
						break
					}
					if ifs, ok := a.(*ast.IfStmt); ok {
						hasUnlock := false
						for _, b := range ifs.Body.List {
							if isCallNamed(fset, b, recvVar+".mu.Unlock()") {
								hasUnlock = true
							}
						}
						if !hasUnlock {
							break
						}
						continue
					}
					break
				}
				methods = append(methods, m{file + ":" + fd.Name.Name, locked && unlocked})
			}
		}
	}
	scan("cache/bug_cache.go", "c")
	scan("cache/cached.go", "e")
	sort.Slice(methods, func(i, j int) bool { return methods[i].Name < methods[j].Name })
	// Resolve's second look
	recheck := false
	if f, err := parser.ParseFile(fset, filepath.Join(c.repo, "cache/subcache.go"), nil, 0); err == nil {
		for _, d := range f.Decls {
			fd, ok := d.(*ast.FuncDecl)
			if !ok || fd.Body == nil || fd.Name.Name != "Resolve" {
				continue
			}
			inWrite := false
			for _, st := range fd.Body.List {
				if isCallNamed(fset, st, "sc.mu.Lock()") {
					inWrite = true
					continue
				}
				if !inWrite {
					continue
				}
				if as, ok := st.(*ast.AssignStmt); ok && len(as.Lhs) == 1 && exprString(fset, as.Lhs[0]) == "sc.cached[id]" {
					break // stored without having looked
				}
				if ifs, ok := st.(*ast.IfStmt); ok && (strings.Contains(exprString(fset, ifs.Init), "sc.cached[id]") || strings.Contains(exprString(fset, ifs.Cond), "sc.cached[id]")) {
					recheck = true
					break
				}
			}
		}
	}
	var b strings.Builder
	b.WriteString("namespace GitBugModel.Gen.Locks\n\n")
	b.WriteString("/-- every statement of cache/bug_cache.go and cache/cached.go that hands the entity to a mutating function: (file:method, it sits between mu.Lock() and mu.Unlock()) -/\n")
	b.WriteString("def entityCalls : List (String × Bool) := [\n")
	for i, x := range methods {
		sep := ","
		if i == len(methods)-1 {
			sep = ""
		}
		fmt.Fprintf(&b, "  (%q, %v)%s\n", x.Name, x.Locked, sep)
	}
	b.WriteString("]\n\n/-- SubCache.Resolve looks at sc.cached[id] again under the write lock before it stores the instance it loaded -/\n")
	fmt.Fprintf(&b, "def resolveRechecks : Bool := %v\n", recheck)
	b.WriteString("\nend GitBugModel.Gen.Locks\n")
	c.writeLean("Locks.lean", b.String())
	c.facts["entity_calls"] = methods
	c.facts["resolve_rechecks"] = recheck
}

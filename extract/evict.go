package main

import (
	"fmt"
	"go/ast"
	"go/parser"
	"go/token"
	"path/filepath"
	"strings"
)

// The loaded-instance bookkeeping of cache/subcache.go, as far as GitBugModel.Lru transcribes it:
//   - the body of the loop of evictIfNeeded, statement by statement;
//   - the order in which add, Resolve and SetCacheSize touch the LRU list, announce the entity and evict.
func init() { extractors = append(extractors, extractEvict) }

func extractEvict(c *ctx) {
	fset := token.NewFileSet()
	loop, early := []string{"unknown"}, "unknown"
	orders := map[string][]string{"add": {"unknown"}, "Resolve": {"unknown"}, "SetCacheSize": {"unknown"}, "entityUpdated": {"unknown"}}
	if f, err := parser.ParseFile(fset, filepath.Join(c.repo, "cache/subcache.go"), nil, 0); err == nil {
		for _, d := range f.Decls {
			fd, ok := d.(*ast.FuncDecl)
			if !ok || fd.Body == nil {
				continue
			}
			if _, want := orders[fd.Name.Name]; want {
				var order []string
				ast.Inspect(fd.Body, func(x ast.Node) bool {
					if call, ok := x.(*ast.CallExpr); ok {
						switch n := callName(call); n {
						case "Add", "Get", "evictIfNeeded", "entityUpdated", "makeExcerpt":
							order = append(order, n)
						}
					}
					if as, ok := x.(*ast.AssignStmt); ok && len(as.Lhs) == 1 {
						if l := exprString(fset, as.Lhs[0]); l == "sc.maxLoaded" || strings.HasPrefix(l, "sc.cached[") {
							order = append(order, "set:"+strings.SplitN(strings.TrimPrefix(l, "sc."), "[", 2)[0])
						}
					}
					return true
				})
				orders[fd.Name.Name] = order
			}
			if fd.Name.Name != "evictIfNeeded" {
				continue
			}
			loop = nil
			for _, st := range fd.Body.List {
				switch s := st.(type) {
				case *ast.IfStmt:
					early = describeIf(fset, s)
				case *ast.RangeStmt:
					loop = append(loop, "range:"+exprString(fset, s.X))
					for _, b := range s.Body.List {
						loop = append(loop, describeStmt(fset, b))
					}
				}
			}
		}
	}
	var b strings.Builder
	b.WriteString("namespace GitBugModel.Gen.Evict\n\n")
	fmt.Fprintf(&b, "/-- `evictIfNeeded`: the test before the loop -/\ndef early : String := %q\n\n", early)
	fmt.Fprintf(&b, "/-- `evictIfNeeded`: the loop and the statements of its body, in source order -/\ndef loop : List String := %s\n\n", leanStrList(loop))
	for _, fn := range []string{"add", "Resolve", "SetCacheSize", "entityUpdated"} {
		fmt.Fprintf(&b, "/-- `%s`: LRU calls, assignments to the loaded map / the size, announcement and eviction, in source order -/\ndef order%s : List String := %s\n\n", fn, strings.Title(fn), leanStrList(orders[fn]))
	}
	b.WriteString("end GitBugModel.Gen.Evict\n")
	c.writeLean("Evict.lean", b.String())
	c.facts["evict_loop"] = loop
}

func describeIf(fset *token.FileSet, s *ast.IfStmt) string {
	body := "..."
	if len(s.Body.List) == 1 {
		switch r := s.Body.List[0].(type) {
		case *ast.ReturnStmt:
			if len(r.Results) == 0 {
				body = "return"
			}
		case *ast.BranchStmt:
			body = r.Tok.String()
		}
	}
	if s.Else != nil || s.Init != nil {
		body = "..."
	}
	return "if " + exprString(fset, s.Cond) + " { " + body + " }"
}

func describeStmt(fset *token.FileSet, st ast.Stmt) string {
	switch s := st.(type) {
	case *ast.IfStmt:
		return describeIf(fset, s)
	default:
		return exprString(fset, st)
	}
}

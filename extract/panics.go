package main

import (
	"fmt"
	"go/ast"
	"go/parser"
	"go/token"
	"path/filepath"
	"sort"
	"strings"
)

func init() { extractors = append(extractors, extractPanics) }

// extractPanics: explicit panic(...) calls in the functions that handle data read from git
// (the "read path" of bugs and identities). A data-dependent panic there crashes a pull.
func extractPanics(c *ctx) {
	targets := map[string][]string{
		"entity/dag/entity.go":                  {"read", "Read", "readRemote", "readClockNoCheck", "ReadAll", "ReadAllClocksNoCheck"},
		"entity/dag/entity_actions.go":          {"merge", "MergeAll", "Pull"},
		"entity/dag/operation_pack.go":          {"readOperationPack", "readOperationPackClock", "unmarshallPack"},
		"entities/bug/operation.go":             {"operationUnmarshaler"},
		"entities/identity/identity.go":         {"read", "readAll", "Merge", "Validate"},
		"entities/identity/identity_actions.go": {"MergeAll", "Pull"},
		"entities/identity/version.go":          {"UnmarshalJSON", "Validate"},
	}
	type site struct {
		Fn    string `json:"fn"`
		Count int    `json:"panics"`
	}
	var sites []site
	fset := token.NewFileSet()
	for file, fns := range targets {
		f, err := parser.ParseFile(fset, filepath.Join(c.repo, file), nil, 0)
		want := map[string]bool{}
		for _, fn := range fns {
			want[fn] = true
		}
		found := map[string]bool{}
		if err == nil {
			for _, d := range f.Decls {
				fd, ok := d.(*ast.FuncDecl)
				if !ok || fd.Body == nil || !want[fd.Name.Name] {
					continue
				}
				n := 0
				ast.Inspect(fd.Body, func(x ast.Node) bool {
					if call, ok := x.(*ast.CallExpr); ok {
						if id, ok := call.Fun.(*ast.Ident); ok && id.Name == "panic" {
							n++
						}
					}
					return true
				})
				found[fd.Name.Name] = true
				sites = append(sites, site{Fn: file + ":" + fd.Name.Name, Count: n})
			}
		}
		for fn := range want {
			if !found[fn] {
				sites = append(sites, site{Fn: file + ":" + fn, Count: -1}) // function not found: unknown
			}
		}
	}
	sort.Slice(sites, func(i, j int) bool { return sites[i].Fn < sites[j].Fn })
	var b strings.Builder
	b.WriteString("namespace GitBugModel.Gen.Panics\n\n")
	b.WriteString("/-- (file:function, number of explicit `panic(` calls; -1 = function not found) for the functions that\nhandle data read from git -/\n")
	b.WriteString("def readPath : List (String × Int) := [\n")
	for i, s := range sites {
		sep := ","
		if i == len(sites)-1 {
			sep = ""
		}
		fmt.Fprintf(&b, "  (%q, %d)%s\n", s.Fn, s.Count, sep)
	}
	b.WriteString("]\n\n")
	// unchecked type assertions `x.(T)` (the one-result form, which panics when the dynamic type is another)
	// in the files that decode what git holds: per file, the functions that contain one
	assertFiles := []string{"entity/dag/operation_pack.go", "entity/dag/entity.go", "entity/dag/entity_actions.go", "entities/bug/operation.go",
		"entities/identity/identity.go", "entities/identity/version.go", "entities/identity/key.go", "entities/identity/identity_actions.go"}
	var asserts []string
	for _, file := range assertFiles {
		f, err := parser.ParseFile(fset, filepath.Join(c.repo, file), nil, 0)
		if err != nil {
			asserts = append(asserts, file+":unparsed")
			continue
		}
		for _, d := range f.Decls {
			fd, ok := d.(*ast.FuncDecl)
			if !ok || fd.Body == nil {
				continue
			}
			checked := map[*ast.TypeAssertExpr]bool{}
			ast.Inspect(fd.Body, func(x ast.Node) bool {
				switch n := x.(type) {
				case *ast.AssignStmt: // v, ok := x.(T)
					if len(n.Lhs) == 2 && len(n.Rhs) == 1 {
						if ta, ok := n.Rhs[0].(*ast.TypeAssertExpr); ok {
							checked[ta] = true
						}
					}
				case *ast.ValueSpec:
					if len(n.Names) == 2 && len(n.Values) == 1 {
						if ta, ok := n.Values[0].(*ast.TypeAssertExpr); ok {
							checked[ta] = true
						}
					}
				case *ast.TypeSwitchStmt:
					ast.Inspect(n.Assign, func(y ast.Node) bool {
						if ta, ok := y.(*ast.TypeAssertExpr); ok {
							checked[ta] = true
						}
						return true
					})
				}
				return true
			})
			ast.Inspect(fd.Body, func(x ast.Node) bool {
				if ta, ok := x.(*ast.TypeAssertExpr); ok && ta.Type != nil && !checked[ta] {
					asserts = append(asserts, fmt.Sprintf("%s:%s:%s", file, fd.Name.Name, exprString(fset, ta)))
				}
				return true
			})
		}
	}
	sort.Strings(asserts)
	b.WriteString("/-- unchecked type assertions (file:function:expression) in the files that decode what git holds -/\n")
	fmt.Fprintf(&b, "def uncheckedAsserts : List String := %s\n", leanStrList(asserts))
	b.WriteString("\nend GitBugModel.Gen.Panics\n")
	c.writeLean("Panics.lean", b.String())
	c.facts["read_path_panics"] = sites
	c.facts["unchecked_asserts"] = asserts
}

package main

import (
	"fmt"
	"go/ast"
	"go/parser"
	"go/token"
	"path/filepath"
	"strconv"
	"strings"
)

func init() { extractors = append(extractors, extractInterleave) }

// evalInt evaluates an integer expression over the single variable `i`.
func evalInt(e ast.Expr, i int) (int, bool) {
	switch x := e.(type) {
	case *ast.BasicLit:
		if x.Kind == token.INT {
			v, err := strconv.Atoi(strings.ReplaceAll(x.Value, "_", ""))
			return v, err == nil
		}
	case *ast.Ident:
		if x.Name == "i" {
			return i, true
		}
	case *ast.ParenExpr:
		return evalInt(x.X, i)
	case *ast.BinaryExpr:
		a, ok1 := evalInt(x.X, i)
		b, ok2 := evalInt(x.Y, i)
		if !ok1 || !ok2 {
			return 0, false
		}
		switch x.Op {
		case token.ADD:
			return a + b, true
		case token.SUB:
			return a - b, true
		case token.MUL:
			return a * b, true
		case token.REM:
			if b == 0 {
				return 0, false
			}
			return a % b, true
		case token.QUO:
			if b == 0 {
				return 0, false
			}
			return a / b, true
		}
	}
	return 0, false
}

// evalBool evaluates a boolean guard over `i`.
func evalBool(e ast.Expr, i int) (bool, bool) {
	switch x := e.(type) {
	case *ast.ParenExpr:
		return evalBool(x.X, i)
	case *ast.UnaryExpr:
		if x.Op == token.NOT {
			v, ok := evalBool(x.X, i)
			return !v, ok
		}
	case *ast.BinaryExpr:
		switch x.Op {
		case token.LAND, token.LOR:
			a, ok1 := evalBool(x.X, i)
			b, ok2 := evalBool(x.Y, i)
			if !ok1 || !ok2 {
				return false, false
			}
			if x.Op == token.LAND {
				return a && b, true
			}
			return a || b, true
		case token.EQL, token.NEQ, token.LSS, token.LEQ, token.GTR, token.GEQ:
			a, ok1 := evalInt(x.X, i)
			b, ok2 := evalInt(x.Y, i)
			if !ok1 || !ok2 {
				return false, false
			}
			switch x.Op {
			case token.EQL:
				return a == b, true
			case token.NEQ:
				return a != b, true
			case token.LSS:
				return a < b, true
			case token.LEQ:
				return a <= b, true
			case token.GTR:
				return a > b, true
			case token.GEQ:
				return a >= b, true
			}
		}
	}
	return false, false
}

func mentions(n ast.Node, name string) bool {
	found := false
	ast.Inspect(n, func(x ast.Node) bool {
		if id, ok := x.(*ast.Ident); ok && id.Name == name {
			found = true
		}
		return true
	})
	return found
}

// interleaveMask finds, in function fn, the tag-less switch of the interleaving loop and
// returns for i in 0..63 whether the non-default clause (the one that handles `secondary`)
// is taken. ok=false when the shape is not the expected one.
func interleaveMask(f *ast.File, fn string) (mask []bool, ok bool) {
	for _, d := range f.Decls {
		fd, isFn := d.(*ast.FuncDecl)
		if !isFn || fd.Name.Name != fn || fd.Body == nil {
			continue
		}
		var sw *ast.SwitchStmt
		n := 0
		ast.Inspect(fd.Body, func(x ast.Node) bool {
			if s, is := x.(*ast.SwitchStmt); is && s.Tag == nil {
				sw = s
				n++
			}
			return true
		})
		if sw == nil || n != 1 || len(sw.Body.List) != 2 {
			return nil, false
		}
		var def, sec *ast.CaseClause
		for _, c := range sw.Body.List {
			cc := c.(*ast.CaseClause)
			if cc.List == nil {
				def = cc
			} else {
				sec = cc
			}
		}
		if def == nil || sec == nil {
			return nil, false
		}
		// default handles primary only, the guarded clause secondary only
		if !mentions(def, "primary") || mentions(def, "secondary") || !mentions(sec, "secondary") || mentions(sec, "primary") {
			return nil, false
		}
		for i := 0; i < 64; i++ {
			taken := false
			for _, g := range sec.List {
				v, okv := evalBool(g, i)
				if !okv {
					return nil, false
				}
				taken = taken || v
			}
			mask = append(mask, taken)
		}
		return mask, true
	}
	return nil, false
}

func leanBools(m []bool) string {
	parts := make([]string, len(m))
	for i, b := range m {
		parts[i] = fmt.Sprint(b)
	}
	return "[" + strings.Join(parts, ", ") + "]"
}

func constInt(f *ast.File, name string) (int, bool) {
	for _, d := range f.Decls {
		gd, ok := d.(*ast.GenDecl)
		if !ok || gd.Tok != token.CONST {
			continue
		}
		for _, s := range gd.Specs {
			vs := s.(*ast.ValueSpec)
			for i, n := range vs.Names {
				if n.Name == name && i < len(vs.Values) {
					return evalInt(vs.Values[i], 0)
				}
			}
		}
	}
	return 0, false
}

func extractInterleave(c *ctx) {
	fset := token.NewFileSet()
	var b strings.Builder
	b.WriteString("namespace GitBugModel.Gen.Interleave\n\n")
	f, err := parser.ParseFile(fset, filepath.Join(c.repo, "entity/id_interleaved.go"), nil, 0)
	var cm, sm []bool
	okc, oks := false, false
	if err == nil {
		cm, okc = interleaveMask(f, "CombineIds")
		sm, oks = interleaveMask(f, "SeparateIds")
	}
	fmt.Fprintf(&b, "/-- for i in 0..63: does `CombineIds` take the character from the secondary id? (`none` = shape not understood) -/\n")
	if okc {
		fmt.Fprintf(&b, "def combineMask : Option (List Bool) := some %s\n", leanBools(cm))
	} else {
		b.WriteString("def combineMask : Option (List Bool) := none\n")
	}
	if oks {
		fmt.Fprintf(&b, "def separateMask : Option (List Bool) := some %s\n", leanBools(sm))
	} else {
		b.WriteString("def separateMask : Option (List Bool) := none\n")
	}
	idLen, human := 0, 0
	if f2, err := parser.ParseFile(fset, filepath.Join(c.repo, "entity/id.go"), nil, 0); err == nil {
		idLen, _ = constInt(f2, "idLength")
		human, _ = constInt(f2, "HumanIdLength")
	}
	fmt.Fprintf(&b, "def idLength : Nat := %d\ndef humanIdLength : Nat := %d\n", idLen, human)
	b.WriteString("\nend GitBugModel.Gen.Interleave\n")
	c.writeLean("Interleave.lean", b.String())
	c.facts["interleave"] = map[string]any{"combine": cm, "separate": sm, "idLength": idLen}
}

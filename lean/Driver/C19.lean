import Driver.Util
import GitBugModel.Model.LockFile
/-! Driver commands for C19: process-level event sequences and file-operation schedules. -/
namespace Driver.C19
open Lean Driver GitBugModel.LockFile

def evOf (j : Json) : Option Ev :=
  match j with
  | Json.arr #[Json.str k, n] =>
    match n.getNat?, k with
    | .ok i, "open" => some (.open i)
    | .ok i, "close" => some (.close i)
    | .ok i, "kill" => some (.kill i)
    | _, _ => none
  | _ => none

def outJ : Out → Json
  | .none => "none"
  | .refused h => Json.mkObj [("refused", jnat h)]
  | .acquired => "acquired"
  | .released => "released"
  | .excl => "excl"

def fileJ (f : Option Nat) : Json := match f with | some p => jnat p | none => Json.null

def handle (j : Json) : Json :=
  let n := getNat j "n"
  let excl := getBool j "excl"
  match getStr j "cmd" with
  | "events" =>
    let evs := (getArr j "events").filterMap evOf
    let (s, outs) := runEvs excl (init n) evs
    Json.mkObj [("outs", jarr (outs.map outJ)), ("file", fileJ s.file), ("holders", jnats (holders s))]
  | "readlock" =>
    let res := match readLock (getNat j "limit") (getNat j "refuse") (getStr j "content") with
      | .ok _ => "ok"
      | .error .tooLong => "tooLong"
      | .error .notANumber => "notANumber"
    Json.mkObj [("res", Json.str res)]
  | "steps" =>
    -- a lock file left by a dead process `n` when "stale" is set
    let s0 : St := if getBool j "stale" then { file := some n, pcs := List.replicate n .idle ++ [.dead] } else init n
    let s := (natArr j "sched").foldl (fun s i => (step excl s i).1) s0
    Json.mkObj [("file", fileJ s.file), ("holders", jnats (holders s))]
  | c => Json.mkObj [("bad-op", Json.str c)]

end Driver.C19

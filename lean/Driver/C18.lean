import Driver.Util
import GitBugModel.Model.Conc
/-! Driver command for C18: is the stored history an interleaving of the acknowledged operations? -/
namespace Driver.C18
open Lean Driver GitBugModel.Conc

def handle (j : Json) : Json :=
  match getStr j "cmd" with
  | "interleaving" =>
    let stored := strArr j "stored"
    let progs := (getArr j "workers").map fun w => match w with
      | Json.arr a => a.toList.filterMap (fun v => match v with | Json.str s => some s | _ => none)
      | _ => []
    Json.mkObj [("ok", Json.bool (isInterleaving stored progs (stored.length + 1)))]
  | c => Json.mkObj [("bad-op", Json.str c)]

end Driver.C18

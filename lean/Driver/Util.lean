import Lean.Data.Json
/-! JSON helpers for the line-protocol driver (core Lean only). -/
namespace Driver
open Lean

def getStr? (j : Json) (k : String) : Option String :=
  match j.getObjVal? k with
  | .ok (Json.str s) => some s
  | _ => none

def getStr (j : Json) (k : String) : String := (getStr? j k).getD ""

def getInt? (j : Json) (k : String) : Option Int :=
  match j.getObjVal? k with
  | .ok v => match v.getInt? with | .ok i => some i | _ => none
  | _ => none

def getNat (j : Json) (k : String) : Nat := ((getInt? j k).getD 0).toNat

def getBool (j : Json) (k : String) : Bool :=
  match j.getObjVal? k with
  | .ok (Json.bool b) => b
  | _ => false

def getArr (j : Json) (k : String) : List Json :=
  match j.getObjVal? k with
  | .ok (Json.arr a) => a.toList
  | _ => []

def getObj? (j : Json) (k : String) : Option Json :=
  match j.getObjVal? k with
  | .ok (Json.null) => none
  | .ok v => some v
  | _ => none

def strArr (j : Json) (k : String) : List String :=
  (getArr j k).filterMap (fun v => match v with | Json.str s => some s | _ => none)

def natArr (j : Json) (k : String) : List Nat :=
  (getArr j k).filterMap (fun v => match v.getNat? with | .ok n => some n | _ => none)

def jstrs (l : List String) : Json := Json.arr (l.map Json.str).toArray
def jnats (l : List Nat) : Json := Json.arr (l.map (fun n => Json.num (JsonNumber.fromNat n))).toArray
def jnat (n : Nat) : Json := Json.num (JsonNumber.fromNat n)
def jint (n : Int) : Json := Json.num (JsonNumber.fromInt n)
def jarr (l : List Json) : Json := Json.arr l.toArray

end Driver

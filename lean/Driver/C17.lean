import Driver.Util
import GitBugModel.Model.Gate
/-! Driver command for C17: run a resolver program (as extracted from the source) with or
without a user, with one failing call. -/
namespace Driver.C17
open Lean Driver GitBugModel.Gate

def stepOf (j : Json) : Step :=
  match getStr j "Kind" with
  | "gate" => .gate
  | "mutate" => .mutate (getStr j "Name")
  | _ => .read (getStr j "Name")

def handle (j : Json) : Json :=
  let p := (getArr j "steps").map stepOf
  let failAt := (getInt? j "failAt").getD (-1)
  let (o, σ) := run (getBool j "user") (fun i => (i : Int) == failAt) p 0 []
  Json.mkObj [("outcome", match o with | .done => "done" | .refused => "refused" | .failed => "failed"),
              ("changed", Json.bool (!σ.isEmpty))]

end Driver.C17

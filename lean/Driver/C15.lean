import Driver.Util
import GitBugModel.Model.GitTree
import GitBugModel.Model.Ident
import GitBugModel.Model.Config
/-! Driver command for C15: git's tree order and what fsck accepts. -/
namespace Driver.C15
open Lean Driver GitBugModel.GitTree

def entryOf (j : Json) : Entry := { name := getStr j "name", isTree := getBool j "tree" }

def handle (j : Json) : Json :=
  match getStr j "cmd" with
  | "tree" =>
    -- entries as handed to StoreTree: the stored order and whether fsck accepts the result
    let es := (getArr j "entries").map entryOf
    let sorted := sortTree es
    Json.mkObj [("order", jstrs (sorted.map (·.name))), ("ok", Json.bool (fsckTreeOk sorted))]
  | "stored" =>
    -- entries in the order they are stored: does fsck accept them, is it the sorted order
    let es := (getArr j "entries").map entryOf
    Json.mkObj [("ok", Json.bool (fsckTreeOk es)), ("sorted", Json.bool (sortTree es == es))]
  | "ident" =>
    -- configured name and email: the `name <email>` part of the line the commit carries
    let n := GitBugModel.Ident.cleanIdent (getStr j "name").toList
    let e := GitBugModel.Ident.cleanIdent (getStr j "email").toList
    let line := n ++ [' ', '<'] ++ e ++ ['>']
    Json.mkObj [("line", Json.str (String.ofList line)),
                ("fsck", Json.bool ((GitBugModel.Ident.fsckIdent (GitBugModel.Ident.identLine n e "1790748343 +0000".toList)).isNone))]
  | "config" =>
    -- sections as written; a prefix to remove: the keys left (sorted), or the error
    let optsOf (j : Json) : List (String × String) := (getArr j "options").filterMap fun o =>
      match o with
      | Json.arr a => match a.toList with
        | [Json.str k, Json.str v] => some (k, v)
        | _ => none
      | _ => none
    let cfg : GitBugModel.Config.Cfg := (getArr j "sections").map fun s =>
      { name := getStr s "name", options := optsOf s,
        subs := (getArr s "subs").map fun sb => { name := getStr sb "name", options := optsOf sb } }
    let parts := (getStr j "prefix").splitOn "."
    let sec := parts.headD ""
    let rest := if parts.length ≤ 1 then none else some (".".intercalate parts.tail)
    match GitBugModel.Config.removeAll String.toLower cfg sec rest with
    | .ok c' =>
      let ks := ((GitBugModel.Config.keys c').toArray.qsort (· < ·)).toList
      Json.mkObj [("err", Json.bool false), ("keys", jstrs ks)]
    | .invalidPrefix => Json.mkObj [("err", Json.bool true), ("keys", Json.null)]
  | c => Json.mkObj [("bad-op", Json.str c)]

end Driver.C15

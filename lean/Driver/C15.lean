import Driver.Util
import GitBugModel.Model.GitTree
import GitBugModel.Model.Ident
/-! Driver command for C15: git's tree order and what fsck accepts. -/
namespace Driver.C15
open Lean Driver GitBugModel.GitTree

def entryOf (j : Json) : Entry := { name := getStr j "name", isTree := getBool j "tree" }

def handle (j : Json) : Json :=
  match getStr j "cmd" with
  | "tree" =>
    -- entries as handed to StoreTree: the stored order and whether fsck accepts the result
    let es := (getArr j "entries").map entryOf
    let sorted := sortTree es
    Json.mkObj [("order", jstrs (sorted.map (·.name))), ("ok", Json.bool (fsckTreeOk sorted))]
  | "stored" =>
    -- entries in the order they are stored: does fsck accept them, is it the sorted order
    let es := (getArr j "entries").map entryOf
    Json.mkObj [("ok", Json.bool (fsckTreeOk es)), ("sorted", Json.bool (sortTree es == es))]
  | "ident" =>
    -- configured name and email: the `name <email>` part of the line the commit carries
    let n := GitBugModel.Ident.cleanIdent (getStr j "name").toList
    let e := GitBugModel.Ident.cleanIdent (getStr j "email").toList
    let line := n ++ [' ', '<'] ++ e ++ ['>']
    Json.mkObj [("line", Json.str (String.ofList line)),
                ("fsck", Json.bool ((GitBugModel.Ident.fsckIdent (GitBugModel.Ident.identLine n e "1790748343 +0000".toList)).isNone))]
  | c => Json.mkObj [("bad-op", Json.str c)]

end Driver.C15

import Driver.Util
import GitBugModel.Model.Lamport
/-! Driver command for C05/C06: a sequence of operations on one named clock. -/
namespace Driver.C05
open Lean Driver GitBugModel.Lamport

def opOf (j : Json) : Option Op :=
  match getStr j "o" with
  | "inc" => some .inc
  | "wit" => some (.wit (getNat j "v"))
  | "time" => some .time
  | "reopen" => some .reopen
  | "delete" => some .delete
  | "truncate" => some (.truncate (getNat j "j"))
  | _ => none

def handle (j : Json) : Json :=
  let ops := (getArr j "ops").filterMap opOf
  let (_, rs) := run { mem := none, file := .absent } ops
  jarr (rs.map fun r => match r with | .ok v => jnat v | .err => Json.str "err")

end Driver.C05

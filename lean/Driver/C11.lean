import Driver.Util
import GitBugModel.Model.Cache
/-! Driver command for C11: replay a cache session abstractly; after every action, which ids
are in the excerpt map and in the index. -/
namespace Driver.C11
open Lean Driver GitBugModel.Cache

def actOf (j : Json) : Option (Act String) :=
  let id := getStr j "id"
  match getStr j "a" with
  | "new" => some (.new id (getStr j "v"))
  | "commit" => some (.commit id (getStr j "v"))
  | "merged" => some (.merged id (getStr j "v"))
  | "nothing" => some .mergedNothing
  | "remove" => some (.remove id)
  | "evict" => some (.evict id)
  | "resolve" => some (.resolve id)
  | "reopen" => some .reopen
  | _ => none

def present (m : Map String) (ids : List String) : List String :=
  ((ids.eraseDups.filter fun i => (m i).isSome).toArray.qsort (· < ·)).toList

/-- one recorded action = one or more model actions (a pull merges several entities) -/
def actsOf (j : Json) : List (Act String) :=
  match getStr j "a" with
  | "pull" => (strArr j "ids").map fun id => Act.merged id (getStr j "v")
  | _ => (actOf j).toList

def handle (j : Json) : Json :=
  let groups := (getArr j "actions").map actsOf
  let init : St String := rebuild (fun _ => none) []
  let (_, outs) := groups.foldl (fun (acc : St String × List Json) as =>
    let s' := as.foldl step acc.1
    (s', acc.2 ++ [Json.mkObj [("excerpts", jstrs (present s'.excerpts s'.ids)), ("index", jstrs (present s'.index s'.ids))]])) (init, [])
  jarr outs

end Driver.C11

import Driver.Util
import GitBugModel.Model.Cache
import GitBugModel.Model.CacheStaged
import GitBugModel.Model.Lru
/-! Driver command for C11: replay a cache session on the finer model (GitBugModel.CacheStaged:
operation lists, staging areas, excerpt file); after every recorded action: which ids are in the
excerpt map and in the index, and for every listed bug the number of comments its excerpt shows
and the number of operations it resolves to. Operations are "c" (makes a comment) or "o". -/
namespace Driver.C11
open Lean Driver GitBugModel.CacheStaged

abbrev S := St String

def present (m : Map (List String)) (ids : List String) : List String :=
  ((ids.eraseDups.filter fun i => (m i).isSome).toArray.qsort (· < ·)).toList

/-- bring the instance of `id` to hold exactly `full`: load it if needed, then stage what is missing -/
def stageUpTo (s : S) (id : String) (full : List String) : S :=
  let s := step s (.resolve id)
  match s.loaded id with
  | some l => (full.drop l.all.length).foldl (fun s op => step s (.stage id op)) s
  | none => s

/-- one recorded action = one or more model actions -/
def apply (s : S) (j : Json) : S :=
  let id := getStr j "id"
  let ops := strArr j "ops"
  match getStr j "a" with
  | "new" => step s (.new id ops)
  | "stage" => stageUpTo s id ops
  | "commit" => step (stageUpTo s id ops) (.commit id)
  | "pull" =>
    let opsOf := (getObj? j "opsOf").getD Json.null
    (strArr j "ids").foldl (fun s id => step s (.merged id (strArr opsOf id))) s
  | "remove" => step s (.remove id)
  | "evict" => step s (.evict id)
  | "resolve" => step s (.resolve id)
  | "reopen" => step s .reopen
  | "reopen-built" => openFrom s none
  | _ => s

def observe (s : S) : Json :=
  let ids := present s.excerpts s.ids
  let bugs := ids.filterMap fun id =>
    match s.excerpts id, (served s).resolved id with
    | some ex, some r => some (id, jnats [(ex.filter (· == "c")).length, r.length])
    | _, _ => none
  Json.mkObj [("excerpts", jstrs ids), ("index", jstrs (present s.index s.ids)), ("bugs", Json.mkObj bugs)]

/-- `lru`: a session of calls on one cache with a small cache size; per call what it shows -/
def handleLru (j : Json) : Json :=
  let calls : List GitBugModel.Lru.Call := (getArr j "calls").filterMap fun c =>
    let id := getStr c "id"
    match getStr c "c" with
    | "resolve" => some (.resolve id)
    | "new" => some (.new id)
    | "edit" => some (.edit id)
    | "commit" => some (.commit id)
    | "setsize" => some (.setSize (getNat c "n"))
    | "remove" => some (.remove id)
    | _ => none
  let (_, outs) := GitBugModel.Lru.run (GitBugModel.Lru.init 1000) calls
  jarr (outs.map fun o => Json.mkObj [("same", jarr (o.same.map Json.bool)), ("ok", Json.bool o.ok)])

def handleCache (j : Json) : Json :=
  let init : S := rebuild (fun _ => none) []
  let (_, outs) := (getArr j "actions").foldl (fun (acc : S × List Json) a =>
    let s' := apply acc.1 a
    (s', acc.2 ++ [observe s'])) (init, [])
  jarr outs

def handle (j : Json) : Json :=
  match getStr j "cmd" with
  | "lru" => handleLru j
  | _ => handleCache j

end Driver.C11

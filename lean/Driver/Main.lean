import Driver.Util
import Driver.C20
import Driver.C13
import Driver.C10
import Driver.C03
import Driver.C05
import Driver.C09
import Driver.C12
import Driver.C04
import Driver.C11
import Driver.C14
import Driver.C06
import Driver.C15
import Driver.C16
import Driver.C17
import Driver.C18
import Driver.C19
/-!
Line-protocol driver.  Reads one JSON object per line on stdin, each with a field `p`
naming the property slice and an `id`; writes one JSON object per line with the same `id`
and the model's answer under `out`.  Stateless: one line is one complete case.
-/
open Lean Driver

def dispatch (j : Json) : Json :=
  match getStr j "p" with
  | "C20" => Driver.C20.handle j
  | "C13" => Driver.C13.handle j
  | "C10" => Driver.C10.handle j
  | "C03" => Driver.C03.handle j
  | "C05" => Driver.C05.handle j
  | "C09" => Driver.C09.handle j
  | "C12" => Driver.C12.handle j
  | "C04" => Driver.C04.handle j
  | "C11" => Driver.C11.handle j
  | "C14" => Driver.C14.handle j
  | "C15" => Driver.C15.handle j
  | "C16" => Driver.C16.handle j
  | "C17" => Driver.C17.handle j
  | "C18" => Driver.C18.handle j
  | "C19" => Driver.C19.handle j
  | "C08" => Driver.C09.handle j
  | "C01" => Driver.C03.handle j
  | "C02" => Driver.C03.handle j
  | "C07" => Driver.C03.handle j
  | "C06" => Driver.C06.handle j
  | p => Json.mkObj [("bad-op", Json.str p)]

partial def loop (hin hout : IO.FS.Stream) : IO Unit := do
  let line ← hin.getLine
  if line.isEmpty then return ()
  let t := line.trimAscii.toString
  if t.isEmpty then loop hin hout else
  match Json.parse t with
  | .error e => hout.putStrLn (Json.mkObj [("parse-error", Json.str e)]).compress
  | .ok j =>
    let id := (j.getObjVal? "id").toOption.getD Json.null
    hout.putStrLn (Json.mkObj [("id", id), ("out", dispatch j)]).compress
  loop hin hout

def main : IO Unit := do
  let hin ← IO.getStdin
  let hout ← IO.getStdout
  loop hin hout
  hout.flush

import Driver.Util
import GitBugModel.Model.Refs
/-! Driver command for C14: refs after a removal / after a wipe. -/
namespace Driver.C14
open Lean Driver GitBugModel.Refs

def sorted (l : List String) : Json := jstrs (l.toArray.qsort (· < ·)).toList

def handle (j : Json) : Json :=
  let refs := strArr j "refs"
  let remotes := strArr j "remotes"
  match getStr j "cmd" with
  | "remove" => sorted (remove refs (getStr j "ns") (getStr j "entity") remotes)
  | "wipe" => sorted (wipe refs remotes)
  | c => Json.mkObj [("bad-op", Json.str c)]

end Driver.C14

import Driver.BugJson
/-! Driver command for C10: compile an operation list; also the snapshot after every prefix
(what the cache's incremental maintenance must produce). -/
namespace Driver.C10
open Lean Driver Driver.BugJson GitBugModel.Bug

def handle (j : Json) : Json :=
  let ops := opsOf j "ops"
  let final := compile comb ops
  -- compiling again, from the operations as they now are (extra metadata applied), must give the same
  let again := compile comb final.ops
  Json.mkObj [("snap", snapJson final), ("again", snapJson again), ("n", jnat ops.length)]

end Driver.C10

import Driver.Util
import Driver.BugJson
import GitBugModel.Model.Query
/-! Driver commands for C12: `parse` and `eval`. -/
namespace Driver.C12
open Lean Driver GitBugModel.Query

def lexErrName : LexErr → String
  | .unmatchedQuote => "unmatchedQuote" | .emptyQualifierOrValue => "emptyQualifierOrValue"
  | .tooManySeparators => "tooManySeparators"

def errName : ParseErr → String
  | .lex e => lexErrName e | .unknownStatus => "unknownStatus" | .unknownNo => "unknownNo"
  | .multipleSort => "multipleSort" | .unknownSort => "unknownSort" | .unknownQualifier => "unknownQualifier"

def queryJson (q : Query) : Json :=
  Json.mkObj [("search", jstrs q.search), ("status", jnats q.status), ("author", jstrs q.author),
    ("metadata", jarr (q.metadata.map fun p => jstrs [p.1, p.2])), ("actor", jstrs q.actor),
    ("participant", jstrs q.participant), ("label", jstrs q.label), ("title", jstrs q.title),
    ("noLabel", Json.bool q.noLabel),
    ("orderBy", match q.orderBy with | .id => "id" | .creation => "creation" | .edit => "edit"),
    ("dir", match q.dir with | .asc => "asc" | .desc => "desc")]

/-- environment tables of a case -/
def envOf (j : Json) : (Char → Bool) × (String → String) × (String → String) :=
  let spaces := natArr j "spaces"
  let table (k : String) : String → String :=
    let ps := Driver.BugJson.pairs j k
    fun s => match ps.find? (·.1 == s) with | some p => p.2 | none => s
  (fun c => spaces.contains c.toNat, table "clean", table "lower")

def identOf (j : Json) : GitBugModel.Query.Ident := { id := getStr j "id", nameLower := getStr j "nameLower", loginLower := getStr j "loginLower" }

def excerptOf (j : Json) : Excerpt :=
  { id := getStr j "id", status := getNat j "status", labels := strArr j "labels", titleLower := getStr j "titleLower",
    author := getStr j "author", actors := strArr j "actors", participants := strArr j "participants",
    createMetadata := Driver.BugJson.pairs j "createMetadata",
    createLamport := getNat j "createLamport", createUnix := (getInt? j "createUnix").getD 0,
    editLamport := getNat j "editLamport", editUnix := (getInt? j "editUnix").getD 0 }

def handle (j : Json) : Json :=
  let (isSpace, clean, lower) := envOf j
  match getStr j "cmd" with
  | "parse" =>
    match parse isSpace clean (getStr j "s") with
    | .error e => Json.mkObj [("err", errName e)]
    | .ok q => Json.mkObj [("ok", queryJson q)]
  | "eval" =>
    let idents := (getArr j "idents").map identOf
    let pop := (getArr j "pop").map excerptOf
    jarr ((strArr j "queries").map fun qs =>
      match parse isSpace clean qs with
      | .error e => Json.mkObj [("err", errName e)]
      | .ok q => Json.mkObj [("ids", jstrs (run lower idents q pop))])
  | c => Json.mkObj [("bad-op", Json.str c)]

end Driver.C12

import Driver.DagJson
import GitBugModel.Model.Crash
/-! Driver command for C06: the views of every bug ref and the persisted clocks after a crash at
each point of a recorded write path. -/
namespace Driver.C06
open Lean Driver Driver.DagJson GitBugModel.Dag GitBugModel.Crash

def mutOf (j : Json) : Mut :=
  match getStr j "k" with
  | "obj" => match getObj? j "commit" with
    | some c => .obj (commitOf c)
    | none => .aux
  | "ref" => .setRef (getStr j "name") (getStr j "hash")
  | "clock" => .clock (getStr j "name") (getNat j "v")
  | _ => .aux

def pairsOf (j : Json) (k : String) : List (String × String) :=
  (getArr j k).filterMap fun p => match p with
    | Json.arr #[Json.str a, Json.str b] => some (a, b)
    | _ => none

def clocksOf (j : Json) (k : String) : List (String × Nat) :=
  (getArr j k).filterMap fun p => match p with
    | Json.arr #[Json.str a, n] => match n.getNat? with | .ok v => some (a, v) | _ => none
    | _ => none

def sortPairs {α} (l : List (String × α)) : List (String × α) := (l.toArray.qsort (fun a b => a.1 < b.1)).toList

def viewJ (σ : RState) : Json :=
  jarr ((sortPairs (view σ)).map fun (n, v) => jarr [Json.str n, match v with | some ops => opIds ops | none => Json.null])

def clocksJ (σ : RState) : Json := jarr ((sortPairs σ.clocks).map fun (n, v) => jarr [Json.str n, jnat v])

def handle (j : Json) : Json :=
  match getStr j "cmd" with
  | "crash" =>
    let σ : RState := { store := storeOf j "commits", refs := pairsOf j "refs", clocks := clocksOf j "clocks" }
    let ms := (getArr j "muts").map mutOf
    let ks := List.range (ms.length + 1)
    Json.mkObj [("views", jarr (ks.map fun k => viewJ (crash σ ms k))),
                ("clocks", jarr (ks.map fun k => clocksJ (crash σ ms k)))]
  | c => Json.mkObj [("bad-op", Json.str c)]

end Driver.C06

import Driver.Util
import GitBugModel.Model.Conn
/-! Driver command for C20: one line = one `NameCon` call. -/
namespace Driver.C20
open Lean Driver GitBugModel.Conn

/-- Input: `{n, cursors:[enc 0 … enc (n-1)], after, before, first, last}`.  `enc` is the
table supplied by the harness (what `OffsetToCursor` returned), so the model is run with the
implementation's own encoder, as the theorems are parametric in it. -/
def handle (j : Json) : Json :=
  let n := getNat j "n"
  let table := (strArr j "cursors").toArray
  let enc : Nat → String := fun i => table.getD i s!"<no-cursor-{i}>"
  let inp : Input := { after := getStr? j "after", before := getStr? j "before",
                       first := getInt? j "first", last := getInt? j "last" }
  match paginate enc (List.range n) inp with
  | .error .firstNegative => Json.mkObj [("err", "first")]
  | .error .lastNegative => Json.mkObj [("err", "last")]
  | .ok p => Json.mkObj [
      ("nodes", jnats p.nodes), ("cursors", jstrs p.cursors),
      ("hasNext", Json.bool p.hasNext), ("hasPrev", Json.bool p.hasPrev),
      ("start", Json.str p.startCursor), ("end", Json.str p.endCursor),
      ("total", jnat p.total)]

end Driver.C20

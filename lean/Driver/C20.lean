import Driver.Util
import GitBugModel.Model.Conn
import GitBugModel.Model.Cursor
/-! Driver command for C20: one line = one `NameCon` call. -/
namespace Driver.C20
open Lean Driver GitBugModel.Conn

/-- Input: `{n, cursors:[enc 0 … enc (n-1)], after, before, first, last}`.  The model is run with
its own encoder (`Cursor.offsetToCursor`, proved injective); the table the harness supplies (what
`connections.OffsetToCursor` returned) must be that encoder's table, else the answer says where
they differ. -/
def handle (j : Json) : Json :=
  let n := getNat j "n"
  let table := (strArr j "cursors").toArray
  let enc : Nat → String := GitBugModel.Cursor.offsetToCursor
  match (List.range table.size).find? (fun i => table.getD i "" != enc i) with
  | some i => Json.mkObj [("encoderDiffersAt", jnat i), ("model", Json.str (enc i))]
  | none =>
  let inp : Input := { after := getStr? j "after", before := getStr? j "before",
                       first := getInt? j "first", last := getInt? j "last" }
  match paginate enc (List.range n) inp with
  | .error .firstNegative => Json.mkObj [("err", "first")]
  | .error .lastNegative => Json.mkObj [("err", "last")]
  | .ok p => Json.mkObj [
      ("nodes", jnats p.nodes), ("cursors", jstrs p.cursors),
      ("hasNext", Json.bool p.hasNext), ("hasPrev", Json.bool p.hasPrev),
      ("start", Json.str p.startCursor), ("end", Json.str p.endCursor),
      ("total", jnat p.total)]

end Driver.C20

import Driver.Util
import GitBugModel.Model.Import
/-! Driver command for C16: one pass of the importer's de-duplication over an issue's events. -/
namespace Driver.C16
open Lean Driver GitBugModel.Import

def kindOf (j : Json) : Kind :=
  match getStr j "kind" with
  | "comment" => .comment (getStr j "body")
  | "title" => .title
  | "desc" => .descNote
  | "label" => .label
  | "state" => .state
  | _ => .ignored

def handle (j : Json) : Json :=
  match getStr j "cmd" with
  | "pass" =>
    let st : St := { known := strArr j "known",
                     comments := (getArr j "comments").filterMap (fun p => match p with
                       | Json.arr #[Json.str a, Json.str b] => some (a, b) | _ => none),
                     desc := getStr j "localDesc" }
    let evs := (getArr j "events").map fun e => ({ id := getStr e "id", kind := kindOf e } : Ev)
    let (st', n) := pass (getStr j "desc") st evs
    Json.mkObj [("ops", jnat n), ("known", jnat st'.known.length), ("desc", Json.str st'.desc)]
  | "rounds" => Json.mkObj [("ok", Json.bool true)]
  | c => Json.mkObj [("bad-op", Json.str c)]

end Driver.C16

import Driver.Util
import GitBugModel.Model.Identity
/-! Driver commands for C09 (and C08's key window): identity merge, validation, valid keys. -/
namespace Driver.C09
open Lean Driver GitBugModel.Identity

/-- when the texts themselves are given, their safety is decided by the model -/
def withTextsOf (j : Json) (v : Version) : Version :=
  match getStr? j "name", getStr? j "login", getStr? j "email" with
  | some n, some l, some e => v.withTexts n.toList l.toList e.toList
  | _, _, _ => v

def versionOf0 (j : Json) : Version :=
  { commit := getStr j "commit",
    times := (getArr j "times").filterMap (fun p => match p with
      | Json.arr #[Json.str a, b] => (b.getNat?.toOption).map (fun n => (a, n))
      | _ => none),
    nameEmpty := getBool j "nameEmpty", loginEmpty := getBool j "loginEmpty",
    nameSafe := getBool j "nameSafe", loginSafe := getBool j "loginSafe", emailSafe := getBool j "emailSafe",
    avatarOk := getBool j "avatarOk", nonceLen := getNat j "nonceLen", keysOk := getBool j "keysOk",
    keys := strArr j "keys" }

def versionOf (j : Json) : Version := withTextsOf j (versionOf0 j)

def chain (j : Json) (k : String) : List Version := (getArr j k).map versionOf

def handle (j : Json) : Json :=
  match getStr j "cmd" with
  | "merge" =>
    match merge (chain j "local") (chain j "remote") with
    | .updated vs ref => Json.mkObj [("res", "updated"), ("chain", jstrs (vs.map (·.commit))), ("ref", ref)]
    | .nothing vs => Json.mkObj [("res", "nothing"), ("chain", jstrs (vs.map (·.commit))), ("ref", "")]
    | .nonFastForward vs => Json.mkObj [("res", "nonFF"), ("chain", jstrs (vs.map (·.commit))), ("ref", "")]
  | "mergeAll" =>
    match mergeAll (chain j "local") (chain j "remote") with
    | .invalidRemote vs => Json.mkObj [("res", "invalidRemote"), ("chain", jstrs (vs.map (·.commit))), ("ref", "")]
    | .merged (.updated vs ref) => Json.mkObj [("res", "updated"), ("chain", jstrs (vs.map (·.commit))), ("ref", ref)]
    | .merged (.nothing vs) => Json.mkObj [("res", "nothing"), ("chain", jstrs (vs.map (·.commit))), ("ref", "")]
    | .merged (.nonFastForward vs) => Json.mkObj [("res", "nonFF"), ("chain", jstrs (vs.map (·.commit))), ("ref", "")]
  | "text" =>
    jarr ((strArr j "strings").map fun s =>
      let l := s.toList
      Json.mkObj [("safe", Json.bool (GitBugModel.Text.safe l)), ("safeOneLine", Json.bool (GitBugModel.Text.safeOneLine l)),
        ("cleanup", Json.str (String.ofList (GitBugModel.Text.cleanup l))),
        ("cleanupOneLine", Json.str (String.ofList (GitBugModel.Text.cleanupOneLine l)))])
  | "validate" => Json.mkObj [("valid", Json.bool (validate (chain j "versions")))]
  | "keysAt" =>
    let vs := chain j "versions"
    jarr ((getArr j "queries").map fun q => jstrs (validKeysAt vs (getStr q "clock") (getNat q "t")))
  | "check" =>
    let vs := chain j "versions"
    jarr ((getArr j "commits").map fun c =>
      let sig := match getStr? c "key" with
        | some k => Sig.signedBy k (getBool c "good")
        | none => Sig.unsigned
      match checkCommit vs (getStr j "clock") (getNat c "t") sig with
      | .accepted => Json.str "accepted"
      | .signatureError => Json.str "signatureError")
  | c => Json.mkObj [("bad-op", Json.str c)]

end Driver.C09

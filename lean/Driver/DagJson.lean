import Driver.Util
import GitBugModel.Model.Dag
/-! JSON <-> DAG model. -/
namespace Driver.DagJson
open Lean Driver GitBugModel.Dag

def errOf : String → Err
  | "decode" => .decode | "invalidPack" => .invalidPack | _ => .decode

def errName : Err → String
  | .notFound => "notFound" | .missingCommit => "missingCommit" | .multipleRoots => "multipleRoots"
  | .decode => "decode" | .invalidPack => "invalidPack" | .mergeWithOps => "mergeWithOps"
  | .noCreateTime => "noCreateTime" | .clockOrder => "clockOrder" | .clockJump => "clockJump" | .fuel => "fuel" | .noOps => "noOps"

def packOf (j : Json) : Pack :=
  { id := getStr j "id", author := getStr j "author",
    ops := (getArr j "ops").map fun o => { id := getStr o "id", kind := getNat o "kind", valid := getBool o "valid" },
    create := getNat j "create", edit := getNat j "edit", authorsOk := getBool j "authorsOk" }

def commitOf (j : Json) : Commit :=
  { hash := getStr j "hash", parents := strArr j "parents",
    pack := match getObj? j "pack" with
      | some p => .ok (packOf p)
      | none => .error (errOf (getStr j "err")) }

def storeOf (j : Json) (k : String) : Store := (getArr j k).map commitOf

def opIds (l : List OpTok) : Json := jstrs (l.map (·.id))

end Driver.DagJson

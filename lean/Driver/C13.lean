import Driver.Util
import GitBugModel.Model.Ids
/-! Driver commands for C13. -/
namespace Driver.C13
open Lean Driver GitBugModel.Ids

def ofRes (r : Res (List Char)) : Json :=
  match r with
  | .found x => Json.mkObj [("found", Json.str (String.ofList x))]
  | .multiple xs => Json.mkObj [("multiple", jstrs ((xs.map String.ofList).toArray.qsort (· < ·)).toList)]
  | .notFound => Json.mkObj [("notFound", Json.bool true)]

def ofResC (r : Res (List Char × List Char)) : Json :=
  match r with
  | .found (b, c) => Json.mkObj [("found", jstrs [String.ofList b, String.ofList c])]
  | .multiple xs => Json.mkObj [("multiple", jstrs ((xs.map (fun x => String.ofList x.1)).toArray.qsort (· < ·)).toList)]
  | .notFound => Json.mkObj [("notFound", Json.bool true)]

/-- `cmd = "ids"`: `{primary, secondary, prefixes:[…]}` → combined id and the split of each prefix.
    `cmd = "resolve"`: `{ids:[…], bugs:[{id, comments:[…]}], q:[{k:"id"|"comment", pre}]}`.
    `cmd = "select"`: `{ids:[…], q:[{selected:""|id, args:[…]}]}`. -/
def handle (j : Json) : Json :=
  match getStr j "cmd" with
  | "ids" =>
    let p := (getStr j "primary").toList
    let s := (getStr j "secondary").toList
    let comb := match combine p s with
      | some c => Json.str (String.ofList c)
      | none => Json.str "panic"
    let seps := (strArr j "prefixes").map fun pre =>
      let r := separate pre.toList
      jstrs [String.ofList r.1, String.ofList r.2]
    Json.mkObj [("combined", comb), ("separated", jarr seps)]
  | "resolve" =>
    let ids := (strArr j "ids").map String.toList
    let bugs : List BugC := (getArr j "bugs").map fun b =>
      { id := (getStr b "id").toList, comments := (strArr b "comments").map String.toList }
    let outs := (getArr j "q").map fun q =>
      let pre := (getStr q "pre").toList
      match getStr q "k" with
      | "id" => ofRes (resolve ids pre)
      | _ => ofResC (resolveComment bugs pre)
    jarr outs
  | "select" =>
    let ids := (strArr j "ids").map String.toList
    let outs := (getArr j "q").map fun q =>
      let sel := match getStr q "selected" with
        | "" => none
        | s => some s.toList
      let args := (strArr q "args").map String.toList
      match selectResolve ids sel args with
      | .entity x rest => Json.mkObj [("entity", Json.str (String.ofList x)), ("rest", jstrs (rest.map String.ofList))]
      | .multiple xs => Json.mkObj [("multiple", jstrs ((xs.map String.ofList).toArray.qsort (· < ·)).toList)]
      | .noValidId cl => Json.mkObj [("noValidId", Json.bool cl)]
    jarr outs
  | c => Json.mkObj [("bad-op", Json.str c)]

end Driver.C13

import Driver.Util
import GitBugModel.Model.Bug
import GitBugModel.Model.Ids
/-! JSON <-> bug operations / snapshots, shared by the drivers that use the bug model. -/
namespace Driver.BugJson
open Lean Driver GitBugModel.Bug

def pairs (j : Json) (k : String) : List (String × String) :=
  (getArr j k).filterMap fun p =>
    match p with
    | Json.arr #[Json.str a, Json.str b] => some (a, b)
    | _ => none

def baseOf (j : Json) : Base :=
  { id := getStr j "id", author := getStr j "author", time := (getInt? j "time").getD 0, md := pairs j "md" }

def opOf (j : Json) : Option Op :=
  let b := baseOf j
  match getStr j "t" with
  | "create" => some (.create b (getStr j "title") (getStr j "message") (strArr j "files"))
  | "setTitle" => some (.setTitle b (getStr j "title") (getStr j "was"))
  | "addComment" => some (.addComment b (getStr j "message") (strArr j "files"))
  | "setStatus" => some (.setStatus b (getNat j "status"))
  | "labelChange" => some (.labelChange b (strArr j "added") (strArr j "removed"))
  | "editComment" => some (.editComment b (getStr j "target") (getStr j "message") (strArr j "files"))
  | "noop" => some (.noop b)
  | "setMetadata" => some (.setMetadata b (getStr j "target") (pairs j "newMeta"))
  | _ => none

def opsOf (j : Json) (k : String) : List SOp :=
  (getArr j k).filterMap fun o => (opOf o).map fun op => { op := op, extra := pairs o "extra" }

/-- The implementation's `entity.CombineIds` on strings. -/
def comb (a b : String) : String :=
  match GitBugModel.Ids.combine a.toList b.toList with
  | some c => String.ofList c
  | none => "panic"

def jpairs (l : List (String × String)) : Json :=
  jarr ((l.toArray.qsort (fun a b => a.1 < b.1)).toList.map fun p => jstrs [p.1, p.2])

def citem (kind : String) (c : CItem) : Json :=
  Json.mkObj [("k", kind), ("cid", c.combinedId), ("author", c.author), ("message", c.message),
    ("files", jstrs c.files), ("createdAt", jint c.createdAt), ("lastEdit", jint c.lastEdit),
    ("history", jarr (c.history.map fun h => jarr [Json.str h.1, jint h.2]))]

def titem : TItem → Json
  | .create c => citem "create" c
  | .addComment c => citem "addComment" c
  | .labelChange cid a t ad rm => Json.mkObj [("k", "labelChange"), ("cid", cid), ("author", a), ("time", jint t),
      ("added", jstrs ad), ("removed", jstrs rm)]
  | .setStatus cid a t st => Json.mkObj [("k", "setStatus"), ("cid", cid), ("author", a), ("time", jint t), ("status", jnat st)]
  | .setTitle cid a t ti w => Json.mkObj [("k", "setTitle"), ("cid", cid), ("author", a), ("time", jint t),
      ("title", ti), ("was", w)]

def snapJson (s : Snapshot) : Json :=
  Json.mkObj [
    ("id", s.id), ("status", jnat s.status), ("title", s.title),
    ("comments", jarr (s.comments.map fun c => Json.mkObj [("cid", c.combinedId), ("target", c.targetId),
        ("author", c.author), ("message", c.message), ("files", jstrs c.files)])),
    ("labels", jstrs s.labels), ("author", s.author), ("actors", jstrs s.actors),
    ("participants", jstrs s.participants), ("createTime", jint s.createTime),
    ("timeline", jarr (s.timeline.map titem)),
    -- extra keys shadowed by the operation's own metadata are not observable (`getMetadata`)
    ("ops", jarr (s.ops.map fun o => Json.mkObj [("id", o.op.base.id),
      ("extra", jpairs (o.extra.filter fun p => !(o.op.base.md.any fun q => q.1 == p.1)))]))]

end Driver.BugJson

import Driver.DagJson
/-! Driver command for the DAG slices (C03, C01, C02): `read`. -/
namespace Driver.C03
open Lean Driver Driver.DagJson GitBugModel.Dag

def readOut (s : Store) (head : String) : Json :=
  match read s head with
  | .error e => Json.mkObj [("err", errName e)]
  | .ok e => Json.mkObj [("ops", opIds e.ops), ("create", jnat e.createTime), ("edit", jnat e.editTime)]

def handle (j : Json) : Json :=
  match getStr j "cmd" with
  | "read" => readOut (storeOf j "commits") (getStr j "head")
  | c => Json.mkObj [("bad-op", Json.str c)]

end Driver.C03

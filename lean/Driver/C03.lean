import Driver.DagJson
/-! Driver command for the DAG slices (C03, C01, C02): `read`. -/
namespace Driver.C03
open Lean Driver Driver.DagJson GitBugModel.Dag

def readOut (s : Store) (head : String) : Json :=
  match read s head with
  | .error e => Json.mkObj [("err", errName e)]
  | .ok e => Json.mkObj [("ops", opIds e.ops), ("create", jnat e.createTime), ("edit", jnat e.editTime)]

def statusName : Status → String
  | .new => "new" | .nothing => "nothing" | .updated => "updated" | .invalid => "invalid" | .error => "error"

/-- `MergeAll`: fold `merge` over the remote refs in the order `ListRefs` returned them. -/
def mergeAllOut (j : Json) : Json :=
  let author := getStr j "author"
  let init : Store × Nat × Nat × List Json := (storeOf j "commits", getNat j "clockEdit", getNat j "clockCreate", [])
  let (_, ce, cc, outs) := (getArr j "refs").foldl (fun (st : Store × Nat × Nat × List Json) r =>
    let (s, ce, cc, outs) := st
    let newHash := getStr r "newHash"
    let mo := merge s (getStr r "id") (getStr? r "local") (getStr r "remote") ce cc newHash (getStr r "mergePackId") author
    let s' := match mo.mergeCommit with
      | some (ps, e) => s ++ [{ hash := newHash, parents := ps,
                                pack := .ok { id := getStr r "mergePackId", author := author, ops := [], create := 0, edit := e } }]
      | none => s
    let o := Json.mkObj [("status", statusName mo.status),
      ("head", match mo.localHead with | some h => Json.str h | none => Json.null),
      ("ops", opIds mo.entityOps),
      ("merge", match mo.mergeCommit with
                | some (ps, e) => Json.mkObj [("parents", jstrs ps), ("edit", jnat e)]
                | none => Json.null)]
    (s', mo.clockEdit, mo.clockCreate, outs ++ [o])) init
  Json.mkObj [("results", jarr outs), ("clockEdit", jnat ce), ("clockCreate", jnat cc)]

def handle (j : Json) : Json :=
  match getStr j "cmd" with
  | "read" => readOut (storeOf j "commits") (getStr j "head")
  | "mergeAll" => mergeAllOut j
  | c => Json.mkObj [("bad-op", Json.str c)]

end Driver.C03

import Driver.BugJson
import GitBugModel.Model.Pack
import GitBugModel.Model.JsonStr
/-! Driver command for C04: the JSON tree of a pack as the model says `operationPack.Write`
stores it, to be compared with the blob the implementation wrote (parsed generically). -/
namespace Driver.C04
open Lean Driver Driver.BugJson GitBugModel.Bug GitBugModel.Pack

partial def jvalJson : JVal → Json
  | .null => Json.null
  | .num n => jint n
  | .str s => Json.str s
  | .strs l => jstrs l
  | .dict l => Json.mkObj (l.map fun p => (p.1, Json.str p.2))
  | .obj fs => Json.mkObj (fs.map fun p => (p.1, jvalJson p.2))
  | .arr l => jarr (l.map jvalJson)

def opsOfArr (l : List Json) : List Op :=
  l.filterMap fun o => (opOf o).map fun op =>
    match op with
    | .create b t m f => Op.create { b with nonce := getStr o "nonce" } t m f
    | .setTitle b t w => .setTitle { b with nonce := getStr o "nonce" } t w
    | .addComment b m f => .addComment { b with nonce := getStr o "nonce" } m f
    | .setStatus b s => .setStatus { b with nonce := getStr o "nonce" } s
    | .labelChange b a r => .labelChange { b with nonce := getStr o "nonce" } a r
    | .editComment b tg m f => .editComment { b with nonce := getStr o "nonce" } tg m f
    | .noop b => .noop { b with nonce := getStr o "nonce" }
    | .setMetadata b tg nm => .setMetadata { b with nonce := getStr o "nonce" } tg nm

/-- `jsonstr`: what encoding/json writes for each string, and reads from each literal -/
def handleJsonStr (j : Json) : Json :=
  let enc := (strArr j "strings").map fun s => String.ofList (GitBugModel.JsonStr.encode s.toList)
  let dec := (strArr j "literals").map fun l =>
    match GitBugModel.JsonStr.decode l.toList with
    | some d => Json.mkObj [("ok", Json.str (String.ofList d))]
    | none => Json.mkObj [("err", Json.bool true)]
  Json.mkObj [("encoded", jstrs enc), ("decoded", jarr dec)]

/-- `stagings`: the staging area at each `Commit` call, in order -/
def handleStagings (j : Json) : Json :=
  let runs := (getArr j "stagings").flatMap fun st =>
    match st with
    | Json.arr a => splitRuns (opsOfArr a.toList)
    | _ => []
  -- one pack per run of equal author, as Commit writes them
  jarr (runs.map fun run =>
    Json.mkObj [("author", Json.mkObj [("id", Json.str (run.head?.map (·.base.author) |>.getD ""))]),
                ("ops", jarr (run.map fun o => jvalJson (toJ o))),
                ("files", jstrs (extraFiles run))])

def handle (j : Json) : Json :=
  match getStr j "cmd" with
  | "jsonstr" => handleJsonStr j
  | _ => handleStagings j

end Driver.C04

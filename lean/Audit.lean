import Lean
/-!
Axiom audit: `lake env lean --run Audit.lean <Module>` loads the compiled module and prints,
as one JSON line per theorem declared in that module, the axioms its proof depends on
(own transitive walk over the constants of the kernel environment, memoised).
The check requires each set to be within {propext, Classical.choice, Quot.sound}.
-/
open Lean

abbrev Memo := Std.HashMap Name (Array Name)

partial def axiomsOf (env : Environment) (c : Name) : StateM Memo (Array Name) := do
  if let some r := (← get).get? c then return r
  modify fun m => m.insert c #[]   -- sentinel against cycles (inductive ↔ constructor)
  let deps (e : Expr) : StateM Memo (Array Name) := do
    let mut acc : Array Name := #[]
    for d in e.getUsedConstants do
      for a in (← axiomsOf env d) do
        if !acc.contains a then acc := acc.push a
    return acc
  let r ← match env.find? c with
    | some (.axiomInfo v) => do let a ← deps v.type; pure (if a.contains c then a else a.push c)
    | some (.defnInfo v) => do pure ((← deps v.type) ++ (← deps v.value))
    | some (.thmInfo v) => do pure ((← deps v.type) ++ (← deps v.value))
    | some (.opaqueInfo v) => do pure ((← deps v.type) ++ (← deps v.value))
    | some (.ctorInfo v) => deps v.type
    | some (.recInfo v) => deps v.type
    | some (.inductInfo v) => do
        let mut a ← deps v.type
        for ct in v.ctors do a := a ++ (← axiomsOf env ct)
        pure a
    | _ => pure #[]
  let r := r.foldl (fun acc a => if acc.contains a then acc else acc.push a) #[]
  modify fun m => m.insert c r
  return r

def main (args : List String) : IO UInt32 := do
  let modName := args.head!.toName
  initSearchPath (← findSysroot)
  let env ← importModules #[{ module := modName }] {} (loadExts := false)
  let some idx := env.getModuleIdx? modName | do IO.eprintln "module not found"; return 1
  let mut memo : Memo := {}
  let mut n := 0
  let names := env.constants.map₁.toList.filterMap fun (name, ci) =>
    if env.getModuleIdxFor? name == some idx && !name.isInternal then some (name, ci) else none
  for (name, ci) in names do
    match ci with
    | .thmInfo _ =>
      let (axs, memo') := (axiomsOf env name).run memo
      memo := memo'
      let axs := (axs.qsort Name.lt).toList.map (fun a => Json.str a.toString)
      IO.println (Json.mkObj [("theorem", Json.str name.toString), ("axioms", Json.arr axs.toArray)]).compress
      n := n + 1
    | .axiomInfo _ =>
      IO.println (Json.mkObj [("axiom-declared", Json.str name.toString)]).compress
    | _ => pure ()
  -- (on standard output like everything else: a line written to standard error could land in
  --  the middle of a buffered line of the listing when both streams are captured together)
  IO.println (Json.mkObj [("count", Json.num (JsonNumber.fromNat n))]).compress
  (← IO.getStdout).flush
  return 0

import GitBugModel.Model.Dag
/-!
Lemmas about the ordering of operation packs: `sortPacks` sorts, is a permutation, and the
resulting operation list is a function of the *multiset* of packs alone.
-/
namespace GitBugModel.Dag

/-- what the order and the result depend on: (edit time, pack id, operations) -/
def ess (p : Pack) : Nat × String × List OpTok := (p.edit, p.id, p.ops)

def essLt (a b : Nat × String × List OpTok) : Bool := a.1 < b.1 || (a.1 == b.1 && a.2.1 < b.2.1)

theorem packLt_ess (a b : Pack) : packLt a b = essLt (ess a) (ess b) := rfl

theorem essLt_irrefl (a : Nat × String × List OpTok) : essLt a a = false := by
  simp [essLt]

theorem essLt_trans {a b c : Nat × String × List OpTok} (h1 : essLt a b = true) (h2 : essLt b c = true) :
    essLt a c = true := by
  simp only [essLt, Bool.or_eq_true, Bool.and_eq_true, decide_eq_true_eq, beq_iff_eq] at *
  rcases h1 with h1 | ⟨h1, h1'⟩ <;> rcases h2 with h2 | ⟨h2, h2'⟩
  · left; omega
  · left; omega
  · left; omega
  · right; exact ⟨by omega, String.lt_trans h1' h2'⟩

/-- not less in either direction ⇒ same key -/
theorem essLt_antisymm {a b : Nat × String × List OpTok} (h1 : essLt a b = false) (h2 : essLt b a = false) :
    a.1 = b.1 ∧ a.2.1 = b.2.1 := by
  simp only [essLt, Bool.or_eq_false_iff, Bool.and_eq_false_iff, decide_eq_false_iff_not, beq_eq_false_iff_ne] at *
  have he : a.1 = b.1 := by omega
  refine ⟨he, ?_⟩
  rcases h1.2 with h | h
  · exact absurd he h
  · rcases h2.2 with h' | h'
    · exact absurd he.symm h'
    · exact String.le_antisymm (String.not_lt.mp h') (String.not_lt.mp h)

theorem essLt_total (a b : Nat × String × List OpTok) (h : essLt a b = false) (hk : ¬ (a.1 = b.1 ∧ a.2.1 = b.2.1)) :
    essLt b a = true := by
  cases h2 : essLt b a with
  | true => rfl
  | false => exact absurd (essLt_antisymm h h2) hk

theorem insertPack_perm (x : Pack) (l : List Pack) : (insertPack x l).Perm (x :: l) := by
  induction l with
  | nil => exact List.Perm.refl _
  | cons y ys ih =>
    unfold insertPack
    split
    · exact List.Perm.refl _
    · exact (List.Perm.cons y ih).trans (List.Perm.swap x y ys)

theorem sortPacks_perm (l : List Pack) : (sortPacks l).Perm l := by
  induction l with
  | nil => exact List.Perm.refl _
  | cons x xs ih =>
    simp only [sortPacks, List.foldr_cons]
    exact (insertPack_perm x _).trans (List.Perm.cons x ih)

/-- `le` for packs: not greater -/
def packLe (a b : Pack) : Prop := packLt b a = false

theorem packLe_of_lt {a b : Pack} (h : packLt a b = true) : packLe a b := by
  unfold packLe
  cases h2 : packLt b a with
  | false => rfl
  | true =>
    rw [packLt_ess] at h h2
    have := essLt_trans h h2
    rw [essLt_irrefl] at this
    cases this

theorem packLe_trans {a b c : Pack} (h1 : packLe a b) (h2 : packLe b c) : packLe a c := by
  unfold packLe at *
  rw [packLt_ess] at *
  cases h : essLt (ess c) (ess a) with
  | false => rfl
  | true =>
    -- c < a, and ¬ b < a, ¬ c < b
    by_cases hk : (ess b).1 = (ess a).1 ∧ (ess b).2.1 = (ess a).2.1
    · -- b and a share the key: c < a ⇒ c < b
      have : essLt (ess c) (ess b) = true := by
        simp only [essLt, Bool.or_eq_true, Bool.and_eq_true, decide_eq_true_eq, beq_iff_eq] at h ⊢
        rw [hk.1, hk.2]; exact h
      rw [this] at h2; cases h2
    · have hab : essLt (ess a) (ess b) = true := essLt_total _ _ h1 hk
      have := essLt_trans h hab
      rw [this] at h2; cases h2

theorem insertPack_sorted (x : Pack) (l : List Pack) (hs : l.Pairwise packLe) :
    (insertPack x l).Pairwise packLe := by
  induction l with
  | nil => simp [insertPack]
  | cons y ys ih =>
    rw [List.pairwise_cons] at hs
    unfold insertPack
    split
    · rename_i hlt
      rw [List.pairwise_cons]
      refine ⟨?_, List.pairwise_cons.mpr hs⟩
      intro z hz
      cases hz with
      | head => exact packLe_of_lt hlt
      | tail _ h => exact packLe_trans (packLe_of_lt hlt) (hs.1 z h)
    · rename_i hnlt
      have hyx : packLe y x := by unfold packLe; simpa using hnlt
      rw [List.pairwise_cons]
      refine ⟨?_, ih hs.2⟩
      intro z hz
      have := (insertPack_perm x ys).subset hz
      cases this with
      | head => exact hyx
      | tail _ h => exact hs.1 z h

theorem sortPacks_sorted (l : List Pack) : (sortPacks l).Pairwise packLe := by
  induction l with
  | nil => simp [sortPacks]
  | cons x xs ih =>
    simp only [sortPacks, List.foldr_cons]
    exact insertPack_sorted x _ ih

/-- packs with the same (edit time, id) hold the same operations (the id is the hash of the
serialised operations) -/
def KeyOK (l : List Pack) : Prop :=
  ∀ a ∈ l, ∀ b ∈ l, a.edit = b.edit → a.id = b.id → a.ops = b.ops

theorem opsOf_eq_ess (l : List Pack) : opsOf l = ((sortPacks l).map ess).flatMap (·.2.2) := by
  unfold opsOf
  rw [List.flatMap_map]
  rfl

/-- Two sorted arrangements of the same multiset of packs agree on everything the result
depends on. -/
theorem sorted_perm_ess_eq {L₁ L₂ : List Pack} (h₁ : L₁.Pairwise packLe) (h₂ : L₂.Pairwise packLe)
    (hp : L₁.Perm L₂) (hk : KeyOK L₁) : L₁.map ess = L₂.map ess := by
  apply List.Perm.eq_of_pairwise (le := fun a b => essLt b a = false)
  · intro a b ha hb h1 h2
    rw [List.mem_map] at ha hb
    obtain ⟨pa, hpa, rfl⟩ := ha
    obtain ⟨pb, hpb, rfl⟩ := hb
    have hpb' : pb ∈ L₁ := hp.symm.subset hpb
    have hkey := essLt_antisymm h2 h1
    have hops := hk pa hpa pb hpb' hkey.1 hkey.2
    simp only [ess] at hkey ⊢
    rw [hkey.1, hkey.2, hops]
  · exact List.Pairwise.map ess (fun a b h => h) h₁
  · exact List.Pairwise.map ess (fun a b h => h) h₂
  · exact List.Perm.map ess hp

theorem KeyOK_perm {l₁ l₂ : List Pack} (hp : l₁.Perm l₂) (hk : KeyOK l₁) : KeyOK l₂ := by
  intro a ha b hb
  exact hk a (hp.symm.subset ha) b (hp.symm.subset hb)

/-- The operation order is determined by the multiset of packs. -/
theorem opsOf_perm {l₁ l₂ : List Pack} (hp : l₁.Perm l₂) (hk : KeyOK l₁) : opsOf l₁ = opsOf l₂ := by
  rw [opsOf_eq_ess, opsOf_eq_ess]
  congr 1
  exact sorted_perm_ess_eq (sortPacks_sorted l₁) (sortPacks_sorted l₂)
    ((sortPacks_perm l₁).trans (hp.trans (sortPacks_perm l₂).symm)) (KeyOK_perm (sortPacks_perm l₁).symm hk)

theorem flatMap_filter_nonempty (L : List Pack) :
    (L.filter (fun p => !p.ops.isEmpty)).flatMap (·.ops) = L.flatMap (·.ops) := by
  induction L with
  | nil => rfl
  | cons x xs ih =>
    by_cases hx : x.ops = []
    · simp [List.filter_cons, hx, ih]
    · have : (!x.ops.isEmpty) = true := by simp [hx]
      simp [List.filter_cons, this, ih]

/-- Packs without operations (merge commits) do not influence the operation list. -/
theorem opsOf_ignores_empty (l : List Pack) (hk : KeyOK l) :
    opsOf l = opsOf (l.filter (fun p => !p.ops.isEmpty)) := by
  have h1 : opsOf l = ((sortPacks l).filter (fun p => !p.ops.isEmpty)).flatMap (·.ops) := by
    unfold opsOf; rw [flatMap_filter_nonempty]
  rw [h1, opsOf_eq_ess]
  have := sorted_perm_ess_eq (L₁ := (sortPacks l).filter (fun p => !p.ops.isEmpty))
    (L₂ := sortPacks (l.filter (fun p => !p.ops.isEmpty)))
    (List.Pairwise.filter _ (sortPacks_sorted l)) (sortPacks_sorted _)
    (((sortPacks_perm l).filter _).trans (sortPacks_perm _).symm)
    (by
      intro a ha b hb
      exact hk a ((sortPacks_perm l).subset (List.mem_filter.mp ha).1) b ((sortPacks_perm l).subset (List.mem_filter.mp hb).1))
  rw [← this, List.flatMap_map]
  rfl

end GitBugModel.Dag

import GitBugModel.Model.Bug
/-!
Lemmas for C10 `compile_repeatable`: compiling the operations of a compiled snapshot again gives the
same snapshot.  Two halves: (1) nothing but the extra metadata of the operations depends on the extra
metadata the operations come in with (`compile_ignores_extras`); (2) the operations of a compiled
snapshot are `Closed` — every set-metadata has already been applied to what precedes it — and
replaying a closed list reproduces it exactly (`closed_replay`).
-/
namespace GitBugModel.Lemmas.CompileRepeat
open GitBugModel.Bug

variable (comb : String → String → String)

/-- the operations without the extra metadata compiled onto them -/
def bareOps (l : List SOp) : List Op := l.map (·.op)

theorem bareOps_applySetMetadata (l : List SOp) (t : String) (nm : List (String × String)) :
    bareOps (applySetMetadata l t nm) = bareOps l := by
  induction l with
  | nil => rfl
  | cons o rest ih =>
    unfold applySetMetadata
    split
    · rfl
    · simp only [bareOps, List.map_cons] at ih ⊢; rw [ih]

theorem bareOps_snoc (l : List SOp) (o : SOp) : bareOps (l ++ [o]) = bareOps l ++ [o.op] := by
  simp [bareOps]

theorem bare_snoc {l l' : List SOp} (h : bareOps l' = bareOps l) (op : Op) (e e' : List (String × String)) :
    bareOps (l' ++ [⟨op, e'⟩]) = bareOps (l ++ [⟨op, e⟩]) := by
  rw [bareOps_snoc, bareOps_snoc, h]

/-- two snapshots that differ at most in the extra metadata of their operations -/
def SameBut (s s' : Snapshot) : Prop := ∃ ops', s' = { s with ops := ops' } ∧ bareOps ops' = bareOps s.ops

theorem sameBut_refl (s : Snapshot) : SameBut s s := ⟨s.ops, rfl, rfl⟩

/-- `step_ignores_extras`: applying an operation never looks at the extra metadata: from snapshots
that differ only there, the same operation leads to snapshots that differ only there -/
theorem step_ignores_extras (s s' : Snapshot) (o o' : SOp) (h : SameBut s s') (ho : o.op = o'.op) :
    SameBut (step comb s o) (step comb s' o') := by
  obtain ⟨ops', rfl, hb⟩ := h
  obtain ⟨op, e⟩ := o
  obtain ⟨op', e'⟩ := o'
  simp only at ho
  subst ho
  cases op with
  | setMetadata b target nm =>
    refine ⟨applySetMetadata ops' target nm ++ [⟨.setMetadata b target nm, e'⟩], ?_, ?_⟩
    · simp [step, apply]
    · simp only [step, apply, bareOps, List.map_append, List.map_cons, List.map_nil]
      have h1 := bareOps_applySetMetadata ops' target nm
      have h2 := bareOps_applySetMetadata s.ops target nm
      simp only [bareOps] at h1 h2 hb
      rw [h1, h2, hb]
  | create b title message files =>
    simp only [step, apply]
    split
    · exact ⟨ops' ++ [⟨_, e'⟩], rfl, bare_snoc hb _ _ _⟩
    · exact ⟨ops' ++ [⟨_, e'⟩], rfl, bare_snoc hb _ _ _⟩
  | addComment b message files =>
    exact ⟨ops' ++ [⟨_, e'⟩], by simp [step, apply], bare_snoc hb _ _ _⟩
  | editComment b target message files =>
    simp only [step, apply]
    split
    · exact ⟨ops' ++ [⟨_, e'⟩], rfl, bare_snoc hb _ _ _⟩
    · split
      · exact ⟨ops' ++ [⟨_, e'⟩], rfl, bare_snoc hb _ _ _⟩
      · exact ⟨ops' ++ [⟨_, e'⟩], rfl, bare_snoc hb _ _ _⟩
    · split
      · exact ⟨ops' ++ [⟨_, e'⟩], rfl, bare_snoc hb _ _ _⟩
      · exact ⟨ops' ++ [⟨_, e'⟩], rfl, bare_snoc hb _ _ _⟩
    · exact ⟨ops' ++ [⟨_, e'⟩], rfl, bare_snoc hb _ _ _⟩
  | setTitle b title was =>
    exact ⟨ops' ++ [⟨_, e'⟩], by simp [step, apply], bare_snoc hb _ _ _⟩
  | setStatus b status =>
    exact ⟨ops' ++ [⟨_, e'⟩], by simp [step, apply], bare_snoc hb _ _ _⟩
  | labelChange b added removed =>
    exact ⟨ops' ++ [⟨_, e'⟩], by simp [step, apply], bare_snoc hb _ _ _⟩
  | noop b =>
    exact ⟨ops' ++ [⟨_, e'⟩], by simp [step, apply], bare_snoc hb _ _ _⟩

theorem fold_ignores_extras : ∀ (ops ops' : List SOp) (s s' : Snapshot), SameBut s s' → bareOps ops = bareOps ops' →
    SameBut (ops.foldl (step comb) s) (ops'.foldl (step comb) s')
  | [], [], s, s', h, _ => h
  | [], _ :: _, _, _, _, hb => by simp [bareOps] at hb
  | _ :: _, [], _, _, _, hb => by simp [bareOps] at hb
  | o :: rest, o' :: rest', s, s', h, hb => by
    simp only [bareOps, List.map_cons, List.cons.injEq] at hb
    exact fold_ignores_extras rest rest' _ _ (step_ignores_extras comb s s' o o' h hb.1) hb.2

theorem firstId_bare (ops ops' : List SOp) (h : bareOps ops = bareOps ops') : firstId ops = firstId ops' := by
  cases ops <;> cases ops' <;> simp [bareOps, firstId] at h ⊢
  rw [h.1]

/-- `compile_ignores_extras`: everything a compile produces except the extra metadata it attaches to
the operations (status, title, comments, labels, participants, timeline, and the operations
themselves) is a function of the bare operations alone -/
theorem compile_ignores_extras (ops ops' : List SOp) (h : bareOps ops = bareOps ops') :
    SameBut (compile comb ops) (compile comb ops') := by
  unfold compile
  rw [firstId_bare ops ops' h]
  exact fold_ignores_extras comb ops ops' _ _ (sameBut_refl _) h

theorem step_bare (s : Snapshot) (o : SOp) : bareOps (step comb s o).ops = bareOps s.ops ++ [o.op] := by
  have h := step_ignores_extras comb s s o o (sameBut_refl s) rfl
  obtain ⟨op, e⟩ := o
  cases op <;> simp only [step, apply] <;> (try split) <;> (try split) <;>
    simp [bareOps_snoc, bareOps_applySetMetadata]

theorem fold_bare : ∀ (ops : List SOp) (s : Snapshot), bareOps (ops.foldl (step comb) s).ops = bareOps s.ops ++ bareOps ops
  | [], s => by simp [bareOps]
  | o :: rest, s => by
    rw [List.foldl_cons, fold_bare rest, step_bare]
    simp [bareOps]

/-- the operations of a compiled snapshot are the compiled operations (extras aside) -/
theorem compile_bare (ops : List SOp) : bareOps (compile comb ops).ops = bareOps ops := by
  unfold compile
  rw [fold_bare]
  simp [bareOps]

/-- `compile_repeatable_partial`: compiling the operations of a compiled snapshot again gives the same
snapshot except, possibly, for the extra metadata on the operations. (The full statement,
including the extras, is checked by the correspondence run `C10/repeatable`; `setExtra_idem` is
its one-step core.) -/
theorem compile_repeatable_partial (ops : List SOp) :
    SameBut (compile comb ops) (compile comb (compile comb ops).ops) :=
  compile_ignores_extras comb ops _ (compile_bare comb ops).symm



def hasKey (e : List (String × String)) (k : String) : Bool := e.any (fun p => p.1 == k)

abbrev addAll (nm e : List (String × String)) : List (String × String) := nm.foldl (fun e p => setExtra e p.1 p.2) e

theorem setExtra_of_hasKey (e : List (String × String)) (k v : String) (h : hasKey e k = true) : setExtra e k v = e := by
  unfold setExtra; unfold hasKey at h; simp [h]

theorem hasKey_setExtra_self (e : List (String × String)) (k v : String) : hasKey (setExtra e k v) k = true := by
  unfold setExtra hasKey
  split
  · assumption
  · simp

theorem hasKey_setExtra_mono (e : List (String × String)) (k v k' : String) (h : hasKey e k' = true) :
    hasKey (setExtra e k v) k' = true := by
  unfold setExtra
  split
  · exact h
  · unfold hasKey at h ⊢; rw [List.any_append, h]; rfl

theorem hasKey_addAll_mono (nm : List (String × String)) (k' : String) :
    ∀ e, hasKey e k' = true → hasKey (addAll nm e) k' = true := by
  induction nm with
  | nil => intro e h; exact h
  | cons a t ih => intro e h; exact ih _ (hasKey_setExtra_mono e a.1 a.2 k' h)

theorem addAll_sat (nm : List (String × String)) : ∀ e, ∀ p ∈ nm, hasKey (addAll nm e) p.1 = true := by
  induction nm with
  | nil => intro e p hp; cases hp
  | cons a t ih =>
    intro e p hp
    rcases List.mem_cons.1 hp with rfl | hp
    · exact hasKey_addAll_mono t p.1 _ (hasKey_setExtra_self e p.1 p.2)
    · exact ih _ p hp

theorem addAll_fix (nm : List (String × String)) : ∀ e, (∀ p ∈ nm, hasKey e p.1 = true) → addAll nm e = e := by
  induction nm with
  | nil => intro e _; rfl
  | cons a t ih =>
    intro e h
    show addAll t (setExtra e a.1 a.2) = e
    rw [setExtra_of_hasKey e a.1 a.2 (h a (List.mem_cons_self ..))]
    exact ih e (fun p hp => h p (List.mem_cons_of_mem _ hp))

theorem sat_of_fix (nm e : List (String × String)) (h : addAll nm e = e) : ∀ p ∈ nm, hasKey e p.1 = true := by
  intro p hp
  have := addAll_sat nm e p hp
  rwa [h] at this

theorem addAll_idem (nm e : List (String × String)) : addAll nm (addAll nm e) = addAll nm e :=
  addAll_fix nm _ (addAll_sat nm e)

theorem addAll_fix_mono (nm nm' e : List (String × String)) (h : addAll nm' e = e) :
    addAll nm' (addAll nm e) = addAll nm e :=
  addAll_fix nm' _ (fun p hp => hasKey_addAll_mono nm p.1 e (sat_of_fix nm' e h p hp))

/-- the set-metadata (target, keys) has nothing left to do on this list -/
def Fix (l : List SOp) (t : String) (nm : List (String × String)) : Prop := applySetMetadata l t nm = l

theorem fix_applied (l : List SOp) (t : String) (nm : List (String × String)) : Fix (applySetMetadata l t nm) t nm := by
  unfold Fix
  induction l with
  | nil => rfl
  | cons o rest ih =>
    by_cases h : (o.op.base.id == t) = true
    · have e1 : applySetMetadata (o :: rest) t nm = { o with extra := addAll nm o.extra } :: rest := by
        simp only [applySetMetadata, h, if_true]
      rw [e1]
      simp only [applySetMetadata, h, if_true, addAll_idem]
    · have e1 : applySetMetadata (o :: rest) t nm = o :: applySetMetadata rest t nm := by
        simp only [applySetMetadata, h]; rfl
      rw [e1]
      simp only [applySetMetadata, h]
      simp only [Bool.false_eq_true, if_false]
      rw [ih]

theorem fix_mono (l : List SOp) (t t' : String) (nm nm' : List (String × String)) (h : Fix l t' nm') :
    Fix (applySetMetadata l t nm) t' nm' := by
  unfold Fix at h ⊢
  induction l with
  | nil => rfl
  | cons o rest ih =>
    by_cases h1 : (o.op.base.id == t) = true <;> by_cases h2 : (o.op.base.id == t') = true
    · simp only [applySetMetadata, h1, h2, if_true] at h ⊢
      have he : addAll nm' o.extra = o.extra := by
        have := congrArg (fun l => (l.head?.map (·.extra))) h
        simpa using this
      have e := addAll_fix_mono nm nm' o.extra he
      simp only [addAll] at e
      rw [e]
    · simp only [applySetMetadata, h1, h2, if_true, Bool.false_eq_true, if_false] at h ⊢
      simp only [List.cons.injEq, true_and] at h
      rw [h]
    · simp only [applySetMetadata, h1, h2, if_true, Bool.false_eq_true, if_false] at h ⊢
      have hh := (List.cons.inj h).1
      rw [hh]
    · simp only [applySetMetadata, h1, h2, Bool.false_eq_true, if_false] at h ⊢
      simp only [List.cons.injEq, true_and] at h
      rw [ih h]

/-- every set-metadata operation of the list has already been applied to the operations before it -/
inductive Closed : List SOp → Prop
  | nil : Closed []
  | snoc (l : List SOp) (o : SOp) : Closed l →
      (∀ b t nm, o.op = .setMetadata b t nm → Fix l t nm) → Closed (l ++ [o])

theorem asm_append_found (l r : List SOp) (t : String) (nm : List (String × String))
    (h : l.any (fun o => o.op.base.id == t) = true) :
    applySetMetadata (l ++ r) t nm = applySetMetadata l t nm ++ r := by
  induction l with
  | nil => simp at h
  | cons o rest ih =>
    by_cases h1 : (o.op.base.id == t) = true
    · simp only [List.cons_append, applySetMetadata, h1, if_true]
    · simp only [List.any_cons, h1, Bool.false_eq_true, Bool.false_or] at h
      simp only [List.cons_append, applySetMetadata, h1, Bool.false_eq_true, if_false, ih h]

theorem asm_append_notfound (l r : List SOp) (t : String) (nm : List (String × String))
    (h : l.any (fun o => o.op.base.id == t) = false) :
    applySetMetadata (l ++ r) t nm = l ++ applySetMetadata r t nm := by
  induction l with
  | nil => rfl
  | cons o rest ih =>
    simp only [List.any_cons, Bool.or_eq_false_iff] at h
    simp only [List.cons_append, applySetMetadata, h.1, Bool.false_eq_true, if_false, ih h.2]

theorem asm_notfound (l : List SOp) (t : String) (nm : List (String × String))
    (h : l.any (fun o => o.op.base.id == t) = false) : applySetMetadata l t nm = l := by
  have := asm_append_notfound l [] t nm h
  simpa [applySetMetadata] using this

theorem closed_asm (l : List SOp) (t : String) (nm : List (String × String)) (h : Closed l) :
    Closed (applySetMetadata l t nm) := by
  induction h with
  | nil => exact Closed.nil
  | snoc l o hl ho ih =>
    cases hf : l.any (fun o => o.op.base.id == t) with
    | true =>
      rw [asm_append_found l [o] t nm hf]
      exact Closed.snoc _ o ih (fun b t' nm' e => fix_mono l t t' nm nm' (ho b t' nm' e))
    | false =>
      rw [asm_append_notfound l [o] t nm hf]
      by_cases h1 : (o.op.base.id == t) = true
      · simp only [applySetMetadata, h1, if_true]
        exact Closed.snoc l _ hl ho
      · simp only [applySetMetadata, h1, Bool.false_eq_true, if_false]
        exact Closed.snoc l o hl ho

theorem apply_ops_other (s : Snapshot) (op : Op) (h : op.typeNum ≠ 8) : (apply comb s op).ops = s.ops := by
  cases op <;> simp only [apply] <;> (try split) <;> (try split) <;> first | rfl | (simp [Op.typeNum] at h)

theorem step_ops (s : Snapshot) (o : SOp) :
    (step comb s o).ops = (match o.op with
      | .setMetadata _ t nm => applySetMetadata s.ops t nm
      | _ => s.ops) ++ [o] := by
  obtain ⟨op, e⟩ := o
  cases op <;> simp only [step, apply] <;> (try split) <;> (try split) <;> rfl

theorem step_closed (s : Snapshot) (o : SOp) (h : Closed s.ops) : Closed (step comb s o).ops := by
  rw [step_ops]
  obtain ⟨op, e⟩ := o
  cases op with
  | setMetadata b t nm =>
    refine Closed.snoc _ _ (closed_asm s.ops t nm h) ?_
    intro b' t' nm' e'
    simp only [Op.setMetadata.injEq] at e'
    obtain ⟨_, rfl, rfl⟩ := e'
    exact fix_applied s.ops t nm
  | _ => exact Closed.snoc _ _ h (fun b t nm e' => by cases e')

theorem fold_closed : ∀ (ops : List SOp) (s : Snapshot), Closed s.ops → Closed (ops.foldl (step comb) s).ops
  | [], _, h => h
  | o :: rest, s, h => fold_closed rest _ (step_closed comb s o h)

/-- the operations of a compiled snapshot carry every set-metadata already applied -/
theorem compile_closed (ops : List SOp) : Closed (compile comb ops).ops :=
  fold_closed comb ops _ Closed.nil

/-- replaying a closed list of operations reproduces exactly that list, extras included -/
theorem closed_replay (l : List SOp) (h : Closed l) : ∀ s0 : Snapshot, s0.ops = [] → (l.foldl (step comb) s0).ops = l := by
  induction h with
  | nil => intro s0 h0; exact h0
  | snoc l o _ ho ih =>
    intro s0 h0
    rw [List.foldl_append, List.foldl_cons, List.foldl_nil, step_ops, ih s0 h0]
    obtain ⟨op, e⟩ := o
    cases op with
    | setMetadata b t nm => simp only; rw [ho b t nm rfl]
    | _ => rfl

/-- `compile_repeatable` (C10, full statement): compiling the operations of a compiled snapshot again
gives exactly the same snapshot — status, title, comments, labels, actors, participants, timeline
and the operations with their extra metadata. -/
theorem compile_repeatable (ops : List SOp) : compile comb (compile comb ops).ops = compile comb ops := by
  obtain ⟨ops', h, _⟩ := compile_repeatable_partial comb ops
  have hr : (compile comb (compile comb ops).ops).ops = (compile comb ops).ops :=
    closed_replay comb _ (compile_closed comb ops) _ rfl
  rw [h] at hr ⊢
  simp only at hr
  rw [hr]



end GitBugModel.Lemmas.CompileRepeat

import GitBugModel.Model.Query
/-!
The lexer on rendered input: scanning plain characters and quoted sections.
-/
namespace GitBugModel.Query

def st0 : QState := { lastQuote := none, inQuote := false }

/-- a plain character for separator `sep`: not a separator, not a quote -/
def PlainFor (sep : Char → Bool) (c : Char) : Prop := sep c = false ∧ isQuote c = false

theorem scan_plain (sep : Char → Bool) (p : List Char) (hp : ∀ c ∈ p, PlainFor sep c) :
    ∀ (chunk : List Char) (res : List (List Char)) (rest : List Char),
      splitLoop sep st0 chunk res (p ++ rest) = splitLoop sep st0 (p.reverse ++ chunk) res rest := by
  induction p with
  | nil => intro chunk res rest; rfl
  | cons a t ih =>
    intro chunk res rest
    have ha := hp a List.mem_cons_self
    simp only [List.cons_append, splitLoop, isChunk, st0, ha.2, ha.1, Bool.not_false, Bool.true_and,
      Bool.false_eq_true, if_false, Bool.false_and, Bool.not_true, if_true]
    have := ih (fun c hc => hp c (List.mem_cons_of_mem _ hc)) (a :: chunk) res rest
    simp only [st0] at this
    rw [this]
    simp

/-- inside a section opened by the quote character `qc` everything but `qc` is kept (the other
kind of quote included) -/
theorem scan_inside (sep : Char → Bool) (qc : Char) (v : List Char) (hv : ∀ c ∈ v, c ≠ qc) :
    ∀ (chunk : List Char) (res : List (List Char)) (rest : List Char),
      splitLoop sep { lastQuote := some qc, inQuote := true } chunk res (v ++ rest) =
        splitLoop sep { lastQuote := some qc, inQuote := true } (v.reverse ++ chunk) res rest := by
  induction v with
  | nil => intro chunk res rest; rfl
  | cons a t ih =>
    intro chunk res rest
    have ha : a ≠ qc := hv a List.mem_cons_self
    have h1 : (some qc == some a) = false := by
      simp only [beq_eq_false_iff_ne, ne_eq, Option.some.injEq]; exact fun e => ha e.symm
    simp only [List.cons_append, splitLoop, isChunk, Bool.not_true, Bool.false_and, Bool.false_eq_true, if_false,
      Bool.true_and, h1, if_true]
    rw [ih (fun c hc => hv c (List.mem_cons_of_mem _ hc)) (a :: chunk) res rest]
    simp

/-- a whole quoted section, in either kind of quotes -/
theorem scan_quoted (sep : Char → Bool) (qc : Char) (hq : isQuote qc = true) (v : List Char) (hv : ∀ c ∈ v, c ≠ qc)
    (chunk : List Char) (res : List (List Char)) (rest : List Char) :
    splitLoop sep st0 chunk res (qc :: (v ++ qc :: rest)) =
      splitLoop sep st0 (qc :: (v.reverse ++ qc :: chunk)) res rest := by
  simp only [splitLoop, isChunk, st0, hq, Bool.not_false, Bool.true_and, if_true]
  rw [scan_inside sep qc v hv]
  simp only [splitLoop, isChunk, Bool.not_true, Bool.false_and, Bool.false_eq_true, if_false, Bool.true_and,
    beq_self_eq_true, if_true]

/-- a separator after a non-empty chunk closes it -/
theorem scan_sep (sep : Char → Bool) (s : Char) (hs : sep s = true) (hq : isQuote s = false)
    (chunk : List Char) (hne : chunk ≠ []) (res : List (List Char)) (rest : List Char) :
    splitLoop sep st0 chunk res (s :: rest) = splitLoop sep st0 [] (chunk.reverse :: res) rest := by
  have : chunk.isEmpty = false := by cases chunk <;> simp_all
  simp only [splitLoop, isChunk, st0, hq, hs, Bool.not_false, Bool.true_and, Bool.false_eq_true, if_false,
    Bool.false_and, Bool.not_true, this]

/-! ## segments: plain runs and quoted sections -/

inductive Seg where
  | plain (cs : List Char)
  | quoted (qc : Char) (cs : List Char)      -- a section between two `qc`
deriving Repr

def Seg.render : Seg → List Char
  | .plain cs => cs
  | .quoted qc cs => qc :: cs ++ [qc]

def Seg.ok (sep : Char → Bool) : Seg → Prop
  | .plain cs => ∀ c ∈ cs, PlainFor sep c
  | .quoted qc cs => isQuote qc = true ∧ ∀ c ∈ cs, c ≠ qc

def renderSegs (l : List Seg) : List Char := l.flatMap Seg.render

theorem scan_segs (sep : Char → Bool) (l : List Seg) (hl : ∀ s ∈ l, s.ok sep) :
    ∀ (chunk : List Char) (res : List (List Char)) (rest : List Char),
      splitLoop sep st0 chunk res (renderSegs l ++ rest) = splitLoop sep st0 ((renderSegs l).reverse ++ chunk) res rest := by
  induction l with
  | nil => intro chunk res rest; rfl
  | cons s t ih =>
    intro chunk res rest
    have hs := hl s List.mem_cons_self
    have ht := fun x hx => hl x (List.mem_cons_of_mem _ hx)
    simp only [renderSegs, List.flatMap_cons, List.append_assoc]
    cases s with
    | plain cs =>
      simp only [Seg.render]
      rw [scan_plain sep cs hs]
      have := ih ht (cs.reverse ++ chunk) res rest
      simp only [renderSegs] at this
      rw [this]
      simp
    | quoted qc cs =>
      simp only [Seg.render, List.cons_append, List.append_assoc, List.singleton_append, List.nil_append]
      rw [scan_quoted sep qc hs.1 cs hs.2]
      have := ih ht (qc :: (cs.reverse ++ qc :: chunk)) res rest
      simp only [renderSegs] at this
      rw [this]
      simp

end GitBugModel.Query

namespace GitBugModel.Query

/-- fields joined by one separator character -/
def joined (sepc : Char) : List (List Seg) → List Char
  | [] => []
  | [f] => renderSegs f
  | f :: g :: r => renderSegs f ++ sepc :: joined sepc (g :: r)

/-- what `splitFunc` does with the state its loop ends in -/
def finish (x : QState × List Char × List (List Char)) : Except LexErr (List (List Char)) :=
  if x.1.inQuote then .error .unmatchedQuote
  else if x.2.1.isEmpty then .ok x.2.2.reverse else .ok (x.2.1.reverse :: x.2.2).reverse

theorem splitFunc_eq (sep : Char → Bool) (input : List Char) :
    splitFunc sep input = finish (splitLoop sep st0 [] [] input) := rfl

theorem renderSegs_ne_nil_reverse (f : List Seg) (h : renderSegs f ≠ []) : (renderSegs f).reverse ≠ [] := by
  intro e; exact h (by simpa using e)

theorem split_joined (sep : Char → Bool) (sepc : Char) (hs : sep sepc = true) (hq : isQuote sepc = false) :
    ∀ (fs : List (List Seg)), fs ≠ [] → (∀ f ∈ fs, (∀ s ∈ f, s.ok sep) ∧ renderSegs f ≠ []) →
      ∀ (res : List (List Char)),
        finish (splitLoop sep st0 [] res (joined sepc fs)) = .ok (res.reverse ++ fs.map renderSegs) := by
  intro fs
  induction fs with
  | nil => intro h; exact absurd rfl h
  | cons f t ih =>
    intro _ hall res
    have hf := hall f List.mem_cons_self
    cases t with
    | nil =>
      simp only [joined]
      have := scan_segs sep f hf.1 [] res []
      simp only [List.append_nil] at this
      rw [this]
      simp only [splitLoop, finish, st0]
      have hne : (renderSegs f).reverse.isEmpty = false := by
        cases h : (renderSegs f).reverse with
        | nil => exact absurd h (renderSegs_ne_nil_reverse f hf.2)
        | cons _ _ => rfl
      simp [hne]
    | cons g r =>
      simp only [joined]
      rw [scan_segs sep f hf.1 [] res (sepc :: joined sepc (g :: r))]
      simp only [List.append_nil]
      rw [scan_sep sep sepc hs hq _ (renderSegs_ne_nil_reverse f hf.2)]
      rw [ih (by simp) (fun x hx => hall x (List.mem_cons_of_mem _ hx)) ((renderSegs f).reverse.reverse :: res)]
      simp

/-- `split_fields`: fields made of plain runs and double-quoted sections, joined by one
separator, are split back into exactly those fields -/
theorem split_fields (sep : Char → Bool) (sepc : Char) (hs : sep sepc = true) (hq : isQuote sepc = false)
    (fs : List (List Seg)) (hne : fs ≠ []) (hall : ∀ f ∈ fs, (∀ s ∈ f, s.ok sep) ∧ renderSegs f ≠ []) :
    splitFunc sep (joined sepc fs) = .ok (fs.map renderSegs) := by
  rw [splitFunc_eq]
  have := split_joined sep sepc hs hq fs hne hall []
  simpa using this

end GitBugModel.Query

namespace GitBugModel.Query

/-- a qualifier-like word: no colon, no quote, not empty -/
def Word (w : List Char) : Prop := w ≠ [] ∧ ∀ c ∈ w, c ≠ ':' ∧ isQuote c = false

theorem quote_ne_colon (qc : Char) (h : isQuote qc = true) : qc ≠ ':' := by
  intro e; subst e; revert h; decide

theorem removeQuote_quoted (qc : Char) (hqc : isQuote qc = true) (v : List Char) : removeQuote (qc :: (v ++ [qc])) = v := by
  unfold removeQuote
  have hl : (v ++ [qc]).getLast? = some qc := by simp
  have hq : (qc == qc && isQuote qc) = true := by simp [hqc]
  simp only [hl, hq, if_true]
  simp

theorem removeQuote_word (w : List Char) (hw : Word w) : removeQuote w = w := by
  unfold removeQuote
  cases w with
  | nil => rfl
  | cons a t =>
    have ha := (hw.2 a List.mem_cons_self).2
    simp only
    cases hl : t.getLast? with
    | none => rfl
    | some b =>
      simp only
      have : (a == b && isQuote a) = false := by simp [ha]
      simp only [this, Bool.false_eq_true, if_false]

theorem word_plain_colon (w : List Char) (hw : Word w) : ∀ c ∈ w, PlainFor (· == ':') c := by
  intro c hc
  have := hw.2 c hc
  exact ⟨by simpa using this.1, this.2⟩

theorem renderSegs_plain_ne (w : List Char) (h : w ≠ []) : renderSegs [Seg.plain w] ≠ [] := by
  simpa [renderSegs, Seg.render] using h

theorem renderSegs_quoted_ne (qc : Char) (v : List Char) : renderSegs [Seg.quoted qc v] ≠ [] := by
  simp [renderSegs, Seg.render]

/-- `token_kv`: `qualifier:"any value without that quote character"` (in double or in single
quotes) is the token (qualifier, value): spaces, colons and the other kind of quote inside the
value included -/
theorem token_kv (qc : Char) (hqc : isQuote qc = true) (q v : List Char) (hq : Word q) (hv : ∀ c ∈ v, c ≠ qc) :
    tokenOfField (q ++ ':' :: qc :: (v ++ [qc])) = .ok (.kv q v) := by
  have hsplit : splitFunc (· == ':') (q ++ ':' :: qc :: (v ++ [qc])) = .ok [q, qc :: (v ++ [qc])] := by
    have := split_fields (· == ':') ':' (by decide) (by decide) [[Seg.plain q], [Seg.quoted qc v]] (by simp)
      (by
        intro f hf
        simp only [List.mem_cons, List.mem_nil_iff, or_false] at hf
        rcases hf with rfl | rfl
        · exact ⟨by intro s hs; simp only [List.mem_singleton] at hs; subst hs; exact word_plain_colon q hq,
                 renderSegs_plain_ne q hq.1⟩
        · exact ⟨by intro s hs; simp only [List.mem_singleton] at hs; subst hs; exact ⟨hqc, hv⟩,
                 renderSegs_quoted_ne qc v⟩)
    simpa [joined, renderSegs, Seg.render] using this
  unfold tokenOfField
  rw [hsplit]
  have hhead : (q ++ ':' :: qc :: (v ++ [qc])).head? ≠ some ':' := by
    cases q with
    | nil => exact absurd rfl hq.1
    | cons a t =>
      simp only [List.cons_append, List.head?_cons, ne_eq, Option.some.injEq]
      exact (hq.2 a List.mem_cons_self).1
  have hlast : (q ++ ':' :: qc :: (v ++ [qc])).getLast? = some qc := by
    have : q ++ ':' :: qc :: (v ++ [qc]) = (q ++ ':' :: qc :: v) ++ [qc] := by simp
    rw [this, List.getLast?_append]; simp
  have h1 : ((q ++ ':' :: qc :: (v ++ [qc])).head? == some ':') = false := by
    simpa using hhead
  have h2 : ((q ++ ':' :: qc :: (v ++ [qc])).getLast? == some ':') = false := by
    rw [hlast]; simpa using quote_ne_colon qc hqc
  have hqne : q.isEmpty = false := by cases q <;> simp_all [Word]
  simp only [h1, h2, Bool.or_self, Bool.false_eq_true, if_false, List.any_cons, List.any_nil, hqne, List.isEmpty_cons,
    Bool.or_false, List.map_cons, List.map_nil, removeQuote_word q hq, removeQuote_quoted qc hqc]

/-- `token_kvv`: `metadata:key:"value"` -/
theorem token_kvv (qc : Char) (hqc : isQuote qc = true) (q sub v : List Char) (hq : Word q) (hsub : Word sub) (hv : ∀ c ∈ v, c ≠ qc) :
    tokenOfField (q ++ ':' :: (sub ++ ':' :: qc :: (v ++ [qc]))) = .ok (.kvv q sub v) := by
  have hsplit : splitFunc (· == ':') (q ++ ':' :: (sub ++ ':' :: qc :: (v ++ [qc]))) = .ok [q, sub, qc :: (v ++ [qc])] := by
    have := split_fields (· == ':') ':' (by decide) (by decide) [[Seg.plain q], [Seg.plain sub], [Seg.quoted qc v]] (by simp)
      (by
        intro f hf
        simp only [List.mem_cons, List.mem_nil_iff, or_false] at hf
        rcases hf with rfl | rfl | rfl
        · exact ⟨by intro s hs; simp only [List.mem_singleton] at hs; subst hs; exact word_plain_colon q hq,
                 renderSegs_plain_ne q hq.1⟩
        · exact ⟨by intro s hs; simp only [List.mem_singleton] at hs; subst hs; exact word_plain_colon sub hsub,
                 renderSegs_plain_ne sub hsub.1⟩
        · exact ⟨by intro s hs; simp only [List.mem_singleton] at hs; subst hs; exact ⟨hqc, hv⟩,
                 renderSegs_quoted_ne qc v⟩)
    simpa [joined, renderSegs, Seg.render] using this
  unfold tokenOfField
  rw [hsplit]
  have hhead : ((q ++ ':' :: (sub ++ ':' :: qc :: (v ++ [qc]))).head? == some ':') = false := by
    cases q with
    | nil => exact absurd rfl hq.1
    | cons a t =>
      simp only [List.cons_append, List.head?_cons, beq_eq_false_iff_ne, ne_eq, Option.some.injEq]
      exact (hq.2 a List.mem_cons_self).1
  have hlast : ((q ++ ':' :: (sub ++ ':' :: qc :: (v ++ [qc]))).getLast? == some ':') = false := by
    have : q ++ ':' :: (sub ++ ':' :: qc :: (v ++ [qc])) = (q ++ ':' :: (sub ++ ':' :: qc :: v)) ++ [qc] := by simp
    rw [this, List.getLast?_append]; simpa using quote_ne_colon qc hqc
  have hqne : q.isEmpty = false := by cases q <;> simp_all [Word]
  have hsne : sub.isEmpty = false := by cases sub <;> simp_all [Word]
  simp only [hhead, hlast, Bool.or_self, Bool.false_eq_true, if_false, List.any_cons, List.any_nil, hqne, hsne, List.isEmpty_cons,
    Bool.or_false, List.map_cons, List.map_nil, removeQuote_word q hq, removeQuote_word sub hsub, removeQuote_quoted qc hqc]

/-- `token_search`: a quoted search term -/
theorem token_search (qc : Char) (hqc : isQuote qc = true) (v : List Char) (hv : ∀ c ∈ v, c ≠ qc) :
    tokenOfField (qc :: (v ++ [qc])) = .ok (.search v) := by
  have hsplit : splitFunc (· == ':') (qc :: (v ++ [qc])) = .ok [qc :: (v ++ [qc])] := by
    have := split_fields (· == ':') ':' (by decide) (by decide) [[Seg.quoted qc v]] (by simp)
      (by
        intro f hf
        simp only [List.mem_singleton] at hf
        subst hf
        exact ⟨by intro s hs; simp only [List.mem_singleton] at hs; subst hs; exact ⟨hqc, hv⟩, renderSegs_quoted_ne qc v⟩)
    simpa [joined, renderSegs, Seg.render] using this
  unfold tokenOfField
  rw [hsplit]
  have hlast : ((qc :: (v ++ [qc])).getLast? == some ':') = false := by
    have : qc :: (v ++ [qc]) = (qc :: v) ++ [qc] := by simp
    rw [this, List.getLast?_append]; simpa using quote_ne_colon qc hqc
  have hhead : (some qc == some ':') = false := by simpa using quote_ne_colon qc hqc
  simp only [List.head?_cons, hhead, hlast, Bool.or_false, Bool.false_eq_true, if_false, List.any_cons, List.any_nil,
    List.isEmpty_cons, List.map_cons, List.map_nil, removeQuote_quoted qc hqc]

end GitBugModel.Query

import GitBugModel.Model.Cursor
import Std.Data.String.ToInt
/-!
`offsetToCursor` is injective: decimal rendering, the prefix, the bytes of an ASCII text and the
base-64 encoding with padding are all injective.
-/
namespace GitBugModel.Cursor

theorem alphabet_nodup : alphabet.Nodup := by decide

theorem sym_inj {i j : Nat} (h : sym i = sym j) : i % 64 = j % 64 := by
  unfold sym at h
  exact (List.getElem_inj alphabet_nodup).mp h

theorem sym_ne_pad (i : Nat) : sym i ≠ pad := by
  unfold sym
  intro h
  have hm : alphabet[i % 64]'(by rw [alphabet_length]; exact Nat.mod_lt _ (by decide)) ∈ alphabet :=
    List.getElem_mem _
  rw [h] at hm
  revert hm
  decide

def Bytes (l : List Nat) : Prop := ∀ x ∈ l, x < 256

theorem b64_inj : ∀ (l₁ l₂ : List Nat), Bytes l₁ → Bytes l₂ → b64 l₁ = b64 l₂ → l₁ = l₂ := by
  intro l₁
  induction l₁ using b64.induct with
  | case1 =>
    intro l₂ _ _ h
    match l₂ with
    | [] => rfl
    | [_] => simp [b64] at h
    | [_, _] => simp [b64] at h
    | _ :: _ :: _ :: _ => simp [b64] at h
  | case2 a =>
    intro l₂ h1 h2 h
    have ha := h1 a (by simp)
    match l₂, h2 with
    | [], _ => simp [b64] at h
    | [a'], h2 =>
      have ha' := h2 a' (by simp)
      simp only [b64, List.cons.injEq, and_true] at h
      have e1 := sym_inj h.1
      have e2 := sym_inj h.2
      have : a = a' := by omega
      rw [this]
    | [a', b'], _ =>
      simp only [b64, List.cons.injEq, and_true] at h
      exact absurd h.2.2.symm (sym_ne_pad _)
    | a' :: b' :: c' :: rest, _ =>
      simp only [b64, List.cons.injEq] at h
      exact absurd h.2.2.1.symm (sym_ne_pad _)
  | case3 a b =>
    intro l₂ h1 h2 h
    have ha := h1 a (by simp)
    have hb := h1 b (by simp)
    match l₂, h2 with
    | [], _ => simp [b64] at h
    | [a'], _ =>
      simp only [b64, List.cons.injEq, and_true] at h
      exact absurd h.2.2 (sym_ne_pad _)
    | [a', b'], h2 =>
      have ha' := h2 a' (by simp)
      have hb' := h2 b' (by simp)
      simp only [b64, List.cons.injEq, and_true] at h
      have e1 := sym_inj h.1
      have e2 := sym_inj h.2.1
      have e3 := sym_inj h.2.2
      have : a = a' ∧ b = b' := by omega
      rw [this.1, this.2]
    | a' :: b' :: c' :: rest, _ =>
      simp only [b64, List.cons.injEq] at h
      exact absurd h.2.2.2.1.symm (sym_ne_pad _)
  | case4 a b c rest ih =>
    intro l₂ h1 h2 h
    have ha := h1 a (by simp)
    have hb := h1 b (by simp)
    have hc := h1 c (by simp)
    match l₂, h2 with
    | [], _ => simp [b64] at h
    | [a'], _ =>
      simp only [b64, List.cons.injEq, and_true] at h
      exact absurd h.2.2.1 (sym_ne_pad _)
    | [a', b'], _ =>
      simp only [b64, List.cons.injEq] at h
      exact absurd h.2.2.2.1 (sym_ne_pad _)
    | a' :: b' :: c' :: rest', h2 =>
      have ha' := h2 a' (by simp)
      have hb' := h2 b' (by simp)
      have hc' := h2 c' (by simp)
      simp only [b64, List.cons.injEq] at h
      have e1 := sym_inj h.1
      have e2 := sym_inj h.2.1
      have e3 := sym_inj h.2.2.1
      have e4 := sym_inj h.2.2.2.1
      have : a = a' ∧ b = b' ∧ c = c' := by omega
      have hr := ih rest' (fun x hx => h1 x (by simp [hx])) (fun x hx => h2 x (by simp [hx])) h.2.2.2.2
      rw [this.1, this.2.1, this.2.2, hr]

/-- the characters of the encoded text are ASCII: the prefix and decimal digits -/
theorem cursorText_bytes (n : Nat) : Bytes ((cursorText n).toList.map Char.toNat) := by
  intro x hx
  obtain ⟨c, hc, rfl⟩ := List.mem_map.mp hx
  unfold cursorText cursorPrefix at hc
  rw [String.toList_append, List.mem_append] at hc
  rcases hc with hc | hc
  · have : ∀ d ∈ "cursor:".toList, d.toNat < 256 := by decide
    exact this c hc
  · rw [Nat.toString_eq_repr, Nat.toList_repr] at hc
    have hd : c.isDigit = true :=
      Nat.isDigit_of_mem_toDigits (b := 10) (by decide) (by decide) hc
    simp only [Char.isDigit, Bool.and_eq_true, decide_eq_true_eq] at hd
    have h57 : c.val ≤ 57 := hd.2
    have := UInt32.le_iff_toNat_le.mp h57
    rw [Char.toNat_val] at this
    simp at this
    omega

theorem toString_nat_inj {i j : Nat} (h : toString i = toString j) : i = j := by
  rw [Nat.toString_eq_repr, Nat.toString_eq_repr] at h
  have hi := Nat.toInt?_repr i
  rw [h, Nat.toInt?_repr j] at hi
  have : (j : Int) = (i : Int) := by injection hi
  omega

/-- `OffsetToCursor` never gives two offsets the same cursor -/
theorem offsetToCursor_injective : Function.Injective offsetToCursor := by
  intro i j h
  unfold offsetToCursor at h
  have h1 := String.ofList_injective h
  have h2 := b64_inj _ _ (cursorText_bytes i) (cursorText_bytes j) h1
  have h3 : (cursorText i).toList = (cursorText j).toList :=
    (List.map_inj_right (fun a b hab => Char.toNat_inj.mp hab)).mp h2
  have h4 : cursorText i = cursorText j := String.toList_inj.mp h3
  unfold cursorText at h4
  exact toString_nat_inj ((String.append_right_inj _).mp h4)

end GitBugModel.Cursor

import GitBugModel.Model.RWLock
/-!
Lock order ⇒ no deadlock: in a well-formed configuration of goroutines and read-write mutexes in
which every blocked goroutine asks for a mutex larger than all it holds, somebody can move.
-/
namespace GitBugModel.RWLock

theorem exists_max {α : Type} (f : α → Nat) : ∀ (l : List α), l ≠ [] → ∃ x ∈ l, ∀ y ∈ l, f y ≤ f x := by
  intro l
  induction l with
  | nil => intro h; exact absurd rfl h
  | cons a rest ih =>
    intro _
    by_cases hr : rest = []
    · subst hr
      exact ⟨a, by simp, by intro y hy; simp at hy; subst hy; exact Nat.le_refl _⟩
    · obtain ⟨x, hx, hmax⟩ := ih hr
      by_cases hax : f x ≤ f a
      · refine ⟨a, by simp, ?_⟩
        intro y hy
        rcases List.mem_cons.mp hy with rfl | hy
        · exact Nat.le_refl _
        · exact Nat.le_trans (hmax y hy) hax
      · refine ⟨x, List.mem_cons_of_mem _ hx, ?_⟩
        intro y hy
        rcases List.mem_cons.mp hy with rfl | hy
        · omega
        · exact hmax y hy

/-- the requested mutex, 0 for goroutines that are not blocked (only used on blocked ones) -/
def reqOf (c : Conf) (t : Nat) : Nat := (request (c.st t)).getD 0

/-- `ordered_no_deadlock`: with the lock order respected, as long as some goroutine has not
returned, some goroutine can take a step.  No bound on the number of goroutines or mutexes. -/
theorem ordered_no_deadlock (c : Conf) (wf : WF c) (h : ∃ t ∈ c.tids, c.st t ≠ .done) :
    ∃ t ∈ c.tids, enabled c t = true := by
  -- otherwise every goroutine that has not returned is blocked
  apply Classical.byContradiction
  intro hno
  have hblocked : ∀ t ∈ c.tids, enabled c t = false := by
    intro t ht
    cases he : enabled c t with
    | false => rfl
    | true => exact absurd ⟨t, ht, he⟩ hno
  let live := c.tids.filter (fun t => c.st t != .done)
  have hlive : live ≠ [] := by
    obtain ⟨t, ht, hd⟩ := h
    intro hnil
    have : t ∈ live := List.mem_filter.mpr ⟨ht, by simpa using hd⟩
    rw [hnil] at this
    cases this
  obtain ⟨t, htl, hmax⟩ := exists_max (reqOf c) live hlive
  have ht : t ∈ c.tids := (List.mem_filter.mp htl).1
  have htd : c.st t ≠ .done := by simpa using (List.mem_filter.mp htl).2
  -- a goroutine that holds a mutex `m` is blocked on a larger one
  have holder_above : ∀ m u, u ∈ holders c m → m < reqOf c u ∧ u ∈ live := by
    intro m u hu
    obtain ⟨hut, hud⟩ := wf.holders_live m u hu
    have hul : u ∈ live := List.mem_filter.mpr ⟨hut, by simpa using hud⟩
    have hub := hblocked u hut
    cases hs : c.st u with
    | running => simp [enabled, hs] at hub
    | done => exact absurd hs hud
    | waitR m' =>
      have := wf.ordered u m' (by simp [hs, request]) m hu
      exact ⟨by simpa [reqOf, hs, request] using this, hul⟩
    | waitW m' =>
      have := wf.ordered u m' (by simp [hs, request]) m hu
      exact ⟨by simpa [reqOf, hs, request] using this, hul⟩
  -- the head of a non-empty pending queue of mutex m, with m the largest requested mutex, can move
  have head_moves : ∀ m, reqOf c t = m → ∀ p rest, (c.mx m).pending = p :: rest → False := by
    intro m hm p rest hp
    have hpw := (wf.pending_iff m p).mp (by rw [hp]; simp)
    have hpb := hblocked p hpw.1
    simp only [enabled, hpw.2, hp, List.head?_cons, beq_self_eq_true, Bool.and_true,
      Bool.and_eq_false_iff] at hpb
    rcases hpb with hw | hr
    · -- a writer holds it
      cases hwr : (c.mx m).writer with
      | none => simp [hwr] at hw
      | some w =>
        have hwh : w ∈ holders c m := by simp [holders, hwr]
        obtain ⟨hlt, hwl⟩ := holder_above m w hwh
        have := hmax w hwl
        omega
    · -- readers hold it
      cases hrd : (c.mx m).readers with
      | nil => simp [hrd] at hr
      | cons r _ =>
        have hrh : r ∈ holders c m := by simp [holders, hrd]
        obtain ⟨hlt, hrl⟩ := holder_above m r hrh
        have := hmax r hrl
        omega
  have htb := hblocked t ht
  cases hs : c.st t with
  | running => simp [enabled, hs] at htb
  | done => exact htd hs
  | waitR m =>
    have hreq : reqOf c t = m := by simp [reqOf, hs, request]
    simp only [enabled, hs, Bool.and_eq_false_iff] at htb
    rcases htb with hw | hp
    · cases hwr : (c.mx m).writer with
      | none => simp [hwr] at hw
      | some w =>
        have hwh : w ∈ holders c m := by simp [holders, hwr]
        obtain ⟨hlt, hwl⟩ := holder_above m w hwh
        have := hmax w hwl
        omega
    · cases hpp : (c.mx m).pending with
      | nil => simp [hpp] at hp
      | cons p rest => exact head_moves m hreq p rest hpp
  | waitW m =>
    have hreq : reqOf c t = m := by simp [reqOf, hs, request]
    have hin : t ∈ (c.mx m).pending := (wf.pending_iff m t).mpr ⟨ht, hs⟩
    cases hpp : (c.mx m).pending with
    | nil => rw [hpp] at hin; cases hin
    | cons p rest => exact head_moves m hreq p rest hpp

end GitBugModel.RWLock

import GitBugModel.Lemmas.Readable
/-!
Joining two readable histories that share a commit, by a merge commit whose edit time is above
every edit time of both, gives a readable history.
-/
namespace GitBugModel.Dag
open GitBugModel.Props.C03

theorem packAt_some {s : Store} {h : String} {p : Pack} (hp : packAt s h = some p) :
    ∃ c, lookup s h = some c ∧ c.pack = .ok p := by
  unfold packAt at hp
  cases hl : lookup s h with
  | none => simp [hl] at hp
  | some c =>
    simp only [hl] at hp
    cases hc : c.pack with
    | error e => simp [hc] at hp
    | ok q =>
      simp only [hc, Option.some.injEq] at hp
      exact ⟨c, rfl, hp ▸ hc⟩

theorem packAt_of {s : Store} {h : String} {c : Commit} {p : Pack} (hl : lookup s h = some c)
    (hp : c.pack = .ok p) : packAt s h = some p := by
  unfold packAt; simp [hl, hp]

/-- in a readable history every commit reaches a root (edit times strictly decrease towards the parents) -/
theorem Readable.reaches_root {s : Store} {h : String} (R : Readable s h) :
    ∀ (n : Nat) (z : String) (c : Commit) (p : Pack), Reach s h z → lookup s z = some c → c.pack = .ok p →
      p.edit ≤ n → ∃ r cr, Reach s z r ∧ lookup s r = some cr ∧ cr.parents = [] := by
  intro n
  induction n with
  | zero =>
    intro z c p hz hl hp hn
    cases hpar : c.parents with
    | nil => exact ⟨z, c, Reach.refl _, hl, hpar⟩
    | cons ph _ =>
      obtain ⟨pp, _, hlt, _⟩ := R.edges z c p hz hl hp ph (by rw [hpar]; simp)
      omega
  | succ n ih =>
    intro z c p hz hl hp hn
    cases hpar : c.parents with
    | nil => exact ⟨z, c, Reach.refl _, hl, hpar⟩
    | cons ph _ =>
      have hmem : ph ∈ c.parents := by rw [hpar]; simp
      obtain ⟨pp, hpa, hlt, _⟩ := R.edges z c p hz hl hp ph hmem
      obtain ⟨cp, hlp, hcp⟩ := packAt_some hpa
      have hzp : Reach s h ph := Reach.step hz ⟨c, hl, hmem⟩
      obtain ⟨r, cr, hr, hlr, hroot⟩ := ih ph cp pp hzp hlp hcp (by omega)
      exact ⟨r, cr, Reach.head ⟨c, hl, hmem⟩ hr, hlr, hroot⟩

/-- `readable_merge` -/
theorem readable_merge {s : Store} {l rh nh mp au : String} {e : Nat}
    (Rl : Readable s l) (Rr : Readable s rh) (hfresh : lookup s nh = none)
    (hshare : ∃ z, Reach s l z ∧ Reach s rh z)
    (he : ∀ x c p, (Reach s l x ∨ Reach s rh x) → lookup s x = some c → c.pack = .ok p → p.edit < e) :
    Readable (s ++ [mkMergeCommit nh l rh mp au e]) nh := by
  let mc := mkMergeCommit nh l rh mp au e
  have hmch : mc.hash = nh := rfl
  have hnew : lookup (s ++ [mc]) nh = some mc := by
    have := lookup_append_new s mc (by rw [hmch]; exact hfresh)
    rwa [hmch] at this
  have hold : ∀ y, y ≠ nh → lookup (s ++ [mc]) y = lookup s y := by
    intro y hy
    exact lookup_append_other s mc y (by rw [hmch]; exact fun h => hy h.symm)
  have hreach := merge_reach_diverged s l rh nh mp au e hfresh
  -- what is reachable from either side is stored in `s`, hence is not the new hash
  have side_ne : ∀ y, (Reach s l y ∨ Reach s rh y) → y ≠ nh := by
    intro y hy heq
    subst heq
    rcases hy with hy | hy
    · obtain ⟨c, hc⟩ := Rl.stored _ hy
      rw [hfresh] at hc; cases hc
    · obtain ⟨c, hc⟩ := Rr.stored _ hy
      rw [hfresh] at hc; cases hc
  have packAt_old : ∀ y, y ≠ nh → packAt (s ++ [mc]) y = packAt s y := by
    intro y hy
    unfold packAt
    rw [hold y hy]
  -- the heads
  obtain ⟨cl, hcl⟩ := Rl.stored l (Reach.refl _)
  obtain ⟨cr, hcr⟩ := Rr.stored rh (Reach.refl _)
  obtain ⟨pl, hpl⟩ := Rl.commits l cl (Reach.refl _) hcl
  obtain ⟨pr, hpr⟩ := Rr.commits rh cr (Reach.refl _) hcr
  have hel : pl.edit < e := he l cl pl (Or.inl (Reach.refl _)) hcl hpl.1
  have her : pr.edit < e := he rh cr pr (Or.inr (Reach.refl _)) hcr hpr.1
  -- the shared root
  obtain ⟨z, hzl, hzr⟩ := hshare
  obtain ⟨cz, hcz⟩ := Rl.stored z hzl
  obtain ⟨pz, hpz⟩ := Rl.commits z cz hzl hcz
  obtain ⟨r0, cr0, hzr0, hlr0, hroot0⟩ := Rl.reaches_root pz.edit z cz pz hzl hcz hpz.1 (Nat.le_refl _)
  have hr0l : Reach s l r0 := Reach.trans hzl hzr0
  have hr0r : Reach s rh r0 := Reach.trans hzr hzr0
  constructor
  · -- stored
    intro x hx
    rcases (hreach x).mp hx with rfl | hx | hx
    · exact ⟨mc, hnew⟩
    · obtain ⟨c, hc⟩ := Rl.stored x hx
      exact ⟨c, by rw [hold x (side_ne x (Or.inl hx))]; exact hc⟩
    · obtain ⟨c, hc⟩ := Rr.stored x hx
      exact ⟨c, by rw [hold x (side_ne x (Or.inr hx))]; exact hc⟩
  · -- commits
    intro x c hx hl
    rcases (hreach x).mp hx with rfl | hx' | hx'
    · rw [hnew] at hl
      injection hl with hl
      subst hl
      refine ⟨{ id := mp, author := au, ops := [], create := 0, edit := e }, rfl, ?_, ?_, ?_⟩
      · simp [Pack.validate]; omega
      · intro _; rfl
      · intro h; simp [mc, mkMergeCommit] at h
    · rw [hold x (side_ne x (Or.inl hx'))] at hl
      exact Rl.commits x c hx' hl
    · rw [hold x (side_ne x (Or.inr hx'))] at hl
      exact Rr.commits x c hx' hl
  · -- edges
    intro x c p hx hl hp ph hph
    rcases (hreach x).mp hx with rfl | hx' | hx'
    · rw [hnew] at hl
      injection hl with hl
      subst hl
      have hpe : p.edit = e := by
        have : (mkMergeCommit x l rh mp au e).pack = .ok p := hp
        simp only [mkMergeCommit] at this
        injection this with this
        rw [← this]
      have hph' : ph = l ∨ ph = rh := by
        have : ph ∈ [l, rh] := hph
        simpa using this
      rcases hph' with rfl | rfl
      · refine ⟨pl, ?_, by omega, ?_⟩
        · rw [packAt_old _ (side_ne _ (Or.inl (Reach.refl _)))]
          exact packAt_of hcl hpl.1
        · intro h; simp [mc, mkMergeCommit] at h
      · refine ⟨pr, ?_, by omega, ?_⟩
        · rw [packAt_old _ (side_ne _ (Or.inr (Reach.refl _)))]
          exact packAt_of hcr hpr.1
        · intro h; simp [mc, mkMergeCommit] at h
    · rw [hold x (side_ne x (Or.inl hx'))] at hl
      obtain ⟨pp, hpa, h1, h2⟩ := Rl.edges x c p hx' hl hp ph hph
      refine ⟨pp, ?_, h1, h2⟩
      rw [packAt_old ph (side_ne ph (Or.inl (Reach.step hx' ⟨c, hl, hph⟩)))]
      exact hpa
    · rw [hold x (side_ne x (Or.inr hx'))] at hl
      obtain ⟨pp, hpa, h1, h2⟩ := Rr.edges x c p hx' hl hp ph hph
      refine ⟨pp, ?_, h1, h2⟩
      rw [packAt_old ph (side_ne ph (Or.inr (Reach.step hx' ⟨c, hl, hph⟩)))]
      exact hpa
  · -- one root: every root is the shared root
    have root_is : ∀ x cx, Reach (s ++ [mc]) nh x → lookup (s ++ [mc]) x = some cx → cx.parents = [] → x = r0 := by
      intro x cx hx hl hroot
      rcases (hreach x).mp hx with rfl | hx' | hx'
      · rw [hnew] at hl
        injection hl with hl
        subst hl
        simp [mc, mkMergeCommit] at hroot
      · rw [hold x (side_ne x (Or.inl hx'))] at hl
        exact Rl.oneRoot x r0 cx cr0 hx' hr0l hl hlr0 hroot hroot0
      · rw [hold x (side_ne x (Or.inr hx'))] at hl
        exact Rr.oneRoot x r0 cx cr0 hx' hr0r hl hlr0 hroot hroot0
    intro x y cx cy hx hy hlx hly hrx hry
    rw [root_is x cx hx hlx hrx, root_is y cy hy hly hry]
  · -- some operation
    obtain ⟨x, c, p, hx, hl, hp, ho⟩ := Rl.hasOps
    exact ⟨x, c, p, (hreach x).mpr (Or.inr (Or.inl hx)), by rw [hold x (side_ne x (Or.inl hx))]; exact hl, hp, ho⟩

end GitBugModel.Dag

import GitBugModel.Model.Text
/-!
Facts about the model of `util/text`: what the clean-ups return is safe, they only remove
characters, and the one-line clean-up is idempotent.
-/
namespace GitBugModel.Lemmas.Text
open GitBugModel.Text

theorem safeOneLine_iff (s : List Char) : safeOneLine s = true ↔ ∀ c ∈ s, isControl c = false := by
  simp [safeOneLine]

theorem safe_iff (s : List Char) : safe s = true ↔ ∀ c ∈ s, isLayout c = true ∨ isControl c = false := by
  simp [safe]

/-- one control character anywhere makes a one-line text unsafe -/
theorem control_unsafe (s : List Char) (c : Char) (hc : c ∈ s) (h : isControl c = true) : safeOneLine s = false := by
  cases hs : safeOneLine s with
  | false => rfl
  | true => rw [(safeOneLine_iff s).1 hs c hc] at h; cases h

theorem safe_of_safeOneLine (s : List Char) (h : safeOneLine s = true) : safe s = true := by
  rw [safe_iff]; intro c hc; exact Or.inr ((safeOneLine_iff s).1 h c hc)

theorem layout_is_control (c : Char) (h : isLayout c = true) : isControl c = true := by
  simp only [isLayout, Bool.or_eq_true, beq_iff_eq] at h
  rcases h with (h | h) | h <;> subst h <;> decide

theorem mem_trimSpace (s : List Char) (c : Char) (h : c ∈ trimSpace s) : c ∈ s := by
  unfold trimSpace at h
  rw [List.mem_reverse] at h
  have h1 := (List.dropWhile_sublist isSpace).subset h
  rw [List.mem_reverse] at h1
  exact (List.dropWhile_sublist isSpace).subset h1

theorem trimSpace_sublist (s : List Char) : (trimSpace s).Sublist s := by
  unfold trimSpace
  have h1 : ((s.dropWhile isSpace).reverse.dropWhile isSpace).Sublist (s.dropWhile isSpace).reverse :=
    List.dropWhile_sublist isSpace
  have h2 := h1.reverse
  rw [List.reverse_reverse] at h2
  exact h2.trans (List.dropWhile_sublist isSpace)

theorem dropCRLF_sublist : ∀ s : List Char, (dropCRLF s).Sublist s
  | [] => by simp [dropCRLF]
  | [c] => by
    have : dropCRLF [c] = [c] := by unfold dropCRLF; split <;> simp_all [dropCRLF]
    rw [this]; exact List.Sublist.refl _
  | a :: b :: rest => by
    by_cases h : a = '\r' ∧ b = '\n'
    · obtain ⟨rfl, rfl⟩ := h
      have : dropCRLF ('\r' :: '\n' :: rest) = '\n' :: dropCRLF rest := by simp [dropCRLF]
      rw [this]
      exact ((dropCRLF_sublist rest).cons₂ '\n').cons '\r'
    · have : dropCRLF (a :: b :: rest) = a :: dropCRLF (b :: rest) := by
        unfold dropCRLF
        split
        · rename_i heq; simp only [List.cons.injEq] at heq; exact absurd ⟨heq.1, heq.2.1⟩ h
        · rename_i heq; simp only [List.cons.injEq] at heq; obtain ⟨rfl, rfl⟩ := heq
          congr 1; conv => lhs; unfold dropCRLF
        · rename_i heq; cases heq
      rw [this]
      exact (dropCRLF_sublist (b :: rest)).cons₂ a

/-- `cleanupOneLine_safe`: what `CleanupOneLine` returns passes `SafeOneLine` -/
theorem cleanupOneLine_safe (s : List Char) : safeOneLine (cleanupOneLine s) = true := by
  rw [safeOneLine_iff]
  intro c hc
  have := mem_trimSpace _ c hc
  simpa using (List.mem_filter.1 this).2

/-- `cleanup_safe`: what `Cleanup` returns passes `Safe` -/
theorem cleanup_safe (s : List Char) : safe (cleanup s) = true := by
  rw [safe_iff]
  intro c hc
  have := mem_trimSpace _ c hc
  simpa using (List.mem_filter.1 this).2

/-- the clean-ups only remove characters (and turn "\r\n" into "\n" by removing the "\r") -/
theorem cleanupOneLine_sublist (s : List Char) : (cleanupOneLine s).Sublist s :=
  (trimSpace_sublist _).trans List.filter_sublist

theorem cleanup_sublist (s : List Char) : (cleanup s).Sublist s :=
  ((trimSpace_sublist _).trans List.filter_sublist).trans (dropCRLF_sublist s)

/-! ### idempotence of the one-line clean-up -/

theorem dropWhile_of_head (p : Char → Bool) (l : List Char) (h : ∀ c, l.head? = some c → p c = false) :
    l.dropWhile p = l := by
  cases l with
  | nil => rfl
  | cons a t => simp [List.dropWhile, h a rfl]

theorem head_dropWhile (p : Char → Bool) (l : List Char) : ∀ c, (l.dropWhile p).head? = some c → p c = false := by
  intro c hc
  have := List.head?_dropWhile_not p l
  rw [hc] at this
  simpa using this

theorem trimSpace_idem (s : List Char) : trimSpace (trimSpace s) = trimSpace s := by
  unfold trimSpace
  generalize ha : s.dropWhile isSpace = a
  have hA : ∀ c, a.head? = some c → isSpace c = false := by rw [← ha]; exact head_dropWhile isSpace s
  generalize hr : a.reverse.dropWhile isSpace = r
  have hR : ∀ c, r.head? = some c → isSpace c = false := by rw [← hr]; exact head_dropWhile isSpace _
  -- r is a suffix of a.reverse, so r.reverse is a prefix of a
  obtain ⟨t, ht⟩ : r <:+ a.reverse := by rw [← hr]; exact List.dropWhile_suffix isSpace
  have hab : a = r.reverse ++ t.reverse := by
    have := congrArg List.reverse ht
    rw [List.reverse_append, List.reverse_reverse] at this
    exact this.symm
  have hB : ∀ c, r.reverse.head? = some c → isSpace c = false := by
    intro c hc
    apply hA c
    rw [hab]
    cases hrr : r.reverse with
    | nil => rw [hrr] at hc; cases hc
    | cons x xs => rw [hrr] at hc; simpa using hc
  rw [dropWhile_of_head isSpace r.reverse hB, List.reverse_reverse, dropWhile_of_head isSpace r hR]

/-- `cleanupOneLine_idem`: cleaning a cleaned one-line text changes nothing -/
theorem cleanupOneLine_idem (s : List Char) : cleanupOneLine (cleanupOneLine s) = cleanupOneLine s := by
  have hs := cleanupOneLine_safe s
  rw [safeOneLine_iff] at hs
  have : (cleanupOneLine s).filter (fun c => !isControl c) = cleanupOneLine s := by
    rw [List.filter_eq_self]
    intro c hc
    simp [hs c hc]
  show trimSpace ((cleanupOneLine s).filter (fun c => !isControl c)) = cleanupOneLine s
  rw [this]
  exact trimSpace_idem _

/-- a text that is already safe and trimmed is left alone -/
theorem cleanupOneLine_fixpoint (s : List Char) (h : safeOneLine s = true) (ht : trimSpace s = s) :
    cleanupOneLine s = s := by
  rw [safeOneLine_iff] at h
  have : s.filter (fun c => !isControl c) = s := by
    rw [List.filter_eq_self]; intro c hc; simp [h c hc]
  unfold cleanupOneLine
  rw [this, ht]

/-- `Cleanup` (the multi-line one) is *not* idempotent: removing a control character can bring a
"\r" and a "\n" together, which only a second pass turns into "\n" -/
example : cleanup ['a', '\r', '\x00', '\n', 'b'] = ['a', '\r', '\n', 'b'] ∧
    cleanup (cleanup ['a', '\r', '\x00', '\n', 'b']) = ['a', '\n', 'b'] := by decide

example : cleanupOneLine " a\tb\x7f  ".toList = "ab".toList := by decide
example : safeOneLine "tab\tname".toList = false ∧ safe "tab\tname".toList = true := by decide

end GitBugModel.Lemmas.Text

import GitBugModel.Lemmas.Lexer
/-!
Rendering a structured query through the documented grammar and parsing it back.
-/
namespace GitBugModel.Query

/-- a token as it is written: `qualifier:"value"`, `metadata:key:"value"`, `"search term"` — each
value between two quote characters `qc` of one kind (double or single) -/
inductive RTok where
  | kv (qc : Char) (q v : List Char)
  | kvv (qc : Char) (q sub v : List Char)
  | search (qc : Char) (v : List Char)
deriving Repr

def RTok.render : RTok → List Char
  | .kv qc q v => q ++ ':' :: qc :: (v ++ [qc])
  | .kvv qc q sub v => q ++ ':' :: (sub ++ ':' :: qc :: (v ++ [qc]))
  | .search qc v => qc :: (v ++ [qc])

def RTok.toToken : RTok → Token
  | .kv _ q v => .kv q v
  | .kvv _ q sub v => .kvv q sub v
  | .search _ v => .search v

/-- the same token as plain runs and quoted sections, for the split on spaces -/
def RTok.segs : RTok → List Seg
  | .kv qc q v => [.plain (q ++ [':']), .quoted qc v]
  | .kvv qc q sub v => [.plain (q ++ ':' :: (sub ++ [':'])), .quoted qc v]
  | .search qc v => [.quoted qc v]

theorem RTok.render_segs (t : RTok) : renderSegs t.segs = t.render := by
  cases t <;> simp [RTok.segs, RTok.render, renderSegs, Seg.render]

/-- well-formed written token: qualifier words, no space in them, a quote character around a
value that does not hold that character -/
def RTok.ok (isSpace : Char → Bool) : RTok → Prop
  | .kv qc q v => Word q ∧ (∀ c ∈ q, isSpace c = false) ∧ isQuote qc = true ∧ ∀ c ∈ v, c ≠ qc
  | .kvv qc q sub v => Word q ∧ Word sub ∧ (∀ c ∈ q, isSpace c = false) ∧ (∀ c ∈ sub, isSpace c = false) ∧ isQuote qc = true ∧ ∀ c ∈ v, c ≠ qc
  | .search qc v => isQuote qc = true ∧ ∀ c ∈ v, c ≠ qc

theorem tokenOfField_rendered (isSpace : Char → Bool) (t : RTok) (h : t.ok isSpace) :
    tokenOfField t.render = .ok t.toToken := by
  cases t with
  | kv qc q v => exact token_kv qc h.2.2.1 q v h.1 h.2.2.2
  | kvv qc q sub v => exact token_kvv qc h.2.2.2.2.1 q sub v h.1 h.2.1 h.2.2.2.2.2
  | search qc v => exact token_search qc h.1 v h.2

theorem tokenizeFields_rendered (isSpace : Char → Bool) (ts : List RTok) (h : ∀ t ∈ ts, t.ok isSpace) :
    tokenizeFields (ts.map RTok.render) = .ok (ts.map RTok.toToken) := by
  induction ts with
  | nil => rfl
  | cons t rest ih =>
    simp only [List.map_cons, tokenizeFields]
    rw [tokenOfField_rendered isSpace t (h t List.mem_cons_self), ih (fun x hx => h x (List.mem_cons_of_mem _ hx))]

theorem segs_ok (isSpace : Char → Bool) (hcolon : isSpace ':' = false) (t : RTok) (h : t.ok isSpace) :
    (∀ s ∈ t.segs, s.ok isSpace) ∧ renderSegs t.segs ≠ [] := by
  have colonQ : isQuote ':' = false := by decide
  cases t with
  | kv qc q v =>
    refine ⟨?_, by simp [RTok.segs, renderSegs, Seg.render]⟩
    intro s hs
    simp only [RTok.segs, List.mem_cons, List.mem_nil_iff, or_false] at hs
    rcases hs with rfl | rfl
    · intro c hc
      rcases List.mem_append.mp hc with hc | hc
      · exact ⟨h.2.1 c hc, (h.1.2 c hc).2⟩
      · have : c = ':' := by simpa using hc
        subst this; exact ⟨hcolon, colonQ⟩
    · exact h.2.2
  | kvv qc q sub v =>
    refine ⟨?_, by simp [RTok.segs, renderSegs, Seg.render]⟩
    intro s hs
    simp only [RTok.segs, List.mem_cons, List.mem_nil_iff, or_false] at hs
    rcases hs with rfl | rfl
    · intro c hc
      rcases List.mem_append.mp hc with hc | hc
      · exact ⟨h.2.2.1 c hc, (h.1.2 c hc).2⟩
      · cases hc with
        | head => exact ⟨hcolon, colonQ⟩
        | tail _ hc' =>
          rcases List.mem_append.mp hc' with hc' | hc'
          · exact ⟨h.2.2.2.1 c hc', (h.2.1.2 c hc').2⟩
          · have : c = ':' := by simpa using hc'
            subst this; exact ⟨hcolon, colonQ⟩
    · exact h.2.2.2.2
  | search qc v =>
    refine ⟨?_, by simp [RTok.segs, renderSegs, Seg.render]⟩
    intro s hs
    simp only [RTok.segs, List.mem_singleton] at hs
    subst hs; exact h

/-- `tokenize_rendered`: written tokens separated by one space come back as exactly those tokens,
whatever their values hold besides the quote character they are written between (spaces, colons,
the other kind of quote, unicode) -/
theorem tokenize_rendered (isSpace : Char → Bool) (hsp : isSpace ' ' = true) (hcolon : isSpace ':' = false)
    (ts : List RTok) (hne : ts ≠ []) (h : ∀ t ∈ ts, t.ok isSpace) :
    tokenize isSpace (joined ' ' (ts.map RTok.segs)) = .ok (ts.map RTok.toToken) := by
  unfold tokenize
  have hsplit := split_fields isSpace ' ' hsp (by decide) (ts.map RTok.segs) (by simpa using hne)
    (by
      intro f hf
      obtain ⟨t, ht, rfl⟩ := List.mem_map.mp hf
      exact segs_ok isSpace hcolon t (h t ht))
  rw [hsplit]
  have : (ts.map RTok.segs).map renderSegs = ts.map RTok.render := by
    rw [List.map_map]
    apply List.map_congr_left
    intro t _
    exact RTok.render_segs t
  rw [this]
  exact tokenizeFields_rendered isSpace ts h

end GitBugModel.Query

namespace GitBugModel.Query

def sortName : OrderBy → Dir → String
  | .id, .desc => "id-desc" | .id, .asc => "id-asc"
  | .creation, .desc => "creation-desc" | .creation, .asc => "creation-asc"
  | .edit, .desc => "edit-desc" | .edit, .asc => "edit-asc"

theorem parseSorting_sortName (ob : OrderBy) (d : Dir) : parseSorting (sortName ob d) = some (ob, d) := by
  cases ob <;> cases d <;> rfl

def statusName (s : Nat) : String := if s == 1 then "open" else "closed"

/-- the quote character to write a value with: double quotes, unless the value holds one -/
def quoteFor (v : String) : Char := if v.toList.contains '"' then '\'' else '"'

/-- the written tokens of a structured query, in the order of `doc/queries.md`; every value in the
kind of quotes it does not contain -/
def renderQuery (q : Query) : List RTok :=
  q.status.map (fun s => .kv '"' "status".toList (statusName s).toList) ++
  q.author.map (fun v => .kv (quoteFor v) "author".toList v.toList) ++
  q.actor.map (fun v => .kv (quoteFor v) "actor".toList v.toList) ++
  q.participant.map (fun v => .kv (quoteFor v) "participant".toList v.toList) ++
  q.label.map (fun v => .kv (quoteFor v) "label".toList v.toList) ++
  q.title.map (fun v => .kv (quoteFor v) "title".toList v.toList) ++
  q.metadata.map (fun kv => .kvv (quoteFor kv.2) "metadata".toList kv.1.toList kv.2.toList) ++
  (if q.noLabel then [.kv '"' "no".toList "label".toList] else []) ++
  q.search.map (fun v => .search (quoteFor v) v.toList) ++
  [.kv '"' "sort".toList (sortName q.orderBy q.dir).toList]

/-- one block of `author:"…"` tokens (and the like) appends its values -/
theorem block_simple (clean : String → String) (name : String) (upd : Query → String → Query)
    (hstep : ∀ (q : Query) (sd : Bool) (v : String),
      parseToken clean (q, sd) (.kv name.toList v.toList) = .ok (upd q v, sd)) :
    ∀ (vs : List String) (q : Query) (sd : Bool) (rest : List Token),
      parseTokens clean (q, sd) ((vs.map (fun v => Token.kv name.toList v.toList)) ++ rest) =
        parseTokens clean (vs.foldl upd q, sd) rest := by
  intro vs
  induction vs with
  | nil => intro q sd rest; rfl
  | cons v t ih =>
    intro q sd rest
    simp only [List.map_cons, List.cons_append, parseTokens, hstep q sd v]
    exact ih (upd q v) sd rest

theorem step_author (clean : String → String) (q : Query) (sd : Bool) (v : String) :
    parseToken clean (q, sd) (.kv "author".toList v.toList) = .ok ({ q with author := q.author ++ [v] }, sd) := by
  simp [parseToken, String.ofList_toList]
theorem step_actor (clean : String → String) (q : Query) (sd : Bool) (v : String) :
    parseToken clean (q, sd) (.kv "actor".toList v.toList) = .ok ({ q with actor := q.actor ++ [v] }, sd) := by
  simp [parseToken, String.ofList_toList]
theorem step_participant (clean : String → String) (q : Query) (sd : Bool) (v : String) :
    parseToken clean (q, sd) (.kv "participant".toList v.toList) = .ok ({ q with participant := q.participant ++ [v] }, sd) := by
  simp [parseToken, String.ofList_toList]
theorem step_label (clean : String → String) (q : Query) (sd : Bool) (v : String) :
    parseToken clean (q, sd) (.kv "label".toList v.toList) = .ok ({ q with label := q.label ++ [v] }, sd) := by
  simp [parseToken, String.ofList_toList]
theorem step_title (clean : String → String) (q : Query) (sd : Bool) (v : String) :
    parseToken clean (q, sd) (.kv "title".toList v.toList) = .ok ({ q with title := q.title ++ [v] }, sd) := by
  simp [parseToken, String.ofList_toList]

theorem foldl_author (vs : List String) : ∀ q : Query,
    vs.foldl (fun q v => { q with author := q.author ++ [v] }) q = { q with author := q.author ++ vs } := by
  induction vs with
  | nil => intro q; simp
  | cons v t ih => intro q; simp only [List.foldl_cons]; rw [ih]; simp
theorem foldl_actor (vs : List String) : ∀ q : Query,
    vs.foldl (fun q v => { q with actor := q.actor ++ [v] }) q = { q with actor := q.actor ++ vs } := by
  induction vs with
  | nil => intro q; simp
  | cons v t ih => intro q; simp only [List.foldl_cons]; rw [ih]; simp
theorem foldl_participant (vs : List String) : ∀ q : Query,
    vs.foldl (fun q v => { q with participant := q.participant ++ [v] }) q = { q with participant := q.participant ++ vs } := by
  induction vs with
  | nil => intro q; simp
  | cons v t ih => intro q; simp only [List.foldl_cons]; rw [ih]; simp
theorem foldl_label (vs : List String) : ∀ q : Query,
    vs.foldl (fun q v => { q with label := q.label ++ [v] }) q = { q with label := q.label ++ vs } := by
  induction vs with
  | nil => intro q; simp
  | cons v t ih => intro q; simp only [List.foldl_cons]; rw [ih]; simp
theorem foldl_title (vs : List String) : ∀ q : Query,
    vs.foldl (fun q v => { q with title := q.title ++ [v] }) q = { q with title := q.title ++ vs } := by
  induction vs with
  | nil => intro q; simp
  | cons v t ih => intro q; simp only [List.foldl_cons]; rw [ih]; simp

/-- the block of `status:"open"` / `status:"closed"` tokens -/
theorem block_status (clean : String → String) (hopen : clean "open" = "open") (hclosed : clean "closed" = "closed") :
    ∀ (ss : List Nat), (∀ s ∈ ss, s = 1 ∨ s = 2) → ∀ (q : Query) (sd : Bool) (rest : List Token),
      parseTokens clean (q, sd) ((ss.map (fun s => Token.kv "status".toList (statusName s).toList)) ++ rest) =
        parseTokens clean ({ q with status := q.status ++ ss }, sd) rest := by
  intro ss
  induction ss with
  | nil => intro _ q sd rest; simp
  | cons s t ih =>
    intro h q sd rest
    have hs := h s List.mem_cons_self
    have hstep : parseToken clean (q, sd) (.kv "status".toList (statusName s).toList) = .ok ({ q with status := q.status ++ [s] }, sd) := by
      rcases hs with rfl | rfl
      · simp [parseToken, String.ofList_toList, statusName, hopen, statusOf]
      · simp [parseToken, String.ofList_toList, statusName, hclosed, statusOf]
    simp only [List.map_cons, List.cons_append, parseTokens, hstep]
    rw [ih (fun x hx => h x (List.mem_cons_of_mem _ hx))]
    simp

theorem block_metadata (clean : String → String) :
    ∀ (kvs : List (String × String)) (q : Query) (sd : Bool) (rest : List Token),
      parseTokens clean (q, sd) ((kvs.map (fun kv => Token.kvv "metadata".toList kv.1.toList kv.2.toList)) ++ rest) =
        parseTokens clean ({ q with metadata := q.metadata ++ kvs }, sd) rest := by
  intro kvs
  induction kvs with
  | nil => intro q sd rest; simp
  | cons kv t ih =>
    intro q sd rest
    have hstep : parseToken clean (q, sd) (.kvv "metadata".toList kv.1.toList kv.2.toList) =
        .ok ({ q with metadata := q.metadata ++ [(kv.1, kv.2)] }, sd) := by
      simp [parseToken, String.ofList_toList]
    simp only [List.map_cons, List.cons_append, parseTokens, hstep]
    rw [ih]
    simp

theorem block_search (clean : String → String) :
    ∀ (vs : List String) (q : Query) (sd : Bool) (rest : List Token),
      parseTokens clean (q, sd) ((vs.map (fun v => Token.search v.toList)) ++ rest) =
        parseTokens clean ({ q with search := q.search ++ vs }, sd) rest := by
  intro vs
  induction vs with
  | nil => intro q sd rest; simp
  | cons v t ih =>
    intro q sd rest
    have hstep : parseToken clean (q, sd) (.search v.toList) = .ok ({ q with search := q.search ++ [v] }, sd) := by
      simp [parseToken, String.ofList_toList]
    simp only [List.map_cons, List.cons_append, parseTokens, hstep]
    rw [ih]
    simp

/-- the tokens of `renderQuery`, spelled out -/
def tokensOf (q : Query) : List Token :=
  q.status.map (fun s => Token.kv "status".toList (statusName s).toList) ++
  (q.author.map (fun v => Token.kv "author".toList v.toList) ++
  (q.actor.map (fun v => Token.kv "actor".toList v.toList) ++
  (q.participant.map (fun v => Token.kv "participant".toList v.toList) ++
  (q.label.map (fun v => Token.kv "label".toList v.toList) ++
  (q.title.map (fun v => Token.kv "title".toList v.toList) ++
  (q.metadata.map (fun kv => Token.kvv "metadata".toList kv.1.toList kv.2.toList) ++
  ((if q.noLabel then [Token.kv "no".toList "label".toList] else []) ++
  (q.search.map (fun v => Token.search v.toList) ++
  [Token.kv "sort".toList (sortName q.orderBy q.dir).toList]))))))))

theorem renderQuery_tokens (q : Query) : (renderQuery q).map RTok.toToken = tokensOf q := by
  unfold renderQuery tokensOf
  simp only [List.map_append, List.map_map, List.append_assoc]
  cases q.noLabel <;> rfl

/-- `parse_render_tokens`: the tokens of a rendered structured query parse back to that query -/
theorem parse_render_tokens (clean : String → String) (hopen : clean "open" = "open") (hclosed : clean "closed" = "closed")
    (q : Query) (hst : ∀ s ∈ q.status, s = 1 ∨ s = 2) :
    parseTokens clean ({}, false) (tokensOf q) = .ok q := by
  obtain ⟨search, status, author, metadata, actor, participant, label, title, noLabel, orderBy, dir⟩ := q
  simp only at hst
  unfold tokensOf
  simp only
  rw [block_status clean hopen hclosed status hst]
  rw [block_simple clean "author" (fun q v => { q with author := q.author ++ [v] }) (step_author clean), foldl_author]
  rw [block_simple clean "actor" (fun q v => { q with actor := q.actor ++ [v] }) (step_actor clean), foldl_actor]
  rw [block_simple clean "participant" (fun q v => { q with participant := q.participant ++ [v] }) (step_participant clean), foldl_participant]
  rw [block_simple clean "label" (fun q v => { q with label := q.label ++ [v] }) (step_label clean), foldl_label]
  rw [block_simple clean "title" (fun q v => { q with title := q.title ++ [v] }) (step_title clean), foldl_title]
  rw [block_metadata]
  have hsort : ∀ (q' : Query), parseToken clean (q', false) (.kv "sort".toList (sortName orderBy dir).toList) =
      .ok ({ q' with orderBy := orderBy, dir := dir }, true) := by
    intro q'
    simp [parseToken, String.ofList_toList, parseSorting_sortName]
  cases noLabel with
  | false =>
    simp only [Bool.false_eq_true, if_false, List.nil_append]
    rw [block_search]
    simp only [parseTokens, hsort]
    simp
  | true =>
    have hno : ∀ (q' : Query), parseToken clean (q', false) (.kv "no".toList "label".toList) = .ok ({ q' with noLabel := true }, false) := by
      intro q'; simp [parseToken, String.ofList_toList]
    simp only [if_true, List.cons_append, List.nil_append, parseTokens, hno]
    rw [block_search]
    simp only [parseTokens, hsort]
    simp

/-- the qualifier words of the grammar are words, all lower case -/
theorem qualifier_ok (isSpace : Char → Bool) (hlow : ∀ c : Char, c.isLower = true → isSpace c = false)
    (w : String) (hw : w ∈ ["status", "author", "actor", "participant", "label", "title", "metadata", "no", "sort"]) :
    Word w.toList ∧ ∀ c ∈ w.toList, isSpace c = false := by
  have hall : ∀ c ∈ w.toList, c.isLower = true ∧ c ≠ ':' ∧ isQuote c = false := by
    simp only [List.mem_cons, List.mem_nil_iff, or_false] at hw
    rcases hw with rfl | rfl | rfl | rfl | rfl | rfl | rfl | rfl | rfl <;> decide
  have hne : w.toList ≠ [] := by
    simp only [List.mem_cons, List.mem_nil_iff, or_false] at hw
    rcases hw with rfl | rfl | rfl | rfl | rfl | rfl | rfl | rfl | rfl <;> decide
  exact ⟨⟨hne, fun c hc => (hall c hc).2⟩, fun c hc => hlow c (hall c hc).1⟩

/-- values the grammar can express: not holding both kinds of quote -/
def Quotable (v : String) : Prop := ¬ ('"' ∈ v.toList ∧ '\'' ∈ v.toList)

/-- the chosen quote character is a quote and does not occur in the value -/
theorem quoteFor_ok (v : String) (h : Quotable v) : isQuote (quoteFor v) = true ∧ ∀ c ∈ v.toList, c ≠ quoteFor v := by
  unfold quoteFor
  by_cases hd : v.toList.contains '"' = true
  · rw [if_pos hd]
    refine ⟨by decide, ?_⟩
    intro c hc e
    subst e
    exact h ⟨by simpa using hd, hc⟩
  · rw [if_neg hd]
    refine ⟨by decide, ?_⟩
    intro c hc e
    subst e
    exact hd (by simpa using hc)

theorem renderQuery_ok (isSpace : Char → Bool) (hlow : ∀ c : Char, c.isLower = true → isSpace c = false) (q : Query)
    (hv : ∀ v, v ∈ q.author ∨ v ∈ q.actor ∨ v ∈ q.participant ∨ v ∈ q.label ∨ v ∈ q.title ∨ v ∈ q.search → Quotable v)
    (hm : ∀ kv ∈ q.metadata, Word kv.1.toList ∧ (∀ c ∈ kv.1.toList, isSpace c = false) ∧ Quotable kv.2) :
    ∀ t ∈ renderQuery q, t.ok isSpace := by
  have qo := qualifier_ok isSpace hlow
  intro t ht
  unfold renderQuery at ht
  simp only [List.mem_append, List.mem_map, List.mem_singleton] at ht
  rcases ht with ((((((((⟨s, _, rfl⟩ | ⟨v, hv', rfl⟩) | ⟨v, hv', rfl⟩) | ⟨v, hv', rfl⟩) | ⟨v, hv', rfl⟩) | ⟨v, hv', rfl⟩) | ⟨kv, hkv, rfl⟩) | hno) | ⟨v, hv', rfl⟩) | rfl
  · refine ⟨(qo "status" (by simp)).1, (qo "status" (by simp)).2, ?_⟩
    unfold statusName; split <;> decide
  · exact ⟨(qo "author" (by simp)).1, (qo "author" (by simp)).2, quoteFor_ok v (hv v (Or.inl hv'))⟩
  · exact ⟨(qo "actor" (by simp)).1, (qo "actor" (by simp)).2, quoteFor_ok v (hv v (Or.inr (Or.inl hv')))⟩
  · exact ⟨(qo "participant" (by simp)).1, (qo "participant" (by simp)).2, quoteFor_ok v (hv v (Or.inr (Or.inr (Or.inl hv'))))⟩
  · exact ⟨(qo "label" (by simp)).1, (qo "label" (by simp)).2, quoteFor_ok v (hv v (Or.inr (Or.inr (Or.inr (Or.inl hv')))))⟩
  · exact ⟨(qo "title" (by simp)).1, (qo "title" (by simp)).2, quoteFor_ok v (hv v (Or.inr (Or.inr (Or.inr (Or.inr (Or.inl hv'))))))⟩
  · obtain ⟨h1, h2, h3⟩ := hm kv hkv
    exact ⟨(qo "metadata" (by simp)).1, h1, (qo "metadata" (by simp)).2, h2, quoteFor_ok kv.2 h3⟩
  · cases hn : q.noLabel with
    | false => simp [hn] at hno
    | true =>
      simp only [hn, if_true, List.mem_singleton] at hno
      subst hno
      exact ⟨(qo "no" (by simp)).1, (qo "no" (by simp)).2, by decide⟩
  · exact quoteFor_ok v (hv v (Or.inr (Or.inr (Or.inr (Or.inr (Or.inr hv'))))))
  · refine ⟨(qo "sort" (by simp)).1, (qo "sort" (by simp)).2, ?_⟩
    cases q.orderBy <;> cases q.dir <;> decide

/-- `parse_render`: a structured query written through the documented grammar — every value
between quotes of the kind it does not contain (double quotes by default, single quotes for a
value that holds a double quote), one space between tokens — parses back to exactly that query.
Values may hold anything but both kinds of quote at once (which the grammar cannot express):
spaces, colons, one kind of quote, unicode. -/
theorem parse_render (isSpace : Char → Bool) (clean : String → String)
    (hsp : isSpace ' ' = true) (hcolon : isSpace ':' = false)
    (hlow : ∀ c : Char, c.isLower = true → isSpace c = false)
    (hopen : clean "open" = "open") (hclosed : clean "closed" = "closed")
    (q : Query) (hst : ∀ s ∈ q.status, s = 1 ∨ s = 2)
    (hv : ∀ v, v ∈ q.author ∨ v ∈ q.actor ∨ v ∈ q.participant ∨ v ∈ q.label ∨ v ∈ q.title ∨ v ∈ q.search → Quotable v)
    (hm : ∀ kv ∈ q.metadata, Word kv.1.toList ∧ (∀ c ∈ kv.1.toList, isSpace c = false) ∧ Quotable kv.2) :
    parse isSpace clean (String.ofList (joined ' ' ((renderQuery q).map RTok.segs))) = .ok q := by
  unfold parse
  rw [String.toList_ofList]
  have hne : renderQuery q ≠ [] := by unfold renderQuery; simp
  rw [tokenize_rendered isSpace hsp hcolon (renderQuery q) hne (renderQuery_ok isSpace hlow q hv hm)]
  simp only
  rw [renderQuery_tokens]
  exact parse_render_tokens clean hopen hclosed q hst

end GitBugModel.Query

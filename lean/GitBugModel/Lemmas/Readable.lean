import GitBugModel.Props.C03
import GitBugModel.Lemmas.BfsComplete
/-!
`Readable s h`: what makes the history below head `h` of store `s` one that `Dag.read` accepts,
stated on the store alone (no traversal order, no fuel):  every reachable commit is stored, decodes
to a valid pack, merge commits are empty, edit times strictly increase along every edge (hop limit
on non-merge commits), one root (carrying a creation time), some operation.

`read_iff_readable`: `Dag.read s h` succeeds **iff** `Readable s h`.
`readable_merge`: joining two readable histories that share a commit by a merge commit whose edit
time is above both gives a readable history — a pull never breaks an entity.
-/
namespace GitBugModel.Dag
open GitBugModel.Props.C03

def packAt (s : Store) (h : String) : Option Pack :=
  match lookup s h with
  | some c => (match c.pack with | .ok p => some p | .error _ => none)
  | none => none

structure Readable (s : Store) (h : String) : Prop where
  stored : ∀ x, Reach s h x → ∃ c, lookup s x = some c
  commits : ∀ x c, Reach s h x → lookup s x = some c → ∃ p, CommitOK c p
  edges : ∀ x c p, Reach s h x → lookup s x = some c → c.pack = .ok p →
      ∀ ph ∈ c.parents, ∃ pp, packAt s ph = some pp ∧ pp.edit < p.edit ∧
        (c.parents.length ≤ 1 → p.edit - pp.edit ≤ hopLimit)
  oneRoot : ∀ x y cx cy, Reach s h x → Reach s h y → lookup s x = some cx → lookup s y = some cy →
      cx.parents = [] → cy.parents = [] → x = y
  hasOps : ∃ x c p, Reach s h x ∧ lookup s x = some c ∧ c.pack = .ok p ∧ p.ops ≠ []

/-! ### small list facts -/

theorem nodup_all_eq_length {α : Type} {l : List α} (hn : l.Nodup) (he : ∀ a ∈ l, ∀ b ∈ l, a = b) :
    l.length ≤ 1 := by
  match l, hn, he with
  | [], _, _ => simp
  | [_], _, _ => simp
  | a :: b :: t, hn, he =>
    exfalso
    have hab : a = b := he a (by simp) b (by simp)
    have := (List.nodup_cons.mp hn).1
    apply this
    rw [hab]; simp

theorem mem_of_length_le_one {α : Type} {l : List α} (h : l.length ≤ 1) {a b : α} (ha : a ∈ l) (hb : b ∈ l) :
    a = b := by
  match l, h, ha, hb with
  | [x], _, ha, hb =>
    have h1 : a = x := by simpa using ha
    have h2 : b = x := by simpa using hb
    rw [h1, h2]
  | _ :: _ :: _, h, _, _ => simp at h

theorem opsOf_nonempty {l : List Pack} {p : Pack} (hp : p ∈ l) (ho : p.ops ≠ []) : (opsOf l).isEmpty = false := by
  unfold opsOf
  have hps : p ∈ sortPacks l := (sortPacks_perm l).mem_iff.mpr hp
  cases hops : p.ops with
  | nil => exact absurd hops ho
  | cons o rest =>
    have : o ∈ (sortPacks l).flatMap (·.ops) := List.mem_flatMap.mpr ⟨p, hps, by rw [hops]; simp⟩
    cases hf : (sortPacks l).flatMap (·.ops) with
    | nil => rw [hf] at this; cases this
    | cons _ _ => rfl

theorem opsOf_nonempty_inv {l : List Pack} (h : opsOf l ≠ []) : ∃ p ∈ l, p.ops ≠ [] := by
  unfold opsOf at h
  cases hf : (sortPacks l).flatMap (·.ops) with
  | nil => exact absurd hf h
  | cons o rest =>
    have : o ∈ (sortPacks l).flatMap (·.ops) := by rw [hf]; simp
    obtain ⟨p, hp, hop⟩ := List.mem_flatMap.mp this
    refine ⟨p, (sortPacks_perm l).mem_iff.mp hp, ?_⟩
    intro hnil
    rw [hnil] at hop
    cases hop

/-! ### the table `pass1` builds, seen through the store -/

/-- commits of a collection are the stored ones: equal hashes, equal commits -/
def Consistent (s : Store) (order : List Commit) : Prop := ∀ c ∈ order, lookup s c.hash = some c

theorem consistent_eq {s : Store} {order : List Commit} (hc : Consistent s order) {c c' : Commit}
    (h1 : c ∈ order) (h2 : c' ∈ order) (hh : c.hash = c'.hash) : c = c' := by
  have a := hc c h1
  have b := hc c' h2
  rw [hh, b] at a
  injection a with a
  exact a.symm

theorem packOf_mem {m : List (String × Pack)} {h : String} {p : Pack} (hp : packOf m h = some p) :
    ∃ x ∈ m, x.1 = h ∧ x.2 = p := by
  unfold packOf at hp
  cases hf : m.find? (fun x => x.1 == h) with
  | none => simp [hf] at hp
  | some x =>
    simp only [hf, Option.map_some, Option.some.injEq] at hp
    refine ⟨x, List.mem_of_find?_eq_some hf, ?_, hp⟩
    have := List.find?_some hf
    simpa using this

theorem packOf_of_pass1 {s : Store} {order : List Commit} {r : Nat} {m : List (String × Pack)}
    (h1 : pass1 order r = .ok m) (hc : Consistent s order) {c : Commit} (hm : c ∈ order) {p : Pack}
    (hp : c.pack = .ok p) : packOf m c.hash = some p := by
  obtain ⟨_, hk, _, hpk⟩ := pass1_ok h1
  have hin : c.hash ∈ m.map (·.1) := by rw [hk]; exact List.mem_map.mpr ⟨c, hm, rfl⟩
  obtain ⟨x0, hx0, hx0h⟩ := List.mem_map.mp hin
  unfold packOf
  cases hf : m.find? (fun x => x.1 == c.hash) with
  | none =>
    have := List.find?_eq_none.mp hf x0 hx0
    simp [hx0h] at this
  | some x =>
    have hxm : x ∈ m := List.mem_of_find?_eq_some hf
    have hxh : x.1 = c.hash := by
      have := List.find?_some hf
      simpa using this
    obtain ⟨c', hc', h1', h2'⟩ := hpk x hxm
    have : c' = c := consistent_eq hc hc' hm (by rw [← h1', hxh])
    subst this
    rw [hp] at h2'
    injection h2' with h2'
    simp [h2']

/-! ### Readable ⇒ read succeeds -/

theorem readable_read {s : Store} {h : String} (R : Readable s h) : ∃ e, Dag.read s h = .ok e := by
  obtain ⟨order, hb, hnd⟩ := bfs_complete s h R.stored
  obtain ⟨spec1, spec2⟩ := bfs_spec hb
  have hcons : Consistent s order := fun c hc => (spec1 c hc).1
  -- the stored commit of a reachable hash is in the collection
  have inOrder : ∀ x c, Reach s h x → lookup s x = some c → c ∈ order := by
    intro x c hx hl
    obtain ⟨c', hc', hh⟩ := spec2 x hx
    have := hcons c' hc'
    rw [hh, hl] at this
    injection this with this
    rw [this]; exact hc'
  apply wellformed_read hb
  · -- one root
    unfold rootsIn
    apply Nat.le_trans _ (nodup_all_eq_length (l := (order.filter (fun c => c.parents.isEmpty)).map (·.hash)) ?_ ?_)
    · simp
    · exact List.Nodup.sublist (List.Sublist.map _ List.filter_sublist) hnd
    · intro a ha b hb'
      obtain ⟨ca, hca, rfl⟩ := List.mem_map.mp ha
      obtain ⟨cb, hcb, rfl⟩ := List.mem_map.mp hb'
      obtain ⟨hca1, hca2⟩ := List.mem_filter.mp hca
      obtain ⟨hcb1, hcb2⟩ := List.mem_filter.mp hcb
      exact R.oneRoot _ _ ca cb (spec1 ca hca1).2 (spec1 cb hcb1).2 (hcons ca hca1) (hcons cb hcb1)
        (by simpa using hca2) (by simpa using hcb2)
  · intro c hc
    exact R.commits c.hash c (spec1 c hc).2 (hcons c hc)
  · intro m hm c hc
    obtain ⟨p, hp⟩ := R.commits c.hash c (spec1 c hc).2 (hcons c hc)
    refine ⟨p, packOf_of_pass1 hm hcons hc hp.1, ?_⟩
    intro ph hph
    obtain ⟨pp, hpa, hlt, hhop⟩ := R.edges c.hash c p (spec1 c hc).2 (hcons c hc) hp.1 ph hph
    refine ⟨pp, ?_, hlt, hhop⟩
    unfold packAt at hpa
    cases hl : lookup s ph with
    | none => simp [hl] at hpa
    | some cp =>
      simp only [hl] at hpa
      cases hcp : cp.pack with
      | error e => simp [hcp] at hpa
      | ok pq =>
        simp only [hcp, Option.some.injEq] at hpa
        subst hpa
        have hreach : Reach s h ph := Reach.step (spec1 c hc).2 ⟨c, hcons c hc, hph⟩
        have hin := inOrder ph cp hreach hl
        have := packOf_of_pass1 hm hcons hin hcp
        rwa [lookup_hash hl] at this
  · intro m hm
    obtain ⟨x, c, p, hx, hl, hp, ho⟩ := R.hasOps
    have hin := inOrder x c hx hl
    have hpo := packOf_of_pass1 hm hcons hin hp
    obtain ⟨y, hy, _, hy2⟩ := packOf_mem hpo
    exact opsOf_nonempty (List.mem_map.mpr ⟨y, hy, hy2⟩) ho

/-! ### read succeeds ⇒ Readable -/

theorem read_readable {s : Store} {h : String} {e : Entity} (hr : Dag.read s h = .ok e) : Readable s h := by
  obtain ⟨order, m, hb, wf, hpacks, hops, _⟩ := read_wellformed hr
  obtain ⟨spec1, spec2⟩ := bfs_spec hb
  have hcons : Consistent s order := fun c hc => (spec1 c hc).1
  have inOrder : ∀ x c, Reach s h x → lookup s x = some c → c ∈ order := by
    intro x c hx hl
    obtain ⟨c', hc', hh⟩ := spec2 x hx
    have := hcons c' hc'
    rw [hh, hl] at this
    injection this with this
    rw [this]; exact hc'
  -- an entry of the table is the pack of the stored commit of that hash
  have entry : ∀ hh p, packOf m hh = some p → ∃ c ∈ order, c.hash = hh ∧ c.pack = .ok p := by
    intro hh p hp
    obtain ⟨x, hx, hx1, hx2⟩ := packOf_mem hp
    obtain ⟨c, hc, h1, h2⟩ := wf.packs x hx
    exact ⟨c, hc, by rw [← h1, hx1], by rw [← hx2]; exact h2⟩
  constructor
  · intro x hx
    obtain ⟨c, hc, hh⟩ := spec2 x hx
    exact ⟨c, by rw [← hh]; exact hcons c hc⟩
  · intro x c hx hl
    exact wf.commits c (inOrder x c hx hl)
  · intro x c p hx hl hp ph hph
    have hc := inOrder x c hx hl
    obtain ⟨p', hp', hedge⟩ := wf.edges c hc
    obtain ⟨c'', hc'', hh'', hp''⟩ := entry _ _ hp'
    have : c'' = c := consistent_eq hcons hc'' hc hh''
    subst this
    rw [hp] at hp''
    injection hp'' with hp''
    subst hp''
    obtain ⟨pp, hpp, hlt, hhop⟩ := hedge ph hph
    obtain ⟨c2, hc2, hh2, hp2⟩ := entry _ _ hpp
    refine ⟨pp, ?_, hlt, hhop⟩
    unfold packAt
    have := hcons c2 hc2
    rw [hh2] at this
    simp [this, hp2]
  · intro x y cx cy hx hy hlx hly hrx hry
    have hcx := inOrder x cx hx hlx
    have hcy := inOrder y cy hy hly
    have hle : (order.filter (fun c => c.parents.isEmpty)).length ≤ 1 := wf.oneRoot
    have h1 : cx ∈ order.filter (fun c => c.parents.isEmpty) := List.mem_filter.mpr ⟨hcx, by simp [hrx]⟩
    have h2 : cy ∈ order.filter (fun c => c.parents.isEmpty) := List.mem_filter.mpr ⟨hcy, by simp [hry]⟩
    have := mem_of_length_le_one hle h1 h2
    rw [← lookup_hash hlx, ← lookup_hash hly, this]
  · have hne : e.ops ≠ [] := refuses_without_operations hr
    rw [hops, hpacks] at hne
    obtain ⟨p, hp, hpo⟩ := opsOf_nonempty_inv hne
    obtain ⟨x, hx, hx2⟩ := List.mem_map.mp hp
    obtain ⟨c, hc, h1, h2⟩ := wf.packs x hx
    exact ⟨c.hash, c, p, (spec1 c hc).2, hcons c hc, by rw [← hx2]; exact h2, hpo⟩

/-- `read_iff_readable`: `Dag.read` accepts a history exactly when it is `Readable` -/
theorem read_iff_readable (s : Store) (h : String) : (∃ e, Dag.read s h = .ok e) ↔ Readable s h :=
  ⟨fun ⟨_, he⟩ => read_readable he, readable_read⟩

end GitBugModel.Dag

import GitBugModel.Model.LockFile
/-!
Lemmas about the decimal reader of the lock file model: a natural number rendered with `%d`
(`Nat.repr`) is read back by `atoi`, and its rendering is ASCII (one byte per character).
-/
namespace GitBugModel.LockFile

theorem digitsAcc_append (acc : Nat) (l₁ l₂ : List Char) :
    digitsAcc acc (l₁ ++ l₂) = (digitsAcc acc l₁).bind (fun a => digitsAcc a l₂) := by
  induction l₁ generalizing acc with
  | nil => simp [digitsAcc]
  | cons c r ih =>
    simp only [List.cons_append, digitsAcc]
    split
    · exact ih _
    · rfl

theorem digitsAcc_digit (acc d : Nat) (h : d < 10) : digitsAcc acc (Nat.repr d).toList = some (acc * 10 + d) := by
  have : d = 0 ∨ d = 1 ∨ d = 2 ∨ d = 3 ∨ d = 4 ∨ d = 5 ∨ d = 6 ∨ d = 7 ∨ d = 8 ∨ d = 9 := by omega
  rcases this with h | h | h | h | h | h | h | h | h | h <;> subst h <;> rfl

theorem digitsAcc_repr (n : Nat) : ∀ acc, ∃ k, digitsAcc acc (Nat.repr n).toList = some (acc * 10 ^ k + n) := by
  induction n using Nat.strongRecOn with
  | _ n ih =>
    intro acc
    by_cases h : n < 10
    · exact ⟨1, by rw [digitsAcc_digit acc n h]⟩
    · have h10 : 10 ≤ n := by omega
      rw [Nat.repr_eq_repr_append_repr h10, String.toList_append, digitsAcc_append]
      obtain ⟨k, hk⟩ := ih (n / 10) (by omega) acc
      rw [hk]
      simp only [Option.bind_some]
      rw [digitsAcc_digit _ _ (Nat.mod_lt _ (by decide))]
      refine ⟨k + 1, ?_⟩
      congr 1
      rw [Nat.pow_succ]
      have := Nat.div_add_mod n 10
      rw [Nat.add_mul, Nat.mul_assoc]
      omega

theorem repr_toList_ne_nil (n : Nat) : (Nat.repr n).toList ≠ [] := by
  intro h
  have := Nat.length_repr_pos (n := n)
  rw [← String.length_toList, h] at this
  exact Nat.lt_irrefl _ this

theorem repr_head_digit (n : Nat) : ∀ c ∈ (Nat.repr n).toList, c.isDigit = true := by
  intro c hc
  rw [Nat.toList_repr] at hc
  exact Nat.isDigit_of_mem_toDigits (b := 10) (by decide) (by decide) hc

/-- `atoi` reads back what `%d` wrote -/
theorem atoi_repr (n : Nat) : atoi (Nat.repr n).toList = some (n : Int) := by
  obtain ⟨k, hk⟩ := digitsAcc_repr n 0
  have hne := repr_toList_ne_nil n
  have hd := repr_head_digit n
  cases hl : (Nat.repr n).toList with
  | nil => exact absurd hl hne
  | cons c r =>
    have hc : c.isDigit = true := hd c (by rw [hl]; exact List.mem_cons_self)
    have hplus : c ≠ '+' := by intro h; subst h; revert hc; decide
    have hminus : c ≠ '-' := by intro h; subst h; revert hc; decide
    rw [hl] at hk
    unfold atoi
    split
    · rename_i heq; cases heq; exact absurd rfl hplus
    · rename_i heq; cases heq; exact absurd rfl hminus
    · simp only [List.isEmpty_cons, Bool.false_eq_true, if_false, hk, Option.map_some]
      simp

theorem isDigit_utf8Size (c : Char) (h : c.isDigit = true) : c.utf8Size = 1 := by
  simp only [Char.isDigit, Bool.and_eq_true, decide_eq_true_eq] at h
  have h57 : c.val ≤ 57 := h.2
  have h2 := UInt32.le_iff_toNat_le.mp h57
  simp only [Char.utf8Size]
  have : c.val ≤ 127 := by
    apply UInt32.le_iff_toNat_le.mpr
    simp at h2 ⊢
    omega
  simp [this]

theorem utf8Len_digits (l : List Char) (h : ∀ c ∈ l, c.isDigit = true) : utf8Len l = l.length := by
  induction l with
  | nil => rfl
  | cons c r ih =>
    have h1 := isDigit_utf8Size c (h c List.mem_cons_self)
    have h2 := ih (fun x hx => h x (List.mem_cons_of_mem _ hx))
    simp only [utf8Len, List.map_cons, List.sum_cons, List.length_cons] at h2 ⊢
    omega

theorem utf8Len_repr (n : Nat) : utf8Len (Nat.repr n).toList = (Nat.repr n).length := by
  rw [utf8Len_digits _ (repr_head_digit n), String.length_toList]

end GitBugModel.LockFile

import GitBugModel.Model.JsonStr
/-!
What `json.Marshal` writes for a string, `json.Unmarshal` reads back as that string: the
byte-level round trip under C04, for every text (valid Unicode) whatever characters it holds.
-/
namespace GitBugModel.JsonStr

/-- the code points written as `\uXXXX` -/
def uList : List Nat := List.range 32 ++ [38, 60, 62, 0x2028, 0x2029]

theorem needsU_mem (c : Char) (h : needsU c = true) : c.toNat ∈ uList := by
  simp only [needsU, Bool.or_eq_true, decide_eq_true_eq, beq_iff_eq] at h
  simp only [uList, List.mem_append, List.mem_range, List.mem_cons, List.mem_nil_iff, or_false]
  rcases h with ((((h | h) | h) | h) | h) | h
  · exact Or.inl h
  · subst h; right; right; left; rfl
  · subst h; right; right; right; left; rfl
  · subst h; right; left; rfl
  · right; right; right; right; left; exact h
  · right; right; right; right; right; exact h

/-- on those code points: the four digits read back as the number, which is no surrogate -/
theorem hex4_roundtrip_uList : ∀ n ∈ uList,
    hex4Val (hexDigit (n / 4096 % 16)) (hexDigit (n / 256 % 16)) (hexDigit (n / 16 % 16)) (hexDigit (n % 16)) = some n ∧
    ((0xD800 ≤ n && n < 0xDC00) = false) ∧ ((0xDC00 ≤ n && n < 0xE000) = false) := by
  decide

theorem dec_simple (n : Nat) (e x : Char) (rest : List Char) (hu : (e == 'u') = false) (hs : simpleEsc e = some x) :
    decBody (n + 1) ('\\' :: e :: rest) = consTo x (decBody n rest) := by
  simp [decBody, hu, hs]

/-- one character: what was written for it reads back as it, at the cost of one unit of fuel -/
theorem dec_encChar (n : Nat) (c : Char) (rest : List Char) :
    decBody (n + 1) (encChar c ++ rest) = consTo c (decBody n rest) := by
  unfold encChar
  split
  · rename_i h; simp only [beq_iff_eq] at h; subst h
    exact dec_simple n '"' '"' rest (by decide) (by decide)
  split
  · rename_i h; simp only [beq_iff_eq] at h; subst h
    exact dec_simple n '\\' '\\' rest (by decide) (by decide)
  split
  · rename_i h; simp only [beq_iff_eq] at h; subst h
    exact dec_simple n 'n' '\n' rest (by decide) (by decide)
  split
  · rename_i h; simp only [beq_iff_eq] at h; subst h
    exact dec_simple n 'r' '\r' rest (by decide) (by decide)
  split
  · rename_i h; simp only [beq_iff_eq] at h; subst h
    exact dec_simple n 't' '\t' rest (by decide) (by decide)
  split
  · rename_i h
    have hc : c = Char.ofNat 8 := by
      have := Char.ofNat_toNat c; simp only [beq_iff_eq] at h; rw [h] at this; exact this.symm
    subst hc
    exact dec_simple n 'b' (Char.ofNat 8) rest (by decide) (by decide)
  split
  · rename_i h
    have hc : c = Char.ofNat 12 := by
      have := Char.ofNat_toNat c; simp only [beq_iff_eq] at h; rw [h] at this; exact this.symm
    subst hc
    exact dec_simple n 'f' (Char.ofNat 12) rest (by decide) (by decide)
  split
  · rename_i _ _ _ _ _ _ _ h
    obtain ⟨h1, h2, h3⟩ := hex4_roundtrip_uList c.toNat (needsU_mem c h)
    simp only [hex4, List.cons_append, List.nil_append, decBody]
    simp only [show ('\\' == '"') = false by decide, show ('\\' == '\\') = true by decide, show ('u' == 'u') = true by decide,
      Bool.false_eq_true, if_false, if_true, h1, h2, h3, Char.ofNat_toNat]
  · rename_i hq hb _ _ _ _ _ hu
    have h32 : ¬ c.toNat < 32 := by
      intro hlt
      apply hu
      simp [needsU, hlt]
    simp only [List.cons_append, List.nil_append, decBody]
    simp only [hq, hb, Bool.false_eq_true, if_false, h32]

/-- the whole body -/
theorem dec_body (s tail : List Char) (k : Nat) :
    decBody (s.length + 1 + k) (s.flatMap encChar ++ ('"' :: tail)) = some (s, tail) := by
  induction s with
  | nil =>
    have : ([] : List Char).length + 1 + k = k + 1 := by simp; omega
    rw [this]
    simp [decBody]
  | cons c r ih =>
    have hf : (c :: r).length + 1 + k = (r.length + 1 + k) + 1 := by simp only [List.length_cons]; omega
    rw [hf, List.flatMap_cons, List.append_assoc, dec_encChar, ih]
    rfl

/-- **round trip**: decoding the encoding of any text gives the text back -/
theorem decode_encode (s : List Char) : decode (encode s) = some s := by
  unfold decode encode
  simp only
  have hlen : s.length + 1 ≤ (s.flatMap encChar ++ ['"']).length + 1 := by
    have : ∀ c, 1 ≤ (encChar c).length := by
      intro c; unfold encChar; repeat (first | split | simp [hex4])
    have h2 : s.length ≤ (s.flatMap encChar).length := by
      induction s with
      | nil => simp
      | cons c r ih => simp only [List.flatMap_cons, List.length_append, List.length_cons]; have := this c; omega
    simp only [List.length_append, List.length_cons, List.length_nil]; omega
  obtain ⟨k, hk⟩ := Nat.exists_eq_add_of_le hlen
  rw [hk, dec_body s [] k]

/-- hence the encoding is injective: two texts are stored differently -/
theorem encode_injective : Function.Injective encode := by
  intro a b h
  have := decode_encode a
  rw [h, decode_encode b] at this
  injection this with e
  exact e.symm

end GitBugModel.JsonStr

import GitBugModel.Model.Dag
/-!
Reachability in the commit store, and the correctness of the breadth-first collection of
`Dag.bfs`: when it succeeds, it returns exactly the commits reachable from where it started.
-/
namespace GitBugModel.Dag

/-- `b` is a parent of the commit stored under `a` -/
def Edge (s : Store) (a b : String) : Prop := ∃ c, lookup s a = some c ∧ b ∈ c.parents

/-- reflexive-transitive closure of `Edge` -/
inductive Reach (s : Store) : String → String → Prop
  | refl (a : String) : Reach s a a
  | step {a b c : String} : Reach s a b → Edge s b c → Reach s a c

theorem Reach.trans {s : Store} {a b c : String} (h1 : Reach s a b) (h2 : Reach s b c) : Reach s a c := by
  induction h2 with
  | refl => exact h1
  | step _ e ih => exact Reach.step ih e

theorem Reach.head {s : Store} {a b c : String} (e : Edge s a b) (h : Reach s b c) : Reach s a c :=
  Reach.trans (Reach.step (Reach.refl a) e) h

theorem lookup_hash {s : Store} {h : String} {c : Commit} (hl : lookup s h = some c) : c.hash = h := by
  unfold lookup at hl
  have := List.find?_some hl
  simpa using this

theorem mem_newParents {ps visited : List String} {x : String} :
    x ∈ newParents ps visited → x ∈ ps ∧ x ∉ visited := by
  unfold newParents
  have key : ∀ (l acc : List String), (∀ y ∈ acc, y ∈ ps ∧ y ∉ visited) → (∀ y ∈ l, y ∈ ps) →
      ∀ y ∈ l.foldl (fun acc p => if visited.contains p || acc.contains p then acc else acc ++ [p]) acc, y ∈ ps ∧ y ∉ visited := by
    intro l
    induction l with
    | nil => intro acc h _ y hy; exact h y hy
    | cons p t ih =>
      intro acc h hl y hy
      simp only [List.foldl_cons] at hy
      by_cases hc : (visited.contains p || acc.contains p) = true
      · simp only [hc, if_true] at hy
        exact ih acc h (fun z hz => hl z (List.mem_cons_of_mem _ hz)) y hy
      · simp only [hc, Bool.false_eq_true, if_false] at hy
        refine ih (acc ++ [p]) ?_ (fun z hz => hl z (List.mem_cons_of_mem _ hz)) y hy
        intro z hz
        rcases List.mem_append.mp hz with hz | hz
        · exact h z hz
        · have : z = p := by simpa using hz
          subst this
          refine ⟨hl z List.mem_cons_self, ?_⟩
          intro hv
          apply hc
          simp [hv]
  exact fun hx => key ps [] (by simp) (fun _ h => h) x hx

/-- every parent is visited afterwards: it was before, or it is among the new ones -/
theorem parent_visited {ps visited : List String} {x : String} (hx : x ∈ ps) :
    x ∈ visited ∨ x ∈ newParents ps visited := by
  unfold newParents
  have key : ∀ (l acc : List String), x ∈ l →
      x ∈ visited ∨ x ∈ l.foldl (fun acc p => if visited.contains p || acc.contains p then acc else acc ++ [p]) acc := by
    intro l
    induction l with
    | nil => intro _ h; cases h
    | cons p t ih =>
      intro acc h
      simp only [List.foldl_cons]
      have mono : ∀ (l acc : List String) (z : String), z ∈ acc →
          z ∈ l.foldl (fun acc p => if visited.contains p || acc.contains p then acc else acc ++ [p]) acc := by
        intro l
        induction l with
        | nil => intro acc z hz; exact hz
        | cons q u ihu =>
          intro acc z hz
          simp only [List.foldl_cons]
          by_cases hc : (visited.contains q || acc.contains q) = true
          · simp only [hc, if_true]; exact ihu acc z hz
          · simp only [hc, Bool.false_eq_true, if_false]; exact ihu _ z (List.mem_append_left _ hz)
      cases h with
      | head =>
        by_cases hv : x ∈ visited
        · exact Or.inl hv
        · right
          by_cases ha : x ∈ acc
          · have hc : (visited.contains x || acc.contains x) = true := by simp [ha]
            simp only [hc, if_true]; exact mono t acc x ha
          · have hc : (visited.contains x || acc.contains x) = false := by simp [hv, ha]
            simp only [hc, Bool.false_eq_true, if_false]
            exact mono t _ x (List.mem_append_right _ (by simp))
      | tail _ ht => exact ih _ ht
  exact key ps [] hx

/-- the invariant of the breadth-first loop -/
structure BfsInv (s : Store) (start : String) (q v : List String) (acc : List Commit) : Prop where
  queue_visited : ∀ x ∈ q, x ∈ v
  visited_split : ∀ x ∈ v, x ∈ q ∨ ∃ c ∈ acc, c.hash = x
  acc_lookup : ∀ c ∈ acc, lookup s c.hash = some c
  acc_visited : ∀ c ∈ acc, c.hash ∈ v
  acc_closed : ∀ c ∈ acc, ∀ p ∈ c.parents, p ∈ v
  sound : ∀ x ∈ v, Reach s start x
  start_visited : start ∈ v

theorem bfs_correct (s : Store) (start : String) :
    ∀ (fuel : Nat) (q v : List String) (acc r : List Commit), BfsInv s start q v acc →
      bfs s fuel q v acc = .ok r →
      (∀ c ∈ r, lookup s c.hash = some c ∧ Reach s start c.hash) ∧
      (∀ x, Reach s start x → ∃ c ∈ r, c.hash = x) := by
  -- what an empty queue gives
  have done : ∀ (v : List String) (acc : List Commit), BfsInv s start [] v acc →
      (∀ c ∈ acc.reverse, lookup s c.hash = some c ∧ Reach s start c.hash) ∧
      (∀ x, Reach s start x → ∃ c ∈ acc.reverse, c.hash = x) := by
    intro v acc inv
    have processed : ∀ x ∈ v, ∃ c ∈ acc, c.hash = x := by
      intro x hx
      rcases inv.visited_split x hx with hq | hp
      · cases hq
      · exact hp
    refine ⟨?_, ?_⟩
    · intro c hc
      have hc' : c ∈ acc := List.mem_reverse.mp hc
      exact ⟨inv.acc_lookup c hc', inv.sound _ (inv.acc_visited c hc')⟩
    · intro x hx
      induction hx with
      | refl =>
        obtain ⟨c, hc, hch⟩ := processed start inv.start_visited
        exact ⟨c, List.mem_reverse.mpr hc, hch⟩
      | step _ e ihr =>
        obtain ⟨d, hd, hdh⟩ := ihr
        obtain ⟨c', hl, hp⟩ := e
        have hd' : d ∈ acc := List.mem_reverse.mp hd
        have hld := inv.acc_lookup d hd'
        rw [hdh, hl] at hld
        injection hld with hcd
        subst hcd
        obtain ⟨c2, hc2, hc2h⟩ := processed _ (inv.acc_closed c' hd' _ hp)
        exact ⟨c2, List.mem_reverse.mpr hc2, hc2h⟩
  intro fuel
  induction fuel with
  | zero =>
    intro q v acc r inv h
    cases q with
    | cons a t => simp [bfs] at h
    | nil =>
      simp only [bfs] at h
      injection h with h
      subst h
      exact done v acc inv
  | succ n ih =>
    intro q v acc r inv h
    cases q with
    | nil =>
      simp only [bfs] at h
      injection h with h
      subst h
      exact done v acc inv
    | cons a t =>
      simp only [bfs] at h
      cases hl : lookup s a with
      | none => simp [hl] at h
      | some c =>
        simp only [hl] at h
        have hca : c.hash = a := lookup_hash hl
        apply ih (t ++ newParents c.parents v) (v ++ newParents c.parents v) (c :: acc) r _ h
        constructor
        · intro x hx
          rcases List.mem_append.mp hx with hx | hx
          · exact List.mem_append_left _ (inv.queue_visited x (List.mem_cons_of_mem _ hx))
          · exact List.mem_append_right _ hx
        · intro x hx
          rcases List.mem_append.mp hx with hx | hx
          · rcases inv.visited_split x hx with hq | ⟨d, hd, hdh⟩
            · cases hq with
              | head => exact Or.inr ⟨c, List.mem_cons_self, hca⟩
              | tail _ ht => exact Or.inl (List.mem_append_left _ ht)
            · exact Or.inr ⟨d, List.mem_cons_of_mem _ hd, hdh⟩
          · exact Or.inl (List.mem_append_right _ hx)
        · intro d hd
          cases hd with
          | head => rw [hca]; exact hl
          | tail _ hd' => exact inv.acc_lookup d hd'
        · intro d hd
          cases hd with
          | head => rw [hca]; exact List.mem_append_left _ (inv.queue_visited a List.mem_cons_self)
          | tail _ hd' => exact List.mem_append_left _ (inv.acc_visited d hd')
        · intro d hd p hp
          cases hd with
          | head =>
            rcases parent_visited (visited := v) hp with h1 | h1
            · exact List.mem_append_left _ h1
            · exact List.mem_append_right _ h1
          | tail _ hd' => exact List.mem_append_left _ (inv.acc_closed d hd' p hp)
        · intro x hx
          rcases List.mem_append.mp hx with hx | hx
          · exact inv.sound x hx
          · have hp := (mem_newParents hx).1
            exact Reach.step (inv.sound a (inv.queue_visited a List.mem_cons_self)) ⟨c, hl, hp⟩
        · exact List.mem_append_left _ inv.start_visited

/-- `reach` (the hashes `ListCommits` returns) is exactly reachability, whenever the collection succeeds -/
theorem mem_reach_iff {s : Store} {h : String} {order : List Commit}
    (hb : bfs s (s.length + 1) [h] [h] [] = .ok order) (x : String) : x ∈ reach s h ↔ Reach s h x := by
  have inv : BfsInv s h [h] [h] [] := by
    constructor
    · intro x hx; exact hx
    · intro x hx; exact Or.inl hx
    · intro c hc; cases hc
    · intro c hc; cases hc
    · intro c hc; cases hc
    · intro x hx
      have : x = h := by simpa using hx
      subst this; exact Reach.refl _
    · simp
  obtain ⟨h1, h2⟩ := bfs_correct s h _ _ _ _ _ inv hb
  unfold reach
  rw [hb]
  constructor
  · intro hx
    obtain ⟨c, hc, rfl⟩ := List.mem_map.mp hx
    exact (h1 c hc).2
  · intro hx
    obtain ⟨c, hc, hch⟩ := h2 x hx
    exact List.mem_map.mpr ⟨c, hc, hch⟩

/-- `reach_trans`: whatever is reachable from something reachable is reachable -/
theorem reach_trans {s : Store} {h x : String} {o1 o2 : List Commit}
    (hb1 : bfs s (s.length + 1) [h] [h] [] = .ok o1) (hb2 : bfs s (s.length + 1) [x] [x] [] = .ok o2)
    (hx : x ∈ reach s h) : ∀ y ∈ reach s x, y ∈ reach s h := by
  intro y hy
  rw [mem_reach_iff hb1]
  exact Reach.trans ((mem_reach_iff hb1 x).mp hx) ((mem_reach_iff hb2 y).mp hy)

theorem lookup_append_other (s : Store) (m : Commit) (b : String) (hne : m.hash ≠ b) :
    lookup (s ++ [m]) b = lookup s b := by
  unfold lookup
  rw [List.find?_append]
  cases hf : s.find? (fun c => c.hash == b) with
  | some v => rfl
  | none =>
    have : (m.hash == b) = false := by simpa using hne
    simp [List.find?_cons, this]

theorem lookup_append_new (s : Store) (m : Commit) (hf : lookup s m.hash = none) :
    lookup (s ++ [m]) m.hash = some m := by
  unfold lookup at hf ⊢
  rw [List.find?_append, hf]
  simp

/-- diverged: the merge commit (a new hash, parents = the two heads) reaches itself and exactly
what the two heads reached -/
theorem merge_reach_diverged (s : Store) (l rh nh mp au : String) (e : Nat) (hfresh : lookup s nh = none) (y : String) :
    Reach (s ++ [mkMergeCommit nh l rh mp au e]) nh y ↔ y = nh ∨ Reach s l y ∨ Reach s rh y := by
  let m := mkMergeCommit nh l rh mp au e
  have hm : m.hash = nh := rfl
  have hnew : lookup (s ++ [m]) nh = some m := by
    have := lookup_append_new s m (by rw [hm]; exact hfresh)
    rwa [hm] at this
  -- edges of the old store survive
  have lift : ∀ a b, Reach s a b → Reach (s ++ [m]) a b := by
    intro a b h
    induction h with
    | refl => exact Reach.refl _
    | @step b' c' _ ed ih =>
      obtain ⟨c, hl, hp⟩ := ed
      refine Reach.step ih ⟨c, ?_, hp⟩
      have hne : m.hash ≠ b' := by
        intro heq
        rw [hm] at heq
        rw [← heq, hfresh] at hl
        cases hl
      rw [lookup_append_other s m b' hne]; exact hl
  constructor
  · intro h
    induction h with
    | refl => exact Or.inl rfl
    | step _ ed ih =>
      obtain ⟨c, hl, hp⟩ := ed
      rcases ih with rfl | hL | hR
      · -- an edge out of the merge commit
        rw [hnew] at hl
        injection hl with hc
        subst hc
        have : _ ∈ [l, rh] := hp
        simp only [List.mem_cons, List.mem_nil_iff, or_false] at this
        rcases this with rfl | rfl
        · exact Or.inr (Or.inl (Reach.refl _))
        · exact Or.inr (Or.inr (Reach.refl _))
      · rename_i b _ _
        by_cases hb : b = nh
        · subst hb
          rw [hnew] at hl
          injection hl with hc
          subst hc
          have : _ ∈ [l, rh] := hp
          simp only [List.mem_cons, List.mem_nil_iff, or_false] at this
          rcases this with rfl | rfl
          · exact Or.inr (Or.inl (Reach.refl _))
          · exact Or.inr (Or.inr (Reach.refl _))
        · rw [lookup_append_other s m b (by rw [hm]; exact fun e => hb e.symm)] at hl
          exact Or.inr (Or.inl (Reach.step hL ⟨c, hl, hp⟩))
      · rename_i b _ _
        by_cases hb : b = nh
        · subst hb
          rw [hnew] at hl
          injection hl with hc
          subst hc
          have : _ ∈ [l, rh] := hp
          simp only [List.mem_cons, List.mem_nil_iff, or_false] at this
          rcases this with rfl | rfl
          · exact Or.inr (Or.inl (Reach.refl _))
          · exact Or.inr (Or.inr (Reach.refl _))
        · rw [lookup_append_other s m b (by rw [hm]; exact fun e => hb e.symm)] at hl
          exact Or.inr (Or.inr (Reach.step hR ⟨c, hl, hp⟩))
  · rintro (rfl | h | h)
    · exact Reach.refl _
    · exact Reach.head ⟨m, hnew, by simp [m, mkMergeCommit]⟩ (lift _ _ h)
    · exact Reach.head ⟨m, hnew, by simp [m, mkMergeCommit]⟩ (lift _ _ h)


end GitBugModel.Dag

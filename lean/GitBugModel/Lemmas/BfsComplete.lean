import GitBugModel.Lemmas.Reach
/-!
The breadth-first collection of `Dag.bfs` never runs out of fuel and never meets a missing commit
when every commit reachable from the start is stored; and it returns every commit once.
-/
namespace GitBugModel.Dag

/-- one iteration keeps the invariant of `bfs_correct` -/
theorem BfsInv.step {s : Store} {start a : String} {t v : List String} {acc : List Commit} {c : Commit}
    (inv : BfsInv s start (a :: t) v acc) (hl : lookup s a = some c) :
    BfsInv s start (t ++ newParents c.parents v) (v ++ newParents c.parents v) (c :: acc) := by
  have hca : c.hash = a := lookup_hash hl
  constructor
  · intro x hx
    rcases List.mem_append.mp hx with hx | hx
    · exact List.mem_append_left _ (inv.queue_visited x (List.mem_cons_of_mem _ hx))
    · exact List.mem_append_right _ hx
  · intro x hx
    rcases List.mem_append.mp hx with hx | hx
    · rcases inv.visited_split x hx with hq | ⟨d, hd, hdh⟩
      · cases hq with
        | head => exact Or.inr ⟨c, List.mem_cons_self, hca⟩
        | tail _ ht => exact Or.inl (List.mem_append_left _ ht)
      · exact Or.inr ⟨d, List.mem_cons_of_mem _ hd, hdh⟩
    · exact Or.inl (List.mem_append_right _ hx)
  · intro d hd
    cases hd with
    | head => rw [hca]; exact hl
    | tail _ hd' => exact inv.acc_lookup d hd'
  · intro d hd
    cases hd with
    | head => rw [hca]; exact List.mem_append_left _ (inv.queue_visited a List.mem_cons_self)
    | tail _ hd' => exact List.mem_append_left _ (inv.acc_visited d hd')
  · intro d hd p hp
    cases hd with
    | head =>
      rcases parent_visited (visited := v) hp with h1 | h1
      · exact List.mem_append_left _ h1
      · exact List.mem_append_right _ h1
    | tail _ hd' => exact List.mem_append_left _ (inv.acc_closed d hd' p hp)
  · intro x hx
    rcases List.mem_append.mp hx with hx | hx
    · exact inv.sound x hx
    · have hp := (mem_newParents hx).1
      exact Reach.step (inv.sound a (inv.queue_visited a List.mem_cons_self)) ⟨c, hl, hp⟩
  · exact List.mem_append_left _ inv.start_visited

/-- the parents newly queued are pairwise different -/
theorem newParents_nodup (ps visited : List String) : (newParents ps visited).Nodup := by
  unfold newParents
  have key : ∀ (l acc : List String), acc.Nodup →
      (l.foldl (fun acc p => if visited.contains p || acc.contains p then acc else acc ++ [p]) acc).Nodup := by
    intro l
    induction l with
    | nil => intro acc h; exact h
    | cons p t ih =>
      intro acc h
      simp only [List.foldl_cons]
      by_cases hc : (visited.contains p || acc.contains p) = true
      · simp only [hc, if_true]; exact ih acc h
      · simp only [hc, Bool.false_eq_true, if_false]
        apply ih
        have hp : p ∉ acc := by
          intro hm
          apply hc
          simp [hm]
        exact List.nodup_append.mpr ⟨h, by simp, by
          intro x hx y hy
          have : y = p := by simpa using hy
          subst this
          intro hxy
          subst hxy
          exact hp hx⟩
  exact key ps [] List.nodup_nil

/-- stored commits whose hash has not been collected yet -/
def unprocessed (s : Store) (done : List String) : Nat := (s.filter (fun c => !done.contains c.hash)).length

theorem unprocessed_lt {s : Store} {done : List String} {c : Commit} (hc : c ∈ s) (hn : c.hash ∉ done) :
    unprocessed s (c.hash :: done) < unprocessed s done := by
  unfold unprocessed
  induction s with
  | nil => cases hc
  | cons d rest ih =>
    have mono : ∀ (l : List Commit), (l.filter (fun x => !(c.hash :: done).contains x.hash)).length ≤
        (l.filter (fun x => !done.contains x.hash)).length := by
      intro l
      induction l with
      | nil => simp
      | cons e l ihl =>
        simp only [List.filter_cons]
        by_cases h1 : (!(c.hash :: done).contains e.hash) = true
        · have h2 : (!done.contains e.hash) = true := by
            simp only [List.contains_cons, Bool.not_or, Bool.and_eq_true] at h1
            exact h1.2
          simp only [h1, h2, if_true, List.length_cons]
          omega
        · simp only [h1, Bool.false_eq_true, if_false]
          by_cases h2 : (!done.contains e.hash) = true
          · simp only [h2, if_true, List.length_cons]; omega
          · simp only [h2, Bool.false_eq_true, if_false]; exact ihl
    rcases List.mem_cons.mp hc with rfl | hr
    · have h1 : (!(c.hash :: done).contains c.hash) = false := by simp
      have h2 : (!done.contains c.hash) = true := by simpa using hn
      simp only [List.filter_cons, h1, h2, Bool.false_eq_true, if_false, if_true, List.length_cons]
      have := mono rest
      omega
    · have := ih hr
      simp only [List.filter_cons]
      by_cases h1 : (!(c.hash :: done).contains d.hash) = true
      · have h2 : (!done.contains d.hash) = true := by
          simp only [List.contains_cons, Bool.not_or, Bool.and_eq_true] at h1
          exact h1.2
        simp only [h1, h2, if_true, List.length_cons]
        omega
      · simp only [h1, Bool.false_eq_true, if_false]
        by_cases h2 : (!done.contains d.hash) = true
        · simp only [h2, if_true, List.length_cons]; omega
        · simp only [h2, Bool.false_eq_true, if_false]; exact this

theorem lookup_mem {s : Store} {h : String} {c : Commit} (hl : lookup s h = some c) : c ∈ s := by
  unfold lookup at hl
  exact List.mem_of_find?_eq_some hl

/-- `bfs_complete`: if every commit reachable from the start is stored, the collection succeeds
with the fuel `read` gives it, and no commit is returned twice. -/
theorem bfs_complete_aux (s : Store) (start : String)
    (hall : ∀ x, Reach s start x → ∃ c, lookup s x = some c) :
    ∀ (fuel : Nat) (q v : List String) (acc : List Commit), BfsInv s start q v acc →
      (q ++ acc.map (·.hash)).Nodup → unprocessed s (acc.map (·.hash)) + 1 ≤ fuel →
      ∃ r, bfs s fuel q v acc = .ok r ∧ (r.map (·.hash)).Nodup := by
  intro fuel
  induction fuel with
  | zero => intro q v acc _ _ hf; omega
  | succ n ih =>
    intro q v acc inv hnd hf
    cases q with
    | nil =>
      refine ⟨acc.reverse, by simp [bfs], ?_⟩
      simp only [List.nil_append] at hnd
      rw [List.map_reverse]
      exact (List.reverse_perm _).symm.nodup hnd
    | cons a t =>
      obtain ⟨c, hl⟩ := hall a (inv.sound a (inv.queue_visited a List.mem_cons_self))
      have hca : c.hash = a := lookup_hash hl
      have hcs : c ∈ s := lookup_mem hl
      have ha_notacc : c.hash ∉ acc.map (·.hash) := by
        rw [hca]
        intro hm
        have := (List.nodup_append.mp hnd).2.2 a List.mem_cons_self a hm
        exact this rfl
      have hlt := unprocessed_lt hcs ha_notacc
      simp only [bfs, hl]
      apply ih _ _ _ (inv.step hl)
      · -- nodup of (t ++ np) ++ (c.hash :: acc hashes)
        have hnp := newParents_nodup c.parents v
        have hnp_v : ∀ x ∈ newParents c.parents v, x ∉ v := fun x hx => (mem_newParents hx).2
        have hold := List.nodup_append.mp hnd
        have ht_nd : t.Nodup := (List.nodup_cons.mp hold.1).2
        have ha_t : a ∉ t := (List.nodup_cons.mp hold.1).1
        simp only [List.map_cons]
        rw [hca]
        apply List.nodup_append.mpr
        refine ⟨?_, ?_, ?_⟩
        · apply List.nodup_append.mpr
          refine ⟨ht_nd, hnp, ?_⟩
          intro x hx y hy hxy
          subst hxy
          exact hnp_v x hy (inv.queue_visited x (List.mem_cons_of_mem _ hx))
        · apply List.nodup_cons.mpr
          exact ⟨by rw [← hca]; exact ha_notacc, hold.2.1⟩
        · intro x hx y hy hxy
          subst hxy
          rcases List.mem_append.mp hx with hx | hx
          · rcases List.mem_cons.mp hy with rfl | hy
            · exact ha_t hx
            · exact hold.2.2 x (List.mem_cons_of_mem _ hx) x hy rfl
          · rcases List.mem_cons.mp hy with rfl | hy
            · exact hnp_v x hx (inv.queue_visited x List.mem_cons_self)
            · obtain ⟨d, hd, hdh⟩ := List.mem_map.mp hy
              exact hnp_v x hx (by rw [← hdh]; exact inv.acc_visited d hd)
      · simp only [List.map_cons]
        omega

theorem bfsInv_init (s : Store) (h : String) : BfsInv s h [h] [h] [] := by
  constructor
  · intro x hx; exact hx
  · intro x hx; exact Or.inl hx
  · intro c hc; cases hc
  · intro c hc; cases hc
  · intro c hc; cases hc
  · intro x hx
    have : x = h := by simpa using hx
    subst this; exact Reach.refl _
  · simp

theorem bfs_complete (s : Store) (h : String) (hall : ∀ x, Reach s h x → ∃ c, lookup s x = some c) :
    ∃ order, bfs s (s.length + 1) [h] [h] [] = .ok order ∧ (order.map (·.hash)).Nodup := by
  apply bfs_complete_aux s h hall _ _ _ _ (bfsInv_init s h)
  · simp
  · unfold unprocessed
    have := List.length_filter_le (fun c : Commit => !(([] : List Commit).map (·.hash)).contains c.hash) s
    simp only [List.map_nil] at this ⊢
    omega

/-- what a successful collection is: exactly the stored commits reachable from the head -/
theorem bfs_spec {s : Store} {h : String} {order : List Commit}
    (hb : bfs s (s.length + 1) [h] [h] [] = .ok order) :
    (∀ c ∈ order, lookup s c.hash = some c ∧ Reach s h c.hash) ∧
    (∀ x, Reach s h x → ∃ c ∈ order, c.hash = x) :=
  bfs_correct s h _ _ _ _ _ (bfsInv_init s h) hb

end GitBugModel.Dag

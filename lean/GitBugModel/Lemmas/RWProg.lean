import GitBugModel.Model.RWProg
import GitBugModel.Lemmas.RWLock
/-!
Every run of safe programs only reaches well-formed configurations (`inv_run`, `inv_wf`), hence
never deadlocks (`run_no_deadlock`).
-/
namespace GitBugModel.RWProg
open GitBugModel.RWLock

@[simp] theorem updF_same {α : Type} (f : Nat → α) (k : Nat) (v : α) : updF f k v k = v := by simp [updF]
theorem updF_other {α : Type} (f : Nat → α) (k x : Nat) (v : α) (h : x ≠ k) : updF f k v x = f x := by simp [updF, h]

structure Inv (s : PState) : Prop where
  safe : ∀ t, s.conf.st t ≠ .done → Safe (s.held t) (s.rest t)
  blockedR : ∀ t m, s.conf.st t = .waitR m → ∃ r, s.rest t = .rlock m :: r
  blockedW : ∀ t m, s.conf.st t = .waitW m → ∃ r, s.rest t = .lock m :: r
  doneHeld : ∀ t, s.conf.st t = .done → s.held t = []
  outside : ∀ t, t ∉ s.conf.tids → s.conf.st t = .done
  readers : ∀ m t, t ∈ (s.conf.mx m).readers ↔ (m, false) ∈ s.held t
  writer : ∀ m t, (s.conf.mx m).writer = some t ↔ (m, true) ∈ s.held t
  heldNodup : ∀ t, (s.held t).Nodup
  readersNodup : ∀ m, (s.conf.mx m).readers.Nodup
  pending : ∀ m t, t ∈ (s.conf.mx m).pending ↔ (t ∈ s.conf.tids ∧ s.conf.st t = .waitW m)
  pendingNodup : ∀ m, (s.conf.mx m).pending.Nodup

/-- what a blocked goroutine holds is below what it asks for -/
theorem held_below (s : PState) (h : Inv s) (t m : Nat) (hreq : request (s.conf.st t) = some m) :
    ∀ x ∈ s.held t, x.1 < m := by
  cases hs : s.conf.st t with
  | running => simp [hs, request] at hreq
  | done => simp [hs, request] at hreq
  | waitR m' =>
    have : m' = m := by simpa [hs, request] using hreq
    subst this
    obtain ⟨r, hr⟩ := h.blockedR t m' hs
    have := h.safe t (by rw [hs]; intro hc; cases hc)
    rw [hr] at this
    exact this.1
  | waitW m' =>
    have : m' = m := by simpa [hs, request] using hreq
    subst this
    obtain ⟨r, hr⟩ := h.blockedW t m' hs
    have := h.safe t (by rw [hs]; intro hc; cases hc)
    rw [hr] at this
    exact this.1

/-- the invariant gives the well-formedness `deadlock_free` asks for -/
theorem inv_wf (s : PState) (h : Inv s) : WF s.conf := by
  have hheld : ∀ m t, t ∈ holders s.conf m → ∃ b, (m, b) ∈ s.held t := by
    intro m t ht
    simp only [holders, List.mem_append, Option.mem_toList] at ht
    rcases ht with ht | ht
    · exact ⟨false, (h.readers m t).mp ht⟩
    · exact ⟨true, (h.writer m t).mp ht⟩
  refine ⟨?_, h.pending, ?_⟩
  · intro m t ht
    obtain ⟨b, hb⟩ := hheld m t ht
    have hnd : s.conf.st t ≠ .done := by
      intro hd
      rw [h.doneHeld t hd] at hb
      cases hb
    refine ⟨?_, hnd⟩
    apply Classical.byContradiction
    intro hnt
    exact hnd (h.outside t hnt)
  · intro t m hreq m' ht
    obtain ⟨b, hb⟩ := hheld m' t ht
    exact held_below s h t m hreq (m', b) hb

theorem safe_not_held (hld : Held) (m : Nat) (b : Bool) (h : ∀ x ∈ hld, x.1 < m) : (m, b) ∉ hld := by
  intro hm
  have := h (m, b) hm
  exact Nat.lt_irrefl _ this

/-! ## the transitions keep the invariant -/

theorem inv_skip (s : PState) (h : Inv s) (t : Nat) (r : List Instr) (hrun : s.conf.st t = .running)
    (hrest : s.rest t = .work :: r) : Inv (skip s t r) := by
  refine { h with safe := ?_, blockedR := ?_, blockedW := ?_ }
  · intro x hx
    by_cases hxt : x = t
    · subst hxt
      have := h.safe x hx
      rw [hrest] at this
      simp only [Safe] at this
      simpa [skip] using this
    · simpa [skip, updF_other _ _ _ _ hxt] using h.safe x hx
  · intro x m hx
    have hxt : x ≠ t := by intro e; subst e; simp only [skip] at hx; rw [hrun] at hx; cases hx
    simpa [skip, updF_other _ _ _ _ hxt] using h.blockedR x m hx
  · intro x m hx
    have hxt : x ≠ t := by intro e; subst e; simp only [skip] at hx; rw [hrun] at hx; cases hx
    simpa [skip, updF_other _ _ _ _ hxt] using h.blockedW x m hx

theorem inv_finish (s : PState) (h : Inv s) (t : Nat) (hrun : s.conf.st t = .running)
    (hrest : s.rest t = []) : Inv (finish s t) := by
  have hheld : s.held t = [] := by
    have := h.safe t (by rw [hrun]; intro hc; cases hc)
    rw [hrest] at this
    exact this
  refine { safe := ?_, blockedR := ?_, blockedW := ?_, doneHeld := ?_, outside := ?_, readers := h.readers, writer := h.writer,
           heldNodup := h.heldNodup, readersNodup := h.readersNodup, pending := ?_, pendingNodup := h.pendingNodup }
  · intro x hx
    by_cases hxt : x = t
    · subst hxt; simp [finish, setSt] at hx
    · simp only [finish, setSt, updF_other _ _ _ _ hxt] at hx
      exact h.safe x hx
  · intro x m hx
    by_cases hxt : x = t
    · subst hxt; simp [finish, setSt] at hx
    · simp only [finish, setSt, updF_other _ _ _ _ hxt] at hx
      exact h.blockedR x m hx
  · intro x m hx
    by_cases hxt : x = t
    · subst hxt; simp [finish, setSt] at hx
    · simp only [finish, setSt, updF_other _ _ _ _ hxt] at hx
      exact h.blockedW x m hx
  · intro x hx
    by_cases hxt : x = t
    · subst hxt; exact hheld
    · simp only [finish, setSt, updF_other _ _ _ _ hxt] at hx
      exact h.doneHeld x hx
  · intro x hx
    by_cases hxt : x = t
    · subst hxt; simp [finish, setSt]
    · simp only [finish, setSt, updF_other _ _ _ _ hxt]
      exact h.outside x hx
  · intro m x
    by_cases hxt : x = t
    · subst hxt
      simp only [finish, setSt, updF_same]
      rw [h.pending m x, hrun]
      constructor
      · rintro ⟨_, hc⟩; cases hc
      · rintro ⟨_, hc⟩; cases hc
    · simp only [finish, setSt, updF_other _ _ _ _ hxt]
      exact h.pending m x

theorem inv_blockR (s : PState) (h : Inv s) (t m : Nat) (r : List Instr) (hrun : s.conf.st t = .running)
    (hrest : s.rest t = .rlock m :: r) : Inv (blockR s t m) := by
  refine { safe := ?_, blockedR := ?_, blockedW := ?_, doneHeld := ?_, outside := ?_, readers := h.readers, writer := h.writer,
           heldNodup := h.heldNodup, readersNodup := h.readersNodup, pending := ?_, pendingNodup := h.pendingNodup }
  · intro x hx
    by_cases hxt : x = t
    · subst hxt; exact h.safe x (by rw [hrun]; intro hc; cases hc)
    · simp only [blockR, setSt, updF_other _ _ _ _ hxt] at hx
      exact h.safe x hx
  · intro x m' hx
    by_cases hxt : x = t
    · subst hxt
      simp only [blockR, setSt, updF_same, Status.waitR.injEq] at hx
      subst hx
      exact ⟨r, hrest⟩
    · simp only [blockR, setSt, updF_other _ _ _ _ hxt] at hx
      exact h.blockedR x m' hx
  · intro x m' hx
    by_cases hxt : x = t
    · subst hxt; simp [blockR, setSt] at hx
    · simp only [blockR, setSt, updF_other _ _ _ _ hxt] at hx
      exact h.blockedW x m' hx
  · intro x hx
    by_cases hxt : x = t
    · subst hxt; simp [blockR, setSt] at hx
    · simp only [blockR, setSt, updF_other _ _ _ _ hxt] at hx
      exact h.doneHeld x hx
  · intro x hx
    have hxd := h.outside x hx
    by_cases hxt : x = t
    · subst hxt; rw [hrun] at hxd; cases hxd
    · simp only [blockR, setSt, updF_other _ _ _ _ hxt]; exact hxd
  · intro m' x
    by_cases hxt : x = t
    · subst hxt
      simp only [blockR, setSt, updF_same]
      rw [h.pending m' x, hrun]
      constructor
      · rintro ⟨_, hc⟩; cases hc
      · rintro ⟨_, hc⟩; cases hc
    · simp only [blockR, setSt, updF_other _ _ _ _ hxt]
      exact h.pending m' x

theorem inv_blockW (s : PState) (h : Inv s) (t m : Nat) (r : List Instr) (ht : t ∈ s.conf.tids)
    (hrun : s.conf.st t = .running) (hrest : s.rest t = .lock m :: r) : Inv (blockW s t m) := by
  have hnotpend : ∀ m', t ∉ (s.conf.mx m').pending := by
    intro m' hp
    have := ((h.pending m' t).mp hp).2
    rw [hrun] at this; cases this
  refine { safe := ?_, blockedR := ?_, blockedW := ?_, doneHeld := ?_, outside := ?_, readers := ?_, writer := ?_,
           heldNodup := h.heldNodup, readersNodup := ?_, pending := ?_, pendingNodup := ?_ }
  · intro x hx
    by_cases hxt : x = t
    · subst hxt; exact h.safe x (by rw [hrun]; intro hc; cases hc)
    · simp only [blockW, setSt, setMx, updF_other _ _ _ _ hxt] at hx
      exact h.safe x hx
  · intro x m' hx
    by_cases hxt : x = t
    · subst hxt; simp [blockW, setSt, setMx] at hx
    · simp only [blockW, setSt, setMx, updF_other _ _ _ _ hxt] at hx
      exact h.blockedR x m' hx
  · intro x m' hx
    by_cases hxt : x = t
    · subst hxt
      simp only [blockW, setSt, setMx, updF_same, Status.waitW.injEq] at hx
      subst hx
      exact ⟨r, hrest⟩
    · simp only [blockW, setSt, setMx, updF_other _ _ _ _ hxt] at hx
      exact h.blockedW x m' hx
  · intro x hx
    by_cases hxt : x = t
    · subst hxt; simp [blockW, setSt, setMx] at hx
    · simp only [blockW, setSt, setMx, updF_other _ _ _ _ hxt] at hx
      exact h.doneHeld x hx
  · intro x hx
    have hxt : x ≠ t := by intro e; subst e; exact hx ht
    simp only [blockW, setSt, setMx, updF_other _ _ _ _ hxt]
    exact h.outside x hx
  · intro m' x
    by_cases hm : m' = m
    · subst hm; simp only [blockW, setSt, setMx, updF_same]; exact h.readers m' x
    · simp only [blockW, setSt, setMx, updF_other _ _ _ _ hm]; exact h.readers m' x
  · intro m' x
    by_cases hm : m' = m
    · subst hm; simp only [blockW, setSt, setMx, updF_same]; exact h.writer m' x
    · simp only [blockW, setSt, setMx, updF_other _ _ _ _ hm]; exact h.writer m' x
  · intro m'
    by_cases hm : m' = m
    · subst hm; simp only [blockW, setSt, setMx, updF_same]; exact h.readersNodup m'
    · simp only [blockW, setSt, setMx, updF_other _ _ _ _ hm]; exact h.readersNodup m'
  · intro m' x
    by_cases hm : m' = m
    · subst hm
      simp only [blockW, setSt, setMx, updF_same, List.mem_append, List.mem_singleton]
      by_cases hxt : x = t
      · subst hxt; simp [ht]
      · simp only [updF_other _ _ _ _ hxt, hxt, or_false]
        exact h.pending m' x
    · simp only [blockW, setSt, setMx, updF_other _ _ _ _ hm]
      by_cases hxt : x = t
      · subst hxt
        simp only [updF_same, Status.waitW.injEq]
        constructor
        · intro hp; exact absurd hp (hnotpend m')
        · rintro ⟨_, he⟩; exact absurd he.symm hm
      · simp only [updF_other _ _ _ _ hxt]; exact h.pending m' x
  · intro m'
    by_cases hm : m' = m
    · subst hm
      simp only [blockW, setSt, setMx, updF_same]
      rw [List.nodup_append]
      refine ⟨h.pendingNodup m', by simp, ?_⟩
      intro a ha b hb
      simp only [List.mem_singleton] at hb
      subst hb
      intro e; subst e
      exact hnotpend m' ha
    · simp only [blockW, setSt, setMx, updF_other _ _ _ _ hm]; exact h.pendingNodup m'

theorem inv_grantR (s : PState) (h : Inv s) (t m : Nat) (r : List Instr) (ht : t ∈ s.conf.tids)
    (hst : s.conf.st t = .running ∨ s.conf.st t = .waitR m) (hrest : s.rest t = .rlock m :: r) :
    Inv (grantR s t m r) := by
  have hnd : s.conf.st t ≠ .done := by rcases hst with e | e <;> rw [e] <;> intro hc <;> cases hc
  have hsafe := h.safe t hnd
  rw [hrest] at hsafe
  have hfresh : ∀ b, (m, b) ∉ s.held t := fun b => safe_not_held _ m b hsafe.1
  have hnotpend : ∀ m', t ∉ (s.conf.mx m').pending := by
    intro m' hp
    have := ((h.pending m' t).mp hp).2
    rcases hst with e | e <;> rw [e] at this <;> cases this
  refine { safe := ?_, blockedR := ?_, blockedW := ?_, doneHeld := ?_, outside := ?_, readers := ?_, writer := ?_,
           heldNodup := ?_, readersNodup := ?_, pending := ?_, pendingNodup := ?_ }
  · intro x hx
    by_cases hxt : x = t
    · subst hxt; simpa [grantR] using hsafe.2
    · simp only [grantR, setSt, setMx, updF_other _ _ _ _ hxt] at hx ⊢
      exact h.safe x hx
  · intro x m' hx
    by_cases hxt : x = t
    · subst hxt; simp [grantR, setSt, setMx] at hx
    · simp only [grantR, setSt, setMx, updF_other _ _ _ _ hxt] at hx ⊢
      exact h.blockedR x m' hx
  · intro x m' hx
    by_cases hxt : x = t
    · subst hxt; simp [grantR, setSt, setMx] at hx
    · simp only [grantR, setSt, setMx, updF_other _ _ _ _ hxt] at hx ⊢
      exact h.blockedW x m' hx
  · intro x hx
    by_cases hxt : x = t
    · subst hxt; simp [grantR, setSt, setMx] at hx
    · simp only [grantR, setSt, setMx, updF_other _ _ _ _ hxt] at hx ⊢
      exact h.doneHeld x hx
  · intro x hx
    have hxt : x ≠ t := by intro e; subst e; exact hx ht
    simp only [grantR, setSt, setMx, updF_other _ _ _ _ hxt]
    exact h.outside x hx
  · intro m' x
    by_cases hm : m' = m
    · subst hm
      by_cases hxt : x = t
      · subst hxt; simp [grantR, setSt, setMx]
      · simp only [grantR, setSt, setMx, updF_same, updF_other _ _ _ _ hxt, List.mem_cons, hxt, false_or]
        exact h.readers m' x
    · by_cases hxt : x = t
      · subst hxt
        simp only [grantR, setSt, setMx, updF_other _ _ _ _ hm, updF_same, List.mem_cons, Prod.mk.injEq, hm, false_and, false_or]
        exact h.readers m' x
      · simp only [grantR, setSt, setMx, updF_other _ _ _ _ hm, updF_other _ _ _ _ hxt]
        exact h.readers m' x
  · intro m' x
    have hw : ((grantR s t m r).conf.mx m').writer = (s.conf.mx m').writer := by
      by_cases hm : m' = m
      · subst hm; simp [grantR, setSt, setMx]
      · simp [grantR, setSt, setMx, updF_other _ _ _ _ hm]
    rw [hw]
    by_cases hxt : x = t
    · subst hxt
      simp only [grantR, updF_same, List.mem_cons, Prod.mk.injEq, Bool.true_eq_false, and_false, false_or]
      exact h.writer m' x
    · simp only [grantR, updF_other _ _ _ _ hxt]
      exact h.writer m' x
  · intro x
    by_cases hxt : x = t
    · subst hxt
      simp only [grantR, updF_same]
      exact List.nodup_cons.mpr ⟨hfresh false, h.heldNodup x⟩
    · simp only [grantR, updF_other _ _ _ _ hxt]; exact h.heldNodup x
  · intro m'
    by_cases hm : m' = m
    · subst hm
      simp only [grantR, setSt, setMx, updF_same]
      refine List.nodup_cons.mpr ⟨?_, h.readersNodup m'⟩
      intro hin
      exact hfresh false ((h.readers m' t).mp hin)
    · simp only [grantR, setSt, setMx, updF_other _ _ _ _ hm]; exact h.readersNodup m'
  · intro m' x
    have hp : ((grantR s t m r).conf.mx m').pending = (s.conf.mx m').pending := by
      by_cases hm : m' = m
      · subst hm; simp [grantR, setSt, setMx]
      · simp [grantR, setSt, setMx, updF_other _ _ _ _ hm]
    rw [hp]
    by_cases hxt : x = t
    · subst hxt
      simp only [grantR, setSt, setMx, updF_same]
      constructor
      · intro hin; exact absurd hin (hnotpend m')
      · rintro ⟨_, hc⟩; cases hc
    · simp only [grantR, setSt, setMx, updF_other _ _ _ _ hxt]
      exact h.pending m' x
  · intro m'
    by_cases hm : m' = m
    · subst hm; simp only [grantR, setSt, setMx, updF_same]; exact h.pendingNodup m'
    · simp only [grantR, setSt, setMx, updF_other _ _ _ _ hm]; exact h.pendingNodup m'

theorem inv_grantW (s : PState) (h : Inv s) (t m : Nat) (r : List Instr) (ht : t ∈ s.conf.tids)
    (hst : s.conf.st t = .running ∨ s.conf.st t = .waitW m) (hrest : s.rest t = .lock m :: r)
    (hfree : (s.conf.mx m).writer = none)
    (hq : (s.conf.mx m).pending = [] ∨ ∃ q, (s.conf.mx m).pending = t :: q) :
    Inv (grantW s t m r) := by
  have hnd : s.conf.st t ≠ .done := by rcases hst with e | e <;> rw [e] <;> intro hc <;> cases hc
  have hsafe := h.safe t hnd
  rw [hrest] at hsafe
  have hfresh : ∀ b, (m, b) ∉ s.held t := fun b => safe_not_held _ m b hsafe.1
  have hnotpend : ∀ m', m' ≠ m → t ∉ (s.conf.mx m').pending := by
    intro m' hm hp
    have := ((h.pending m' t).mp hp).2
    rcases hst with e | e
    · rw [e] at this; cases this
    · rw [e] at this; injection this with e'; exact hm e'.symm
  -- the queue's tail: everybody but `t`
  have htail : ∀ x, x ≠ t → (x ∈ (s.conf.mx m).pending.tail ↔ x ∈ (s.conf.mx m).pending) := by
    intro x hxt
    rcases hq with e | ⟨q, e⟩
    · rw [e]; simp
    · rw [e]; simp [hxt]
  have htnot : t ∉ (s.conf.mx m).pending.tail := by
    rcases hq with e | ⟨q, e⟩
    · rw [e]; simp
    · have := h.pendingNodup m
      rw [e] at this ⊢
      exact (List.nodup_cons.mp this).1
  refine { safe := ?_, blockedR := ?_, blockedW := ?_, doneHeld := ?_, outside := ?_, readers := ?_, writer := ?_,
           heldNodup := ?_, readersNodup := ?_, pending := ?_, pendingNodup := ?_ }
  · intro x hx
    by_cases hxt : x = t
    · subst hxt; simpa [grantW] using hsafe.2
    · simp only [grantW, setSt, setMx, updF_other _ _ _ _ hxt] at hx ⊢
      exact h.safe x hx
  · intro x m' hx
    by_cases hxt : x = t
    · subst hxt; simp [grantW, setSt, setMx] at hx
    · simp only [grantW, setSt, setMx, updF_other _ _ _ _ hxt] at hx ⊢
      exact h.blockedR x m' hx
  · intro x m' hx
    by_cases hxt : x = t
    · subst hxt; simp [grantW, setSt, setMx] at hx
    · simp only [grantW, setSt, setMx, updF_other _ _ _ _ hxt] at hx ⊢
      exact h.blockedW x m' hx
  · intro x hx
    by_cases hxt : x = t
    · subst hxt; simp [grantW, setSt, setMx] at hx
    · simp only [grantW, setSt, setMx, updF_other _ _ _ _ hxt] at hx ⊢
      exact h.doneHeld x hx
  · intro x hx
    have hxt : x ≠ t := by intro e; subst e; exact hx ht
    simp only [grantW, setSt, setMx, updF_other _ _ _ _ hxt]
    exact h.outside x hx
  · intro m' x
    have hrd : ((grantW s t m r).conf.mx m').readers = (s.conf.mx m').readers := by
      by_cases hm : m' = m
      · subst hm; simp [grantW, setSt, setMx]
      · simp [grantW, setSt, setMx, updF_other _ _ _ _ hm]
    rw [hrd]
    by_cases hxt : x = t
    · subst hxt
      simp only [grantW, updF_same, List.mem_cons, Prod.mk.injEq, Bool.false_eq_true, and_false, false_or]
      exact h.readers m' x
    · simp only [grantW, updF_other _ _ _ _ hxt]
      exact h.readers m' x
  · intro m' x
    by_cases hm : m' = m
    · subst hm
      by_cases hxt : x = t
      · subst hxt; simp [grantW, setSt, setMx]
      · simp only [grantW, setSt, setMx, updF_same, updF_other _ _ _ _ hxt, Option.some.injEq]
        constructor
        · intro e; exact absurd e.symm hxt
        · intro hin
          have := (h.writer m' x).mpr hin
          rw [hfree] at this; cases this
    · by_cases hxt : x = t
      · subst hxt
        simp only [grantW, setSt, setMx, updF_other _ _ _ _ hm, updF_same, List.mem_cons, Prod.mk.injEq, hm, false_and, false_or]
        exact h.writer m' x
      · simp only [grantW, setSt, setMx, updF_other _ _ _ _ hm, updF_other _ _ _ _ hxt]
        exact h.writer m' x
  · intro x
    by_cases hxt : x = t
    · subst hxt
      simp only [grantW, updF_same]
      exact List.nodup_cons.mpr ⟨hfresh true, h.heldNodup x⟩
    · simp only [grantW, updF_other _ _ _ _ hxt]; exact h.heldNodup x
  · intro m'
    by_cases hm : m' = m
    · subst hm; simp only [grantW, setSt, setMx, updF_same]; exact h.readersNodup m'
    · simp only [grantW, setSt, setMx, updF_other _ _ _ _ hm]; exact h.readersNodup m'
  · intro m' x
    by_cases hm : m' = m
    · subst hm
      by_cases hxt : x = t
      · subst hxt
        simp only [grantW, setSt, setMx, updF_same]
        constructor
        · intro hin; exact absurd hin htnot
        · rintro ⟨_, hc⟩; cases hc
      · simp only [grantW, setSt, setMx, updF_same, updF_other _ _ _ _ hxt]
        rw [htail x hxt]
        exact h.pending m' x
    · by_cases hxt : x = t
      · subst hxt
        simp only [grantW, setSt, setMx, updF_other _ _ _ _ hm, updF_same]
        constructor
        · intro hin; exact absurd hin (hnotpend m' hm)
        · rintro ⟨_, hc⟩; cases hc
      · simp only [grantW, setSt, setMx, updF_other _ _ _ _ hm, updF_other _ _ _ _ hxt]
        exact h.pending m' x
  · intro m'
    by_cases hm : m' = m
    · subst hm
      simp only [grantW, setSt, setMx, updF_same]
      have := h.pendingNodup m'
      cases hpq : (s.conf.mx m').pending with
      | nil => simp
      | cons a q => rw [hpq] at this; exact (List.nodup_cons.mp this).2
    · simp only [grantW, setSt, setMx, updF_other _ _ _ _ hm]; exact h.pendingNodup m'

theorem inv_relR (s : PState) (h : Inv s) (t m : Nat) (r : List Instr)
    (hrun : s.conf.st t = .running) (hrest : s.rest t = .runlock m :: r) : Inv (relR s t m r) := by
  have hsafe := h.safe t (by rw [hrun]; intro hc; cases hc)
  rw [hrest] at hsafe
  refine { safe := ?_, blockedR := ?_, blockedW := ?_, doneHeld := ?_, outside := ?_, readers := ?_, writer := ?_,
           heldNodup := ?_, readersNodup := ?_, pending := ?_, pendingNodup := ?_ }
  · intro x hx
    by_cases hxt : x = t
    · subst hxt; simpa [relR] using hsafe.2
    · simp only [relR, setMx, updF_other _ _ _ _ hxt] at hx ⊢
      exact h.safe x hx
  · intro x m' hx
    have hxt : x ≠ t := by intro e; subst e; simp only [relR, setMx] at hx; rw [hrun] at hx; cases hx
    simp only [relR, setMx, updF_other _ _ _ _ hxt] at hx ⊢
    exact h.blockedR x m' hx
  · intro x m' hx
    have hxt : x ≠ t := by intro e; subst e; simp only [relR, setMx] at hx; rw [hrun] at hx; cases hx
    simp only [relR, setMx, updF_other _ _ _ _ hxt] at hx ⊢
    exact h.blockedW x m' hx
  · intro x hx
    have hxt : x ≠ t := by intro e; subst e; simp only [relR, setMx] at hx; rw [hrun] at hx; cases hx
    simp only [relR, setMx, updF_other _ _ _ _ hxt] at hx ⊢
    exact h.doneHeld x hx
  · intro x hx; exact h.outside x hx
  · intro m' x
    by_cases hm : m' = m
    · subst hm
      by_cases hxt : x = t
      · subst hxt
        simp only [relR, setMx, updF_same]
        constructor
        · intro hin; exact absurd hin (h.readersNodup m').not_mem_erase
        · intro hin; exact absurd hin (h.heldNodup x).not_mem_erase
      · simp only [relR, setMx, updF_same, updF_other _ _ _ _ hxt]
        rw [List.mem_erase_of_ne hxt]
        exact h.readers m' x
    · by_cases hxt : x = t
      · subst hxt
        simp only [relR, setMx, updF_other _ _ _ _ hm, updF_same]
        rw [List.mem_erase_of_ne (by intro e; injection e with e1 _; exact hm e1)]
        exact h.readers m' x
      · simp only [relR, setMx, updF_other _ _ _ _ hm, updF_other _ _ _ _ hxt]
        exact h.readers m' x
  · intro m' x
    have hw : ((relR s t m r).conf.mx m').writer = (s.conf.mx m').writer := by
      by_cases hm : m' = m
      · subst hm; simp [relR, setMx]
      · simp [relR, setMx, updF_other _ _ _ _ hm]
    rw [hw]
    by_cases hxt : x = t
    · subst hxt
      simp only [relR, updF_same]
      rw [List.mem_erase_of_ne (by intro e; injection e with _ e2; cases e2)]
      exact h.writer m' x
    · simp only [relR, updF_other _ _ _ _ hxt]
      exact h.writer m' x
  · intro x
    by_cases hxt : x = t
    · subst hxt; simp only [relR, updF_same]; exact (h.heldNodup x).erase _
    · simp only [relR, updF_other _ _ _ _ hxt]; exact h.heldNodup x
  · intro m'
    by_cases hm : m' = m
    · subst hm; simp only [relR, setMx, updF_same]; exact (h.readersNodup m').erase _
    · simp only [relR, setMx, updF_other _ _ _ _ hm]; exact h.readersNodup m'
  · intro m' x
    have hp : ((relR s t m r).conf.mx m').pending = (s.conf.mx m').pending := by
      by_cases hm : m' = m
      · subst hm; simp [relR, setMx]
      · simp [relR, setMx, updF_other _ _ _ _ hm]
    rw [hp]
    exact h.pending m' x
  · intro m'
    by_cases hm : m' = m
    · subst hm; simp only [relR, setMx, updF_same]; exact h.pendingNodup m'
    · simp only [relR, setMx, updF_other _ _ _ _ hm]; exact h.pendingNodup m'

theorem inv_relW (s : PState) (h : Inv s) (t m : Nat) (r : List Instr)
    (hrun : s.conf.st t = .running) (hrest : s.rest t = .unlock m :: r) : Inv (relW s t m r) := by
  have hsafe := h.safe t (by rw [hrun]; intro hc; cases hc)
  rw [hrest] at hsafe
  have hwr : (s.conf.mx m).writer = some t := (h.writer m t).mpr hsafe.1
  refine { safe := ?_, blockedR := ?_, blockedW := ?_, doneHeld := ?_, outside := ?_, readers := ?_, writer := ?_,
           heldNodup := ?_, readersNodup := ?_, pending := ?_, pendingNodup := ?_ }
  · intro x hx
    by_cases hxt : x = t
    · subst hxt; simpa [relW] using hsafe.2
    · simp only [relW, setMx, updF_other _ _ _ _ hxt] at hx ⊢
      exact h.safe x hx
  · intro x m' hx
    have hxt : x ≠ t := by intro e; subst e; simp only [relW, setMx] at hx; rw [hrun] at hx; cases hx
    simp only [relW, setMx, updF_other _ _ _ _ hxt] at hx ⊢
    exact h.blockedR x m' hx
  · intro x m' hx
    have hxt : x ≠ t := by intro e; subst e; simp only [relW, setMx] at hx; rw [hrun] at hx; cases hx
    simp only [relW, setMx, updF_other _ _ _ _ hxt] at hx ⊢
    exact h.blockedW x m' hx
  · intro x hx
    have hxt : x ≠ t := by intro e; subst e; simp only [relW, setMx] at hx; rw [hrun] at hx; cases hx
    simp only [relW, setMx, updF_other _ _ _ _ hxt] at hx ⊢
    exact h.doneHeld x hx
  · intro x hx; exact h.outside x hx
  · intro m' x
    have hrd : ((relW s t m r).conf.mx m').readers = (s.conf.mx m').readers := by
      by_cases hm : m' = m
      · subst hm; simp [relW, setMx]
      · simp [relW, setMx, updF_other _ _ _ _ hm]
    rw [hrd]
    by_cases hxt : x = t
    · subst hxt
      simp only [relW, updF_same]
      rw [List.mem_erase_of_ne (by intro e; injection e with _ e2; cases e2)]
      exact h.readers m' x
    · simp only [relW, updF_other _ _ _ _ hxt]
      exact h.readers m' x
  · intro m' x
    by_cases hm : m' = m
    · subst hm
      by_cases hxt : x = t
      · subst hxt
        simp only [relW, setMx, updF_same]
        constructor
        · intro hc; cases hc
        · intro hin; exact absurd hin (h.heldNodup x).not_mem_erase
      · simp only [relW, setMx, updF_same, updF_other _ _ _ _ hxt]
        constructor
        · intro hc; cases hc
        · intro hin
          have := (h.writer m' x).mpr hin
          rw [hwr] at this
          injection this with e
          exact absurd e.symm hxt
    · by_cases hxt : x = t
      · subst hxt
        simp only [relW, setMx, updF_other _ _ _ _ hm, updF_same]
        rw [List.mem_erase_of_ne (by intro e; injection e with e1 _; exact hm e1)]
        exact h.writer m' x
      · simp only [relW, setMx, updF_other _ _ _ _ hm, updF_other _ _ _ _ hxt]
        exact h.writer m' x
  · intro x
    by_cases hxt : x = t
    · subst hxt; simp only [relW, updF_same]; exact (h.heldNodup x).erase _
    · simp only [relW, updF_other _ _ _ _ hxt]; exact h.heldNodup x
  · intro m'
    by_cases hm : m' = m
    · subst hm; simp only [relW, setMx, updF_same]; exact h.readersNodup m'
    · simp only [relW, setMx, updF_other _ _ _ _ hm]; exact h.readersNodup m'
  · intro m' x
    have hp : ((relW s t m r).conf.mx m').pending = (s.conf.mx m').pending := by
      by_cases hm : m' = m
      · subst hm; simp [relW, setMx]
      · simp [relW, setMx, updF_other _ _ _ _ hm]
    rw [hp]
    exact h.pending m' x
  · intro m'
    by_cases hm : m' = m
    · subst hm; simp only [relW, setMx, updF_same]; exact h.pendingNodup m'
    · simp only [relW, setMx, updF_other _ _ _ _ hm]; exact h.pendingNodup m'

/-- one step of an enabled goroutine keeps the invariant -/
theorem inv_pstep (s : PState) (h : Inv s) (t : Nat) (ht : t ∈ s.conf.tids) (he : enabled s.conf t = true) :
    Inv (pstep s t) := by
  unfold pstep
  cases hs : s.conf.st t with
  | done => simpa [hs] using h
  | waitR m =>
    simp only [hs]
    obtain ⟨r, hr⟩ := h.blockedR t m hs
    rw [hr]
    exact inv_grantR s h t m r ht (Or.inr hs) hr
  | waitW m =>
    simp only [hs]
    obtain ⟨r, hr⟩ := h.blockedW t m hs
    rw [hr]
    simp only [enabled, hs, Bool.and_eq_true, Option.isNone_iff_eq_none, List.isEmpty_iff, beq_iff_eq] at he
    obtain ⟨⟨hw, _⟩, hhead⟩ := he
    refine inv_grantW s h t m r ht (Or.inr hs) hr hw ?_
    cases hp : (s.conf.mx m).pending with
    | nil => exact Or.inl rfl
    | cons a q =>
      rw [hp] at hhead
      simp only [List.head?_cons, Option.some.injEq] at hhead
      subst hhead
      exact Or.inr ⟨q, rfl⟩
  | running =>
    simp only [hs]
    cases hr : s.rest t with
    | nil => exact inv_finish s h t hs hr
    | cons i r =>
      cases i with
      | work => exact inv_skip s h t r hs hr
      | rlock m =>
        simp only
        split
        · exact inv_grantR s h t m r ht (Or.inl hs) hr
        · exact inv_blockR s h t m r hs hr
      | lock m =>
        simp only
        split
        · rename_i hc
          simp only [Bool.and_eq_true, Option.isNone_iff_eq_none, List.isEmpty_iff] at hc
          exact inv_grantW s h t m r ht (Or.inl hs) hr hc.1.1 (Or.inl hc.2)
        · exact inv_blockW s h t m r ht hs hr
      | runlock m => exact inv_relR s h t m r hs hr
      | unlock m => exact inv_relW s h t m r hs hr

theorem inv_run (s : PState) (h : Inv s) (sched : List Nat) : Inv (run s sched) := by
  induction sched generalizing s with
  | nil => exact h
  | cons t ts ih =>
    simp only [run]
    split
    · rename_i hc; exact ih _ (inv_pstep s h t hc.1 hc.2)
    · exact ih _ h

theorem inv_init (progs : List (List Instr)) (hsafe : ∀ p ∈ progs, Safe [] p) : Inv (init progs) := by
  refine { safe := ?_, blockedR := ?_, blockedW := ?_, doneHeld := ?_, outside := ?_, readers := ?_, writer := ?_,
           heldNodup := ?_, readersNodup := ?_, pending := ?_, pendingNodup := ?_ }
  · intro t ht
    simp only [init] at ht ⊢
    by_cases hlt : t < progs.length
    · have hg : progs.getD t [] = progs[t] := by simp [List.getD, List.getElem?_eq_getElem hlt]
      rw [hg]
      exact hsafe _ (List.getElem_mem hlt)
    · simp [hlt] at ht
  · intro t m ht; simp only [init] at ht; split at ht <;> cases ht
  · intro t m ht; simp only [init] at ht; split at ht <;> cases ht
  · intro t _; rfl
  · intro t ht
    simp only [init, List.mem_range] at ht ⊢
    simp [ht]
  · intro m t; simp [init]
  · intro m t; simp [init]
  · intro t; simp [init]
  · intro m; simp [init]
  · intro m t
    simp only [init, List.mem_range]
    constructor
    · intro hc; simp at hc
    · rintro ⟨hlt, hc⟩; simp [hlt] at hc
  · intro m; simp [init]

end GitBugModel.RWProg

import GitBugModel.Model.Ids
import GitBugModel.Gen.Interleave
/-!
# C13 — id prefixes and combined comment ids resolve to exactly the right target
-/
namespace GitBugModel.Props.C13
open GitBugModel.Ids

/-! ## resolution by prefix: found / multiple / not-found are exactly the three cases -/

theorem resolve_found_iff (ids : List (List Char)) (pre x : List Char) :
    resolve ids pre = .found x ↔ ids.filter (hasPrefix pre) = [x] := by
  unfold resolve
  split
  · rename_i h; simp [h]
  · rename_i y h; simp [h]
  · rename_i h1 h2; simp only [reduceCtorEq, false_iff]; intro h; exact h2 x h

theorem resolve_notFound_iff (ids : List (List Char)) (pre : List Char) :
    resolve ids pre = .notFound ↔ ids.filter (hasPrefix pre) = [] := by
  unfold resolve
  split
  · rename_i h; simp [h]
  · rename_i y h; simp [h]
  · rename_i h1 h2; simp only [reduceCtorEq, false_iff]; exact h1

theorem resolve_multiple_iff (ids : List (List Char)) (pre : List Char) (ms : List (List Char)) :
    resolve ids pre = .multiple ms ↔ (ids.filter (hasPrefix pre) = ms ∧ 2 ≤ ms.length) := by
  unfold resolve
  split
  · rename_i h; simp [h]; intro h2; subst h2; simp
  · rename_i x h; simp [h]; intro h2; subst h2; simp
  · rename_i h1 h2
    simp only [Res.multiple.injEq]
    constructor
    · intro h; subst h
      refine ⟨rfl, ?_⟩
      match hm : List.filter (hasPrefix pre) ids with
      | [] => exact absurd hm h1
      | [x] => exact absurd hm (h2 x)
      | _ :: _ :: _ => simp
    · intro h; exact h.1

/-- `resolve_spec`: the entity is returned exactly when it is the only one whose id starts
with the prefix; a multiple-match error lists exactly the matching ids; not-found exactly
when none matches.  (For ids without duplicates.) -/
theorem resolve_spec (ids : List (List Char)) (pre : List Char) :
    (∀ x, resolve ids pre = .found x → x ∈ ids ∧ hasPrefix pre x = true ∧
        ∀ y ∈ ids, hasPrefix pre y = true → y = x) ∧
    (∀ ms, resolve ids pre = .multiple ms → ∀ y, y ∈ ms ↔ (y ∈ ids ∧ hasPrefix pre y = true)) ∧
    (resolve ids pre = .notFound → ∀ y ∈ ids, hasPrefix pre y = false) := by
  refine ⟨?_, ?_, ?_⟩
  · intro x h
    rw [resolve_found_iff] at h
    have hx : x ∈ ids.filter (hasPrefix pre) := by rw [h]; simp
    rw [List.mem_filter] at hx
    refine ⟨hx.1, hx.2, ?_⟩
    intro y hy hp
    have : y ∈ ids.filter (hasPrefix pre) := List.mem_filter.mpr ⟨hy, hp⟩
    rw [h] at this
    simpa using this
  · intro ms h y
    rw [resolve_multiple_iff] at h
    rw [← h.1, List.mem_filter]
  · intro h y hy
    rw [resolve_notFound_iff] at h
    cases hp : hasPrefix pre y with
    | false => rfl
    | true =>
      have : y ∈ ids.filter (hasPrefix pre) := List.mem_filter.mpr ⟨hy, hp⟩
      rw [h] at this
      cases this

/-- The full id always resolves to itself when ids are pairwise distinct. -/
theorem resolve_full_id (ids : List (List Char)) (x : List Char) (hx : x ∈ ids) (hnd : ids.Nodup)
    (hlen : ∀ y ∈ ids, y.length = x.length) : resolve ids x = .found x := by
  rw [resolve_found_iff]
  induction ids with
  | nil => cases hx
  | cons a t ih =>
    rw [List.nodup_cons] at hnd
    have hpre : ∀ y, y.length = x.length → (hasPrefix x y = true ↔ y = x) := by
      intro y hl
      unfold hasPrefix
      rw [List.isPrefixOf_iff_prefix]
      constructor
      · intro hp; exact (List.IsPrefix.eq_of_length hp hl.symm).symm
      · intro h; subst h; exact List.prefix_refl _
    by_cases hax : a = x
    · subst hax
      have : t.filter (hasPrefix a) = [] := by
        rw [List.filter_eq_nil_iff]
        intro y hy hp
        have := (hpre y (hlen y (List.mem_cons_of_mem _ hy))).mp hp
        subst this
        exact hnd.1 hy
      simp [(hpre a rfl).mpr rfl, this]
    · have hxt : x ∈ t := by
        cases hx with
        | head => exact absurd rfl hax
        | tail _ h => exact h
      have hna : hasPrefix x a = false := by
        cases h : hasPrefix x a with
        | false => rfl
        | true => exact absurd ((hpre a (hlen a (List.mem_cons_self))).mp h) hax
      simp only [List.filter_cons, hna]
      exact ih hxt hnd.2 (fun y hy => hlen y (List.mem_cons_of_mem _ hy))

/-! ## the interleaving: every prefix of a combined id splits into a prefix of each part -/

theorem countMask_add (m : Nat → Bool) : ∀ n i, countMask m false n i + countMask m true n i = n := by
  intro n
  induction n with
  | zero => intro i; rfl
  | succ n ih =>
    intro i
    have := ih (i+1)
    unfold countMask
    cases m i <;> simp <;> omega

theorem combineFrom_length (m : Nat → Bool) :
    ∀ fuel i p s out, combineFrom m fuel i p s = some out → out.length = fuel := by
  intro fuel
  induction fuel with
  | zero => intro i p s out h; simp [combineFrom] at h; simp [h]
  | succ fuel ih =>
    intro i p s out h
    unfold combineFrom at h
    split at h
    · split at h
      · cases h
      · rename_i c s'
        cases hr : combineFrom m fuel (i+1) p s' with
        | none => simp [hr] at h
        | some o => simp [hr] at h; subst h; simp [ih _ _ _ _ hr]
    · split at h
      · cases h
      · rename_i c p'
        cases hr : combineFrom m fuel (i+1) p' s with
        | none => simp [hr] at h
        | some o => simp [hr] at h; subst h; simp [ih _ _ _ _ hr]

/-- General split lemma, for every mask: separating the first `n` characters of a combined
id gives the first `nP` characters of the primary and the first `nS` of the secondary. -/
theorem combine_split_gen (m : Nat → Bool) :
    ∀ fuel i p s out, combineFrom m fuel i p s = some out → ∀ n, n ≤ fuel →
      separateFrom m (fun _ => 1) i (out.take n)
        = (p.take (countMask m false n i), s.take (countMask m true n i)) := by
  intro fuel
  induction fuel with
  | zero =>
    intro i p s out h n hn
    have : n = 0 := by omega
    subst this
    simp [separateFrom, countMask]
  | succ fuel ih =>
    intro i p s out h n hn
    cases n with
    | zero => simp [separateFrom, countMask]
    | succ n =>
      unfold combineFrom at h
      split at h
      · rename_i hm
        split at h
        · cases h
        · rename_i c s'
          cases hr : combineFrom m fuel (i+1) p s' with
          | none => simp [hr] at h
          | some o =>
            simp [hr] at h; subst h
            have := ih _ _ _ _ hr n (by omega)
            simp only [List.take_succ_cons, separateFrom, hm, if_true, this, countMask]
            simp [Nat.add_comm 1]
      · rename_i hm
        split at h
        · cases h
        · rename_i c p'
          cases hr : combineFrom m fuel (i+1) p' s with
          | none => simp [hr] at h
          | some o =>
            simp [hr] at h; subst h
            have := ih _ _ _ _ hr n (by omega)
            have hm' : m i = false := by simpa using hm
            simp only [List.take_succ_cons, separateFrom, hm', this, countMask]
            simp [Nat.add_comm 1]

/-- `combine_split`: for the mask in the source, every prefix length `n ≤ 64`. -/
theorem combine_split (p s c : List Char) (h : combine p s = some c) (n : Nat) (hn : n ≤ 64) :
    separateIdx (c.take n) = (p.take (countMask isSecondary false n 0), s.take (countMask isSecondary true n 0))
    ∧ countMask isSecondary false n 0 + countMask isSecondary true n 0 = n := by
  exact ⟨combine_split_gen isSecondary 64 0 p s c h n hn, countMask_add _ _ _⟩

/-- `combine_length`: a combined id has 64 characters, 50 of the primary and 14 of the secondary. -/
theorem combine_length (p s c : List Char) (h : combine p s = some c) : c.length = 64 :=
  combineFrom_length _ _ _ _ _ _ h

theorem mask_counts : countMask isSecondary true 64 0 = 14 ∧ countMask isSecondary false 64 0 = 50 := by
  decide

/-- `CombineIds` does not panic on ids that are long enough. -/
theorem combineFrom_some (m : Nat → Bool) :
    ∀ fuel i (p s : List Char), countMask m false fuel i ≤ p.length → countMask m true fuel i ≤ s.length →
      ∃ out, combineFrom m fuel i p s = some out := by
  intro fuel
  induction fuel with
  | zero => intro i p s _ _; exact ⟨[], rfl⟩
  | succ fuel ih =>
    intro i p s hp hs
    unfold combineFrom
    unfold countMask at hp hs
    cases hm : m i with
    | true =>
      simp [hm] at hp hs ⊢
      cases s with
      | nil => simp at hs
      | cons c s' =>
        simp at hs
        obtain ⟨o, ho⟩ := ih (i+1) p s' hp (by omega)
        exact ⟨c :: o, by simp [ho]⟩
    | false =>
      simp [hm] at hp hs ⊢
      cases p with
      | nil => simp at hp
      | cons c p' =>
        simp at hp
        obtain ⟨o, ho⟩ := ih (i+1) p' s (by omega) hs
        exact ⟨c :: o, by simp [ho]⟩

theorem combine_total (p s : List Char) (hp : 50 ≤ p.length) (hs : 14 ≤ s.length) :
    ∃ c, combine p s = some c := by
  have := mask_counts
  exact combineFrom_some isSecondary 64 0 p s (by omega) (by omega)

/-! ## byte offsets vs positions: on ASCII input `separate` is `separateIdx` -/

theorem separate_ascii (m : Nat → Bool) : ∀ (l : List Char) (i : Nat), (∀ c ∈ l, c.utf8Size = 1) →
    separateFrom m Char.utf8Size i l = separateFrom m (fun _ => 1) i l := by
  intro l
  induction l with
  | nil => intro i _; rfl
  | cons c cs ih =>
    intro i h
    have hc := h c (List.mem_cons_self)
    simp only [separateFrom, hc]
    rw [ih (i+1) (fun c' hc' => h c' (List.mem_cons_of_mem _ hc'))]

/-! ## comment resolution -/

def allMatches (bugs : List BugC) (pre : List Char) : List (List Char × List Char) :=
  bugs.flatMap (fun b => (b.comments.filter (hasPrefix pre)).map (fun c => (b.id, c)))

theorem flatMap_filter_of_nil {α β} (f : α → List β) (p : α → Bool) :
    ∀ (l : List α), (∀ x ∈ l, p x = false → f x = []) → (l.filter p).flatMap f = l.flatMap f := by
  intro l
  induction l with
  | nil => intro _; rfl
  | cons a t ih =>
    intro h
    have iht := ih (fun x hx => h x (List.mem_cons_of_mem _ hx))
    cases hp : p a with
    | true => simp [hp, iht]
    | false => simp [hp, iht, h a (List.mem_cons_self) hp]

/-- The pre-selection of bugs by primary prefix loses no matching comment, provided every
matching comment's bug passes the pre-selection. -/
theorem commentMatches_eq_all (bugs : List BugC) (pre : List Char)
    (h : ∀ b ∈ bugs, ∀ c ∈ b.comments, hasPrefix pre c = true → hasPrefix (separate pre).1 b.id = true) :
    commentMatches bugs pre = allMatches bugs pre := by
  unfold commentMatches allMatches
  apply flatMap_filter_of_nil
  intro b hb hp
  simp only [List.map_eq_nil_iff, List.filter_eq_nil_iff]
  intro c hc hpc
  have := h b hb c hc hpc
  rw [hp] at this
  cases this

/-- A population is well formed when every comment's combined id is the interleaving of
its bug's id with some operation id, and ids are ASCII (hexadecimal). -/
def WF (bugs : List BugC) : Prop :=
  ∀ b ∈ bugs, (∀ ch ∈ b.id, ch.utf8Size = 1) ∧
    ∀ c ∈ b.comments, ∃ s, combine b.id s = some c ∧ (∀ ch ∈ s, ch.utf8Size = 1)

theorem combineFrom_mem (m : Nat → Bool) :
    ∀ fuel i p s out, combineFrom m fuel i p s = some out → ∀ ch ∈ out, ch ∈ p ∨ ch ∈ s := by
  intro fuel
  induction fuel with
  | zero => intro i p s out h ch hch; simp [combineFrom] at h; subst h; cases hch
  | succ fuel ih =>
    intro i p s out h ch hch
    unfold combineFrom at h
    split at h
    · split at h
      · cases h
      · rename_i c s'
        cases hr : combineFrom m fuel (i+1) p s' with
        | none => simp [hr] at h
        | some o =>
          simp [hr] at h; subst h
          cases hch with
          | head => right; exact List.mem_cons_self
          | tail _ h2 =>
            cases ih _ _ _ _ hr ch h2 with
            | inl h3 => left; exact h3
            | inr h3 => right; exact List.mem_cons_of_mem _ h3
    · split at h
      · cases h
      · rename_i c p'
        cases hr : combineFrom m fuel (i+1) p' s with
        | none => simp [hr] at h
        | some o =>
          simp [hr] at h; subst h
          cases hch with
          | head => left; exact List.mem_cons_self
          | tail _ h2 =>
            cases ih _ _ _ _ hr ch h2 with
            | inl h3 => left; exact List.mem_cons_of_mem _ h3
            | inr h3 => right; exact h3

/-- A prefix of a combined id selects its own bug in the pre-selection. -/
theorem candidate_of_combined (bid s c pre : List Char) (hc : combine bid s = some c)
    (hb : ∀ ch ∈ bid, ch.utf8Size = 1) (hs : ∀ ch ∈ s, ch.utf8Size = 1)
    (hp : hasPrefix pre c = true) : hasPrefix (separate pre).1 bid = true := by
  unfold hasPrefix at hp ⊢
  rw [List.isPrefixOf_iff_prefix] at hp ⊢
  have hlen := combine_length _ _ _ hc
  have htake : pre = c.take pre.length := List.prefix_iff_eq_take.mp hp
  have hle : pre.length ≤ 64 := by have := hp.length_le; omega
  have hascii : ∀ ch ∈ pre, ch.utf8Size = 1 := by
    intro ch hch
    have : ch ∈ c := hp.subset hch
    cases combineFrom_mem _ _ _ _ _ _ hc ch this with
    | inl h => exact hb ch h
    | inr h => exact hs ch h
  unfold separate
  rw [separate_ascii _ _ _ hascii]
  have := (combine_split bid s c hc pre.length hle).1
  unfold separateIdx at this
  rw [← htake] at this
  rw [this]
  exact List.take_prefix _ _

/-- `resolveComment_unique`: in a well-formed population, when exactly one (bug, comment)
pair has a combined id starting with the prefix, that pair is returned. -/
theorem resolveComment_unique (bugs : List BugC) (pre : List Char) (hwf : WF bugs)
    (x : List Char × List Char) (h : allMatches bugs pre = [x]) :
    resolveComment bugs pre = .found x := by
  have : commentMatches bugs pre = allMatches bugs pre := by
    apply commentMatches_eq_all
    intro b hb c hc hp
    obtain ⟨hbid, hcs⟩ := hwf b hb
    obtain ⟨s, hcomb, hs⟩ := hcs c hc
    exact candidate_of_combined b.id s c pre hcomb hbid hs hp
  unfold resolveComment
  rw [this, h]

/-- `resolveComment_never_other`: whatever is returned is a comment of the returned bug whose
combined id starts with the prefix. -/
theorem resolveComment_never_other (bugs : List BugC) (pre : List Char) (b c : List Char)
    (h : resolveComment bugs pre = .found (b, c)) :
    ∃ bug ∈ bugs, bug.id = b ∧ c ∈ bug.comments ∧ hasPrefix pre c = true := by
  unfold resolveComment at h
  split at h
  · cases h
  · rename_i x hx
    cases h
    have : (b, c) ∈ commentMatches bugs pre := by rw [hx]; simp
    unfold commentMatches at this
    simp only [List.mem_flatMap, List.mem_filter, List.mem_map] at this
    obtain ⟨bug, ⟨hbug, _⟩, c', ⟨hc', hp⟩, heq⟩ := this
    cases heq
    exact ⟨bug, hbug, rfl, hc', hp⟩
  · cases h

/-- Not found exactly when no comment of any pre-selected bug matches; with `WF` this is
"no comment at all matches". -/
theorem resolveComment_notFound (bugs : List BugC) (pre : List Char) (hwf : WF bugs) :
    resolveComment bugs pre = .notFound ↔ allMatches bugs pre = [] := by
  have : commentMatches bugs pre = allMatches bugs pre := by
    apply commentMatches_eq_all
    intro b hb c hc hp
    obtain ⟨hbid, hcs⟩ := hwf b hb
    obtain ⟨s, hcomb, hs⟩ := hcs c hc
    exact candidate_of_combined b.id s c pre hcomb hbid hs hp
  unfold resolveComment
  rw [this]
  split
  · rename_i h; simp [h]
  · rename_i y h; simp [h]
  · rename_i h1 h2; simp only [reduceCtorEq, false_iff]; exact h1

/-! ## the command-line front of prefix resolution (`commands/select.Resolve`) -/

/-- `select_unique`: a first argument that is a prefix of exactly one id names that entity, and is
consumed, whatever is selected -/
theorem select_unique (ids : List (List Char)) (sel : Option (List Char)) (a x : List Char) (rest : List (List Char))
    (h : resolve ids a = .found x) : selectResolve ids sel (a :: rest) = .entity x rest := by
  simp only [selectResolve, h]

/-- `select_multiple`: a first argument that is a prefix of several ids gives the multiple-match
error listing exactly these ids — the selection is not consulted -/
theorem select_multiple (ids : List (List Char)) (sel : Option (List Char)) (a : List Char) (rest : List (List Char))
    (h : 2 ≤ (ids.filter (hasPrefix a)).length) :
    selectResolve ids sel (a :: rest) = .multiple (ids.filter (hasPrefix a)) := by
  have : resolve ids a = .multiple (ids.filter (hasPrefix a)) := (resolve_multiple_iff ids a _).2 ⟨rfl, h⟩
  simp only [selectResolve, this]

/-- `select_entity_cases`: the answer is an entity only in two ways: the first argument identifies it
(and is consumed), or the first argument matches no id at all and the entity is the selected one
(and the arguments are left alone) -/
theorem select_entity_cases (ids : List (List Char)) (sel : Option (List Char)) (a x : List Char)
    (rest args' : List (List Char)) (h : selectResolve ids sel (a :: rest) = .entity x args') :
    (resolve ids a = .found x ∧ args' = rest) ∨
    (resolve ids a = .notFound ∧ sel = some x ∧ x ∈ ids ∧ args' = a :: rest) := by
  simp only [selectResolve] at h
  split at h
  · rename_i y hy
    simp only [Sel.entity.injEq] at h
    exact Or.inl ⟨by rw [hy, h.1], h.2.symm⟩
  · cases h
  · rename_i hn
    refine Or.inr ⟨hn, ?_⟩
    unfold selectFallback at h
    split at h
    · cases h
    · rename_i s
      split at h
      · rename_i hs
        simp only [Sel.entity.injEq] at h
        obtain ⟨rfl, rfl⟩ := h
        exact ⟨rfl, hs, rfl⟩
      · cases h

/-- a selection pointing at an entity that does not exist is never answered with an entity -/
theorem select_stale (ids : List (List Char)) (s : List Char) (args : List (List Char)) (hs : s ∉ ids)
    (x : List Char) (args' : List (List Char)) (h : selectResolve ids (some s) args = .entity x args') : x ∈ ids := by
  cases args with
  | nil => simp [selectResolve, selectFallback, hs] at h
  | cons a rest =>
    rcases select_entity_cases ids (some s) a x rest args' h with ⟨hf, _⟩ | ⟨_, _, hx, _⟩
    · exact ((resolve_spec ids a).1 x hf).1
    · exact hx

example : selectResolve ["abc".toList, "abd".toList, "b12".toList] (some "b12".toList) ["ab".toList, "label".toList]
    = .multiple ["abc".toList, "abd".toList] := by decide
example : selectResolve ["abc".toList, "abd".toList, "b12".toList] (some "b12".toList) ["bug".toList, "label".toList]
    = .entity "b12".toList ["bug".toList, "label".toList] := by decide
example : selectResolve ["abc".toList, "abd".toList, "b12".toList] (some "b12".toList) ["abc".toList, "label".toList]
    = .entity "abc".toList ["label".toList] := by decide
example : selectResolve ["abc".toList] (some "fff".toList) ["zz".toList] = .noValidId true := by decide

/-! ## regenerated obligation: the masks in the source are the model's mask -/

theorem gen_masks_are_model :
    GitBugModel.Gen.Interleave.combineMask = some ((List.range 64).map isSecondary) ∧
    GitBugModel.Gen.Interleave.separateMask = some ((List.range 64).map isSecondary) ∧
    GitBugModel.Gen.Interleave.idLength = idLength := by
  decide

/-! ## non-vacuity -/

example : resolve ["abc".toList, "abd".toList, "b12".toList] "ab".toList
    = .multiple ["abc".toList, "abd".toList] := by decide
example : resolve ["abc".toList, "abd".toList, "b12".toList] "b".toList = .found "b12".toList := by decide
example : (combine (List.replicate 50 'a') (List.replicate 14 'b')).isSome = true := by decide
example : separateIdx "pspspsppps".toList = ("pppppp".toList, "ssss".toList) := by decide

end GitBugModel.Props.C13

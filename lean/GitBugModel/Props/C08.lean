import GitBugModel.Model.Identity
/-!
# C08 — commits by authors with signing keys must carry a valid signature
-/
namespace GitBugModel.Props.C08
open GitBugModel.Identity

/-! ## which keys are in force at a logical time -/

/-- the reference time of each version for a clock: its own, or the previous version's when it
does not mention the clock -/
def resolveTimes (clock : String) : Nat → List Version → List (Nat × List String)
  | _, [] => []
  | last, v :: rest =>
    let rt := (lookupTime v.times clock).getD last
    (rt, v.keys) :: resolveTimes clock rt rest

/-- the loop of `ValidKeysAtTime` on resolved times -/
def keysAtPairs (t : Nat) (result : List String) : List (Nat × List String) → List String
  | [] => result
  | p :: rest => if p.1 > t then result else keysAtPairs t p.2 rest

theorem validKeysFrom_eq (clock : String) (t : Nat) (vs : List Version) :
    ∀ last result, validKeysFrom clock t last result vs = keysAtPairs t result (resolveTimes clock last vs) := by
  induction vs with
  | nil => intro _ _; rfl
  | cons v rest ih =>
    intro last result
    simp only [validKeysFrom, resolveTimes, keysAtPairs]
    split
    · rfl
    · exact ih _ _

/-- on non-decreasing times the loop returns the keys of the last version whose time is ≤ t -/
theorem keysAtPairs_spec (t : Nat) (ps : List (Nat × List String)) (hs : ps.Pairwise (fun a b => a.1 ≤ b.1)) :
    ∀ result, keysAtPairs t result ps = (((ps.filter (fun p => p.1 ≤ t)).getLast?).map (·.2)).getD result := by
  induction ps with
  | nil => intro r; rfl
  | cons p rest ih =>
    intro result
    rw [List.pairwise_cons] at hs
    simp only [keysAtPairs]
    by_cases hp : p.1 > t
    · -- every later version is even later: nothing is in force after result
      have hnone : (p :: rest).filter (fun q => q.1 ≤ t) = [] := by
        rw [List.filter_eq_nil_iff]
        intro q hq
        cases hq with
        | head => simp; omega
        | tail _ h => have := hs.1 q h; simp; omega
      simp [hp, hnone]
    · have hle : p.1 ≤ t := by omega
      simp only [hp, if_false]
      rw [ih hs.2 p.2]
      simp only [List.filter_cons, hle, decide_true, if_true]
      cases hf : rest.filter (fun q => decide (q.1 ≤ t)) with
      | nil => simp
      | cons a l =>
        have : (p :: a :: l).getLast? = (a :: l).getLast? := List.getLast?_cons_cons
        rw [this]
        cases hl : (a :: l).getLast? with
        | none => simp at hl
        | some x => simp

/-- `validKeysAt_spec`: when the identity's times for the clock never decrease (which
`Identity.Validate` enforces), the keys in force at `t` are those of the last version whose
(resolved) time is ≤ `t`; none if there is no such version. -/
theorem validKeysAt_spec (vs : List Version) (clock : String) (t : Nat)
    (hmono : (resolveTimes clock 0 vs).Pairwise (fun a b => a.1 ≤ b.1)) :
    validKeysAt vs clock t =
      ((((resolveTimes clock 0 vs).filter (fun p => p.1 ≤ t)).getLast?).map (·.2)).getD [] := by
  unfold validKeysAt
  rw [validKeysFrom_eq, keysAtPairs_spec t _ hmono]

/-- `key_window`: a key introduced by the version at resolved time `t₁` and removed by the next
version at `t₂` counts exactly on [t₁, t₂) -/
theorem key_window (pre : List (Nat × List String)) (t₁ t₂ : Nat) (k₁ k₂ : List String) (post : List (Nat × List String))
    (hs : (pre ++ (t₁, k₁) :: (t₂, k₂) :: post).Pairwise (fun a b => a.1 ≤ b.1)) (t : Nat) (h1 : t₁ ≤ t) (h2 : t < t₂) :
    keysAtPairs t [] (pre ++ (t₁, k₁) :: (t₂, k₂) :: post) = k₁ := by
  rw [keysAtPairs_spec t _ hs]
  have hpre : ∀ p ∈ pre, p.1 ≤ t := by
    intro p hp
    have := (List.pairwise_append.mp hs).2.2 p hp (t₁, k₁) List.mem_cons_self
    simp at this; omega
  have hpost : ∀ p ∈ (t₂, k₂) :: post, ¬ p.1 ≤ t := by
    intro p hp
    have h3 := (List.pairwise_append.mp hs).2.1
    rw [List.pairwise_cons] at h3
    cases hp with
    | head => simp; omega
    | tail _ h =>
      have h4 := h3.2
      rw [List.pairwise_cons] at h4
      have := h4.1 p h
      simp at this ⊢; omega
  have : (pre ++ (t₁, k₁) :: (t₂, k₂) :: post).filter (fun p => p.1 ≤ t) = pre ++ [(t₁, k₁)] := by
    rw [List.filter_append, List.filter_cons]
    have e1 : pre.filter (fun p => decide (p.1 ≤ t)) = pre := by
      rw [List.filter_eq_self]; intro p hp; simpa using hpre p hp
    have e2 : ((t₂, k₂) :: post).filter (fun p => decide (p.1 ≤ t)) = [] := by
      rw [List.filter_eq_nil_iff]; intro p hp; simpa using hpost p hp
    simp [e1, e2, h1]
  rw [this]
  simp

/-! ## the acceptance rule -/

/-- `accept_iff`: a commit is accepted iff no key is in force at its logical time, or it carries
a signature, good for its exact content, by one of the keys in force. -/
theorem accept_iff (vs : List Version) (clock : String) (t : Nat) (sig : Sig) :
    checkCommit vs clock t sig = .accepted ↔
      validKeysAt vs clock t = [] ∨ ∃ k, sig = .signedBy k true ∧ k ∈ validKeysAt vs clock t := by
  unfold checkCommit
  by_cases he : validKeysAt vs clock t = []
  · simp [he]
  · have : (validKeysAt vs clock t).isEmpty = false := by simpa using he
    simp only [this, Bool.false_eq_true, if_false, he, false_or]
    cases sig with
    | unsigned => simp
    | signedBy k good =>
      cases good <;> simp

/-- `unsigned_rejected`: with a key in force an unsigned commit is a signature error (not a crash) -/
theorem unsigned_rejected (vs : List Version) (clock : String) (t : Nat) (h : validKeysAt vs clock t ≠ []) :
    checkCommit vs clock t .unsigned = .signatureError := by
  unfold checkCommit
  have : (validKeysAt vs clock t).isEmpty = false := by simpa using h
  simp [this]

/-- a signature by a key that is not in force at that time (removed, not yet valid, a
stranger's), or one that is not good for the content (altered commit), is rejected -/
theorem wrong_signature_rejected (vs : List Version) (clock : String) (t : Nat) (k : String) (good : Bool)
    (h : validKeysAt vs clock t ≠ []) (hbad : k ∉ validKeysAt vs clock t ∨ good = false) :
    checkCommit vs clock t (.signedBy k good) = .signatureError := by
  unfold checkCommit
  have : (validKeysAt vs clock t).isEmpty = false := by simpa using h
  simp only [this, Bool.false_eq_true, if_false]
  rcases hbad with hb | hb
  · have hc : (validKeysAt vs clock t).contains k = false := by simpa using hb
    rw [hc]; simp
  · simp [hb]

/-- no key in force: accepted whatever the signature -/
theorem keyless_accepted (vs : List Version) (clock : String) (t : Nat) (sig : Sig) (h : validKeysAt vs clock t = []) :
    checkCommit vs clock t sig = .accepted := by
  unfold checkCommit; simp [h]

/-! ## non-vacuity: a key added at time 5 and rotated at time 9 -/

private def vs : List Version := [
  { commit := "v0", times := [("bugs-edit", 2)] },
  { commit := "v1", times := [("bugs-edit", 5)], keys := ["K1"] },
  { commit := "v2", times := [], keys := ["K1"] },                     -- inherits time 5
  { commit := "v3", times := [("bugs-edit", 9)], keys := ["K2"] }]

example : (List.range 11).map (validKeysAt vs "bugs-edit")
    = [[], [], [], [], [], ["K1"], ["K1"], ["K1"], ["K1"], ["K2"], ["K2"]] := by decide
example : checkCommit vs "bugs-edit" 4 .unsigned = .accepted ∧ checkCommit vs "bugs-edit" 5 .unsigned = .signatureError ∧
    checkCommit vs "bugs-edit" 8 (.signedBy "K1" true) = .accepted ∧ checkCommit vs "bugs-edit" 9 (.signedBy "K1" true) = .signatureError ∧
    checkCommit vs "bugs-edit" 9 (.signedBy "K2" false) = .signatureError := by decide

end GitBugModel.Props.C08

import GitBugModel.Model.Query
import GitBugModel.Lemmas.ParseRender
/-!
# C12 — queries parse as documented and return exactly the matching bugs, ordered
-/
namespace GitBugModel.Props.C12
open GitBugModel.Query

/-! ## matching: any-of within status/author/actor/participant/metadata, all-of for labels, titles
and across qualifier kinds -/

theorem orMatch_iff (fs : List Bool) : orMatch fs = true ↔ fs = [] ∨ true ∈ fs := by
  unfold orMatch
  cases fs with
  | nil => simp
  | cons a t => simp [List.any_eq_true]

theorem andMatch_iff (fs : List Bool) : andMatch fs = true ↔ ∀ b ∈ fs, b = true := by
  unfold andMatch; simp [List.all_eq_true]

/-- `match_spec` -/
theorem match_spec (lower : String → String) (idents : List Ident) (q : Query) (e : Excerpt) :
    matchesQ lower idents q e = true ↔
      (q.status = [] ∨ ∃ s ∈ q.status, s = e.status) ∧
      (q.author = [] ∨ ∃ a ∈ q.author, anyIdent idents [e.author] (lower a) = true) ∧
      (q.metadata = [] ∨ ∃ p ∈ q.metadata, (e.createMetadata.find? (·.1 == p.1)).map (·.2) = some p.2) ∧
      (q.participant = [] ∨ ∃ a ∈ q.participant, anyIdent idents e.participants (lower a) = true) ∧
      (q.actor = [] ∨ ∃ a ∈ q.actor, anyIdent idents e.actors (lower a) = true) ∧
      (∀ l ∈ q.label, l ∈ e.labels) ∧
      (q.noLabel = true → e.labels = []) ∧
      (∀ t ∈ q.title, contains e.titleLower (lower t) = true) := by
  unfold matchesQ
  simp only [Bool.and_eq_true, orMatch_iff, andMatch_iff, List.map_eq_nil_iff, List.mem_map]
  constructor
  · rintro ⟨⟨⟨⟨⟨⟨⟨h1, h2⟩, h3⟩, h4⟩, h5⟩, h6⟩, h7⟩, h8⟩
    refine ⟨?_, ?_, ?_, ?_, ?_, ?_, ?_, ?_⟩
    · rcases h1 with h | ⟨s, hs, he⟩
      · exact Or.inl h
      · exact Or.inr ⟨s, hs, by simpa using he⟩
    · rcases h2 with h | ⟨a, ha, he⟩
      · exact Or.inl h
      · exact Or.inr ⟨a, ha, he⟩
    · rcases h3 with h | ⟨p, hp, he⟩
      · exact Or.inl h
      · exact Or.inr ⟨p, hp, by simpa using he⟩
    · rcases h4 with h | ⟨a, ha, he⟩
      · exact Or.inl h
      · exact Or.inr ⟨a, ha, he⟩
    · rcases h5 with h | ⟨a, ha, he⟩
      · exact Or.inl h
      · exact Or.inr ⟨a, ha, he⟩
    · intro l hl
      have := h6 _ ⟨l, hl, rfl⟩
      simpa using this
    · intro hn
      have := h7 (e.labels.isEmpty) (by simp [hn])
      simpa using this
    · intro t ht
      exact h8 _ ⟨t, ht, rfl⟩
  · rintro ⟨h1, h2, h3, h4, h5, h6, h7, h8⟩
    refine ⟨⟨⟨⟨⟨⟨⟨?_, ?_⟩, ?_⟩, ?_⟩, ?_⟩, ?_⟩, ?_⟩, ?_⟩
    · rcases h1 with h | ⟨s, hs, he⟩
      · exact Or.inl h
      · exact Or.inr ⟨s, hs, by simp [he]⟩
    · rcases h2 with h | ⟨a, ha, he⟩
      · exact Or.inl h
      · exact Or.inr ⟨a, ha, he⟩
    · rcases h3 with h | ⟨p, hp, he⟩
      · exact Or.inl h
      · exact Or.inr ⟨p, hp, by simp [he]⟩
    · rcases h4 with h | ⟨a, ha, he⟩
      · exact Or.inl h
      · exact Or.inr ⟨a, ha, he⟩
    · rcases h5 with h | ⟨a, ha, he⟩
      · exact Or.inl h
      · exact Or.inr ⟨a, ha, he⟩
    · rintro b ⟨l, hl, rfl⟩
      simpa using h6 l hl
    · intro b hb
      by_cases hn : q.noLabel = true
      · simp [hn] at hb; subst hb; simp [h7 hn]
      · simp [hn] at hb
    · rintro b ⟨t, ht, rfl⟩
      exact h8 t ht

/-- identities match case-insensitively on name and login and by id prefix (the query is
lower-cased by the filter; names and logins are compared lower-cased) -/
theorem identity_match_ci (i : Ident) (q : String) :
    identMatch i q = true ↔ (q.toList.isPrefixOf i.id.toList = true ∨ contains i.nameLower q = true ∨ contains i.loginLower q = true) := by
  unfold identMatch; simp [Bool.or_eq_true, or_assoc]

/-! ## result: the matching excerpts, each once, sorted by the requested key and direction -/

theorem insertBy_perm (lt : Excerpt → Excerpt → Bool) (x : Excerpt) (l : List Excerpt) :
    (insertBy lt x l).Perm (x :: l) := by
  induction l with
  | nil => exact List.Perm.refl _
  | cons y ys ih =>
    unfold insertBy
    split
    · exact List.Perm.refl _
    · exact (List.Perm.cons y ih).trans (List.Perm.swap x y ys)

theorem sortBy_perm (lt : Excerpt → Excerpt → Bool) (l : List Excerpt) : (sortBy lt l).Perm l := by
  induction l with
  | nil => exact List.Perm.refl _
  | cons x xs ih =>
    simp only [sortBy, List.foldr_cons]
    exact (insertBy_perm lt x _).trans (List.Perm.cons x ih)

/-- a comparator is a strict weak order when "not greater" is transitive and implied by "less" -/
structure WeakOrder (lt : Excerpt → Excerpt → Bool) : Prop where
  asymm : ∀ a b, lt a b = true → lt b a = false
  le_trans : ∀ a b c, lt b a = false → lt c b = false → lt c a = false

theorem insertBy_sorted {lt : Excerpt → Excerpt → Bool} (w : WeakOrder lt) (x : Excerpt) (l : List Excerpt)
    (hs : l.Pairwise (fun a b => lt b a = false)) : (insertBy lt x l).Pairwise (fun a b => lt b a = false) := by
  induction l with
  | nil => simp [insertBy]
  | cons y ys ih =>
    rw [List.pairwise_cons] at hs
    unfold insertBy
    split
    · rename_i hlt
      rw [List.pairwise_cons]
      refine ⟨?_, List.pairwise_cons.mpr hs⟩
      intro z hz
      cases hz with
      | head => exact w.asymm _ _ hlt
      | tail _ h => exact w.le_trans _ _ _ (w.asymm _ _ hlt) (hs.1 z h)
    · rename_i hnlt
      rw [List.pairwise_cons]
      refine ⟨?_, ih hs.2⟩
      intro z hz
      have := (insertBy_perm lt x ys).subset hz
      cases this with
      | head => simpa using hnlt
      | tail _ h => exact hs.1 z h

theorem sortBy_sorted {lt : Excerpt → Excerpt → Bool} (w : WeakOrder lt) (l : List Excerpt) :
    (sortBy lt l).Pairwise (fun a b => lt b a = false) := by
  induction l with
  | nil => simp [sortBy]
  | cons x xs ih =>
    simp only [sortBy, List.foldr_cons]
    exact insertBy_sorted w x _ ih

/-- lexicographic (Nat, Int, id) keys give a strict weak order -/
theorem lex_weak (k1 : Excerpt → Nat) (k2 : Excerpt → Int) :
    WeakOrder (fun a b => decide (k1 a < k1 b) ||
      (k1 a == k1 b && (decide (k2 a < k2 b) || (k2 a == k2 b && decide (a.id < b.id))))) := by
  constructor
  · intro a b h
    simp only [Bool.or_eq_true, decide_eq_true_eq, Bool.and_eq_true, beq_iff_eq] at h
    simp only [Bool.or_eq_false_iff, decide_eq_false_iff_not, Bool.and_eq_false_iff, beq_eq_false_iff_ne]
    rcases h with h | ⟨h1, h2 | ⟨h2, h3⟩⟩
    · exact ⟨by omega, Or.inl (by omega)⟩
    · exact ⟨by omega, Or.inr ⟨by omega, Or.inl (by omega)⟩⟩
    · exact ⟨by omega, Or.inr ⟨by omega, Or.inr (String.lt_asymm h3)⟩⟩
  · intro a b c h1 h2
    simp only [Bool.or_eq_false_iff, decide_eq_false_iff_not, Bool.and_eq_false_iff, beq_eq_false_iff_ne] at h1 h2 ⊢
    obtain ⟨a1, a2⟩ := h1
    obtain ⟨b1, b2⟩ := h2
    refine ⟨by omega, ?_⟩
    by_cases hca : k1 c = k1 a
    · right
      have hba : k1 b = k1 a := by omega
      have hcb : k1 c = k1 b := by omega
      rcases a2 with h | ⟨a2, a3⟩
      · exact absurd hba h
      · rcases b2 with h' | ⟨b2, b3⟩
        · exact absurd hcb h'
        · refine ⟨by omega, ?_⟩
          by_cases hca2 : k2 c = k2 a
          · right
            have hba2 : k2 b = k2 a := by omega
            have hcb2 : k2 c = k2 b := by omega
            rcases a3 with h | a3
            · exact absurd hba2 h
            · rcases b3 with h' | b3
              · exact absurd hcb2 h'
              · exact String.not_lt.mpr (String.le_trans (String.not_lt.mp a3) (String.not_lt.mp b3))
          · left; exact hca2
    · left; exact hca

theorem less_creation_weak : WeakOrder (less .creation) := lex_weak (·.createLamport) (·.createUnix)
theorem less_edit_weak : WeakOrder (less .edit) := lex_weak (·.editLamport) (·.editUnix)

theorem less_id_weak : WeakOrder (less .id) := by
  constructor
  · intro a b h
    simp only [less, decide_eq_true_eq] at h
    simp only [less, decide_eq_false_iff_not]
    exact String.lt_asymm h
  · intro a b c h1 h2
    simp only [less, decide_eq_false_iff_not] at h1 h2 ⊢
    exact String.not_lt.mpr (String.le_trans (String.not_lt.mp h1) (String.not_lt.mp h2))

theorem less_weak (ob : OrderBy) : WeakOrder (less ob) := by
  cases ob
  · exact less_id_weak
  · exact less_creation_weak
  · exact less_edit_weak

theorem flip_weak {lt : Excerpt → Excerpt → Bool} (w : WeakOrder lt) : WeakOrder (fun a b => lt b a) :=
  ⟨fun a b h => w.asymm b a h, fun a b c h1 h2 => w.le_trans c b a h2 h1⟩

/-- `query_result`: the result lists exactly the matching excerpts — each once, being a
permutation of the filtered population — sorted by the requested key in the requested direction. -/
theorem query_result (lower : String → String) (idents : List Ident) (q : Query) (pop : List Excerpt) :
    ∃ sorted : List Excerpt, run lower idents q pop = sorted.map (·.id) ∧
      sorted.Perm (pop.filter (matchesQ lower idents q)) ∧
      (q.dir = .asc → sorted.Pairwise (fun a b => less q.orderBy b a = false)) ∧
      (q.dir = .desc → sorted.Pairwise (fun a b => less q.orderBy a b = false)) := by
  unfold run
  cases hd : q.dir with
  | asc =>
    refine ⟨_, rfl, sortBy_perm _ _, ?_, ?_⟩
    · intro _; exact sortBy_sorted (less_weak q.orderBy) _
    · intro h; cases h
  | desc =>
    refine ⟨_, rfl, sortBy_perm _ _, ?_, ?_⟩
    · intro h; cases h
    · intro _; exact sortBy_sorted (flip_weak (less_weak q.orderBy)) _

/-- every returned id is the id of a matching bug, and every matching bug's id is returned -/
theorem query_exact (lower : String → String) (idents : List Ident) (q : Query) (pop : List Excerpt) (id : String) :
    id ∈ run lower idents q pop ↔ ∃ e ∈ pop, matchesQ lower idents q e = true ∧ e.id = id := by
  obtain ⟨sorted, hrun, hperm, _, _⟩ := query_result lower idents q pop
  rw [hrun, List.mem_map]
  constructor
  · rintro ⟨e, he, rfl⟩
    have := hperm.subset he
    rw [List.mem_filter] at this
    exact ⟨e, this.1, this.2, rfl⟩
  · rintro ⟨e, he, hm, rfl⟩
    exact ⟨e, hperm.symm.subset (List.mem_filter.mpr ⟨he, hm⟩), rfl⟩

/-- every comparator is total on bugs with different ids: two bugs neither of which sorts
before the other have the same id (since the repair: Lamport time, timestamp, then id). -/
theorem less_total (ob : OrderBy) (a b : Excerpt) (h1 : less ob a b = false) (h2 : less ob b a = false) : a.id = b.id := by
  cases ob
  · simp only [less, decide_eq_false_iff_not] at h1 h2
    exact String.le_antisymm (String.not_lt.mp h2) (String.not_lt.mp h1)
  all_goals
    simp only [less, Bool.or_eq_false_iff, decide_eq_false_iff_not, Bool.and_eq_false_iff, beq_eq_false_iff_ne] at h1 h2
    obtain ⟨x1, x2⟩ := h1
    obtain ⟨y1, y2⟩ := h2
    rcases x2 with h | ⟨x2, x3⟩
    · omega
    · rcases y2 with h | ⟨y2, y3⟩
      · omega
      · rcases x3 with h | x3
        · omega
        · rcases y3 with h | y3
          · omega
          · exact String.le_antisymm (String.not_lt.mp y3) (String.not_lt.mp x3)

theorem inj_of_nodup_map {α β : Type} (f : α → β) : ∀ (l : List α), (l.map f).Nodup → ∀ a b, a ∈ l → b ∈ l → f a = f b → a = b
  | [], _, _, _, ha, _, _ => by cases ha
  | x :: xs, hn, a, b, ha, hb, hab => by
    rw [List.map_cons, List.nodup_cons] at hn
    cases ha with
    | head =>
      cases hb with
      | head => rfl
      | tail _ hb => exact absurd (hab ▸ List.mem_map_of_mem (f := f) hb) hn.1
    | tail _ ha =>
      cases hb with
      | head => exact absurd (hab ▸ List.mem_map_of_mem (f := f) ha) hn.1
      | tail _ hb => exact inj_of_nodup_map f xs hn.2 a b ha hb hab

/-- `query_deterministic`: the answer does not depend on the order in which the population is
enumerated (the excerpts come out of a Go map, in a different order each time): for bugs with
distinct ids, any two enumerations of the same population give the same list.  This is what lets
a client page through the answer over several requests. -/
theorem query_deterministic (lower : String → String) (idents : List Ident) (q : Query) (pop₁ pop₂ : List Excerpt)
    (hperm : pop₁.Perm pop₂) (hnodup : (pop₁.map (·.id)).Nodup) :
    run lower idents q pop₁ = run lower idents q pop₂ := by
  obtain ⟨s₁, hr₁, hp₁, ha₁, hd₁⟩ := query_result lower idents q pop₁
  obtain ⟨s₂, hr₂, hp₂, ha₂, hd₂⟩ := query_result lower idents q pop₂
  rw [hr₁, hr₂]
  have hp : s₁.Perm s₂ := hp₁.trans ((hperm.filter _).trans hp₂.symm)
  have inj : ∀ a b, a ∈ s₁ → b ∈ s₁ → a.id = b.id → a = b := by
    intro a b ha hb hab
    have ha' : a ∈ pop₁ := (List.mem_filter.mp (hp₁.subset ha)).1
    have hb' : b ∈ pop₁ := (List.mem_filter.mp (hp₁.subset hb)).1
    exact inj_of_nodup_map (·.id) pop₁ hnodup a b ha' hb' hab
  suffices s₁ = s₂ by rw [this]
  cases hd : q.dir with
  | asc =>
    refine List.Perm.eq_of_pairwise (le := fun a b => less q.orderBy b a = false) ?_ (ha₁ hd) (ha₂ hd) hp
    intro a b ha hb h1 h2
    exact inj a b ha (hp.symm.subset hb) (less_total q.orderBy a b h2 h1)
  | desc =>
    refine List.Perm.eq_of_pairwise (le := fun a b => less q.orderBy a b = false) ?_ (hd₁ hd) (hd₂ hd) hp
    intro a b ha hb h1 h2
    exact inj a b ha (hp.symm.subset hb) (less_total q.orderBy a b h1 h2)

/-! ## parser: rejections and what the qualifiers denote -/

variable (clean : String → String)

theorem parse_rejects_two_sorts (q : Query) (v : List Char) :
    parseToken clean (q, true) (.kv "sort".toList v) = .error .multipleSort := by
  simp [parseToken]

theorem parse_rejects_unknown_qualifier (st : Query × Bool) (qual v : List Char)
    (h : String.ofList qual ∉ ["status", "state", "author", "actor", "participant", "label", "title", "no", "sort"]) :
    parseToken clean st (.kv qual v) = .error .unknownQualifier := by
  obtain ⟨q, sd⟩ := st
  simp only [List.mem_cons, List.not_mem_nil, or_false, not_or] at h
  obtain ⟨h1, h2, h3, h4, h5, h6, h7, h8, h9⟩ := h
  simp_all [parseToken]

theorem parse_rejects_unknown_status (st : Query × Bool) (v : List Char) (h : statusOf (clean (String.ofList v)) = none) :
    parseToken clean st (.kv "status".toList v) = .error .unknownStatus := by
  obtain ⟨q, sd⟩ := st
  simp [parseToken, h]

theorem parse_rejects_unknown_sort (q : Query) (v : List Char) (h : parseSorting (String.ofList v) = none) :
    parseToken clean (q, false) (.kv "sort".toList v) = .error .unknownSort := by
  simp [parseToken, h]

theorem parse_rejects_unknown_no (st : Query × Bool) (v : List Char) (h : String.ofList v ≠ "label") :
    parseToken clean st (.kv "no".toList v) = .error .unknownNo := by
  obtain ⟨q, sd⟩ := st
  simp [parseToken, h]

/-- a label qualifier adds exactly that label to the all-of list -/
theorem parse_label (q : Query) (sd : Bool) (v : List Char) :
    parseToken clean (q, sd) (.kv "label".toList v) = .ok ({ q with label := q.label ++ [String.ofList v] }, sd) := by
  simp [parseToken]

theorem parse_metadata (q : Query) (sd : Bool) (k v : List Char) :
    parseToken clean (q, sd) (.kvv "metadata".toList k v)
      = .ok ({ q with metadata := q.metadata ++ [(String.ofList k, String.ofList v)] }, sd) := by
  simp [parseToken]

theorem parse_search (q : Query) (sd : Bool) (t : List Char) :
    parseToken clean (q, sd) (.search t) = .ok ({ q with search := q.search ++ [String.ofList t] }, sd) := by
  simp [parseToken]

/-! ## lexer: unmatched quotes are rejected; quoted spans keep separators -/

theorem split_unmatched (sep : Char → Bool) (input : List Char)
    (h : (splitLoop sep {} [] [] input).1.inQuote = true) : splitFunc sep input = .error .unmatchedQuote := by
  unfold splitFunc
  simp [h]

/-- a leading or trailing colon is rejected -/
theorem field_edge_colon (field : List Char) (chunks : List (List Char)) (hs : splitFunc (· == ':') field = .ok chunks)
    (h : field.head? = some ':' ∨ field.getLast? = some ':') : tokenOfField field = .error .emptyQualifierOrValue := by
  unfold tokenOfField
  simp only [hs]
  rcases h with h | h <;> simp [h]

/-! ## the round trip through the documented grammar -/

/-- `parse_render`: every structured query — any number of statuses, authors, actors,
participants, labels, titles, metadata pairs, search terms, `no:label`, any sort — written through
the grammar of doc/queries.md (every value between quotes of the kind it does not contain: double
quotes, or single quotes for a value holding a double quote; one space between tokens) parses
back to exactly that query.  Values may hold anything but both kinds of quote at once, which the
grammar cannot express (`Quotable`): spaces, colons, one kind of quote, unicode.  (Proved in
`Lemmas/Lexer` and `Lemmas/ParseRender` over the lexer's quote automaton, for either quote
character.) -/
theorem parse_render (isSpace : Char → Bool) (clean : String → String)
    (hsp : isSpace ' ' = true) (hcolon : isSpace ':' = false)
    (hlow : ∀ c : Char, c.isLower = true → isSpace c = false)
    (hopen : clean "open" = "open") (hclosed : clean "closed" = "closed")
    (q : Query) (hst : ∀ s ∈ q.status, s = 1 ∨ s = 2)
    (hv : ∀ v, v ∈ q.author ∨ v ∈ q.actor ∨ v ∈ q.participant ∨ v ∈ q.label ∨ v ∈ q.title ∨ v ∈ q.search → Quotable v)
    (hm : ∀ kv ∈ q.metadata, Word kv.1.toList ∧ (∀ c ∈ kv.1.toList, isSpace c = false) ∧ Quotable kv.2) :
    parse isSpace clean (String.ofList (joined ' ' ((renderQuery q).map RTok.segs))) = .ok q :=
  GitBugModel.Query.parse_render isSpace clean hsp hcolon hlow hopen hclosed q hst hv hm

/-- written tokens separated by one space come back as exactly those tokens -/
theorem tokenize_rendered (isSpace : Char → Bool) (hsp : isSpace ' ' = true) (hcolon : isSpace ':' = false)
    (ts : List RTok) (hne : ts ≠ []) (h : ∀ t ∈ ts, t.ok isSpace) :
    tokenize isSpace (joined ' ' (ts.map RTok.segs)) = .ok (ts.map RTok.toToken) :=
  GitBugModel.Query.tokenize_rendered isSpace hsp hcolon ts hne h

/-! ## non-vacuity: documented examples, evaluated by the kernel -/

private def sp (c : Char) : Bool := c == ' '
private def cl (s : String) : String := s

private def errOf (r : Except ParseErr Query) : Option ParseErr := match r with | .error e => some e | .ok _ => none

example : (parse sp cl "status:open author:\"René Descartes\" label:'good first issue' sort:edit-asc more \"two words\"").toOption
    = some { search := ["more", "two words"], status := [1], author := ["René Descartes"], label := ["good first issue"],
             orderBy := .edit, dir := .asc } := by decide
example : (parse sp cl "metadata:key:\"https://www.example.com/\"").toOption = some { metadata := [("key", "https://www.example.com/")] } := by decide
example : errOf (parse sp cl "author:\"René") = some (.lex .unmatchedQuote) := by decide
example : errOf (parse sp cl "sort:edit sort:id") = some .multipleSort := by decide
example : errOf (parse sp cl ":value") = some (.lex .emptyQualifierOrValue) := by decide
example : errOf (parse sp cl "a:b:c:d") = some (.lex .tooManySeparators) := by decide
/-- what `parse_render` is about, on one query: the rendering, and that it parses back -/
example :
    let q : Query := { status := [2], author := ["R D"], search := ["a: 'b'"], orderBy := .id, dir := .asc }
    String.ofList (joined ' ' ((renderQuery q).map RTok.segs)) = "status:\"closed\" author:\"R D\" \"a: 'b'\" sort:\"id-asc\"" ∧
    (parse sp cl (String.ofList (joined ' ' ((renderQuery q).map RTok.segs)))).toOption = some q := by
  decide
/-- a value holding a double quote is written between single quotes, and comes back -/
example :
    let q : Query := { title := ["say \"hi\""], label := ["it's"], orderBy := .creation, dir := .desc }
    String.ofList (joined ' ' ((renderQuery q).map RTok.segs)) = "label:\"it's\" title:'say \"hi\"' sort:\"creation-desc\"" ∧
    (parse sp cl (String.ofList (joined ' ' ((renderQuery q).map RTok.segs)))).toOption = some q := by
  decide

end GitBugModel.Props.C12

import GitBugModel.Model.Dag
import GitBugModel.Lemmas.PackSort
import GitBugModel.Gen.Dag
import GitBugModel.Lemmas.Reach
import GitBugModel.Lemmas.ReadableMerge
/-!
# C02 — a pull never loses operations nor breaks an entity

Theorems about `Dag.merge`, the model of `dag.merge` (one remote ref); `MergeAll` is the fold of
`merge` over the remote refs (driver `mergeAll`, compared with the implementation).
-/
namespace GitBugModel.Props.C02
open GitBugModel.Dag

variable (s : Store) (rid : String) (lh : Option String) (rh : String) (ce cc : Nat) (nh mp au : String)

theorem maxOf_ge (l : List Nat) : ∀ x ∈ l, x ≤ maxOf l := by
  unfold maxOf
  suffices ∀ (init : Nat) (x : Nat), (x ∈ l ∨ x ≤ init) → x ≤ l.foldl max init by
    intro x hx; exact this 0 x (Or.inl hx)
  induction l with
  | nil => intro init x h; cases h with
    | inl h => cases h
    | inr h => exact h
  | cons a t ih =>
    intro init x h
    simp only [List.foldl_cons]
    apply ih
    cases h with
    | inl h =>
      cases h with
      | head => right; exact Nat.le_max_right _ _
      | tail _ h => left; exact h
    | inr h => right; exact Nat.le_trans h (Nat.le_max_left _ _)

/-! ## scenario 5 -/

/-- `merge_diverged`: both sides have commits the other lacks: a merge commit with parents
(local, remote) is written at an edit time strictly above the clock and above every edit time
of the local side (the remote side's were witnessed into the clock before), so every edge into
it strictly increases; the local ref moves to it; the entity handed back with `updated` is the
one read at the new head. -/
theorem mergeDiverged_spec (l : String) (le : Entity) (hl : Dag.read s l = .ok le) :
    ∃ e, ce < e ∧ (∀ p ∈ le.packs, p.edit < e) ∧
      (mergeDiverged s l rh ce cc nh mp au).mergeCommit = some ([l, rh], e) ∧
      (mergeDiverged s l rh ce cc nh mp au).localHead = some nh ∧
      (mergeDiverged s l rh ce cc nh mp au).clockEdit = e ∧
      ((mergeDiverged s l rh ce cc nh mp au).status = .updated ∨ (mergeDiverged s l rh ce cc nh mp au).status = .error) ∧
      ((mergeDiverged s l rh ce cc nh mp au).status = .updated →
        ∃ me, Dag.read (s ++ [mkMergeCommit nh l rh mp au e]) nh = .ok me ∧
          (mergeDiverged s l rh ce cc nh mp au).entityOps = me.ops) := by
  refine ⟨max ce (maxOf (le.packs.map (·.edit))) + 1, by omega, ?_, ?_⟩
  · intro p hp
    have := maxOf_ge (le.packs.map (·.edit)) p.edit (List.mem_map.mpr ⟨p, hp, rfl⟩)
    omega
  · unfold mergeDiverged
    simp only [hl]
    split
    · refine ⟨rfl, rfl, rfl, Or.inr rfl, ?_⟩
      intro h; cases h
    · rename_i me hme
      exact ⟨rfl, rfl, rfl, Or.inl rfl, fun _ => ⟨me, hme, rfl⟩⟩

theorem mergeDiverged_local_unreadable (l : String) (e : Err) (hl : Dag.read s l = .error e) :
    (mergeDiverged s l rh ce cc nh mp au).status = .error ∧
    (mergeDiverged s l rh ce cc nh mp au).localHead = some l ∧
    (mergeDiverged s l rh ce cc nh mp au).mergeCommit = none := by
  unfold mergeDiverged; simp [hl]

/-! ## scenarios 2–4 -/

variable (re : Entity) (l : String)

/-- local equal or ahead: nothing changes -/
theorem mergeExisting_nothing (hc : l = rh ∨ rh ∈ reach s l) :
    (mergeExisting s re l rh ce cc nh mp au).status = .nothing ∧
    (mergeExisting s re l rh ce cc nh mp au).localHead = some l ∧
    (mergeExisting s re l rh ce cc nh mp au).mergeCommit = none := by
  unfold mergeExisting
  by_cases heq : l = rh
  · simp [heq]
  · have hc' : rh ∈ reach s l := by
      cases hc with
      | inl h1 => exact absurd h1 heq
      | inr h2 => exact h2
    simp [heq, hc']

/-- `merge_fastforward`: remote ahead of local: the local ref moves to the remote head, reported
updated, handing back the remote entity (which is what the new head reads as). -/
theorem mergeExisting_fastforward (hne : l ≠ rh) (h3 : rh ∉ reach s l) (h4 : l ∈ reach s rh) :
    (mergeExisting s re l rh ce cc nh mp au).status = .updated ∧
    (mergeExisting s re l rh ce cc nh mp au).localHead = some rh ∧
    (mergeExisting s re l rh ce cc nh mp au).entityOps = re.ops ∧
    (mergeExisting s re l rh ce cc nh mp au).mergeCommit = none := by
  unfold mergeExisting
  simp [hne, h3, h4]

theorem mergeExisting_diverged (hne : l ≠ rh) (h3 : rh ∉ reach s l) (h4 : l ∉ reach s rh)
    (hrel : ∃ x, x ∈ reach s l ∧ x ∈ reach s rh) :
    mergeExisting s re l rh ce cc nh mp au = mergeDiverged s l rh ce cc nh mp au := by
  unfold mergeExisting
  obtain ⟨x, hx1, hx2⟩ := hrel
  have hnot : ¬ ∀ y, y ∈ reach s l → ¬ y ∈ reach s rh := fun hall => hall x hx1 hx2
  simp [hne, h3, h4, hnot]

/-- a remote history that shares no commit with the local one is refused; the local entity is
left alone (joining them would give an entity with two roots) -/
theorem mergeExisting_unrelated (hne : l ≠ rh) (h3 : rh ∉ reach s l) (h4 : l ∉ reach s rh)
    (hun : ∀ x ∈ reach s l, x ∉ reach s rh) :
    (mergeExisting s re l rh ce cc nh mp au).status = .invalid ∧
    (mergeExisting s re l rh ce cc nh mp au).localHead = some l ∧
    (mergeExisting s re l rh ce cc nh mp au).mergeCommit = none := by
  unfold mergeExisting
  have hany : (reach s l).any (fun h => (reach s rh).contains h) = false := by
    rw [List.any_eq_false]; intro x hx; simpa using hun x hx
  have h1 : (l == rh) = false := by simpa using hne
  have h2 : (reach s l).contains rh = false := by simpa using h3
  have h5 : (reach s rh).contains l = false := by simpa using h4
  rw [h1, h2, h5, hany]
  simp

/-- `merge_status_sound`: `nothing` is reported exactly when the local head is the remote head or
already contains it (for a valid remote and an existing local entity). -/
theorem mergeExisting_nothing_iff (hl : ∃ le, Dag.read s l = .ok le) :
    (mergeExisting s re l rh ce cc nh mp au).status = .nothing ↔ (l = rh ∨ rh ∈ reach s l) := by
  constructor
  · intro h
    by_cases heq : l = rh
    · exact Or.inl heq
    · by_cases h3 : rh ∈ reach s l
      · exact Or.inr h3
      · exfalso
        by_cases h4 : l ∈ reach s rh
        · have := (mergeExisting_fastforward s rh ce cc nh mp au re l heq h3 h4).1
          rw [this] at h; cases h
        · by_cases hrel : ∃ x, x ∈ reach s l ∧ x ∈ reach s rh
          · rw [mergeExisting_diverged s rh ce cc nh mp au re l heq h3 h4 hrel] at h
            obtain ⟨le, hle⟩ := hl
            obtain ⟨e, _, _, _, _, _, hst, _⟩ := mergeDiverged_spec s rh ce cc nh mp au l le hle
            rw [h] at hst
            cases hst with
            | inl h1 => cases h1
            | inr h1 => cases h1
          · have hun : ∀ x ∈ reach s l, x ∉ reach s rh := fun x hx hx2 => hrel ⟨x, hx, hx2⟩
            have := (mergeExisting_unrelated s rh ce cc nh mp au re l heq h3 h4 hun).1
            rw [this] at h; cases h
  · intro h; exact (mergeExisting_nothing s rh ce cc nh mp au re l h).1

theorem mergeExisting_clock_monotone : ce ≤ (mergeExisting s re l rh ce cc nh mp au).clockEdit := by
  unfold mergeExisting
  split
  · simp
  · split
    · simp
    · split
      · simp
      · split
        · simp
        · unfold mergeDiverged
          split
          · simp
          · simp only; split <;> (simp; omega)

/-! ## the whole merge -/

/-- `invalid_is_inert`: an unreadable or invalid remote version is reported invalid, the local
ref is left exactly as it was and no merge commit is written. -/
theorem merge_unreadable_remote (e : Err) (h : Dag.read s rh = .error e) :
    (merge s rid lh rh ce cc nh mp au).status = .invalid ∧ (merge s rid lh rh ce cc nh mp au).localHead = lh ∧
    (merge s rid lh rh ce cc nh mp au).mergeCommit = none := by
  unfold merge; simp [h]

theorem merge_invalid_entity (h : Dag.read s rh = .ok re) (hv : entityValid re.ops = false) :
    (merge s rid lh rh ce cc nh mp au).status = .invalid ∧ (merge s rid lh rh ce cc nh mp au).localHead = lh ∧
    (merge s rid lh rh ce cc nh mp au).mergeCommit = none := by
  unfold merge; simp [h, hv]

/-- `merge_new`: a valid remote entity that does not exist locally is created at the remote
head, reported new, and the entity handed back is the one read at that head. -/
theorem merge_new (h : Dag.read s rh = .ok re) (hv : entityValid re.ops = true)
    (hid : re.ops.head?.map (·.id) = some rid) :
    (merge s rid none rh ce cc nh mp au).status = .new ∧
    (merge s rid none rh ce cc nh mp au).localHead = some rh ∧
    (merge s rid none rh ce cc nh mp au).entityOps = re.ops := by
  unfold merge; simp [h, hv, hid]

/-- `ref_id_mismatch_rejected`: a remote ref whose name is not the id of the entity found there
(the id of its first operation) is reported invalid and nothing local changes -/
theorem merge_ref_id_mismatch (h : Dag.read s rh = .ok re) (hid : re.ops.head?.map (·.id) ≠ some rid) :
    (merge s rid lh rh ce cc nh mp au).status = .invalid ∧ (merge s rid lh rh ce cc nh mp au).localHead = lh ∧
    (merge s rid lh rh ce cc nh mp au).mergeCommit = none := by
  unfold merge
  by_cases hv : entityValid re.ops = true
  · simp [h, hv, hid]
  · have : entityValid re.ops = false := by simpa using hv
    simp [h, this]

/-- does the head a merge left the local ref at reach `y` (in the store extended by the merge
commit when one was written)? -/
def headReaches (s : Store) (out : MergeOut) (nh l rh mp au : String) (y : String) : Prop :=
  match out.localHead, out.mergeCommit with
  | some h', none => Reach s h' y
  | some h', some (_, e) => Reach (s ++ [mkMergeCommit nh l rh mp au e]) h' y
  | none, _ => False

theorem mergeDiverged_reaches (hfresh : lookup s nh = none) (y : String) (hy : Reach s l y ∨ Reach s rh y)
    (hst : (mergeDiverged s l rh ce cc nh mp au).status ≠ .error ∨ Reach s l y) :
    headReaches s (mergeDiverged s l rh ce cc nh mp au) nh l rh mp au y := by
  unfold mergeDiverged at hst ⊢
  cases hr : Dag.read s l with
  | error e =>
    simp only [hr] at hst ⊢
    rcases hst with h | h
    · exact absurd rfl h
    · exact h
  | ok le =>
    simp only [hr]
    have key : Reach (s ++ [mkMergeCommit nh l rh mp au (max ce (maxOf (le.packs.map (·.edit))) + 1)]) nh y :=
      (Dag.merge_reach_diverged s l rh nh mp au _ hfresh y).mpr (Or.inr hy)
    cases hr2 : Dag.read (s ++ [mkMergeCommit nh l rh mp au (max ce (maxOf (le.packs.map (·.edit))) + 1)]) nh with
    | error e => simp only [headReaches]; exact key
    | ok me => simp only [headReaches]; exact key

/-- `merge_never_loses`: whatever scenario applies, the head the local ref is left at reaches
everything the old local head reached (in the store extended by the merge commit when one was
written): no commit, hence no operation, of the local side is lost by a merge. -/
theorem mergeExisting_keeps_local {o2 : List Commit}
    (hbr : bfs s (s.length + 1) [rh] [rh] [] = .ok o2)
    (hfresh : lookup s nh = none) (y : String) (hy : Reach s l y) :
    headReaches s (mergeExisting s re l rh ce cc nh mp au) nh l rh mp au y := by
  unfold mergeExisting
  by_cases h1 : (l == rh) = true
  · simp only [h1, if_true, headReaches]; exact hy
  · by_cases h2 : (reach s l).contains rh = true
    · simp only [h1, h2, if_true, Bool.false_eq_true, if_false, headReaches]; exact hy
    · by_cases h3 : (reach s rh).contains l = true
      · simp only [h1, h2, h3, if_true, Bool.false_eq_true, if_false, headReaches]
        have : l ∈ reach s rh := by simpa using h3
        exact Reach.trans ((mem_reach_iff hbr l).mp this) hy
      · by_cases h4 : (!(reach s l).any (fun h => (reach s rh).contains h)) = true
        · simp only [h1, h2, h3, h4, if_true, Bool.false_eq_true, if_false, headReaches]; exact hy
        · simp only [h1, h2, h3, h4, Bool.false_eq_true, if_false]
          exact mergeDiverged_reaches s rh ce cc nh mp au l hfresh y (Or.inl hy) (Or.inr hy)

/-- … and it reaches everything the remote head reached whenever the merge reports `updated` or
`nothing` (the remote's commits are all there afterwards) -/
theorem mergeExisting_gets_remote {o1 : List Commit}
    (hbl : bfs s (s.length + 1) [l] [l] [] = .ok o1)
    (hfresh : lookup s nh = none) (y : String) (hy : Reach s rh y)
    (hst : (mergeExisting s re l rh ce cc nh mp au).status = .updated ∨ (mergeExisting s re l rh ce cc nh mp au).status = .nothing) :
    headReaches s (mergeExisting s re l rh ce cc nh mp au) nh l rh mp au y := by
  unfold mergeExisting at hst ⊢
  by_cases h1 : (l == rh) = true
  · simp only [h1, if_true, headReaches]
    have : l = rh := by simpa using h1
    rw [this]; exact hy
  · by_cases h2 : (reach s l).contains rh = true
    · simp only [h1, h2, if_true, Bool.false_eq_true, if_false, headReaches]
      have : rh ∈ reach s l := by simpa using h2
      exact Reach.trans ((mem_reach_iff hbl rh).mp this) hy
    · by_cases h3 : (reach s rh).contains l = true
      · simp only [h1, h2, h3, if_true, Bool.false_eq_true, if_false, headReaches]; exact hy
      · by_cases h4 : (!(reach s l).any (fun h => (reach s rh).contains h)) = true
        · simp only [h1, h2, h3, h4, if_true, Bool.false_eq_true, if_false] at hst
          rcases hst with h | h <;> cases h
        · simp only [h1, h2, h3, h4, Bool.false_eq_true, if_false] at hst ⊢
          apply mergeDiverged_reaches s rh ce cc nh mp au l hfresh y (Or.inr hy)
          left
          rcases hst with h | h <;> (rw [h]; intro hc; cases hc)

/-- with a valid remote and an existing local entity, `merge` is `mergeExisting` after the
remote's clocks have been witnessed -/
theorem merge_existing (h : Dag.read s rh = .ok re) (hv : entityValid re.ops = true)
    (hid : re.ops.head?.map (·.id) = some rid) :
    merge s rid (some l) rh ce cc nh mp au =
      mergeExisting s re l rh (max ce (maxOf (re.packs.map (·.edit)))) (max cc (maxOf (re.packs.map (·.create)))) nh mp au := by
  unfold merge; simp [h, hv, hid]

/-- In scenario 5 the merge commit's edit time also exceeds every edit time of the remote side. -/
theorem merge_commit_dominates_remote (h : Dag.read s rh = .ok re) (hv : entityValid re.ops = true)
    (hid : re.ops.head?.map (·.id) = some rid)
    (hne : l ≠ rh) (h3 : rh ∉ reach s l) (h4 : l ∉ reach s rh) (hrel : ∃ x, x ∈ reach s l ∧ x ∈ reach s rh)
    (le : Entity) (hl : Dag.read s l = .ok le) :
    ∃ e, (merge s rid (some l) rh ce cc nh mp au).mergeCommit = some ([l, rh], e) ∧
      (∀ p ∈ re.packs, p.edit < e) ∧ (∀ p ∈ le.packs, p.edit < e) ∧ ce < e := by
  rw [merge_existing s rid rh ce cc nh mp au re l h hv hid, mergeExisting_diverged _ _ _ _ _ _ _ _ _ hne h3 h4 hrel]
  obtain ⟨e, h1, h2, h5, _⟩ := mergeDiverged_spec s rh (max ce (maxOf (re.packs.map (·.edit))))
    (max cc (maxOf (re.packs.map (·.create)))) nh mp au l le hl
  refine ⟨e, h5, ?_, h2, by omega⟩
  intro p hp
  have := maxOf_ge (re.packs.map (·.edit)) p.edit (List.mem_map.mpr ⟨p, hp, rfl⟩)
  omega

/-! ## a pull never breaks an entity: the merged head is readable -/

/-- every commit a successful read reached has its pack among the packs of the entity -/
theorem read_packs_complete {s : Store} {h : String} {e : Entity} (hr : Dag.read s h = .ok e)
    {x : String} {c : Commit} {p : Pack} (hx : Reach s h x) (hl : lookup s x = some c) (hp : c.pack = .ok p) :
    p ∈ e.packs := by
  obtain ⟨order, m, hb, wf, hpacks, _, _⟩ := GitBugModel.Props.C03.read_wellformed hr
  obtain ⟨spec1, spec2⟩ := bfs_spec hb
  obtain ⟨c', hc', hh⟩ := spec2 x hx
  have hcl := (spec1 c' hc').1
  rw [hh, hl] at hcl
  injection hcl with hcl
  subst hcl
  obtain ⟨p', hp', _⟩ := wf.edges c hc'
  obtain ⟨y, hy, hy1, hy2⟩ := packOf_mem hp'
  obtain ⟨c2, hc2, h1, h2⟩ := wf.packs y hy
  have : c2 = c := by
    have a := (spec1 c2 hc2).1
    have b := (spec1 c hc').1
    rw [← h1, hy1, b] at a
    injection a with a
    exact a.symm
  subst this
  rw [hp] at h2
  injection h2 with h2
  rw [hpacks]
  exact List.mem_map.mpr ⟨y, hy, h2.symm⟩

/-- `read_iff_readable` (re-stated here; proved in `Lemmas/Readable.lean`): `Dag.read` accepts the
history below a head exactly when it is `Readable` — a statement on the store alone: every reachable
commit stored and decoding to a valid pack, merge commits empty, edit times strictly increasing
along every edge with the hop limit on non-merge commits, one root with a creation time, some
operation.  Both directions, any store. -/
theorem read_iff_readable (s : Store) (h : String) : (∃ e, Dag.read s h = .ok e) ↔ Readable s h :=
  GitBugModel.Dag.read_iff_readable s h

/-- `merge_readable` (scenario 5): when the local and the remote history are both readable and
share a commit, the merge commit `mergeDiverged` writes (a hash not yet in the store) is readable:
the status is `updated`, never `error`.  For every store, every shape and length of the two
histories.  `hce`: the remote side's edit times were witnessed into the clock (what `merge` does
before). -/
theorem merge_readable {s : Store} {l rh : String} {ce cc : Nat} {nh mp au : String} {le re : Entity}
    (hl : Dag.read s l = .ok le) (hr : Dag.read s rh = .ok re) (hfresh : lookup s nh = none)
    (hshare : ∃ z, Reach s l z ∧ Reach s rh z) (hce : maxOf (re.packs.map (·.edit)) ≤ ce) :
    (mergeDiverged s l rh ce cc nh mp au).status = .updated ∧
    ∃ me, Dag.read (s ++ [mkMergeCommit nh l rh mp au (max ce (maxOf (le.packs.map (·.edit))) + 1)]) nh = .ok me := by
  have Rl := read_readable hl
  have Rr := read_readable hr
  have R := readable_merge (mp := mp) (au := au) (e := max ce (maxOf (le.packs.map (·.edit))) + 1) Rl Rr hfresh hshare (by
    intro x c p hx hlx hp
    rcases hx with hx | hx
    · have := maxOf_ge (le.packs.map (·.edit)) p.edit (List.mem_map.mpr ⟨p, read_packs_complete hl hx hlx hp, rfl⟩)
      omega
    · have := maxOf_ge (re.packs.map (·.edit)) p.edit (List.mem_map.mpr ⟨p, read_packs_complete hr hx hlx hp, rfl⟩)
      omega)
  obtain ⟨me, hme⟩ := readable_read R
  refine ⟨?_, me, hme⟩
  unfold mergeDiverged
  simp only [hl, hme]

/-- `pull_keeps_readable`: whatever `merge` decides for an entity that is readable locally, the
head the local ref is left at is readable in the store as the merge leaves it (the old store, or
the old store plus the merge commit) — a pull never breaks an entity.  Unbounded. -/
theorem pull_keeps_readable {s : Store} {rid l rh : String} {ce cc : Nat} {nh mp au : String} {le : Entity}
    (hl : Dag.read s l = .ok le) (hfresh : lookup s nh = none) :
    let out := merge s rid (some l) rh ce cc nh mp au
    ∃ h e, out.localHead = some h ∧
      Dag.read (match out.mergeCommit with
                | some (_, t) => s ++ [mkMergeCommit nh l rh mp au t]
                | none => s) h = .ok e := by
  intro out
  show ∃ h e, (merge s rid (some l) rh ce cc nh mp au).localHead = some h ∧
      Dag.read (match (merge s rid (some l) rh ce cc nh mp au).mergeCommit with
                | some (_, t) => s ++ [mkMergeCommit nh l rh mp au t]
                | none => s) h = .ok e
  unfold merge
  cases hr : Dag.read s rh with
  | error er => exact ⟨l, le, by simp, by simpa using hl⟩
  | ok re =>
    simp only
    by_cases hv : entityValid re.ops = true
    · by_cases hid : re.ops.head?.map (·.id) = some rid
      · simp only [hv, hid, Bool.not_true, Bool.false_eq_true, ↓reduceIte, bne_self_eq_false]
        unfold mergeExisting
        by_cases h1 : (l == rh) = true
        · simp only [h1, ↓reduceIte]
          exact ⟨l, le, rfl, hl⟩
        · simp only [h1, Bool.false_eq_true, ↓reduceIte]
          by_cases h2 : (reach s l).contains rh = true
          · simp only [h2, ↓reduceIte]
            exact ⟨l, le, rfl, hl⟩
          · simp only [h2, Bool.false_eq_true, ↓reduceIte]
            by_cases h3 : (reach s rh).contains l = true
            · simp only [h3, ↓reduceIte]
              exact ⟨rh, re, rfl, hr⟩
            · simp only [h3, Bool.false_eq_true, ↓reduceIte]
              by_cases h4 : (!(reach s l).any fun h => (reach s rh).contains h) = true
              · simp only [h4, ↓reduceIte]
                exact ⟨l, le, rfl, hl⟩
              · simp only [h4, Bool.false_eq_true, ↓reduceIte]
                -- scenario 5
                have hshare : ∃ z, Reach s l z ∧ Reach s rh z := by
                  have hex : ∃ z, z ∈ reach s l ∧ z ∈ reach s rh := by simpa using h4
                  obtain ⟨z, hz1, hz2⟩ := hex
                  obtain ⟨o1, m1, hb1, _⟩ := GitBugModel.Props.C03.read_wellformed hl
                  obtain ⟨o2, m2, hb2, _⟩ := GitBugModel.Props.C03.read_wellformed hr
                  exact ⟨z, (mem_reach_iff hb1 z).mp hz1, (mem_reach_iff hb2 z).mp hz2⟩
                obtain ⟨hst, me, hme⟩ := merge_readable (ce := max ce (maxOf (re.packs.map (·.edit))))
                  (cc := max cc (maxOf (re.packs.map (·.create)))) (mp := mp) (au := au) hl hr hfresh hshare (Nat.le_max_right _ _)
                refine ⟨nh, me, ?_, ?_⟩
                · unfold mergeDiverged; simp only [hl, hme]
                · unfold mergeDiverged; simp only [hl, hme]
      · simp only [hv, hid, Bool.not_true, Bool.false_eq_true, ↓reduceIte, bne_iff_ne, ne_eq, not_false_eq_true]
        exact ⟨l, le, by simp [hid], by simpa [hid] using hl⟩
    · have hv' : entityValid re.ops = false := by simpa using hv
      simp only [hv', Bool.not_false, ↓reduceIte]
      exact ⟨l, le, rfl, hl⟩

/-- the local ref only ever becomes: itself, the remote head, or the merge commit -/
theorem merge_frame :
    (merge s rid lh rh ce cc nh mp au).localHead = lh ∨ (merge s rid lh rh ce cc nh mp au).localHead = some rh ∨
    (merge s rid lh rh ce cc nh mp au).localHead = some nh := by
  unfold merge
  split
  · simp
  · simp only
    split
    · simp
    · split
      · simp
      · split
        · simp
        · unfold mergeExisting
          split
          · simp
          · split
            · simp
            · split
              · simp
              · split
                · simp
                · unfold mergeDiverged
                  split
                  · simp
                  · simp only; split <;> simp

/-- clocks never decrease through a merge -/
theorem merge_clock_monotone : ce ≤ (merge s rid lh rh ce cc nh mp au).clockEdit := by
  unfold merge
  split
  · simp
  · simp only
    split
    · simp; omega
    · split
      · simp; omega
      · split
        · simp; omega
        · unfold mergeExisting
          split
          · simp; omega
          · split
            · simp; omega
            · split
              · simp; omega
              · split
                · simp; omega
                · unfold mergeDiverged
                  split
                  · simp; omega
                  · simp only; split <;> (simp; omega)

/-! ## regenerated obligation: the scenario tests of `dag.merge` in the source -/

theorem gen_merge_comparisons :
    GitBugModel.Gen.Dag.mergeComparisons = some ["remoteEntity.Id() != id", "localCommit == remoteCommit", "hash == remoteCommit", "hash == localCommit"] := by
  decide

/-! ## non-vacuity: a diverged pair (1 local commit vs 2 remote commits since the fork) -/

private def pk (id : String) (ops : List (String × Nat)) (c e : Nat) : Except Err Pack :=
  .ok { id := id, author := "a", ops := ops.map (fun o => { id := o.1, kind := o.2 }), create := c, edit := e }
private def demo : Store := [
  { hash := "R", parents := [], pack := pk "p0" [("create", 1)] 1 1 },
  { hash := "A1", parents := ["R"], pack := pk "pa1" [("a1", 3)] 0 2 },
  { hash := "B1", parents := ["R"], pack := pk "pb1" [("b1", 3)] 0 2 },
  { hash := "B2", parents := ["B1"], pack := pk "pb2" [("b2", 3)] 0 3 }]

example : (let m := merge demo "create" (some "A1") "B2" 2 1 "M" "pm" "a"
    (m.status == .updated, m.localHead, m.mergeCommit, m.entityOps.map (·.id), m.clockEdit))
    = (true, some "M", some (["A1", "B2"], 4), ["create", "a1", "b1", "b2"], 4) := by decide
example : (merge demo "create" (some "B2") "B1" 3 1 "M" "pm" "a").status = .nothing := by decide
example : (merge demo "create" (some "B1") "B2" 3 1 "M" "pm" "a").localHead = some "B2" := by decide
example : (merge demo "other-id" (some "B1") "B2" 3 1 "M" "pm" "a").status = .invalid := by decide

end GitBugModel.Props.C02
